"""C16: dialect selection. Harness cases (lua_version(), construct matrix against the parser) plus
CLI cases: built-in names, generated base chains on disk and `+` chains, one construct per file."""
import os
import random
import shutil

import yaml

from . import cli, core
from .runner import Prop, generate as _unused  # noqa: F401

OFFSET = 1000000
CONSTRUCTS = {
    "CGoto": ["goto done\n::done::\n"],
    "CIntDiv": ["local x = 7 // 2\nprint(x)\n"],
    "CBitAndOr": ["local x = 5 & 3\nprint(x)\n", "local x = 5 | 3\nprint(x)\n"],
    "CBitOther": ["local x = 1 << 2\nprint(x)\n", "local x = ~5\nprint(x)\n"],
    "CAttrib": ["local x <const> = 1\nprint(x)\n"],
    "CLuauSyntax": ["local x: number = 1\nprint(x)\n", "local x = 1 x += 1\n", "for i = 1, 2 do continue end\n"],
    "CBinLit": ["local x = 0b101\nprint(x)\n"],
    "CJitLit": ["local x = 1LL\nprint(x)\n"],
    "CHexFloat": ["local x = 0x1p4\nprint(x)\n"],
    "CEmptyStmt": ["local x = 1;;\nprint(x)\n"],
}
VNAMES = ["lua51", "lua52", "lua53", "lua54", "luau", "luajit"]
GAL = {"lua51": "Lua51", "lua52": "Lua52", "lua53": "Lua53", "lua54": "Lua54", "luau": "Luau", "luajit": "LuaJIT"}


def builtin_chain(name):
    """[(versions)] of the shipped library `name`, most derived first, read from /repo's YAML."""
    files = {"roblox": "roblox_base"}
    out = []
    while name:
        doc = yaml.safe_load(open(os.path.join(core.REPO, "selene-lib/default_std", files.get(name, name) + ".yml")))
        out.append(list(doc.get("lua_versions") or []))
        name = doc.get("base")
    return out


def gversions(vs):
    return cli.glist(GAL.get(v, "(VUnknown %s)" % cli.gstr(v)) for v in vs)


class C16(Prop):
    id = "C16"
    coq_targets = ["Properties/C16.vo", "Corr/C16.vo"]
    props_file = "Properties/C16.v"
    harness_cmd = None
    needs_bin = True
    n = {"quick": 300, "thorough": 3000}
    search_seeds = 2
    search_n = 400
    bits = {4: "a construct is accepted/rejected against the declared dialects (or the parser crashed) outside the known classes D1/D2",
            8: "lua_version() is not the union of the declared versions / unknown names not reported"}
    classes = {"D1": 1, "D2": 2}
    rule = ("harness: the full matrix 64 version subsets x 10 constructs x all samples through full_moon::parse_fallible with "
            "StandardLibrary::lua_version(), plus generated version lists (duplicates, unknown names); CLI: every built-in "
            "std name, generated yml base chains (<=3 files + optional built-in tail) and `+` chains x construct files; "
            "non-trivial = more than one declared version or a chain; distinct = distinct case descriptions")
    trusted_base = [
        "modelled: full_moon LuaVersion bit field, LuaVersion::to_lua_version, StandardLibrary::lua_version (Std/Versions.v)",
        "the construct table `enabling` is validated against full_moon::parse_fallible on every run (exhaustive over the 64 version subsets)",
        "Generated/BuiltinHeads.v regenerated from names!{} and default_std/*.yml by vlib/translate.py",
        "not modelled: the parser itself (black box, sampled), YAML loading of the std files",
    ]
    assumptions = ["a panic of the parser worker is visible as 'panicked' on stderr"]

    def __init__(self):
        from . import translate
        self.translators = [translate.builtin_heads]

    def generate(self, wd, seed, n, tier, only):
        # harness part
        cmd = [core.HARNESS_BIN, "c16", "--seed", str(seed), "--n", str(n), "--shards", "16", "--out", wd]
        if only is not None:
            cmd += ["--only", str(only)]
        rc, out = core.sh(cmd, timeout=3000)
        if rc != 0:
            return False, out
        # CLI part
        rnd = random.Random(seed)
        proj = os.path.join(wd, "proj")
        items = []
        ncli = max(300, n // 2)
        for i in range(ncli):
            pd = os.path.join(proj, str(i))
            os.makedirs(pd, exist_ok=True)
            mode = rnd.choice(["builtin", "builtin", "chain", "chain", "plus"])
            if i < 5:
                mode = "builtin"
            chain = []
            if mode == "builtin":
                std = ["lua51", "lua52", "lua53", "luau", "roblox"][i % 5] if i < 5 else rnd.choice(["lua51", "lua52", "lua53", "luau"])
                chain = builtin_chain(std)
                if std == "roblox":
                    continue  # needs the generated Roblox library (network); roblox_base is covered by the proof
                if i >= 5 and rnd.randint(0, 3) == 0:
                    vs = rnd.choice([[], [rnd.choice(VNAMES)], [rnd.choice(VNAMES), rnd.choice(VNAMES)]])
                    open(os.path.join(pd, std + ".yml"), "w").write("---\n" + yaml.safe_dump(dict({"globals": {}}, **({"lua_versions": vs} if vs else {}))))
                    chain = [vs]
                    mode = "builtin-shadowed"
            else:
                def mkchain(prefix):
                    names = [prefix + str(j) for j in range(rnd.randint(1, 3))]
                    tail = rnd.choice([None, None, "lua51", "lua52", "lua53", "luau"])
                    ch = []
                    # a quarter of the chains end in a file that only selects a dialect, under files that select none
                    dialect_only_tail = len(names) > 1 and rnd.randint(0, 3) == 0
                    for j, nm in enumerate(names):
                        vs = rnd.choice([[], [], [rnd.choice(VNAMES)], [rnd.choice(VNAMES), rnd.choice(VNAMES)], ["lua51"],
                                         [rnd.choice(VNAMES), "lua99"], ["lua55", rnd.choice(VNAMES)]])
                        if dialect_only_tail:
                            vs = [rnd.choice(VNAMES)] if j == len(names) - 1 else []
                        base = names[j + 1] if j + 1 < len(names) else tail
                        # a third of the files define no global at all (a library that only selects a dialect)
                        g = rnd.randint(0, 5)
                        if dialect_only_tail:
                            g = 0 if j == len(names) - 1 else 5
                        doc = {} if g == 0 else ({"globals": {}} if g == 1 else {"globals": {"print": {"args": [{"type": "..."}]}}})
                        if vs:
                            doc["lua_versions"] = vs
                        if base:
                            doc["base"] = base
                        open(os.path.join(pd, nm + ".yml"), "w").write("---\n" + yaml.safe_dump(doc))
                        ch.append(vs)
                    if tail and rnd.randint(0, 1) == 0 and not os.path.exists(os.path.join(pd, tail + ".yml")):
                        # a project file named like a built-in library: names resolve to the project's file first, for bases too
                        vs = rnd.choice([[], [rnd.choice(VNAMES)], [rnd.choice(VNAMES), rnd.choice(VNAMES)]])
                        doc = {"globals": {"print": {"args": [{"type": "..."}]}}}
                        if vs:
                            doc["lua_versions"] = vs
                        open(os.path.join(pd, tail + ".yml"), "w").write("---\n" + yaml.safe_dump(doc))
                        ch.append(vs)
                    elif tail and os.path.exists(os.path.join(pd, tail + ".yml")):
                        ch.append(list(yaml.safe_load(open(os.path.join(pd, tail + ".yml"))).get("lua_versions") or []))
                    elif tail:
                        ch += builtin_chain(tail)
                    return names[0], ch
                if mode == "chain":
                    std, chain = mkchain("a")
                elif rnd.randint(0, 2) == 0:
                    # a later `+` segment that only selects a dialect (no globals), after segments that select none
                    open(os.path.join(pd, "g0.yml"), "w").write("---\n" + yaml.safe_dump({"globals": {"print": {"args": [{"type": "..."}]}}}))
                    v = rnd.choice(VNAMES)
                    open(os.path.join(pd, "d0.yml"), "w").write("---\n" + yaml.safe_dump({"lua_versions": [v]}))
                    std, chain = "g0+d0", [[], [v]]
                else:
                    s1, c1 = mkchain("a")
                    s2, c2 = mkchain("b")
                    std, chain = s1 + "+" + s2, c1 + c2
            cname = rnd.choice(sorted(CONSTRUCTS))
            src = rnd.choice(CONSTRUCTS[cname])
            open(os.path.join(pd, "selene.toml"), "w").write('std = "%s"\n' % std)
            # the dialect comes from the library, not from the file's extension
            fname = "t.luau" if rnd.randint(0, 3) == 0 else "t.lua"
            open(os.path.join(pd, fname), "w").write(src)
            idx = OFFSET + len(items)
            if only is not None and only != idx:
                items.append(("", {}))
                continue
            rc, out, err = cli.run_selene(pd, ["--display-style", "json2", "--num-threads", "1", fname])
            diags, summ, junk = cli.parse_output(out, "json2")
            if "panicked" in err:
                res = "PPanic"
            elif any(d["code"] == "parse_error" for d in diags):
                res = "PRejected"
            elif summ is not None:
                res = "PAccepted"
            else:
                res = "PPanic"  # no summary, no diagnostics: the run died (e.g. std not loadable)
            term = "CCli %s %s %s" % (cli.glist(gversions(vs) for vs in chain), cname, res)
            items.append((term, {"kind": "cli-" + mode, "std": std, "chain_versions": chain, "construct": cname, "file": fname,
                                 "source": src, "result": res, "exit": rc, "stderr": err[-300:],
                                 "nontrivial": len(chain) > 1}))
        cli.write_shards(wd, "C16", items, only=only, offset=OFFSET, first_shard=16)
        shutil.rmtree(proj, ignore_errors=True)
        return True, ""
