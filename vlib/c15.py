"""C15: StandardLibrary::extend. Harness cases (pairs, base chains, `+` folds through selene-lib) plus CLI cases:
libraries written to disk as yml files with `base:` chains and used through `std = "a+b+c"`, observed through which
names undefined_variable reports (selene/src/standard_library.rs: from_name, collect_standard_library)."""
import os
import random
import shutil

import yaml

from . import cli, core
from .runner import Prop

OFFSET = 1000000
NAMES = ["ga", "gb", "gc", "gd", "ge"]


def gfield(kind):
    return "{| f_kind := %s; f_deprecated := None |}" % ("FRemoved" if kind == "removed" else "FProperty ReadOnly")


def glib(entries):
    return "{| l_base := None; l_name := None; l_globals := %s; l_structs := []; l_versions := [] |}" % cli.glist(
        "([%s], %s)" % (cli.gstr(k), gfield(v)) for k, v in sorted(entries.items()))


class C15(Prop):
    id = "C15"
    coq_targets = ["Properties/C15.vo", "Corr/C15.vo"]
    props_file = "Properties/C15.v"
    harness_cmd = None
    needs_bin = True
    n = {"quick": 600, "thorough": 12000}
    bits = {4: "effective globals differ from 'derived overrides base, removed removes'",
            8: "lua_versions: the derived library's versions did not replace the base's"}
    rule = ("shipped chains (from_name vs fold of the raw YAML files) + generated pairs / base chains (len<=4) / "
            "`+` folds over keys {a,b,c,*}^<=3 with every field kind incl. removed, with/without lua_versions; "
            "CLI: 1-3 `+` segments, each a chain of 1-3 yml files on disk over five global names (defined, removed or absent in each "
            "file, files without globals included; one file of a project may be named like a built-in library; a two-file tail may be written `base: last+extra`; six runs name a library that does not exist and must be refused; struct-typed globals whose struct only the chain's last file defines), the set of names "
            "undefined_variable reports compared with the model's fold; "
            "non-trivial = the libraries share a key, or one marks a key removed, or both declare versions; "
            "distinct = distinct case descriptions")
    trusted_base = [
        "modelled: StandardLibrary::extend, from_builtin_name recursion, the CLI `+` fold and the on-disk `base:` recursion (Std/Extend.v)",
        "not modelled: YAML text layer; for the CLI cases undefined_variable is the observer of which globals exist",
        "BTreeMap = association list without duplicate keys (wf_lib evaluated on every dumped library)",
    ]
    assumptions = ["wf_lib (no duplicate keys) for every library; holds for any BTreeMap"]

    def extra(self, ctx):
        """a `+` segment (or a base) that names no library: the run must refuse the configuration, not drop the segment"""
        rnd = random.Random(ctx["seed"] + 15)
        wd = os.path.join(core.CACHE, "work", "C15-missing")
        shutil.rmtree(wd, ignore_errors=True)
        out = []
        for i in range(6 if ctx["tier"] == "quick" else 40):
            pd = os.path.join(wd, str(i))
            os.makedirs(pd, exist_ok=True)
            open(os.path.join(pd, "have.yml"), "w").write("---\nglobals:\n  ga:\n    property: read-only\n")
            std = rnd.choice(["have+nosuchlib", "nosuchlib+have", "lua51+nosuchlib", "have+lua51+nosuch2", "viabase"])
            open(os.path.join(pd, "viabase.yml"), "w").write("---\nbase: %s\nglobals: {}\n" % rnd.choice(["nosuchlib", "have+nosuchlib"]))
            open(os.path.join(pd, "selene.toml"), "w").write('std = "%s"\n' % std)
            open(os.path.join(pd, "t.lua"), "w").write("print(1)\n")
            rc, so, se = cli.run_selene(pd, ["--display-style", rnd.choice(["quiet", "json2"]), "t.lua"])
            if rc == 0:
                rp = os.path.join(core.VERIF, "replays", "C15-missing-%d-seed%d.json" % (i, ctx["seed"]))
                core.write_json(rp, {"property": "C15", "kind": "missing-segment", "std": std, "exit": rc, "stdout": so[-800:], "stderr": se[-800:],
                                     "viabase.yml": open(os.path.join(pd, "viabase.yml")).read()})
                out.append({"kind": "spec", "replay": rp, "found_input": True,
                            "text": "std = %r names a library that does not exist, and the run went ahead (exit 0) as if the segment were not there" % std})
        ctx["cov"]["missing_segment_runs"] = 6 if ctx["tier"] == "quick" else 40
        shutil.rmtree(wd, ignore_errors=True)
        return out

    def nontrivial(self, d):
        if d.get("kind") == "pair":
            return d.get("shared_keys", 0) > 0 or d.get("removed", 0) > 0 or d.get("both_versions")
        return True

    def generate(self, wd, seed, n, tier, only):
        cmd = [core.HARNESS_BIN, "c15", "--seed", str(seed), "--n", str(n), "--shards", "16", "--out", wd]
        if only is not None:
            cmd += ["--only", str(only)]
        rc, out = core.sh(cmd, timeout=3000)
        if rc != 0:
            return False, out
        rnd = random.Random(seed)
        proj = os.path.join(wd, "proj")
        items = []
        ncli = max(120, n // 20)
        for i in range(ncli):
            idx = OFFSET + i
            pd = os.path.join(proj, str(i))
            os.makedirs(pd, exist_ok=True)
            nseg = rnd.choice([1, 2, 2, 3])
            segs, names = [], []
            # one file of the project may be named like a built-in library: the project's file is what that name means
            builtin_at = (rnd.randrange(nseg), rnd.randrange(3), rnd.choice(["lua51", "lua52", "lua53", "luau"])) if rnd.randint(0, 2) == 0 else None

            def fname(sidx, j):
                return builtin_at[2] if builtin_at and builtin_at[:2] == (sidx, j) else "s%d_%d" % (sidx, j)
            for sidx in range(nseg):
                depth = rnd.choice([1, 1, 2, 3])
                chain = []
                extra_entries = None
                for j in range(depth):
                    nm = fname(sidx, j)
                    last_of_all = sidx == nseg - 1 and j == depth - 1
                    entries = {}
                    if rnd.randint(0, 5) > 0:            # a sixth of the files have no globals
                        for g in NAMES:
                            r = rnd.randint(0, 5)
                            if r == 0 and j + 1 < depth:
                                entries[g] = "struct"      # a global of a struct type that only the chain's last file defines
                            elif r <= 1:
                                entries[g] = "property"
                            elif r == 2 and not last_of_all:   # the innermost base never carries markers (they would be plain entries)
                                entries[g] = "removed"
                    doc = {}
                    if entries or rnd.randint(0, 1):
                        doc["globals"] = {k: ({"removed": True} if v == "removed" else ({"struct": "Shape"} if v == "struct" else {"property": "read-only"}))
                                          for k, v in entries.items()}
                    if j == depth - 1 and depth > 1:
                        doc["structs"] = {"Shape": {"w": {"property": "read-only"}, "h": {"property": "read-only"}}}
                    if j + 1 < depth:
                        doc["base"] = fname(sidx, j + 1)
                        if j + 2 == depth and rnd.randint(0, 2) == 0:
                            # the base is itself a `+` chain of two single files: last+extra (the derived file's removals apply to both)
                            extra_entries = {g: "property" for g in NAMES if rnd.randint(0, 2) == 0}
                            open(os.path.join(pd, "x%d.yml" % sidx), "w").write("---\n" + yaml.safe_dump(
                                {"globals": {k: {"property": "read-only"} for k in extra_entries}}))
                            doc["base"] = fname(sidx, j + 1) + "+x%d" % sidx
                    open(os.path.join(pd, nm + ".yml"), "w").write("---\n" + yaml.safe_dump(doc))
                    chain.append(entries)
                if extra_entries is not None:
                    chain.append(extra_entries)
                segs.append(chain)
                names.append(fname(sidx, 0))
            std = "+".join(names)
            open(os.path.join(pd, "selene.toml"), "w").write('std = "%s"\n' % std)
            open(os.path.join(pd, "t.lua"), "w").write("".join("local _%s = %s\n" % (g, g) for g in NAMES))
            if only is not None and only != idx:
                items.append(("", {}))
                continue
            rc, out, err = cli.run_selene(pd, ["--display-style", "json2", "--num-threads", "1", "t.lua"])
            diags, summ, junk = cli.parse_output(out, "json2")
            undefined = sorted(set(d["message"].split("`")[1] for d in diags if d["code"] == "undefined_variable" and "`" in d["message"]))
            ok = summ is not None and "panicked" not in err
            term = "CCliNames %s %s %s %s" % (
                cli.glist("(%s, %s)" % (glib(ch[0]), cli.glist(glib(e) for e in ch[1:])) for ch in segs),
                cli.glist(cli.gstr(g) for g in NAMES), cli.glist(cli.gstr(u) for u in undefined), cli.gbool(ok))
            items.append((term, {"kind": "cli-plus" if nseg > 1 else "cli-chain", "std": std, "segments": segs, "undefined": undefined,
                                 "exit": rc, "stderr": err[-300:], "nontrivial": True}))
        cli.write_shards(wd, "C15", items, only=only, offset=OFFSET, first_shard=16)
        shutil.rmtree(proj, ignore_errors=True)
        return True, ""
