"""C18: the real binary under --num-threads 1 vs N on generated file sets."""
import os
import random
import shutil

from . import cli, core
from .runner import Prop


def big_file(k, tag):
    return "".join("local %s_%d = %d\n" % (tag, i, i) for i in range(k))


class C18(Prop):
    id = "C18"
    coq_targets = ["Properties/C18.vo", "Corr/C18.vo"]
    props_file = "Properties/C18.v"
    harness_cmd = None
    needs_bin = True
    n = {"quick": 30, "thorough": 600}
    search_seeds = 1
    search_n = 60
    bits = {4: "the output is not a concatenation of the files' whole blocks (a diagnostic or a file's block was torn / lost / duplicated)",
            8: "the summary's totals are not the sums over the files",
            16: "exit status differs from the single-threaded run",
            32: "a worker panicked and the exit status is 0 (at 1 or at N threads)"}
    rule = ("file sets mixing clean, warning-only, erroring, unparsable, missing, tiny and large (hundreds to thousands of diagnostics, "
            ">8 KiB and >64 KiB of output) files; styles quiet and json2; --num-threads 2/3/8/16/64 against the --num-threads 1 run of the "
            "same set (some sets are clean files plus one whose check panics in the worker: the dead worker must show in the exit status); the per-file blocks are taken from the sequential run, the observed parallel output must parse into exactly those "
            "blocks; non-trivial = at least two files with diagnostics; distinct = distinct (file set, style, threads)")
    trusted_base = [
        "modelled: the worker protocol of read() - fetch_add of per-file counts, one stdout lock per parse-error diagnostic and one per file's lint diagnostics (Pipeline/Conc.v)",
        "trusted, only sampled: atomicity of AtomicUsize::fetch_add, mutual exclusion of Stdout::lock, threadpool (queueing, panic_count), the OS scheduler",
        "stderr (ERROR: lines for missing files) is written unlocked and is not part of the claim",
    ]
    assumptions = ["the sequential run's grouping of lines by file gives the blocks"]

    def generate(self, wd, seed, n, tier, only):
        rnd = random.Random(seed)
        proj = os.path.join(wd, "proj")
        os.makedirs(proj, exist_ok=True)
        files = {}
        for i in range(3):
            files["big%d.lua" % i] = big_file(rnd.choice([400, 1500, 2500]), "b%d" % i)
        for i in range(40):
            kind = rnd.randrange(6)
            if kind == 0:
                files["s%d.lua" % i] = "print(%d)\n" % i
            elif kind == 1:
                files["s%d.lua" % i] = "local v%d = 1\n" % i
            elif kind == 2:
                files["s%d.lua" % i] = "print(undefined_%d)\nlocal w%d = 2\n" % (i, i)
            elif kind == 3:
                files["s%d.lua" % i] = "local = %d\n" % i
            elif kind == 4:
                files["s%d.lua" % i] = big_file(rnd.randrange(20, 120), "m%d" % i)
            else:
                files["s%d.lua" % i] = "x = = %d\nlocal = 2\n" % i
        # a directory to be walked: warning-only files interleaved (alphabetically) with directories named *.lua, which the
        # walk lists and the workers then fail to read (EISDIR): errors counted from worker threads
        udir_files, udir_dirs = [], []
        for i in range(50):
            f = "udir/e%03d_w.lua" % i
            files[f] = "".join("local u%d_%d = %d\n" % (i, j, j) for j in range(12))
            udir_files.append(f)
            d = "udir/e%03d_x.lua" % i
            os.makedirs(os.path.join(proj, d), exist_ok=True)
            udir_dirs.append(d)
        for name, text in files.items():
            os.makedirs(os.path.dirname(os.path.join(proj, name)), exist_ok=True)
            open(os.path.join(proj, name), "w").write(text)
        names = sorted(f for f in files if not f.startswith("udir/"))
        outcomes = cli.harness_lint(proj, None, sorted(files))
        # a file whose check panics in the worker (a library field naming an undefined struct: finding T1 of C11): the pool
        # contains the panic whatever the number of threads, the other files are reported and the exit status is 1
        open(os.path.join(proj, "mystd.yml"), "w").write("---\nbase: lua51\nglobals:\n  widget:\n    struct: Widget\n")
        open(os.path.join(proj, "selene.toml"), "w").write('std = "mystd"\n')
        open(os.path.join(proj, "zpanic.lua"), "w").write("print(widget.frame.size)\n")
        items = []
        for i in range(n):
            k = rnd.choice([4, 8, 20, len(names)])
            chosen = rnd.sample(names, min(k, len(names)))
            if rnd.random() < 0.75:
                chosen += [b for b in names if b.startswith("big")][:rnd.choice([2, 3, 3])]
                rnd.shuffle(chosen)
            chosen = list(dict.fromkeys(chosen))     # a file listed twice gives two identical blocks: keep the blocks identifiable
            if rnd.random() < 0.2:
                chosen.append("missing_%d.lua" % i)
            if rnd.random() < 0.3:
                chosen.insert(rnd.randrange(len(chosen) + 1), "zpanic.lua")
            if rnd.random() < 0.15:
                # nothing but clean files and the panicking one: only the dead worker can make the exit status non-zero
                chosen = [f for f in names if files[f].startswith("print(") and "undefined" not in files[f]][:rnd.choice([2, 5, 12])] + ["zpanic.lua"]
                rnd.shuffle(chosen)
            walk_udir = rnd.random() < 0.35 and not (len(chosen) <= 13 and "zpanic.lua" in chosen and all(files.get(f, "x").startswith("print(") for f in chosen if f != "zpanic.lua"))
            if walk_udir:
                chosen.insert(rnd.randrange(len(chosen) + 1), "udir")
            style = rnd.choice(["quiet", "quiet", "json2"])
            threads = rnd.choice([2, 3, 8, 16, 16, 16, 64])
            if only is not None and only != i:
                items.append(("", {}))
                continue
            base = cli.style_args(style)
            # few file descriptors: files are opened by the workers, so at most one per thread is open at a time
            rc1, out1, _ = cli.run_selene(proj, base + ["--num-threads", "1"] + chosen, nofile=112)
            rc2, out2, _ = cli.run_selene(proj, base + ["--num-threads", str(threads)] + chosen, nofile=112)

            def lines_of(out):
                ls = [l for l in out.split("\n") if l.strip()]
                if style == "quiet":
                    # drop the Results block
                    if "Results:" in ls:
                        ls = ls[:ls.index("Results:")]
                else:
                    ls = [l for l in ls if '"type":"Summary"' not in l]
                return ls

            def fname(line):
                if style == "quiet":
                    return line.split(":", 1)[0]
                m = line.find('"filename":"')
                return line[m + 12:line.find('"', m + 12)] if m >= 0 else "?"

            ids = {}
            seq = lines_of(out1)
            for l in seq:
                ids.setdefault(l, len(ids) + 1)
            jobs_terms = []
            # blocks from the sequential run: consecutive lines of one file; parse errors one block each
            j = 0
            per_file = {}
            order = []
            while j < len(seq):
                f = fname(seq[j])
                blk = []
                while j < len(seq) and fname(seq[j]) == f:
                    blk.append(ids[seq[j]])
                    j += 1
                per_file.setdefault(f, []).extend(blk)
                if f not in order:
                    order.append(f)
            nblocks = 0
            expanded = []
            for f in chosen:
                expanded += sorted(udir_files + udir_dirs) if f == "udir" else [f]
            for f in expanded:
                if f == "zpanic.lua":
                    jobs_terms.append("[]")
                    continue
                oc = outcomes.get(f)
                if oc is None:
                    jobs_terms.append("[SAdd CErr 1%N]")
                    continue
                lines = per_file.get(f, [])
                if oc.get("parse_errors") is not None:
                    segs = []
                    for lid in lines:
                        segs.append("SAdd CParse 1%N")
                        segs.append("SBlock [%s]" % cli.gN(lid))
                        nblocks += 1
                    jobs_terms.append(cli.glist(segs))
                else:
                    sev = [d["severity"] for d in oc["diags"]]
                    segs = ["SAdd CErr %s" % cli.gN(sev.count("Error")), "SAdd CWarn %s" % cli.gN(sev.count("Warning")),
                            "SBlock %s" % cli.glist(cli.gN(x) for x in lines)]
                    if lines:
                        nblocks += 1
                    jobs_terms.append(cli.glist(segs))
            par = [ids.get(l, 999999999) for l in lines_of(out2)]
            _, summ2, _ = cli.parse_output(out2, style)
            summ2 = summ2 or (0, 0, 0)
            term = "CRun %s %s (%s, %s, %s) %s %s %s" % (
                cli.glist(jobs_terms), cli.glist(cli.gN(x) for x in par),
                cli.gN(summ2[0]), cli.gN(summ2[1]), cli.gN(summ2[2]), cli.gN(rc1 & 255), cli.gN(rc2 & 255),
                cli.gbool("zpanic.lua" in chosen))
            torn = [l for l in lines_of(out2) if l not in ids][:3]
            items.append((term, {"kind": style, "threads": threads, "files": len(chosen), "lines": len(par), "blocks": nblocks,
                                 "summary": list(summ2), "exit": [rc1, rc2], "unknown_lines": torn,
                                 "args": chosen[:12], "nontrivial": nblocks >= 2}))
        cli.write_shards(wd, "C18", items, only=only)
        shutil.rmtree(proj, ignore_errors=True)
        return True, ""
