"""C20: the five display styles of the real binary vs Pipeline/Location.v (style model + codespan's
byte offset -> line/column), and the property evaluated on the printed output itself."""
import glob
import os
import random
import re
import shutil
from concurrent.futures import ThreadPoolExecutor

from . import cli, core
from .runner import Prop

STYLES = ["rich", "quiet", "json", "json2", "luacheck", "luacheck-ranges"]

# hand-written inputs: multi-line, zero-width and non-ASCII-adjacent ranges, parse errors
TEMPLATES = [
    'return value / 0 / 0\n',
    'local r = { a = 1, a = 2, a = 3 }\nprint(r, x / 0 / 0 / 0)\n',
    'print("é", undefined_a)\n',
    'local s = "日本語"; print(undefined_b)\n',
    '--[[ é ]] local unused = 1\n',
    'if x then\n\n-- é\nend\n',
    'if undefined_c then\nelse\nend\nlocal é = 1\n',
    'local t = {\n  a = 1,\n  -- ü\n  a = 2,\n}\nreturn t\n',
    'print(string.format(\n  "ü",\n  1,\n  2))\nstring.rep(\n"é"\n)\n',
    'local x = 1 / 0; local y = "é" / 0\n',
    'for i = 1, 10 do\n  -- 日本\nend\nwhile true do\nend\n',
    'local a, b = 1\nlocal c = "é", 2\n',
    'if a == {} then\n  print("日本")\nend\n',
    'local function f(a,\n  b)\nend\nf(1,\n "é",\n 3)\n',
    'x = 1\né = 2\n',
    'local s = "\\q é"\n',
    'print("é\\q")\n',
    'print("\\é")\n',
    'print("a\\é", undefined_d)\n',
    'local = \n',
    'x = = 1 -- é\n',
    'print("é" "b")\n',
    '"é"\n',
    'local s = "unclosed é\n',
    '--[[ unclosed é\n',
    'local n = 1e\n',
    'local x = é\n',
    'a = "é" $ 1\n',
    '',
    '-- only a comment é\n',
    'return\n',
    'local _ = [[\né\n]]; print(undefined_e)\n',
    'print(undefined_f)',
    'local function g()\n  return 1,\n    "é",\n    undefined_g\nend\nif g() then return elseif g() then return\nelse\n  print("日本語")\nend\n',
    'a.b["é"].c = undefined_h; print(a)\n',
    'local x <const> = 1\n',
    'print(("é"):rep(1, 2, 3, 4))\n',
    'if x then print(1) else print(1) end -- é\nif x then\n  print("é")\nelse\n  print("é")\nend\n',
    'local t = { 1, ["é"] = 2 }\n',
    'foo(1);;; local é\n',
    'x = "\tb"\n\tprint(undefined_tab)\n',
]

PREFIXES = ['', '', '-- é日本\n', 'local _u = "é"; ', '--[[ü]] ', '\n\n', '\t', '\ufeff']


def mutate(rnd, text):
    """Layout/byte-level mutations; the result need not parse or mean the same: every input is a valid
    C20 input (all styles must agree on whatever the diagnostics are)."""
    ops = rnd.sample(["prefix", "strings", "crlf", "lineprefix", "comments", "trailing", "none", "none"],
                     k=rnd.choice([1, 1, 2, 3]))
    for op in ops:
        if op == "prefix":
            text = rnd.choice(PREFIXES) + text
        elif op == "strings":
            text = re.sub(r'"([^"\\\n]*)"', lambda m: '"%s%s"' % (rnd.choice(["é", "日本", "ü", "😀", ""]), m.group(1))
                          if rnd.random() < 0.6 else m.group(0), text)
        elif op == "crlf":
            text = text.replace("\r\n", "\n").replace("\n", "\r\n")
        elif op == "lineprefix":
            lines = text.split("\n")
            for j in range(len(lines)):
                if lines[j].strip() and rnd.random() < 0.35:
                    lines[j] = rnd.choice(['--[[é]] ', 'local _u = "日本"; ', '--[[😀]]']) + lines[j]
            text = "\n".join(lines)
        elif op == "comments":
            text = re.sub(r" ", lambda m: rnd.choice([" ", " ", " ", " --[[é]] ", "  "]), text)
        elif op == "trailing":
            text = text + rnd.choice(["", "\n", "-- é", "\n\n", "\r\n", "print(undefined_t)"])
    return text


def corpus():
    files = sorted(glob.glob(os.path.join(core.REPO, "selene-lib/tests/lints/*/*.lua")))
    out = []
    for f in files:
        try:
            t = open(f, encoding="utf-8", newline="").read()
        except (OSError, UnicodeDecodeError):
            continue
        if len(t.encode("utf-8")) <= 2500:
            out.append((os.path.relpath(f, core.REPO), t))
    return out


CONFIGS = [
    ("lua51", 'std = "lua51"\n'),
    ("luau", 'std = "luau"\n'),
    ("deny", 'std = "lua51"\n[lints]\nunused_variable = "deny"\nempty_if = "deny"\nmultiple_statements = "warn"\n'
             'shadowing = "allow"\nunscoped_variables = "deny"\n'),
]


def crashed(rc, err):
    return rc == 101 or "panicked" in err or rc < 0


class C20(Prop):
    id = "C20"
    coq_targets = ["Properties/C20.vo", "Corr/C20.vo"]
    props_file = "Properties/C20.v"
    harness_cmd = None
    needs_bin = True
    n = {"quick": 220, "thorough": 2400}
    search_seeds = 2
    search_n = 300
    classes = {"T2": 1}
    bits = {4: "two display styles describe different multisets of (file, lint, severity, start position, message)",
            8: "a display style crashed on a diagnostic that another style printed (range on character boundaries)",
            16: "json/json2 output: a line is not a JSON object, the two differ, offsets and line/column disagree with the source text, or label messages / secondary labels / notes are not the diagnostic's"}
    rule = ("one file per case: lint-test corpus files and hand-written templates (multi-line, zero-width, "
            "non-ASCII-adjacent ranges, parse and tokenizer errors), byte-level mutations (non-ASCII prefixes, strings "
            "and comments, CRLF, BOM, tabs, missing final newline) x 3 configurations; each run through the real "
            "binary under rich, quiet, json, json2, --luacheck and --luacheck --ranges; the library-level diagnostics "
            "(Checker::test_on via the harness) feed the style model; non-trivial = at least one diagnostic; "
            "distinct = distinct (config, file bytes)")
    trusted_base = [
        "modelled: codespan 0.11.1 Files::location (byte offset -> line/column), the per-style projection of "
        "selene/src/main.rs emit_codespan and the luacheck writer loop incl. --ranges (Pipeline/Location.v)",
        "codespan-reporting's rich/short renderers are parsed only for their header (severity[code]: message) and "
        "location line (file:line:col); their snippet rendering is not modelled",
        "output parsers for rich/quiet/json/json2/luacheck in vlib/cli.py (quiet is read in its own format only)",
        "label messages, secondary labels and notes of json / json2 are compared with the library-level diagnostic by the driver (Python), not in Coq",
        "json / json2 are also run under --color always / never / auto and must print the same bytes",
        "the file is named on the command line as f.lua, ./f.lua, an absolute path or ../dir/f.lua; every style must print that name",
        "library-level diagnostics are taken from Checker::test_on via the harness (lints are oracles here)",
    ]
    assumptions = ["the file is read as String::from_utf8_lossy, so the text the styles see is valid UTF-8 "
                   "(wf_text is checked on every case)"]

    def nontrivial(self, d):
        return d.get("ndiags", 0) > 0

    def generate(self, wd, seed, n, tier, only):
        rnd = random.Random(seed)
        corp = corpus()
        proj = os.path.join(wd, "proj")
        cases = []
        for i in range(n):
            cname, ctext = CONFIGS[rnd.choice([0, 0, 1, 2])]
            r = rnd.random()
            if i < len(TEMPLATES):
                origin, text = "template%d" % i, TEMPLATES[i]
                if i % 3 == 2 and rnd.random() < 0.3:
                    text = text.replace("\n", "\r\n")
            elif r < 0.45:
                k = rnd.randrange(len(TEMPLATES))
                origin, text = "template%d+mut" % k, mutate(rnd, TEMPLATES[k])
            elif r < 0.55:
                a, b = rnd.randrange(len(TEMPLATES)), rnd.randrange(len(TEMPLATES))
                origin, text = "template%d+%d" % (a, b), mutate(rnd, TEMPLATES[a] + TEMPLATES[b])
            else:
                name, t = corp[rnd.randrange(len(corp))]
                origin, text = name + "+mut", mutate(rnd, t)
            cases.append((cname, ctext, origin, text))
        for cname, ctext in CONFIGS:
            os.makedirs(os.path.join(proj, cname), exist_ok=True)
            open(os.path.join(proj, cname, "selene.toml"), "w").write(ctext)
        for i, (cname, _, _, text) in enumerate(cases):
            with open(os.path.join(proj, cname, "f%d.lua" % i), "wb") as f:
                f.write(text.encode("utf-8"))
        lib = {}
        for cname, _ in CONFIGS:
            fs = ["f%d.lua" % i for i, c in enumerate(cases) if c[0] == cname and (only is None or only == i)]
            for j in range(0, len(fs), 200):
                res = cli.harness_lint(os.path.join(proj, cname), os.path.join(proj, cname, "selene.toml"), fs[j:j + 200])
                if "__error__" in res:
                    return False, "harness lint failed: %r" % (res["__error__"],)
                for f, v in res.items():
                    lib[(cname, f)] = v

        # how the file is named on the command line: every style prints that name
        forms = [rnd.choice(["plain", "plain", "plain", "dot", "abs", "updown"]) for _ in range(n)]

        colors = [rnd.choice([None, None, "always", "always", "never", "auto"]) for _ in range(n)]

        def arg_of(i):
            cname, name = cases[i][0], "f%d.lua" % i
            return {"plain": name, "dot": "./" + name, "abs": os.path.join(proj, cname, name),
                    "updown": "../%s/%s" % (cname, name)}[forms[i]]

        def one(i):
            if only is not None and only != i:
                return None
            cname = cases[i][0]
            outs = {}
            for st in STYLES:
                # the machine-readable styles are the same bytes whatever --color says
                color = ["--color", colors[i]] if st in ("json", "json2") and colors[i] else []   # (--luacheck prints parse errors as coloured rich blocks)
                rc, out, err = cli.run_selene(os.path.join(proj, cname),
                                              cli.style_args(st) + color + ["--num-threads", "1", "--no-summary", arg_of(i)])
                outs[st] = (rc, out, err)
            return outs

        with ThreadPoolExecutor(max_workers=16) as ex:
            runs = list(ex.map(one, range(n)))

        items = []
        for i, (cname, ctext, origin, text) in enumerate(cases):
            if runs[i] is None:
                items.append(("", {}))
                continue
            items.append(self.case_term(i, cname, origin, text, lib.get((cname, "f%d.lua" % i), {}), runs[i], arg_of(i)))
        cli.write_shards(wd, "C20", items, only=only)
        shutil.rmtree(proj, ignore_errors=True)
        return True, ""

    def case_term(self, i, cname, origin, text, libout, outs, fname=None):
        fname = fname or "f%d.lua" % i
        ids = {}

        def ident(kind, v):
            return ids.setdefault((kind, v), len(ids))

        sev_id = {"error": 0, "warning": 1}
        parsed = {}
        for st in STYLES:
            rc, out, err = outs[st]
            style = "luacheck" if st.startswith("luacheck") else st
            diags, summ, junk = cli.parse_output(out, style)
            parsed[st] = (None if crashed(rc, err) else diags, junk, rc, err)

        def shown(d):
            # the file name is part of the identity: fold it into the code id
            return "{| s_code := %s; s_sev := %s; s_msg := %s; s_line := %s; s_col := %s |}" % (
                cli.gN(ident("code", (d["file"], d["code"]))), cli.gN(sev_id.get(d["severity"], 9)),
                cli.gN(ident("msg", d["message"])), cli.gN(d["line"]), cli.gN(d["col"]))

        # library-level diagnostics; for parse errors the positions come from json2 (or json)
        ds = []
        parse_file = libout.get("parse_errors") is not None
        if libout.get("panic"):
            src_diags = None
        elif parse_file:
            ref = parsed["json2"][0] if parsed["json2"][0] is not None else parsed["json"][0]
            src_diags = [{"code": d["code"], "severity": d["severity"], "message": d["message"],
                          "start": d["start"], "end": d["end"], "parse": True} for d in (ref or [])]
        else:
            src_diags = [{"code": d["code"], "severity": d["severity"].lower(), "message": d["message"],
                          "start": d["start"], "end": d["end"], "parse": False}
                         for d in libout.get("diags", []) if d["severity"] != "Allow"]
        for d in src_diags or []:
            ds.append("{| d_code := %s; d_sev := %s; d_msg := %s; d_start := %d%%nat; d_end := %d%%nat; d_parse := %s |}" % (
                cli.gN(ident("code", (fname, d["code"]))), cli.gN(sev_id.get(d["severity"], 9)),
                cli.gN(ident("msg", d["message"])), d["start"], d["end"], cli.gbool(d["parse"])))

        def obs(st):
            dl = parsed[st][0]
            return cli.gopt(None if dl is None else cli.glist(shown(d) for d in dl))

        labels = []
        for st in ("json", "json2"):
            for d in parsed[st][0] or []:
                raw = d["raw"]
                for lab in [raw["primary_label"]] + raw["secondary_labels"]:
                    sp = lab["span"]
                    labels.append("(%d%%nat, %s, %s, (%d%%nat, %s, %s))" % (
                        sp["start"], cli.gN(sp["start_line"]), cli.gN(sp["start_column"]),
                        sp["end"], cli.gN(sp["end_line"]), cli.gN(sp["end_column"])))
        j1, j2 = parsed["json"], parsed["json2"]
        json_same = not j1[1] and not j2[1]
        if j1[0] is not None and j2[0] is not None:
            json_same = json_same and [d["raw"] for d in j1[0]] == \
                [{k: v for k, v in d["raw"].items() if k != "type"} for d in j2[0]]
        # json / json2 carry the whole diagnostic: label messages, secondary labels (place and message) and notes
        if not parse_file and src_diags is not None:
            want = sorted((d["code"], d["start"], d["end"], d["message"], d.get("label") or "",
                           tuple((a, b, m or "") for a, b, m in d.get("secondary", [])), tuple(d.get("notes", [])))
                          for d in libout.get("diags", []) if d["severity"] != "Allow")
            for st in ("json", "json2"):
                if parsed[st][0] is None:
                    continue
                got = sorted((d["code"], d["start"], d["end"], d["message"], d["raw"]["primary_label"].get("message") or "",
                              tuple((s["span"]["start"], s["span"]["end"], s.get("message") or "") for s in d["raw"]["secondary_labels"]),
                              tuple(d["raw"].get("notes", []))) for d in parsed[st][0])
                if got != want:
                    json_same = False
        lcr = parsed["luacheck-ranges"][0]
        if lcr is None:
            lcr_t = "None"
        else:
            # parse errors are printed in rich form (no range end): only luacheck-form lines carry one
            lcr_t = "(Some (%s, %s))" % (cli.glist(shown(d) for d in lcr),
                                         cli.glist(cli.gN(d["range_end"]) for d in lcr if d.get("range_end") is not None))
        data = text.encode("utf-8")
        # what the binary reads: from_utf8_lossy of the bytes (our inputs are valid UTF-8)
        term = ("{| c_src := [%s]%%N; c_diags := %s; c_rich := %s; c_quiet := %s; c_json := %s; c_json2 := %s; "
                "c_lc := %s; c_lcr := %s; c_labels := %s; c_json_same := %s |}") % (
            ";".join(str(b) for b in data), cli.glist(ds), obs("rich"), obs("quiet"), obs("json"), obs("json2"),
            obs("luacheck"), lcr_t, cli.glist(labels), cli.gbool(json_same))
        ndi = len(src_diags or [])
        kind = "lib-panic" if src_diags is None else ("parse-error" if parse_file else ("lint" if ndi else "clean"))
        desc = {"kind": kind, "config": cname, "origin": origin, "source": text, "ndiags": ndi, "named_as": fname,
                "exit": {st: outs[st][0] for st in STYLES},
                "crashed": [st for st in STYLES if parsed[st][0] is None],
                "stderr": {st: outs[st][2][-300:] for st in STYLES if parsed[st][0] is None},
                "printed": {st: (None if parsed[st][0] is None else
                                 [[d["code"], d["severity"], d["line"], d["col"]] for d in parsed[st][0]][:12])
                            for st in STYLES},
                "multiline": any(d.get("end_line", 0) > d["line"] for d in (parsed["json2"][0] or [])),
                "zero_width": any(d["start"] == d["end"] for d in (src_diags or []))}
        return term, desc
