"""C12: histories / schedules through one shared checker (harness, in-process) and process restarts
(the real binary, fresh hash seeds) against Pipeline/Determinism.v."""
import glob
import hashlib
import json
import os
import random
import shutil

from . import cli, core, translate
from .runner import Prop

SPECIAL = {
    "notes1.lua": "os.exit()\nprint(package.searchpath)\n",
    "notes2.lua": "print(bit32.band(1, 2), table.pack(1), utf8.char(65))\n",
    "notes3.lua": "print(table.unpack({}), math.tointeger(1), string.pack, io.write, os.rename)\n",
    "notes4.lua": "print(debug.traceback, require, package.loaded, os.getenv, io.open, loadstring, setfenv, unpack)\n",
    "dupes.lua": "local t = { a = 1, a = 2, b = 3, b = 4, 5 }\nprint(t)\n",
    "argc.lua": "local function f(a, b) end\nf(1, 2, 3)\nf(1, 2, 3, 4)\nlocal g = function() end\ng(1)\n",
    "argc2.lua": "local f\nf = function(a) end\nf = function(a, b) end\nf = function() end\nf(1, 2, 3)\nf(1, 2, 3, 4)\n",
    "multi.lua": "print(1) print(2) print(3)\nif x then print(1) end if y then print(2) end\n",
    "scopes.lua": "x = 1\ny = 2\nprint(x, y, z, w)\nlocal a = 1\nlocal a = 2\n",
    "roblox.lua": "print(game, workspace, script, Instance.new(\"Part\"), task.wait())\n",
}
CONFIGS = [("luau", 'std = "luau"\n'), ("lua51", 'std = "lua51"\n'), ("lua52", 'std = "lua52"\n'),
           ("lua53", 'std = "lua53"\n'),
           # one lint named twice, in both spellings, with different values (a leftover after a rename)
           ("lua51-two-spellings", 'std = "lua51"\n[lints]\nunused_variable = "deny"\nunused-variable = "allow"\nshadowing = "allow"\n'
                                   'Shadowing = "deny"\n[config]\nempty_if = { comments_count = true }\nempty-if = { comments_count = false }\n'),
           ("lua52-two-spellings", 'std = "lua52"\n[lints]\nundefined-variable = "allow"\nundefined_variable = "warn"\ndivide-by-zero = "deny"\n'
                                   'divide_by_zero = "allow"\n')]


def fp(lines):
    return int(hashlib.sha1("\n".join(lines).encode()).hexdigest()[:15], 16)


def _sites_translator():
    return translate.shared_sites()


class C12(Prop):
    id = "C12"
    coq_targets = ["Properties/C12.vo", "Corr/C12.vo"]
    props_file = "Properties/C12.v"
    harness_cmd = None
    needs_bin = True
    n = {"quick": 160, "thorough": 2500}
    search_seeds = 2
    search_n = 200
    bits = {4: "the diagnostics (content or order) of a file differ from what a fresh checker / another process reports for it"}
    rule = ("(a) in-process: 3-14 files per case (lint fixtures, generated programs, programs whose diagnostics carry notes, "
            "hash-backed lints) x 4 libraries x 2 configurations through one Arc<Checker>: each file twice in a row, random "
            "histories, 8 threads released together on cold caches, 8 threads then a warm pass; every call's full diagnostics list "
            "is compared with a fresh checker's. (b) process restarts: the real binary (json2, 4 threads) run repeatedly on a "
            "directory of such files under 6 configurations (4 libraries; two that name one lint in both spellings with different values); "
            "per-file output compared between runs. non-trivial = some file has "
            "diagnostics; distinct = distinct (library, configuration, file set, mode)")
    trusted_base = [
        "translator vlib/translate.py:shared_sites (a regular-expression scan of selene-lib/src and selene/src for statics, interior "
        "mutability, ambient inputs and hash collections + whether they are iterated) and the hand classification of each site in "
        "Pipeline/Determinism.v; a site the scan cannot see (e.g. state hidden in a dependency) is outside the theorem",
        "modelled: write-once caches (OnceCell::get_or_init as an atomic step), lints as functions of (library, tree, file); "
        "full_moon, regex and the other dependencies are assumed deterministic",
        "fingerprints: FNV-1a of the serialised diagnostics (harness), SHA-1 prefix of the per-file output lines (driver)",
        "threads are really run (8 per case) but the OS scheduler decides which interleavings are seen",
    ]
    assumptions = ["the lints' own code is deterministic apart from the classified sites (they read only their arguments)"]

    def __init__(self):
        self.translators = [_sites_translator]

    def nontrivial(self, d):
        return d.get("nontrivial", True)

    def generate(self, wd, seed, n, tier, only):
        nproc = max(8, n // 10)
        nh = n - nproc
        cmd = [core.HARNESS_BIN, "c12", "--seed", str(seed), "--n", str(nh), "--shards", "16", "--out", wd]
        if tier == "thorough":
            cmd.append("--thorough")
        if only is not None:
            cmd += ["--only", str(only)]
        rc, out = core.sh(cmd, timeout=3000)
        if rc != 0:
            return False, out
        # process restarts
        rnd = random.Random(seed)
        corpus = sorted(glob.glob(os.path.join(core.REPO, "selene-lib/tests/lints/*/*.lua")))
        proj = os.path.join(wd, "proj")
        items = []
        for k in range(nproc):
            i = nh + k
            cname, ctext = CONFIGS[k % len(CONFIGS)]
            sample = rnd.sample(corpus, min(6, len(corpus)))
            if only is not None and only != i:
                items.append(("", {}))
                continue
            pd = os.path.join(proj, "p%d" % k)
            os.makedirs(pd, exist_ok=True)
            open(os.path.join(pd, "selene.toml"), "w").write(ctext)
            files = dict(SPECIAL)
            for f in sample:
                try:
                    files["c_" + os.path.basename(os.path.dirname(f)) + "_" + os.path.basename(f)] = open(f, encoding="utf-8").read()
                except (OSError, UnicodeDecodeError):
                    pass
            for name, text in files.items():
                open(os.path.join(pd, name), "w").write(text)
            names = sorted(files)
            runs = []
            for _ in range(4 if tier == "quick" else 8):
                rc2, out2, err2 = cli.run_selene(pd, ["--display-style", "json2", "--num-threads", "4", "--no-summary"] + names)
                if rc2 not in (0, 1):
                    return False, "selene died (exit %d) on %s: %s" % (rc2, pd, err2[-300:])
                per = {nm: [] for nm in names}
                for ln in out2.split("\n"):
                    if ln.startswith("{"):
                        try:
                            d = json.loads(ln)
                            per.setdefault(d.get("primary_label", {}).get("filename", "?"), []).append(ln)
                        except ValueError:
                            per.setdefault("?", []).append(ln)
                runs.append(per)
            fresh = ["(%s, %s)" % (cli.gN(j), cli.gN(fp(runs[0].get(nm, [])))) for j, nm in enumerate(names)]
            ops = ["(%s, %s)" % (cli.gN(j), cli.gN(fp(r.get(nm, [])))) for r in runs[1:] for j, nm in enumerate(names)]
            differing = [nm for nm in names if any(r.get(nm) != runs[0].get(nm) for r in runs[1:])]
            desc = {"kind": "process-restarts", "std": cname, "files": names, "runs": len(runs), "differing": differing,
                    "nontrivial": any(runs[0].get(nm) for nm in names)}
            if differing:
                nm = differing[0]
                desc["example"] = {"file": nm, "source": files[nm],
                                   "outputs": list({json.dumps(r.get(nm)) for r in runs})[:3]}
            items.append(("{| c_fresh := %s; c_ops := %s |}" % (cli.glist(fresh), cli.glist(ops)), desc))
        cli.write_shards(wd, "C12", items, only=only, offset=nh, first_shard=16)
        shutil.rmtree(proj, ignore_errors=True)
        return True, ""

    def extra(self, ctx):
        # when the classification theorem no longer checks, say which sites are new
        rc, out = core.sh("printf 'From Selene Require Import Pipeline.Determinism.\\nEval vm_compute in unclassified.\\n' > /verif/.cache/work/c12_unclassified.v "
                          "&& coqc -noglob -Q /verif/coq Selene /verif/.cache/work/c12_unclassified.v; rm -f /verif/.cache/work/c12_unclassified.*")
        flat = " ".join(out.split())
        ctx["notes"].append("unclassified sites: " + flat[:1500])
        ctx["cov"]["unclassified_sites"] = flat[:1500]
        return []
