"""Running the real selene binary and parsing its output styles; Python-side shard writer."""
import json
import os
import re
import subprocess

from . import core


def run_selene(cwd, args, stdin=None, timeout=120, env=None, nofile=None):
    """nofile: soft limit on open file descriptors for the run (None = inherited)"""
    pre = None
    if nofile is not None:
        import resource

        def pre():
            hard = resource.getrlimit(resource.RLIMIT_NOFILE)[1]
            resource.setrlimit(resource.RLIMIT_NOFILE, (nofile, hard))
    p = subprocess.run([core.SELENE_BIN] + args, cwd=cwd, input=stdin, stdout=subprocess.PIPE,
                       stderr=subprocess.PIPE, timeout=timeout, env=env or core.ENV, preexec_fn=pre)
    return p.returncode, p.stdout.decode("utf-8", "replace"), p.stderr.decode("utf-8", "replace")


def harness_lint(cwd, config_path, files, std=None):
    """Library-level outcome per file (Checker::test_on through the harness)."""
    cmd = [core.HARNESS_BIN, "lint"]
    if config_path:
        cmd += ["--config", config_path]
    if std:
        cmd += ["--std", std]
    p = subprocess.run(cmd + files, cwd=cwd, stdout=subprocess.PIPE, stderr=subprocess.PIPE, timeout=300, env=core.ENV)
    out = {}
    for line in p.stdout.decode("utf-8", "replace").splitlines():
        if line.startswith("{"):
            d = json.loads(line)
            if "file" in d:
                out[d["file"]] = d
            else:
                out["__error__"] = d
    return out


QUIET_RE = re.compile(r"^(.*?):(\d+):(\d+): (error|warning|bug|note|help)\[(\w+)\]: (.*)$")
RICH_HEAD_RE = re.compile(r"^(error|warning)\[(\w+)\]: (.*)$")
RICH_LOC_RE = re.compile(r"^\s*┌─ (.*?):(\d+):(\d+)$")
LUACHECK_RE = re.compile(r"(\S[^\n:]*?):(\d+):(\d+)(?:-(\d+))?: \((E|W)000\) \[(\w+)\] ([^\n]*)")


def parse_output(stdout, style):
    """-> (diags, summary). diag = dict(file, severity, code, line, col, message[, start, end...]);
    line/col are 1-based as printed by quiet/rich/luacheck, json gives 0-based which we convert."""
    diags, summary, junk = [], None, []
    lines = stdout.split("\n")
    if style in ("json", "json2"):
        for ln in lines:
            if not ln.strip():
                continue
            try:
                d = json.loads(ln)
            except ValueError:
                junk.append(ln)
                continue
            if style == "json2":
                if d.get("type") == "Summary":
                    summary = (d["errors"], d["warnings"], d["parse_errors"])
                    continue
                if d.get("type") != "Diagnostic":
                    junk.append(ln)
                    continue
            sp = d["primary_label"]["span"]
            diags.append({"file": d["primary_label"]["filename"], "severity": d["severity"].lower(),
                          "code": d["code"], "line": sp["start_line"] + 1, "col": sp["start_column"] + 1,
                          "message": d["message"], "start": sp["start"], "end": sp["end"],
                          "end_line": sp["end_line"] + 1, "end_col": sp["end_column"] + 1,
                          "secondary": [(s["span"]["start"], s["span"]["end"]) for s in d["secondary_labels"]],
                          "raw": d})
        if style == "json":
            summary, diags2 = parse_results_block(lines)
        return diags, summary, junk
    i = 0
    # text styles: the "Results:" block comes last
    summary, _ = parse_results_block(lines)
    while i < len(lines):
        ln = lines[i]
        m = QUIET_RE.match(ln)
        if style == "quiet" and m:
            diags.append({"file": m.group(1), "line": int(m.group(2)), "col": int(m.group(3)),
                          "severity": m.group(4), "code": m.group(5), "message": m.group(6)})
            i += 1
            continue
        m = RICH_HEAD_RE.match(ln)
        # the quiet style is read in its own format only (--luacheck prints parse errors as rich blocks, so it accepts them)
        if style != "quiet" and m and i + 1 < len(lines) and RICH_LOC_RE.match(lines[i + 1]):
            loc = RICH_LOC_RE.match(lines[i + 1])
            diags.append({"file": loc.group(1), "line": int(loc.group(2)), "col": int(loc.group(3)),
                          "severity": m.group(1), "code": m.group(2), "message": m.group(3)})
            i += 2
            continue
        if style == "luacheck":
            for m in LUACHECK_RE.finditer(ln):
                diags.append({"file": m.group(1), "line": int(m.group(2)), "col": int(m.group(3)),
                              "severity": "error" if m.group(5) == "E" else "warning",
                              "code": m.group(6), "message": m.group(7),
                              "range_end": int(m.group(4)) if m.group(4) else None})
        i += 1
    return diags, summary, junk


def parse_results_block(lines):
    for i, ln in enumerate(lines):
        if ln.strip() == "Results:" and i + 3 < len(lines) + 1:
            try:
                e = int(lines[i + 1].split()[0])
                w = int(lines[i + 2].split()[0])
                p = int(lines[i + 3].split()[0])
                return (e, w, p), None
            except (ValueError, IndexError):
                return None, None
    return None, None


def style_args(style):
    return {"rich": [], "quiet": ["--display-style", "quiet"], "json": ["--display-style", "json"],
            "json2": ["--display-style", "json2"], "luacheck": ["--luacheck"],
            "luacheck-ranges": ["--luacheck", "--ranges"]}[style]


# ----------------------------------------------------------------------------- Gallina from Python

def gN(n):
    return "%d%%N" % n


def gbool(b):
    return "true" if b else "false"


def gstr(s):
    b = s.encode("utf-8")
    if all(0x20 <= c < 0x7f for c in b):
        return '"%s"' % s.replace('"', '""')
    return "(s_of [%s]%%N)" % ";".join(str(c) for c in b)


def glist(xs):
    return "[" + "; ".join(xs) + "]"


def gopt(x):
    return "None" if x is None else "(Some %s)" % x


def write_shards(wd, module, items, shards=16, only=None, offset=0, first_shard=0):
    """items: list of (gallina term, description dict). offset/first_shard allow appending to the
    shards a harness run already wrote into wd."""
    os.makedirs(wd, exist_ok=True)
    files = [[] for _ in range(shards)]
    with open(os.path.join(wd, "cases.jsonl"), "a" if first_shard else "w") as side:
        for i0, (term, desc) in enumerate(items):
            i = i0 + offset
            if only is not None and only != i:
                continue
            files[i % shards].append("(%d%%N, %s)" % (i, term))
            d = dict(desc)
            d["i"] = i
            side.write(json.dumps(d, ensure_ascii=False) + "\n")
    for k, its in enumerate(files):
        if not its:
            continue
        with open(os.path.join(wd, "shard_%d.v" % (k + first_shard)), "w") as f:
            f.write("From Selene Require Import Corr.%s.\nOpen Scope string_scope. Open Scope list_scope.\n" % module)
            for j, it in enumerate(its):
                f.write("Definition c%d := %s.\n" % (j, it))
            f.write("Definition cases := [%s].\n" % "; ".join("c%d" % j for j in range(len(its))))
            f.write("Eval vm_compute in (run cases).\n")
