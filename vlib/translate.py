"""Translators: data that lives in /repo's source -> coq/Generated/*.v (re-run on every check)."""
import os
import re

from . import core

GEN = os.path.join(core.COQ, "Generated")


def write_if_changed(path, text):
    os.makedirs(os.path.dirname(path), exist_ok=True)
    if not os.path.exists(path) or open(path).read() != text:
        open(path, "w").write(text)


def run_all():
    msgs = []
    for f in ALL:
        ok, msg = f()
        msgs.append((ok, msg))
    return msgs


ALL = []
