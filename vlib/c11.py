"""C11: totality / well-formed diagnostics. Harness cases (try_instead, whole pipeline under
catch_unwind) plus probes of the real binary with its default thread stack on deeply nested input."""
import os
import shutil

from . import cli, core, translate
from .runner import Prop


def nested(depth):
    return "local x = 1\n" + "".join("if x then\n" for _ in range(depth)) + "print(x)\n" + "end\n" * depth


def _codes():
    return translate.lint_codes()


def _table():
    return translate.lint_table()


class C11(Prop):
    id = "C11"
    coq_targets = ["Properties/C11.vo", "Corr/C11.vo"]
    props_file = "Properties/C11.v"
    harness_cmd = None
    needs_bin = True
    n = {"quick": 1500, "thorough": 9000}
    search_seeds = 2
    search_n = 2500
    classes = {"T1": 1, "D1": 2, "D3": 4}
    bits = {4: "checking panicked (or the process died) on input that parses, with a library and configuration that loaded",
            8: "a diagnostic carries a code that is not a registered lint",
            16: "a primary or secondary range has start > end, lies outside the source or is not on a character boundary"}
    rule = ("(a) Deprecated::try_instead on generated replace patterns (%, %%, %N incl. %0 / beyond u32, %..., partial matches) x 0-3 "
            "arguments; (b) Checker::new + test_on under catch_unwind: generated programs, lint fixtures, hand-written edge files "
            "(empty, comment-only, non-ASCII identifiers/strings/escapes, CRLF, Lua 5.2-5.4 / Luau syntax), byte-level mutations x "
            "7 built-in libraries and generated libraries (deprecated entries, structs incl. dangling ones, removed fields; programs "
            "that touch their entries) x random severities and lint configurations; inputs that do not parse under the library's "
            "dialect or configurations rejected by Checker::new are skipped; (c) the binary with its default thread stack on "
            "`if` nested 2..2000 deep; non-trivial = at least one diagnostic or a panic; distinct = distinct case descriptions")
    trusted_base = [
        "modelled: Deprecated::try_instead as the scanner its regular expression denotes (Std/TryInstead.v); everything else about "
        "the ~250 unwrap/expect/index sites is sampled by the run, not proved; the theorems re-used from C01/C06/C08/C20 cover the scope "
        "stack asserts, struct lookup, the filter stack and the writers' offset conversions",
        "translators lint_codes (first argument of Diagnostic::new / new_complete in selene-lib/src/lints/*.rs) and lint_table (use_lints!)",
        "catch_unwind in the harness sees panics, not aborts: stack exhaustion is probed separately through the binary (c)",
        "the parser (full_moon) is third-party: its panics are findings (D1, D3), its positions are trusted",
    ]
    assumptions = ["positions full_moon attaches to tokens lie on character boundaries of the source"]

    def __init__(self):
        self.translators = [_table, _codes]

    def extra(self, ctx):
        """thorough only (about two and a half minutes in a debug build): one function with more decision points than a 16-bit
        counter holds - high_cyclomatic_complexity must not panic on it (finding D4, repaired)"""
        if ctx["tier"] != "thorough":
            return []
        wd = os.path.join(core.CACHE, "work", "C11-counter")
        shutil.rmtree(wd, ignore_errors=True)
        os.makedirs(wd, exist_ok=True)
        open(os.path.join(wd, "selene.toml"), "w").write('std = "lua51"\n[lints]\nhigh_cyclomatic_complexity = "warn"\nempty_if = "allow"\n')
        open(os.path.join(wd, "big.lua"), "w").write("local function f(x)\n" + "if x then end\n" * 66000 + "end\nreturn f\n")
        rc, out, err = cli.run_selene(wd, ["--display-style", "quiet", "--num-threads", "1", "big.lua"], timeout=1500)
        ctx["cov"]["counter_probe"] = {"decision_points": 66000, "exit": rc, "reported": "high_cyclomatic_complexity" in out}
        res = []
        if "panicked" in err or rc not in (0, 1) or "high_cyclomatic_complexity" not in out:
            rp = os.path.join(core.VERIF, "replays", "C11-counter-seed%d.json" % ctx["seed"])
            core.write_json(rp, {"property": "C11", "kind": "complexity-counter", "source": "local function f(x) / `if x then end` x 66000 / end / return f",
                                 "config": "high_cyclomatic_complexity = warn", "exit": rc, "stdout": out[-600:], "stderr": err[:1200]})
            res.append({"kind": "spec", "replay": rp, "found_input": True,
                        "text": "a function with 66000 decision points: the lint run panicked or lost its report (exit %d)" % rc})
        shutil.rmtree(wd, ignore_errors=True)
        return res

    def generate(self, wd, seed, n, tier, only):
        probes = [1, 2, 4, 8, 11, 60, 400, 2000] if tier == "quick" else [1, 2, 3, 4, 5, 8, 9, 11, 20, 60, 150, 400, 1000, 2000, 5000]
        nh = n - 2 * len(probes)
        # sources are embedded byte by byte: keep shards small (coqc's memory grows with the size of a shard)
        nshards = 16 if tier == "quick" else 96
        cmd = [core.HARNESS_BIN, "c11", "--seed", str(seed), "--n", str(nh), "--shards", str(nshards), "--out", wd]
        if tier == "thorough":
            cmd.append("--thorough")
        if only is not None:
            cmd += ["--only", str(only)]
        rc, out = core.sh(cmd, timeout=3000)
        if rc != 0:
            return False, out
        proj = os.path.join(wd, "proj")
        items = []
        env = {k: v for k, v in core.ENV.items() if k != "RUST_MIN_STACK"}
        k = 0
        for std in ("lua51", "luau"):
            pd = os.path.join(proj, std)
            os.makedirs(pd, exist_ok=True)
            open(os.path.join(pd, "selene.toml"), "w").write('std = "%s"\n' % std)
            for depth in probes:
                i = nh + k
                k += 1
                if only is not None and only != i:
                    items.append(("", {}))
                    continue
                f = "deep%d.lua" % depth
                open(os.path.join(pd, f), "w").write(nested(depth))
                rc2, out2, err2 = cli.run_selene(pd, ["--display-style", "quiet", "--no-summary", f], env=env)
                died = rc2 not in (0, 1)
                items.append(("CProc %s %s" % (cli.gN(depth), cli.gbool(died)),
                              {"kind": "nesting-probe", "std": std, "depth": depth, "exit": rc2, "stderr": err2[-200:],
                               "source": "local x = 1 / `if x then` x %d / print(x) / `end` x %d" % (depth, depth), "nontrivial": True}))
        cli.write_shards(wd, "C11", items, only=only, offset=nh, first_shard=nshards)
        shutil.rmtree(proj, ignore_errors=True)
        return True, ""
