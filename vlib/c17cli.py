"""C17, CLI part: `selene upgrade-std` on generated v1 TOML; the .toml and the produced .yml must give
identical diagnostics on a probe program that touches every defined name."""
import os
import random
import shutil

from . import cli, core


def gen_v1(rnd):
    """returns (toml text, list of dotted names)"""
    lines, names = [], []
    base = rnd.choice([None, "lua51", "lua51", "lua52", "lua53", "luau"])
    if base:
        lines += ["[selene]", 'base = "%s"' % base, ""]
    msgs = ["need this", "true", "false", "null", "1e3", "a: b", " x ", "#c"]
    for i in range(rnd.randint(1, 5)):
        root = rnd.choice(["alpha", "beta", "gamma"]) + str(i)
        kind = rnd.randrange(8)
        if kind == 6:
            # a method without an `args` key (zero arguments), alone or beside a sibling with arguments
            sub = rnd.choice(["close", "m"])
            lines += ["[%s.%s]" % (root, sub), "method = true", ""]
            names.append(root + "." + sub)
            if rnd.random() < 0.4:
                lines += ["[[%s.n.args]]" % root, 'type = "number"', ""]
                lines += ["[%s.n]" % root, "method = true", ""] if rnd.random() < 0.5 else []
                names.append(root + ".n")
        elif kind == 7 and base and rnd.random() < 0.5:
            # a nested table below a global the base defines: the base's other entries stay what they were
            host = rnd.choice(["math", "_G", "arg", "string"])
            lines += ["[%s.%sext]" % (host, root), "property = true", "", "[[string.%sfmt.args]]" % root, 'type = "string"', ""]
            names.append("%s.%sext" % (host, root))
        elif kind == 7:
            lines += ["[%s.f]" % root, "args = []"] + (["method = false"] if rnd.random() < 0.5 else []) + [""]
            names.append(root + ".f")
        elif kind == 0:
            lines += ["[%s]" % root, "any = true", ""]
            names.append(root)
        elif kind == 1:
            lines += ["[%s]" % root, "property = true"] + (['writable = "%s"' % rnd.choice(["full", "new-fields", "overridden"])] if rnd.random() < 0.5 else []) + [""]
            names.append(root)
        elif kind in (2, 3):
            sub = rnd.choice(["f", "g"])
            lines.append("[[%s.%s.args]]" % (root, sub))
            lines.append('type = "%s"' % rnd.choice(["number", "string", "any", "bool", "table", "..."]))
            r = rnd.randrange(3)
            if r == 0:
                lines.append("required = false")
            elif r == 1:
                lines.append('required = "%s"' % rnd.choice(msgs))
            lines.append("")
            if rnd.random() < 0.5:
                lines.append("[[%s.%s.args]]" % (root, sub))
                lines.append('type = ["%s", "%s"]' % (rnd.choice(["count", "true", "a b"]), rnd.choice(["x", "null"])))
                lines.append("")
            names.append(root + "." + sub)
        elif kind == 4:
            lines += ["[%s.deep.er]" % root, "property = true", ""]
            names.append(root + ".deep.er")
        else:
            lines += ["[%s]" % root, "removed = true", ""]
            names.append(root)
    return "\n".join(lines) + "\n", names, base


def run(ctx):
    rnd = random.Random(ctx["seed"] + 17)
    n = 25 if ctx["tier"] == "quick" else 300
    wd = os.path.join(core.CACHE, "work", "C17-cli")
    shutil.rmtree(wd, ignore_errors=True)
    violations, done, distinct, rejected = [], 0, set(), 0
    for i in range(n):
        d = os.path.join(wd, str(i))
        os.makedirs(os.path.join(d, "t"), exist_ok=True)
        os.makedirs(os.path.join(d, "y"), exist_ok=True)
        toml, names, base = gen_v1(rnd)
        probe = "".join("local _ = %s\n%s()\n%s(1, 2, 3)\n%s = 1\n" % (nm, nm, nm, nm) for nm in names)
        probe += "".join("%s:%s()\n%s:%s(1)\n" % (nm.rsplit(".", 1)[0], nm.rsplit(".", 1)[1], nm.rsplit(".", 1)[0], nm.rsplit(".", 1)[1])
                         for nm in names if "." in nm and nm.count(".") == 1)
        # the dialect is inherited from the base on both paths: syntax only that dialect has
        probe += {"lua52": "goto done\n::done::\n", "lua53": "local q7 = 7 // 2\nprint(q7)\n",
                  "luau": "local q7: number = 1\nq7 += 1\nprint(q7)\n"}.get(base, "")
        # lines that are valid under the base whatever the derived library adds: they must stay free of diagnostics
        base_ok = ""
        if base:
            base_ok = "print(math.floor(1.5), math.pi, string.rep(\"a\", 2), #string.format(\"%d\", 1)); _G.fresh_zz, arg.fresh_zz = 1, 2\n"
            probe += base_ok
        open(os.path.join(d, "t", "mystd.toml"), "w").write(toml)
        open(os.path.join(d, "up.toml"), "w").write(toml)
        for sub in ("t", "y"):
            open(os.path.join(d, sub, "selene.toml"), "w").write('std = "mystd"\n')
            open(os.path.join(d, sub, "p.lua"), "w").write(probe)
        rc, out, err = cli.run_selene(d, ["upgrade-std", "up.toml"])
        if rc != 0 or not os.path.exists(os.path.join(d, "up.yml")):
            # every file gen_v1 writes is valid v1 (docs/src/usage/std.md of the v1 era: any / property (+writable) / args /
            # method / removed / [selene] base): the tool refusing to upgrade it loses the library
            rp = os.path.join(core.VERIF, "replays", "C17-upgrade-%d-seed%d.json" % (i, ctx["seed"]))
            core.write_json(rp, {"property": "C17", "kind": "upgrade-std-rejected", "toml": toml, "exit": rc, "stdout": out[-1500:], "stderr": err[-1500:]})
            violations.append({"kind": "spec", "replay": rp, "found_input": True,
                               "text": "upgrade-std refuses a valid v1 library (case %d): %s" % (i, (err or out).strip()[-200:])})
            rejected += 1
            continue
        shutil.copy(os.path.join(d, "up.yml"), os.path.join(d, "y", "mystd.yml"))
        r1 = cli.run_selene(os.path.join(d, "t"), ["--display-style", "json2", "--num-threads", "1", "p.lua"])
        r2 = cli.run_selene(os.path.join(d, "y"), ["--display-style", "json2", "--num-threads", "1", "p.lua"])
        done += 1
        distinct.add(toml)
        if base_ok:
            # the base_ok line is the last line of the probe before the dialect lines were appended: find it by content
            ln = probe.split("\n").index(base_ok.rstrip("\n")) + 1
            bad = [l for l in (r1[1] + r2[1]).split("\n") if '"start_line":%d,' % (ln - 1) in l and '"incorrect_standard_library_use"' in l]
            if bad:
                rp = os.path.join(core.VERIF, "replays", "C17-upgrade-base-%d-seed%d.json" % (i, ctx["seed"]))
                core.write_json(rp, {"property": "C17", "kind": "upgrade-std-base-entries", "toml": toml, "probe": probe, "line": ln, "diagnostics": bad[:4]})
                violations.append({"kind": "spec", "replay": rp, "found_input": True,
                                   "text": "a v1 library over base %s: entries of the base it does not mention are no longer what the base defines (case %d)" % (base, i)})
        if (r1[0], r1[1]) != (r2[0], r2[1]):
            rp = os.path.join(core.VERIF, "replays", "C17-upgrade-%d-seed%d.json" % (i, ctx["seed"]))
            core.write_json(rp, {"property": "C17", "kind": "upgrade-std", "toml": toml, "yml": open(os.path.join(d, "up.yml")).read(),
                                 "probe": probe, "toml_run": r1[1][-2000:], "yml_run": r2[1][-2000:], "stderr": [r1[2][-500:], r2[2][-500:]]})
            violations.append({"kind": "spec", "replay": rp, "found_input": True,
                               "text": "upgrade-std: the .toml and the upgraded .yml give different diagnostics (case %d)" % i})
    ctx["cov"]["extra_evaluations"] = done
    ctx["cov"]["extra_distinct"] = len(distinct)
    ctx["cov"]["upgrade_std_cases"] = done
    ctx["cov"]["upgrade_std_rejected"] = rejected
    shutil.rmtree(wd, ignore_errors=True)
    return violations
