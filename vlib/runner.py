"""Generic per-property runner (see core.py for the flow)."""
import hashlib
import json
import os
import shutil
import time

from . import core
from .core import log


class Prop:
    id = "C00"
    coq_targets = []          # .vo targets (relative to coq/)
    props_file = ""           # Properties/Cxx.v
    harness_cmd = None        # sub-command of vharness that writes case shards
    n = {"quick": 300, "thorough": 5000}
    bits = {}                 # code bit -> meaning (spec violation kinds)
    classes = {}              # known-class name -> bit in the `known` mask
    needs_bin = False
    level = "proof"
    trusted_base = []
    assumptions = []
    rule = ""
    translators = []          # callables run before the Coq build (regenerate Generated/*.v)
    search_seeds = 4
    search_n = 2000
    has_cases = True

    def generate(self, wd, seed, n, tier, only):
        """Python-side case generation for properties whose implementation is the CLI binary."""
        raise NotImplementedError

    def extra(self, ctx):
        """Optional Python-level exploration (CLI runs...). Returns list of violation dicts."""
        return []

    def nontrivial(self, desc):
        return bool(desc.get("nontrivial", True))

    def harness_args(self, ctx):
        return []


GLOBAL_TRUST = [
    "Coq 8.16.1 kernel (coqc); vm_compute used to evaluate the model on cases; no native_compute",
    "no axioms: every theorem in the Properties file must print 'Closed under the global context'",
    "harness (Rust, /verif/harness): generators, Gallina printers of inputs and of the implementation's outputs",
    "python driver: orchestration, parsing of coqc result triples",
    "no extraction is used: model, specification and comparison all run inside coqc",
]


def workdir(pid, tier, tag=""):
    d = os.path.join(core.CACHE, "work", "%s-%s%s" % (pid, tier, tag))
    shutil.rmtree(d, ignore_errors=True)
    os.makedirs(d)
    return d


def generate(prop, wd, seed, n, tier, only=None, extra_args=()):
    if prop.harness_cmd is None:
        return prop.generate(wd, seed, n, tier, only)
    # coqc's memory grows with the size of a shard (the thorough tier of C01 needed > 4 GB per 1900-case
    # shard): keep shards to a few hundred cases; run_shards evaluates 16 of them at a time
    shards = max(16, (n + 399) // 400)
    cmd = [core.HARNESS_BIN, prop.harness_cmd, "--seed", str(seed), "--n", str(n),
           "--shards", str(shards), "--out", wd] + list(extra_args)
    if tier == "thorough":
        cmd.append("--thorough")
    if only is not None:
        cmd += ["--only", str(only)]
    rc, out = core.sh(cmd, timeout=3000)
    return rc == 0, out


def names_of(prop, code):
    out = []
    if code & 1:
        out.append("model/implementation disagree")
    if code & 2:
        out.append("input not well-formed")
    for b, nm in sorted(prop.bits.items()):
        if code & b:
            out.append(nm)
    return out


def spec_mask(prop):
    m = 0
    for b in prop.bits:
        m |= b
    return m


def replay_path(pid, tag):
    d = os.path.join(core.VERIF, "replays")
    os.makedirs(d, exist_ok=True)
    return os.path.join(d, "%s-%s.json" % (pid, tag))


def run(prop, tier, seed, replay=None):
    t0 = time.time()
    pid = prop.id
    violations = []      # dicts: {kind, replay, text, found_input: bool}
    notes = []
    ev_cov = {}

    if replay:
        return do_replay(prop, replay)
    rdir = os.path.join(core.VERIF, "replays")
    if os.path.isdir(rdir):
        for f in os.listdir(rdir):
            if f.startswith(pid + "-"):
                os.remove(os.path.join(rdir, f))

    # 1. translators
    for tr in prop.translators:
        ok, msg = tr()
        notes.append(msg)
        if not ok:
            violations.append({"kind": "translator", "text": msg, "found_input": False,
                               "what": "translator " + tr.__name__})

    # 2. Coq build + gates
    bad = core.gate_sources()
    if bad:
        violations.append({"kind": "gate", "text": "forbidden constructs: " + "; ".join(bad[:10]),
                           "found_input": False, "what": "source gate (Admitted/Axiom/...)"})
    ok, theorems, closed, axioms, out = core.coq_build(prop.coq_targets, prop.props_file,
                                                       clean=False)
    proof_ok = ok and closed == len(theorems) and not (set(axioms) - core.ALLOWED_AXIOMS)
    if not ok:
        # try to keep going with the correspondence module alone
        violations.append({"kind": "proof", "text": "Coq build failed:\n" + out[-3000:],
                           "found_input": False, "what": "theorems of %s (make failed)" % prop.props_file})
    elif not proof_ok:
        violations.append({"kind": "proof", "text": "Print Assumptions: %d closed of %d theorems; axioms: %s"
                           % (closed, len(theorems), axioms), "found_input": False,
                           "what": "assumption gate of " + prop.props_file})
    coqchk_out = None
    if tier == "thorough" and ok:
        rc, coqchk_out = core.run_coqchk([prop.coq_targets[0]])
        if rc != 0:
            violations.append({"kind": "proof", "text": "coqchk failed: " + coqchk_out[-2000:],
                               "found_input": False, "what": "coqchk on " + prop.coq_targets[0]})

    # 3. harness / binary
    hok, hout = core.build_harness()
    if not hok:
        violations.append({"kind": "build", "text": "harness build failed:\n" + hout[-3000:],
                           "found_input": False, "what": "harness build against /repo"})
    if prop.needs_bin:
        bok, bout = core.build_selene_bin()
        if not bok:
            violations.append({"kind": "build", "text": "selene build failed:\n" + bout[-3000:],
                               "found_input": False, "what": "cargo build --workspace in /repo"})

    ctx = {"tier": tier, "seed": seed, "prop": prop, "notes": notes, "cov": ev_cov}
    results, descs, errors = {}, {}, []
    n = prop.n[tier]
    hist = {}
    if hok and prop.has_cases:
        wd = workdir(pid, tier)
        gok, gout = generate(prop, wd, seed, n, tier, extra_args=prop.harness_args(ctx))
        if not gok:
            violations.append({"kind": "build", "text": "harness run failed: " + gout[-2000:],
                               "found_input": False, "what": "harness " + prop.harness_cmd})
        else:
            results, errors = core.run_shards(wd)
            descs = core.load_descs(wd)
            for e in errors:
                violations.append({"kind": "corr", "text": "coqc failed on shard: " + e,
                                   "found_input": False, "what": "case evaluation (coqc)"})
            for d in descs.values():
                k = d.get("kind", "?")
                hist[k] = hist.get(k, 0) + 1

    # 4. classify
    opens, fixed = core.known_findings()
    open_classes = {o.get("class"): o for o in opens if o.get("property") == pid}
    smask = spec_mask(prop)
    corr_broken, known_hits = [], {}
    for i, (code, known) in sorted(results.items()):
        d = descs.get(i, {"i": i})
        if code & smask or code & 2:
            rp = replay_path(pid, "case%d-seed%d" % (i, seed))
            core.write_json(rp, {"property": pid, "seed": seed, "tier": tier, "n": n, "case": i,
                                 "code": code, "what": names_of(prop, code), "input": d})
            violations.append({"kind": "spec", "replay": rp, "found_input": True,
                               "text": "%s on case %d: %s" % (names_of(prop, code), i, core.short(d))})
        elif code & 1:
            corr_broken.append(i)
        for cname, cbit in prop.classes.items():
            if known & cbit:
                known_hits.setdefault(cname, []).append(i)
    for cname, idxs in known_hits.items():
        if cname not in open_classes:
            i = idxs[0]
            rp = replay_path(pid, "class%s-case%d-seed%d" % (cname, i, seed))
            core.write_json(rp, {"property": pid, "seed": seed, "tier": tier, "n": n, "case": i,
                                 "class": cname, "input": descs.get(i)})
            violations.append({"kind": "spec", "replay": rp, "found_input": True,
                               "text": "violation of class %s which is not listed as open in KNOWN_FINDINGS.txt (case %d)"
                               % (cname, i)})

    # 5. extra exploration (CLI etc.)
    ctx["results"], ctx["descs"] = results, descs
    if hok:
        try:
            for v in prop.extra(ctx):
                violations.append(v)
        except Exception as e:  # a crash of the exploration is a broken check, say so loudly
            violations.append({"kind": "build", "text": "extra exploration crashed: %r" % (e,),
                               "found_input": False, "what": "python exploration of " + pid})

    # 6. search when something broke without a failing input
    searched = 0
    need_search = (corr_broken or any(not v["found_input"] for v in violations)) and \
        not any(v["found_input"] for v in violations)
    if need_search and hok and prop.has_cases:
        for k in range(1, prop.search_seeds + 1):
            s2 = seed * 1000003 + k
            wd2 = workdir(pid, tier, "-search%d" % k)
            sn = max(n, prop.search_n) if tier == "quick" else min(n, 4 * prop.search_n)
            gok, _ = generate(prop, wd2, s2, sn, tier, extra_args=prop.harness_args(ctx))
            if not gok:
                break
            r2, _ = core.run_shards(wd2)
            d2 = core.load_descs(wd2)
            searched += len(d2)
            hit = [(i, c) for i, (c, kn) in sorted(r2.items()) if c & smask]
            if hit:
                i, c = hit[0]
                rp = replay_path(pid, "case%d-seed%d" % (i, s2))
                core.write_json(rp, {"property": pid, "seed": s2, "tier": tier, "n": sn,
                                     "case": i, "code": c, "what": names_of(prop, c), "input": d2.get(i)})
                violations.append({"kind": "spec", "replay": rp, "found_input": True,
                                   "text": "search found %s on case %d: %s" % (names_of(prop, c), i, core.short(d2.get(i)))})
                break
    if corr_broken and not any(v["found_input"] for v in violations):
        i = corr_broken[0]
        violations.append({"kind": "corr", "found_input": False,
                           "what": "correspondence model=implementation (Corr/%s.v check_case), %d cases differ, first case %d: %s"
                           % (pid, len(corr_broken), i, core.short(descs.get(i))),
                           "text": "model and implementation differ on %d cases (first: %d)" % (len(corr_broken), i),
                           "case": {"seed": seed, "tier": tier, "n": n, "case": i, "input": descs.get(i)}})

    # 7. report
    for cname, o in sorted(open_classes.items()):
        hits = known_hits.get(cname, [])
        log("KNOWN-FINDING: property=%s class=%s %s (seen in %d cases this run)"
            % (pid, cname, o.get("what", ""), len(hits)))
    exit_code = 0
    printed = set()
    shown_inputs = 0
    for v in violations:
        if v["found_input"]:
            shown_inputs += 1
            if shown_inputs > 5:
                continue
        if v["found_input"]:
            line = "VIOLATION property=%s replay=%s" % (pid, v["replay"])
        elif any(w["found_input"] for w in violations):
            # a failing input was found: it is the replay; what no longer checks is said beside it
            log("# no longer checks: " + (v.get("what") or "") + " " + v["text"][:1200].replace("\n", "\n# "))
            exit_code = 1
            continue
        else:
            rp = replay_path(pid, "unproved-%s" % v["kind"])
            core.write_json(rp, {"property": pid, "no_longer_checks": v.get("what"), "detail": v["text"],
                                 "case": v.get("case"), "searched_cases": searched})
            line = "VIOLATION property=%s replay=%s no-failing-input-found" % (pid, rp)
        if line not in printed:
            log("# " + v["text"][:1500].replace("\n", "\n# "))
            log(line)
            printed.add(line)
        exit_code = 1

    distinct = set()
    for d in descs.values():
        if prop.nontrivial(d):
            dd = dict(d)
            dd.pop("i", None)
            distinct.add(hashlib.sha1(json.dumps(dd, sort_keys=True).encode()).hexdigest())
    samples = [descs[i] for i in sorted(descs)[:2]] + [descs[i] for i in sorted(descs)[-1:]]
    cov = {
        "obligations": len(theorems),
        "discharged": closed if ok else 0,
        "checker_cmd": "make -C /verif/coq %s (coqc 8.16.1, full .vo build) + Print Assumptions gate%s"
                       % (" ".join(prop.coq_targets), "; coqchk -o" if coqchk_out else ""),
        "trusted_base": GLOBAL_TRUST + prop.trusted_base,
        "theorems": theorems,
        "axioms_reported": axioms,
        "evaluations": len(descs) + ev_cov.get("extra_evaluations", 0),
        "distinct_nontrivial": len(distinct) + ev_cov.get("extra_distinct", 0),
        "rule": prop.rule,
        "samples": [json.loads(core.short(s, 1500)) if len(core.short(s, 1500)) < 1500 else core.short(s, 1500)
                    for s in samples] or ["(no generated cases)"],
        "case_kinds": hist,
        "correspondence_disagreements": len(corr_broken),
        "spec_violations": sum(1 for v in violations if v["found_input"]),
        "known_class_hits": {k: len(v) for k, v in known_hits.items()},
        "search_cases": searched,
        "notes": notes,
    }
    if coqchk_out:
        cov["coqchk"] = coqchk_out[-1500:]
    if cov["discharged"] == 0:
        # the evidence schema wants discharged >= 1 for a proof: a run whose proofs did not build reports its
        # exploration counts instead and says so
        del cov["discharged"]
        cov["proof_build"] = "failed: the property's Coq targets did not build or a theorem is not closed (0 of %d discharged)" % len(theorems)
    cov.update({k: v for k, v in ev_cov.items() if k not in cov})
    core.write_json(os.path.join(core.VERIF, "evidence", pid + ".json"), {
        "property_id": pid, "tier": tier, "seed": seed, "level": prop.level,
        "coverage": cov, "assumptions": prop.assumptions, "wall_s": round(time.time() - t0, 2),
        "violations": sum(1 for v in violations),
    })
    log("%s %s: %d theorems (%d closed), %d cases, %d violations, %.1fs"
        % (pid, tier, len(theorems), closed, len(descs), len(violations), time.time() - t0))
    return exit_code


def do_replay(prop, path):
    r = json.load(open(path))
    log("replay of %s: %s" % (path, core.short(r, 3000)))
    if r.get("case") is None or isinstance(r.get("case"), dict) and r["case"] is None:
        log("(no concrete input recorded: this replay names what no longer checks)")
        return 0
    c = r if "seed" in r else r["case"]
    if isinstance(c.get("case"), dict):
        c = c["case"]
    core.build_harness()
    core.coq_build(prop.coq_targets, prop.props_file)
    wd = workdir(prop.id, "replay")
    generate(prop, wd, c["seed"], c["n"], c.get("tier", "quick"), only=c["case"])
    results, errors = core.run_shards(wd)
    descs = core.load_descs(wd)
    for i, d in descs.items():
        code, known = results.get(i, (0, 0))
        log("case %d: code=%d %s known-mask=%d" % (i, code, names_of(prop, code), known))
        log("input/implementation output: " + json.dumps(d, indent=1, ensure_ascii=False)[:6000])
    for e in errors:
        log("coqc error: " + e)
    return 1 if any(c & ~0 for c, _ in results.values()) else 0
