"""Per-property configuration."""
from .runner import Prop


class C15(Prop):
    id = "C15"
    coq_targets = ["Properties/C15.vo", "Corr/C15.vo"]
    props_file = "Properties/C15.v"
    harness_cmd = "c15"
    n = {"quick": 600, "thorough": 12000}
    bits = {4: "effective globals differ from 'derived overrides base, removed removes'",
            8: "lua_versions: the derived library's versions did not replace the base's"}
    rule = ("shipped chains (from_name vs fold of the raw YAML files) + generated pairs / base chains (len<=4) / "
            "`+` folds over keys {a,b,c,*}^<=3 with every field kind incl. removed, with/without lua_versions; "
            "non-trivial = the libraries share a key, or one marks a key removed, or both declare versions; "
            "distinct = distinct case descriptions")
    trusted_base = [
        "modelled: StandardLibrary::extend, from_builtin_name recursion, the CLI `+` fold (Std/Extend.v)",
        "not modelled: YAML text layer, file lookup of base names on disk (selene/src/standard_library.rs from_name)",
        "BTreeMap = association list without duplicate keys (wf_lib evaluated on every dumped library)",
    ]
    assumptions = ["wf_lib (no duplicate keys) for every library; holds for any BTreeMap"]

    def nontrivial(self, d):
        if d.get("kind") == "pair":
            return d.get("shared_keys", 0) > 0 or d.get("removed", 0) > 0 or d.get("both_versions")
        return True


from .c19 import C19  # noqa: E402
from .c16 import C16  # noqa: E402

ALL = {c.id: c for c in [C15, C16, C19]}
