"""Per-property configuration."""
from .runner import Prop


def _lint_table():
    from . import translate
    return translate.lint_table()


class C08(Prop):
    id = "C08"
    coq_targets = ["Properties/C08.vo", "Corr/C08.vo"]
    props_file = "Properties/C08.v"
    harness_cmd = "c08"
    n = {"quick": 500, "thorough": 8000}
    bits = {4: "a diagnostic is kept/dropped/relabelled differently from 'innermost covering filter for its lint, else the global one, else unchanged'",
            8: "invalid_lint_filter diagnostics differ from 'unknown lint / global after code / same piece of code already filtered'",
            16: "a well-formed filter comment directly before the first token of a piece of code (statement, expression, variable, call, field, parameter, ...) is claimed by no node: it is ignored silently"}
    rule = ("three case families per seed: parse_comment on generated comment texts (valid, mangled, Unicode spaces); end to end: "
            "generated programs with 0-2 filter comments per statement (inline, comma list, block comment, global, before else/end, "
            "inside expressions, at EOF, CRLF) checked by the real Checker against the same bytes with the filters neutralised; "
            "machine: the real filter_diagnostics driven with random diagnostic lists whose starts sit on every range endpoint +-1; "
            "non-trivial = at least one accepted filter and one diagnostic; distinct = distinct descriptions")
    trusted_base = [
        "modelled verbatim: filter_diagnostics (Filter/Machine.v), parse_comment and FilterVisitor::visit_node (Filter/Comment.v)",
        "hook (cfg selene_verif): lint_filtering::verif exposes filter ranges, parse_comment, visit events, filter_diagnostics",
        "full_moon trivia attachment and traversal order are taken from the real traversal (visit events), wf_filters is evaluated on every dump; "
        "which tokens begin a piece of code (so that a filter comment before them must be claimed) is decided by the harness's own full_moon Visitor "
        "(harness/src/c08.rs: Pieces), not by selene's NodeVisitor; first_code is measured by the harness",
        "Vec::sort_by_key is a stable sort (modelled as stable insertion sort)",
        "the hypothesis wf_ok of C08_filter_correct (ranges ordered; no end point of an earlier same-range run inside a later run; same-range filters consecutive) is evaluated on every dumped filter list: it is what real traversals produce, not proved of full_moon",
        "Generated/LintTable.v regenerated from use_lints! on every run",
    ]
    assumptions = ["wf_ok of the dumped filter list (Filter/Correct7.v)"]

    def __init__(self):
        self.translators = [_lint_table]


class C09(C08):
    id = "C09"
    classes = {"F2": 1}
    coq_targets = ["Properties/C09.vo", "Corr/C08.vo"]
    props_file = "Properties/C09.v"


class C10(Prop):
    id = "C10"
    coq_targets = ["Properties/C10.vo", "Corr/C10.vo"]
    props_file = "Properties/C10.v"
    harness_cmd = "c10"
    n = {"quick": 400, "thorough": 6000}
    bits = {4: "with inline filters: what is visible under the configuration differs from pipeline(found, severities, filters)",
            8: "without filters: what is visible under the configuration differs from 'same findings, relabelled; allow invisible'"}
    rule = ("generated filter programs and the repository's own fixtures x configurations (all-allow, all-warn, all-deny, random "
            "{unset, allow, warn, deny} per lint over all 32 lints); for each: the findings under the empty configuration of the "
            "filter-neutralised twin, the real test_on of the file and of the twin under the configuration; non-trivial = at least "
            "one finding; distinct = distinct descriptions")
    trusted_base = [
        "modelled: get_lint_severity, the order severities are attached and filtering runs (Pipeline/Severity.v on top of Filter/Machine.v)",
        "lints are oracles: the findings of a file are taken from the real lints under the empty configuration",
        "Generated/LintTable.v (names, default severities) regenerated from /repo on every run",
        "CLI-side dropping of Allow diagnostics is the C19 model (Pipeline/Exit.v), exercised there with allow configurations",
    ]
    assumptions = ["every diagnostic code equals the name of the lint that produced it (checked per case)"]

    def __init__(self):
        self.translators = [_lint_table]


SCOPE_TRUST = [
    "modelled: the whole ScopeVisitor (Scope/Events.v: the order full_moon's Visitor drives the hooks; Scope/Interp.v: scope stack, arenas, captured_references, merge, try_hoist), undefined_variable and shadowing (Lints/ScopeLints.v)",
    "specification: Lua 5.1 scoping as an independent resolver (Scope/LuaEvents.v, Scope/Spec.v) with the known classes computed by the specification itself",
    "the syntax tree is taken from full_moon (harness/src/astdump.rs prints it as a Gallina term); programs outside the Lua 5.1 fragment are skipped",
    "PENDING PROOF: model-satisfies-specification outside the known classes (env_agrees) is evaluated on every case, not yet proved",
    "unused_variable is modelled (Lints/Unused.v) over the model's arenas, the tree (Variable.value, Reference.indexing, within_function_stmt are "
    "recomputed from it) and the library (Std/FindGlobal.v); its verdicts are compared with the real ones declaration by declaration; the "
    "ignore_pattern regex is evaluated by the harness (the set of matching variable names is passed to the model)",
]


class C01(Prop):
    id = "C01"
    coq_targets = ["Properties/C01.vo", "Corr/C01.vo"]
    props_file = "Properties/C01.v"
    harness_cmd = "c01"
    n = {"quick": 1200, "thorough": 30000}
    search_seeds = 2
    search_n = 1500
    bits = {4: "undefined_variable reported on an identifier Lua binds to a local/parameter/loop variable/self, a library name, a global assigned in the outermost block, or the main chunk's `...`",
            8: "a read of a name with no visible binding, absent from the library and never assigned is not reported exactly once"}
    classes = {"K1": 1, "K2": 2, "K3": 4, "K4": 8, "K5": 16}
    rule = ("grammar-directed Lua 5.1 programs over a pool of 3-6 reused names plus library roots and unknown globals: every "
            "statement kind, nesting <= 4, multi-name locals with missing/surplus expressions, closures in initialisers and "
            "loop headers, methods, varargs, global assignments at every depth, empty else arms, arms that are a `return` only, "
            "locals initialised with table constructors, static-name / dynamic writes into them, library call statements "
            "(`table.insert`, `rawset`, ...) with bare-identifier arguments, `table` sometimes a script name; a fifth of the cases are small "
            "programs aimed at unused_variable (one or two locals, 22 statement shapes, `table` shadowed by a local or parameter, the library's "
            "`table` used before or after); unused_variable runs under 8 (ignore_pattern, allow_unused_self) settings; the real ScopeManager "
            "(every reference and variable, arena order) and the three lints' diagnostics are compared with the model and "
            "judged by the specification's zones; non-trivial = at least one variable and two references; distinct = distinct sources")
    trusted_base = SCOPE_TRUST
    assumptions = ["lua51 standard library roots as the 'supplied by the library' oracle (lookup itself is C06)"]

    def extra(self, ctx):
        # how many generated programs lie in the fragment covered by theorem C01_never_reports_locals
        res = ctx.get("results", {})
        inside = sum(1 for (_c, k) in res.values() if k & (1 << 40))
        ctx["cov"]["theorem_fragment"] = {"cases_inside_fragment": inside, "cases_evaluated": len(ctx.get("descs", {})),
                                          "fragment": "every program whose declared names are not literally `...` (Scope/GFragment.v gok_block)"}
        return []


class C02(C01):
    id = "C02"
    coq_targets = ["Properties/C02.vo", "Corr/C01.vo"]
    props_file = "Properties/C02.v"
    bits = {64: "unused_variable flags a local/parameter/loop variable that an (unaffected) expression-position occurrence uses",
            128: "a local/parameter/loop variable never mentioned again is not flagged",
            256: "unused_variable's verdict on a declaration differs from the documented rule (Lints/Unused.v: a reading reference is a use, "
                 "except a bare argument the library declares `observes: write` of a call statement to an unshadowed library function, for a local "
                 "initialised with a table constructor; static-name writes into such a table are not uses)"}
    classes = {"K1": 1 << 10, "K2": 2 << 10, "K3": 4 << 10, "K4": 8 << 10, "KA": 128 << 10, "K8": 256 << 10}


class C03(C01):
    id = "C03"
    coq_targets = ["Properties/C03.vo", "Corr/C01.vo"]
    props_file = "Properties/C03.v"
    bits = {16: "a shadowing report whose secondary label is not the innermost visible same-name declaration",
            32: "a declaration re-using the name of a visible local/parameter/loop variable is not reported"}
    classes = {"K3": 4 << 20, "K7": 64 << 20}


class C14(Prop):
    id = "C14"
    coq_targets = ["Properties/C14.vo", "Corr/C14.vo"]
    props_file = "Properties/C14.v"
    harness_cmd = "c14"
    n = {"quick": 700, "thorough": 12000}
    search_seeds = 2
    bits = {4: "the renamed twin's diagnostics are not the original's moved by the induced position shift (names inside messages substituted back)"}
    rule = ("generated Lua 5.1 programs, filter programs, templates and the repository's fixtures; one script-introduced name (a "
            "variable of the scope analysis, not a library name / field, not reserved, not ignored, not a string literal of the file) "
            "is renamed at every variable-position token to a fresh longer name; all lints run on both; the multiset of "
            "(code, range, secondary ranges, message+notes) must match after moving positions; for half of the cases the twin's "
            "syntax tree is also checked to be map_block of the original and the scope model to be equivariant on it; "
            "non-trivial = at least one diagnostic and two renamed occurrences; distinct = distinct descriptions")
    trusted_base = SCOPE_TRUST[:3] + [
        "proved: scope analysis, undefined_variable and shadowing reports commute with injective renamings (Scope/EquivInterp.v, Lints/ScopeLintsEquiv.v)",
        "all other lints: metamorphic testing only (labelled as such)",
        "the renaming transformation is implemented in the harness (token-level) and validated against map_block on the dumped trees",
    ]
    assumptions = ["rho injective, fixes `...` and `self`, keeps library-root and ignore-pattern status"]


class C13(Prop):
    id = "C13"
    coq_targets = ["Properties/C13.vo", "Corr/C13.vo"]
    props_file = "Properties/C13.v"
    harness_cmd = "c13"
    n = {"quick": 900, "thorough": 15000}
    search_seeds = 2
    bits = {4: "the trivia-rewritten twin's diagnostics are not the original's moved by the induced position shift"}
    classes = {}
    rule = ("systematic: every template program x every token x {space, block comment} inserted after the token; random: generated "
            "programs, filter programs, templates, fixtures with 1-4 insertions (space / tab / block comment before or after a token, "
            "blank or comment line before a line) that neither join nor split lines of code; all lints (lua51 extended with "
            "deprecated globals and a deprecated parameter) run on both; diagnostics matched pairwise after moving positions "
            "(an end point exactly at an insertion may or may not move); non-trivial = at least one diagnostic; distinct = distinct descriptions")
    trusted_base = SCOPE_TRUST[:3] + [
        "proved: scope analysis, undefined_variable and shadowing reports commute with every injective map on byte ranges",
        "all other lints: metamorphic testing only (labelled as such)",
        "comments_count options of empty_if / empty_loop are left at their default (off)",
    ]
    assumptions = ["insertions keep statements on their lines"]


class C07(Prop):
    id = "C07"
    coq_targets = ["Properties/C07.vo", "Corr/C07.vo"]
    props_file = "Properties/C07.v"
    harness_cmd = "c07"
    n = {"quick": 400, "thorough": 1}
    search_seeds = 1
    search_n = 800
    bits = {4: "incorrect_standard_library_use / deprecated / must_use reported on a use inside the scope of a re-binding",
            8: "a use outside the binding's scope is linted differently from the same program with the binding blanked out"}
    classes = {}
    rule = ("matrix: 12 library roots (functions, tables, must_use / deprecated members, deprecated parameters) x 9 binding "
            "constructs (local with/without value, multi-name local, local function, parameter of a local function / of a function "
            "expression, numeric for, generic for first/second name) x 28 use shapes (read, field, deep field, call statement, field "
            "call, method call, assignments, deprecated member, bad argument, nil argument, nested argument, multiple assignment, "
            "table-call argument, table constructor fields and keys, operands, method arguments, parenthesised prefix, string call, loop condition, for bounds, closure body), each "
            "inside and outside the scope; quick samples the matrix (every binding x use pair at least once), thorough enumerates all "
            "3024 combinations; the scope model's gate is evaluated on both trees; non-trivial = the blanked-out baseline has a diagnostic")
    trusted_base = SCOPE_TRUST[:3] + [
        "proved: the gate drops exactly the nodes whose leading identifier resolved; renaming a binding away preserves every resolution status",
        "the three lints' visit lists are oracles (what they say at a node is not modelled here; C05/C06 model the checks themselves)",
    ]
    assumptions = ["library = lua51 extended with deprecated globals and a deprecated parameter"]


class C04(Prop):
    id = "C04"
    coq_targets = ["Properties/C04.vo", "Corr/C04.vo"]
    props_file = "Properties/C04.v"
    harness_cmd = "c04"
    n = {"quick": 1500, "thorough": 30000}
    search_seeds = 3
    search_n = 3000
    classes = {"L2": 1}
    bits = {4: "a modelled lint reported code on which its documented condition (literals judged by value, code compared by its tokens) is false",
            8: "a modelled lint did not report its canonical pattern in some enclosing context",
            16: "a lint's verdict on a positive / negative template differs from the documented one"}
    rule = ("(1) divide_by_zero / compare_nan / suspicious_reverse_loop / empty_if / empty_loop / unbalanced_assignments / mixed_table / "
            "duplicate_keys / parenthese_conditions / constant_table_comparison / type_check_inside_call: documented "
            "patterns and near misses with zeros and loop ends in every spelling (decimal, float, exponent, hex, leading zeros) and "
            "operands from a small expression grammar, each embedded in one of 8 enclosing contexts, optionally after a generated "
            "program; whole tree dumped, diagnostics counted per code; (2) mismatched_arg_count: 7 parameter lists x 0-4 arguments of 8 "
            "kinds (calls and `...` in every position) + string/table call sugar; (3) 44 positive/negative templates of the lints outside "
            "the first group, in the same contexts; (4) bad_string_escape: quoted literals assembled from escape pieces (every "
            "escape kind, hex runs, braces, non-ASCII characters and digits) under lua51 and the Roblox base library; "
            "(5) ifs_same_cond / if_same_then_else / almost_swapped: if-chains with 0-3 elseifs and optional else whose conditions and "
            "blocks are drawn from small pools (26 conditions: calls in operands, in bracket indices, in table constructors, inside "
            "function bodies; 14 blocks incl. return-only and empty ones) and re-spelled with different trivia, and runs of single / "
            "multiple assignments over 10 targets, in 9 enclosing contexts, optionally after a generated program; (6) multiple_statements: "
            "statements, one-line and multi-line ifs, loops, nested function arguments and returns laid out with random separators "
            "(space, newline, `;`) under the three one_line_if settings, the visit-ordered (end line, then-line) events measured with "
            "full_moon and run through the model; non-trivial = all except (5)/(6) cases without a diagnostic; distinct = distinct sources")
    trusted_base = [
        "modelled: the twelve lints named above over the dumped syntax tree (Lints/Closed.v) and the scan of bad_string_escape over a literal's bytes (Lints/Escape.v, (4)); nodes_* enumerates what full_moon's "
        "Visitor reaches; diagnostics are compared by count per code, not by range",
        "modelled: ifs_same_cond, if_same_then_else, almost_swapped and has_side_effects (Lints/Same.v); full_moon's Node::similar is modelled as "
        "equality of the token texts in source order (separators of punctuated lists spelled canonically); the optional `;` after a statement is "
        "not in the tree: chunks with one are flagged by the harness and only checked for over-reporting",
        "modelled: multiple_statements as a machine over (end line, then-line, block shape) events (Lints/Lines.v); the events themselves are "
        "measured from full_moon's positions by the harness with the same accessors the lint uses - line arithmetic is not modelled",
        "f32 rounding is not modelled: loop ends within 2^-24 of 1 are not generated",
    ]
    assumptions = ["empty_if / empty_loop run with comments_count = false (the default)"]


class C05(Prop):
    id = "C05"
    coq_targets = ["Properties/C05.vo", "Corr/C05.vo"]
    props_file = "Properties/C05.v"
    harness_cmd = "c05"
    n = {"quick": 1600, "thorough": 40000}
    search_seeds = 3
    search_n = 3000
    classes = {"S3": 1, "S4": 2, "S5": 4}
    bits = {4: "`.`/`:` misuse reported although the call style matches the definition, or not reported although it differs",
            8: "parameter-count problem reported for a number of arguments inside the allowed range, or not reported outside it",
            16: "type problem reported for an argument without a definite type, or whose type / string content the declared parameter accepts",
            32: "the content taken from a string token differs from the tokenizer's"}
    rule = ("one call per case: generated libraries (functions at global, nested and struct-method positions; 0-4 parameters "
            "with every mix of required / optional / vararg / constant-list / display types, ordered and unordered) and "
            "functions picked from lua51 / lua52 / luau; call style right or wrong; 0..total+2 arguments or string-call / "
            "table-call sugar; arguments: every literal kind and spelling (decimal/hex/exponent numbers, ' \" [[ ]] [=[ ]=] "
            "strings incl. first-newline and escapes, constants of the declared list), variables, calls, `...`, parentheses, "
            "unary and binary operators; diagnostics of the real lint parsed back into problems; non-trivial = every case; "
            "distinct = distinct (definition, source)")
    trusted_base = [
        "modelled: get_argument_type, PassedArgumentType and the body of visit_function_call after the definition was found (Std/CallCheck.v); "
        "finding the definition is C06's model; the definition is taken from StandardLibrary::find_global",
        "message parsing in harness/src/c05.rs (`requires E parameters, P passed`, `received `T``, argument index by label range); "
        "a diagnostic that cannot be parsed back breaks the correspondence bit",
        "the syntax tree is taken from full_moon (astdump.rs); string content oracle: full_moon's StringLiteral.literal",
        "Lua 5.1 expression fragment (no Luau if-expressions / interpolated strings / type assertions)",
    ]
    assumptions = ["a string token's denoted content is the tokenizer's literal when it has no escapes"]


class C06(Prop):
    id = "C06"
    coq_targets = ["Properties/C06.vo", "Corr/C06.vo"]
    props_file = "Properties/C06.v"
    harness_cmd = "c06"
    n = {"quick": 700, "thorough": 15000}
    bits = {4: "find_global result contradicts the documented resolution rules (explicit entry wins / prefix = read-only table / absent otherwise / total on closed libraries / known root resolves)",
            8: "a read of a field is reported (or not) against the rule 'absent field of a known global, no prefix grants new fields'",
            16: "assignment targets are not judged independently of their position / against the writability table"}
    rule = ("generated libraries over segments {a,b,c,*} depth<=3 (4 in thorough), all field kinds, structs referring to structs, "
            "dangling struct names; queries: keys / prefixes / extensions of keys with wildcards instantiated, and random paths "
            "over {a,b,c,d} of depth 1..5; programs `local _ = path` and multiple assignments mixing library paths, locals, "
            "fields of locals and call results; non-trivial = more than one key / more than one target; distinct = distinct descriptions")
    trusted_base = [
        "modelled: find_global, global_has_fields, lint_invalid_field_access, visit_assignment (Std/FindGlobal.v, Std/FieldAccess.v)",
        "the trie of extract_into_tree is modelled extensionally (node exists at p iff some key has prefix p); its construction is covered by the correspondence only",
        "name-path extraction from the AST and reference resolution are exercised through generated programs, not modelled here (C07/C13)",
    ]
    assumptions = ["wf_lib (no duplicate keys); query paths are non-empty and contain no '.'"]


class C17(Prop):
    id = "C17"
    coq_targets = ["Properties/C17.vo", "Corr/C17.vo"]
    props_file = "Properties/C17.v"
    harness_cmd = "c17"
    n = {"quick": 500, "thorough": 10000}
    search_seeds = 2
    bits = {4: "writing a library and reading it back (value level or YAML text) does not yield an equal library",
            8: "a document was accepted whose re-serialisation does not load back to the same library"}
    rule = ("shipped libraries + generated libraries with every field kind, argument type, required-with-message, observes, deprecated "
            "with replace patterns, structs, roblox classes, wildcard / numeric-looking / dotted keys and YAML-hostile strings "
            "(true false null ~ 1e3 0x1 leading/trailing space `a: b` # * & multi-line non-ASCII empty `- a` yes no quotes); for each: "
            "to_value vs ser_lib, from_value vs de_lib, to_string -> from_str equality; plus 1-3 random mutations of the serialised value "
            "(drop / retype / add keys) through from_value vs de_lib and accept => re-serialise => reload; plus `selene upgrade-std` on "
            "generated v1 TOML; non-trivial = at least one global; distinct = distinct descriptions")
    trusted_base = [
        "modelled: the derive semantics actually used (defaults, skip_serializing_if, deny_unknown_fields, flatten, untagged enum tried in order, TrueOnly, visitors) at serde's value level (Std/Serde.v)",
        "not modelled: serde_yaml's and toml's text layers (sampled with hostile strings), serde's derive machinery itself",
        "v1 -> v2 field-tree flattening (v1_upgrade.rs) enters the theorem as an arbitrary function; it is exercised through the CLI",
    ]
    assumptions = ["wf_slib: no LuaVersion::Unknown carrying a known version name"]
    needs_bin = True

    def extra(self, ctx):
        from . import c17cli
        return c17cli.run(ctx)


from .c19 import C19  # noqa: E402
from .c15 import C15  # noqa: E402
from .c16 import C16  # noqa: E402
from .c18 import C18  # noqa: E402
from .c20 import C20  # noqa: E402
from .c12 import C12  # noqa: E402
from .c11 import C11  # noqa: E402

ALL = {c.id: c for c in [C01, C02, C03, C04, C05, C06, C07, C08, C09, C10, C11, C12, C13, C14, C15, C16, C17, C18, C19, C20]}
