"""Per-property configuration."""
from .runner import Prop


class C15(Prop):
    id = "C15"
    coq_targets = ["Properties/C15.vo", "Corr/C15.vo"]
    props_file = "Properties/C15.v"
    harness_cmd = "c15"
    n = {"quick": 600, "thorough": 12000}
    bits = {4: "effective globals differ from 'derived overrides base, removed removes'",
            8: "lua_versions: the derived library's versions did not replace the base's"}
    rule = ("shipped chains (from_name vs fold of the raw YAML files) + generated pairs / base chains (len<=4) / "
            "`+` folds over keys {a,b,c,*}^<=3 with every field kind incl. removed, with/without lua_versions; "
            "non-trivial = the libraries share a key, or one marks a key removed, or both declare versions; "
            "distinct = distinct case descriptions")
    trusted_base = [
        "modelled: StandardLibrary::extend, from_builtin_name recursion, the CLI `+` fold (Std/Extend.v)",
        "not modelled: YAML text layer, file lookup of base names on disk (selene/src/standard_library.rs from_name)",
        "BTreeMap = association list without duplicate keys (wf_lib evaluated on every dumped library)",
    ]
    assumptions = ["wf_lib (no duplicate keys) for every library; holds for any BTreeMap"]

    def nontrivial(self, d):
        if d.get("kind") == "pair":
            return d.get("shared_keys", 0) > 0 or d.get("removed", 0) > 0 or d.get("both_versions")
        return True


class C06(Prop):
    id = "C06"
    coq_targets = ["Properties/C06.vo", "Corr/C06.vo"]
    props_file = "Properties/C06.v"
    harness_cmd = "c06"
    n = {"quick": 700, "thorough": 15000}
    bits = {4: "find_global result contradicts the documented resolution rules (explicit entry wins / prefix = read-only table / absent otherwise / total on closed libraries / known root resolves)",
            8: "a read of a field is reported (or not) against the rule 'absent field of a known global, no prefix grants new fields'",
            16: "assignment targets are not judged independently of their position / against the writability table"}
    rule = ("generated libraries over segments {a,b,c,*} depth<=3 (4 in thorough), all field kinds, structs referring to structs, "
            "dangling struct names; queries: keys / prefixes / extensions of keys with wildcards instantiated, and random paths "
            "over {a,b,c,d} of depth 1..5; programs `local _ = path` and multiple assignments mixing library paths, locals, "
            "fields of locals and call results; non-trivial = more than one key / more than one target; distinct = distinct descriptions")
    trusted_base = [
        "modelled: find_global, global_has_fields, lint_invalid_field_access, visit_assignment (Std/FindGlobal.v, Std/FieldAccess.v)",
        "the trie of extract_into_tree is modelled extensionally (node exists at p iff some key has prefix p); its construction is covered by the correspondence only",
        "name-path extraction from the AST and reference resolution are exercised through generated programs, not modelled here (C07/C13)",
    ]
    assumptions = ["wf_lib (no duplicate keys); query paths are non-empty and contain no '.'"]


from .c19 import C19  # noqa: E402
from .c16 import C16  # noqa: E402

ALL = {c.id: c for c in [C06, C15, C16, C19]}
