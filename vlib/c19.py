"""C19: CLI exit status / totals / exclude, observed on the real binary vs Pipeline/Exit.v."""
import os
import random
import shutil

from . import cli, core
from .runner import Prop

FILES = {
    "clean.lua": "print(1)\n",
    "warn.lua": "local x = 1\n",
    "warn2.lua": "local x = 1\nlocal y = 2\n",
    "err.lua": "print(undefined_thing)\n",
    "mixed.lua": "local x = 1\nprint(undefined_thing)\n",
    "parse.lua": "local = \n",
    "parse1.lua": "x = = 1\n",
    "tok_string.lua": "local s = \"unclosed\n",
    "tok_comment.lua": "print(1)\n--[[ unclosed\n",
    "tok_char.lua": "local y = 3 $ 4\n",
    "tok_number.lua": "local x = 0x\n",
    "sub/tok.lua": "local s = 'unclosed\n",
    "sub/mod.luau": "print(undefined_thing)\nlocal w = 1\n",
    "vendor/mod.luau": "print(undefined_thing)\n",
    "empty.lua": "",
    "ex_warn.lua": "local x = 1\n",
    "ex_err.lua": "print(undefined_thing)\n",
    "ex_parse.lua": "local = \n",
    "sub/clean.lua": "print(2)\n",
    "sub/warn.lua": "local z = 1\n",
    "sub/ex_err.lua": "print(undefined_thing)\n",
    "sub/deep/err.lua": "print(undefined_thing)\n",
    "ex_dir/plain.lua": "print(undefined_thing)\n",
    "vendor/bad.lua": "print(undefined_thing)\n",
    "vendor/ok.lua": "print(1)\n",
    "luau_panic.lua": "local x = 5 & 3\n",
    "notlua/readme.txt": "not lua\n",
}
# written as bytes: not valid UTF-8 (read lossily, so it is linted like any other file)
FILES_BIN = {"latin1.lua": b'local x = "caf\xe9"\nprint(undefined_thing)\n', "latin1_warn.lua": b'local caf = "\xe9\xe8"\n'}
# options selene does not have, which are prefixes of ones it has: ignored in luacheck mode, whatever else is on the line
UNKNOWN_OPTS = ["--allow", "--no", "--formatter=plain", "--codes", "--num", "--display"]
MISSING = ["nope.lua", "ex_nope.lua", "sub/nope.lua", "vendor_missing"]
# directories whose name ends in .lua: a directory walk lists them and reading them fails (EISDIR) - the one
# "unreadable file" that can be produced when running as root
UNREADABLE = ["sub/isdir.lua", "sub/deep/isdir.lua", "ex_dir/isdir.lua"]
DIRS = ["sub", "ex_dir", "vendor", "sub/deep", "notlua"]
EXCLUDE = ["*ex_*", "vendor"]

CONFIGS = [
    ("default", ""),
    ("allow_unused", '[lints]\nunused_variable = "allow"\n'),
    ("deny_unused", '[lints]\nunused_variable = "deny"\n'),
    ("warn_undefined", '[lints]\nundefined_variable = "warn"\n'),
    ("allow_both", '[lints]\nunused_variable = "allow"\nundefined_variable = "allow"\n'),
    ("luau", 'std = "luau"\n'),
]


def excluded(path):
    return "ex_" in path or path == "vendor"


def outcome_term(o):
    if o.get("panic"):
        return "Panics"
    if o.get("parse_errors") is not None:
        return "(ParseFail %s)" % cli.gN(o["parse_errors"])
    sev = [d["severity"] for d in o["diags"]]
    return "(Linted %s %s %s)" % (cli.gN(sev.count("Error")), cli.gN(sev.count("Warning")), cli.gN(sev.count("Allow")))


class C19(Prop):
    id = "C19"
    coq_targets = ["Properties/C19.vo", "Corr/C19.vo"]
    props_file = "Properties/C19.v"
    harness_cmd = None
    needs_bin = True
    n = {"quick": 260, "thorough": 4000}
    search_seeds = 2
    search_n = 400
    bits = {4: "exit status is not 0 exactly when nothing (or only warnings with --allow-warnings) was reported",
            8: "printed totals differ from the number of diagnostics printed per severity (+1 per missing file)"}
    rule = ("random argument lists (files, directories, missing paths; clean/warning/error/parse-error/panicking "
            "contents; names matching / not matching `exclude`; standard input `-` fed with a pool file's bytes, two of them not valid UTF-8; "
            "in luacheck mode unknown options that are prefixes of real ones) x 6 configurations x --allow-warnings x --no-exclude x "
            "--no-summary x 5 output modes x num-threads; per-file outcomes come from Checker::test_on through the "
            "harness, exit status/summary/printed diagnostics from the real binary; plus `validate-config` on valid and invalid configurations in every style, from a file and from stdin (status 0 exactly when valid); non-trivial = at least one "
            "problem file or exclusion involved; distinct = distinct (args, options, config)")
    trusted_base = [
        "modelled: counting, exclusion order and exit arithmetic of selene/src/main.rs (Pipeline/Exit.v)",
        "per-file outcomes are taken from Checker::test_on/parse_fallible via the harness (lints are oracles here)",
        "exclusion flags: patterns `*ex_*` and `vendor` only, whose globset meaning is substring / exact match",
        "not reachable in this sandbox: unreadable files (root ignores permissions), glob errors during a directory walk",
        "output parsers for quiet/rich/json/json2/luacheck in vlib/cli.py",
    ]
    assumptions = ["per-file outcome observed through the library equals what the worker thread computes",
                   "ThreadPool::panic_count counts each panicking job once"]

    def nontrivial(self, d):
        return d.get("nontrivial", True)

    def extra(self, ctx):
        """`selene validate-config`: status 0 exactly when the configuration is valid, in every style, from a file or from stdin"""
        rnd = random.Random(ctx["seed"] + 19)
        wd = os.path.join(core.CACHE, "work", "C19-validate")
        shutil.rmtree(wd, ignore_errors=True)
        good = ['std = "lua51"\n', 'std = "lua52"\n[lints]\nunused_variable = "allow"\n', '', 'std = "luau"\nexclude = ["x"]\n']
        # (lint names and lint settings are not part of what validate-config looks at on the pinned tree: left out)
        bad = ['std = "nosuchstd"\n', 'std = "lua51+nosuchstd"\n', 'std = \n', 'std = "lua51"\nunknown_key = 1\n', '[lints]\nunused_variable = "maybe"\n']
        out, runs = [], 0
        for i in range(10 if ctx["tier"] == "quick" else 80):
            pd = os.path.join(wd, str(i))
            os.makedirs(pd, exist_ok=True)
            valid = rnd.random() < 0.4
            text = rnd.choice(good if valid else bad)
            style = rnd.choice([[], [], ["--display-style", "quiet"], ["--display-style", "json2"], ["--display-style", "json"]])
            use_stdin = rnd.random() < 0.4
            if not use_stdin:
                open(os.path.join(pd, "selene.toml"), "w").write(text)
            args = ["validate-config"] + style + (["--stdin"] if use_stdin else [])
            rc, so, se = cli.run_selene(pd, args, stdin=text.encode() if use_stdin else b"")
            runs += 1
            if (rc == 0) != valid:
                rp = os.path.join(core.VERIF, "replays", "C19-validate-%d-seed%d.json" % (i, ctx["seed"]))
                core.write_json(rp, {"property": "C19", "kind": "validate-config", "config": text, "args": args,
                                     "valid": valid, "exit": rc, "stdout": so[-800:], "stderr": se[-800:]})
                out.append({"kind": "spec", "replay": rp, "found_input": True,
                            "text": "validate-config exits %d on a configuration that is %s" % (rc, "valid" if valid else "invalid")})
        ctx["cov"]["validate_config_runs"] = runs
        shutil.rmtree(wd, ignore_errors=True)
        return out

    def generate(self, wd, seed, n, tier, only):
        rnd = random.Random(seed)
        proj_root = os.path.join(wd, "proj")
        items = []
        outcomes = {}
        for cname, ctext in CONFIGS:
            pd = os.path.join(proj_root, cname)
            for rel, text in FILES.items():
                p = os.path.join(pd, rel)
                os.makedirs(os.path.dirname(p), exist_ok=True)
                open(p, "w").write(text)
            for rel, data in FILES_BIN.items():
                open(os.path.join(pd, rel), "wb").write(data)
            for rel in UNREADABLE:
                os.makedirs(os.path.join(pd, rel), exist_ok=True)
            open(os.path.join(pd, "selene.toml"), "w").write(
                ctext.split("[lints]")[0] + "exclude = %s\n" % str(EXCLUDE).replace("'", '"') +
                ("[lints]" + ctext.split("[lints]")[1] if "[lints]" in ctext else ""))
            lua = [f for f in FILES if f.endswith(".lua") or f.endswith(".luau")] + sorted(FILES_BIN)
            outcomes[cname] = cli.harness_lint(pd, os.path.join(pd, "selene.toml"), lua)
            if "__error__" in outcomes[cname]:
                raise RuntimeError("harness lint failed: %r" % outcomes[cname]["__error__"])
        for i in range(n):
            cname, _ = CONFIGS[rnd.randrange(len(CONFIGS))]
            pd = os.path.join(proj_root, cname)
            oc = outcomes[cname]
            k = rnd.choice([1, 1, 2, 3, 4, 6])
            args, entries, desc_entries = [], [], []
            pool = [f for f in FILES if f.endswith(".lua") and (cname == "luau" or f != "luau_panic.lua")] + sorted(FILES_BIN)
            for _ in range(k):
                r = rnd.random()
                if r < 0.62:
                    f = rnd.choice(pool)
                    args.append(f)
                    entries.append("(EFile {| f_excluded := %s; f_outcome := %s |})"
                                   % (cli.gbool(excluded(f)), outcome_term(oc[f])))
                elif r < 0.78:
                    m = rnd.choice(MISSING)
                    args.append(m)
                    entries.append("(EFile {| f_excluded := %s; f_outcome := Missing |})" % cli.gbool(excluded(m)))
                else:
                    d = rnd.choice(DIRS)
                    args.append(d)
                    inner = sorted(f for f in list(FILES) + UNREADABLE if f.startswith(d + "/") and (f.endswith(".lua") or f.endswith(".luau")))
                    entries.append("(EDir %s)" % cli.glist(
                        "{| f_excluded := %s; f_outcome := %s |}" % (cli.gbool(excluded(f)), "Unreadable" if f in UNREADABLE else outcome_term(oc[f]))
                        for f in inner))
            # standard input as one of the "files" (never excluded): the bytes of one of the pool's files
            stdin_data = None
            if rnd.random() < 0.15:
                f = rnd.choice(sorted(FILES_BIN)) if rnd.random() < 0.4 else rnd.choice([p for p in pool if p != "luau_panic.lua"])
                stdin_data = FILES_BIN[f] if f in FILES_BIN else FILES[f].encode("utf-8")
                if rnd.random() < 0.4:
                    args, entries = [], []       # standard input alone decides the exit status
                pos = rnd.randrange(len(args) + 1)
                args.insert(pos, "-")
                entries.insert(pos, "(EFile {| f_excluded := false; f_outcome := %s |})" % outcome_term(oc[f]))
            aw, ne, ns = rnd.random() < 0.5, rnd.random() < 0.4, rnd.random() < 0.25
            style = rnd.choice(["quiet", "quiet", "json2", "json2", "rich", "json", "luacheck"])
            threads = rnd.choice([1, 1, 3, 8])
            cl = cli.style_args(style) + ["--num-threads", str(threads)]
            if aw:
                cl.append("--allow-warnings")
            if ne:
                cl.append("--no-exclude")
            if ns:
                cl.append("--no-summary")
            if style == "luacheck" and rnd.random() < 0.5:
                for _ in range(rnd.choice([1, 1, 2])):
                    cl.insert(rnd.randrange(len(cl) + 1), rnd.choice(UNKNOWN_OPTS))
            if only is not None and only != i:
                items.append(("", {}))
                continue
            rc, out, err = cli.run_selene(pd, cl + args, stdin=stdin_data if stdin_data is not None else b"")
            diags, summ, junk = cli.parse_output(out, style)
            pe = sum(1 for d in diags if d["severity"] == "error" and d["code"] != "parse_error")
            pw = sum(1 for d in diags if d["severity"] == "warning")
            pp = sum(1 for d in diags if d["code"] == "parse_error")
            opts = "{| allow_warnings := %s; no_exclude := %s; no_summary := %s; luacheck := %s |}" % (
                cli.gbool(aw), cli.gbool(ne), cli.gbool(ns), cli.gbool(style == "luacheck"))
            ob = "{| ob_exit := %s; ob_summary := %s; ob_printed := (%s, %s, %s) |}" % (
                cli.gN(rc if rc >= 0 else 255),
                cli.gopt(None if summ is None else "(%s, %s, %s)" % tuple(cli.gN(x) for x in summ)),
                cli.gN(pe), cli.gN(pw), cli.gN(pp))
            term = "(%s, %s, %s)" % (opts, cli.glist(entries), ob)
            items.append((term, {
                "kind": style, "config": cname, "args": cl + args, "exit": rc, "summary": summ,
                "printed": [pe, pw, pp], "stderr": err[-300:],
                "nontrivial": any(not a.endswith("clean.lua") for a in args)}))
        cli.write_shards(wd, "C19", [it if it[0] else ("", {}) for it in items], only=only) if only is not None else \
            cli.write_shards(wd, "C19", items)
        shutil.rmtree(proj_root, ignore_errors=True)
        return True, ""
