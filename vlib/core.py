"""Shared driver machinery for /verif/check (stdlib only).

Flow per property (DESIGN.md section 1): regenerate tables -> make Coq targets + gate ->
build harness against /repo's working tree -> generate cases (harness runs the implementation and
writes Gallina case shards) -> coqc evaluates model, correspondence and specification on every
case -> classify -> search on break -> evidence / KNOWN-FINDING / VIOLATION lines.
"""
import fcntl
import hashlib
import json
import os
import re
import shutil
import subprocess
import sys
import time
from concurrent.futures import ThreadPoolExecutor

VERIF = os.path.dirname(os.path.dirname(os.path.abspath(__file__)))
COQ = os.path.join(VERIF, "coq")
CACHE = os.path.join(VERIF, ".cache")
TARGET = os.path.join(CACHE, "target")
HARNESS_BIN = os.path.join(TARGET, "debug", "vharness")
REPO = "/repo"
GUARD = "selene_verif"
# RUST_MIN_STACK: worker threads of the debug-built binary / harness get a large stack, so that the
# third-party parser's deep debug frames (known finding D3, probed on purpose by C11) cannot abort
# unrelated checks
ENV = dict(os.environ, CARGO_NET_OFFLINE="true", CARGO_TARGET_DIR=TARGET,
           RUSTFLAGS="--cfg " + GUARD, RUST_MIN_STACK=str(256 * 1024 * 1024))

FORBIDDEN = re.compile(
    r"\b(Admitted|admit|Axiom|Axioms|Parameter|Parameters|Conjecture|Conjectures|Hypothesis|"
    r"Hypotheses|Variable|Variables|Abort|native_compute|bypass_check)\b"
    r"|Unset\s+Guard|Unset\s+Positivity|Unset\s+Universe|Admit\s+Obligations|type-in-type|impredicative-set")

# Axioms (as printed by Print Assumptions) that a property theorem may depend on. Empty: every
# theorem must be "Closed under the global context".
ALLOWED_AXIOMS = set()


def log(msg):
    print(msg, flush=True)


def sh(cmd, cwd=None, env=None, timeout=None, check=False):
    p = subprocess.run(cmd, cwd=cwd, env=env or ENV, timeout=timeout, shell=isinstance(cmd, str),
                       stdout=subprocess.PIPE, stderr=subprocess.STDOUT, text=True, errors="replace")
    if check and p.returncode != 0:
        raise RuntimeError("command failed: %s\n%s" % (cmd, p.stdout[-4000:]))
    return p.returncode, p.stdout


class Lock:
    def __init__(self, name):
        os.makedirs(CACHE, exist_ok=True)
        self.path = os.path.join(CACHE, name + ".lock")

    def __enter__(self):
        self.f = open(self.path, "w")
        fcntl.flock(self.f, fcntl.LOCK_EX)

    def __exit__(self, *a):
        fcntl.flock(self.f, fcntl.LOCK_UN)
        self.f.close()


# ----------------------------------------------------------------------------- Coq side

def strip_comments(text):
    out, depth, i = [], 0, 0
    while i < len(text):
        if text.startswith("(*", i):
            depth += 1
            i += 2
        elif text.startswith("*)", i) and depth > 0:
            depth -= 1
            i += 2
        else:
            if depth == 0:
                out.append(text[i])
            i += 1
    return "".join(out)


def gate_sources():
    """No Admitted/Axiom/... anywhere in the development."""
    bad = []
    for root, _, files in os.walk(COQ):
        for f in files:
            if f.endswith(".v"):
                p = os.path.join(root, f)
                code = strip_comments(open(p, errors="replace").read())
                # string literals may contain anything
                code = re.sub(r'"(?:[^"]|"")*"', '""', code)
                for m in FORBIDDEN.finditer(code):
                    bad.append("%s: %s" % (os.path.relpath(p, VERIF), m.group(0)))
    return bad


def coq_project_files():
    files = []
    for root, _, fs in os.walk(COQ):
        for f in fs:
            if f.endswith(".v"):
                files.append(os.path.relpath(os.path.join(root, f), COQ))
    return sorted(files)


def ensure_makefile():
    proj = os.path.join(COQ, "_CoqProject")
    want = "-Q . Selene\n-arg -w -arg -notation-overridden,-deprecated-hint-without-locality\n" + \
        "\n".join(coq_project_files()) + "\n"
    have = open(proj).read() if os.path.exists(proj) else ""
    if want != have or not os.path.exists(os.path.join(COQ, "Makefile")):
        open(proj, "w").write(want)
        sh("coq_makefile -f _CoqProject -o Makefile", cwd=COQ, check=True)


def coq_build(targets, props_file, clean=False):
    """Builds the targets; returns (ok, theorems, closed, axioms, log)."""
    with Lock("coq"):
        ensure_makefile()
        if clean:
            sh("make clean", cwd=COQ)
        # always recompile the statements file so that Print Assumptions is printed
        pf = os.path.join(COQ, props_file)
        os.utime(pf, None)
        rc, out = sh(["timeout", "3000", "make", "-j16"] + targets, cwd=COQ)
    src = strip_comments(open(pf).read())
    theorems = re.findall(r"^\s*Theorem\s+(\w+)", src, re.M)
    n_print = len(re.findall(r"Print\s+Assumptions", src))
    closed = out.count("Closed under the global context")
    axioms = []
    for m in re.finditer(r"Axioms:\n((?:.+\n?)+?)(?=\n\S|\Z)", out):
        for line in m.group(1).splitlines():
            mm = re.match(r"^(\S+)\s*:", line)
            if mm:
                axioms.append(mm.group(1))
    ok = rc == 0 and n_print == len(theorems)
    return ok and rc == 0, theorems, closed, axioms, out


def run_coqchk(targets):
    mods = ["Selene." + t[:-3].replace("/", ".") for t in targets]
    rc, out = sh(["timeout", "3000", "coqchk", "-silent", "-o", "-Q", ".", "Selene"] + mods, cwd=COQ)
    return rc, out


# ----------------------------------------------------------------------------- Rust side

def build_harness():
    with Lock("cargo"):
        os.makedirs(CACHE, exist_ok=True)
        shutil.copy(os.path.join(REPO, "Cargo.lock"), os.path.join(VERIF, "harness", "Cargo.lock"))
        rc, out = sh("cargo build --offline 2>&1", cwd=os.path.join(VERIF, "harness"))
    return rc == 0, out


def build_selene_bin():
    """The real CLI, whole workspace (feature unification gives the lua52/53/54/luajit parsers)."""
    with Lock("cargo"):
        rc, out = sh("cargo build --workspace --offline 2>&1", cwd=REPO,
                     env=dict(ENV, CARGO_TARGET_DIR=os.path.join(CACHE, "repo-target")))
    return rc == 0, out


SELENE_BIN = os.path.join(CACHE, "repo-target", "debug", "selene")


# ----------------------------------------------------------------------------- cases

RESULT_RE = re.compile(r"\(\s*(\d+)(?:%N)?\s*,\s*(\d+)(?:%N)?\s*,\s*(\d+)(?:%N)?\s*\)")
COUNT_RE = re.compile(r"=\s*\(\s*(\d+)(?:%N)?\s*,\s*\[")


def run_shards(workdir):
    """coqc over every shard_*.v in workdir. Returns (results{i:(code,known)}, errors[list])."""
    shards = sorted(f for f in os.listdir(workdir) if re.match(r"shard_\d+\.v$", f))

    def one(f):
        rc, out = sh(["timeout", "1500", "coqc", "-noglob", "-Q", COQ, "Selene", f], cwd=workdir)
        return f, rc, out

    results, errors = {}, []
    with ThreadPoolExecutor(max_workers=16) as ex:
        for f, rc, out in ex.map(one, shards):
            if rc != 0 or "= " not in out:
                errors.append("%s: rc=%d %s" % (f, rc, out[-1500:]))
                continue
            flat = re.sub(r"\s+", " ", out)
            want = len(re.findall(r"^Definition c\d+ :=", open(os.path.join(workdir, f)).read(), re.M))
            mc = COUNT_RE.search(flat)
            if not mc or int(mc.group(1)) != want:
                errors.append("%s: evaluated-case count %s != %d cases in shard: %s"
                              % (f, mc.group(1) if mc else None, want, out[-600:]))
                continue
            for m in RESULT_RE.finditer(flat):
                results[int(m.group(1))] = (int(m.group(2)), int(m.group(3)))
    for f in os.listdir(workdir):
        if f.endswith((".vo", ".vok", ".vos", ".glob", ".aux")):
            os.remove(os.path.join(workdir, f))
    return results, errors


def load_descs(workdir):
    descs = {}
    p = os.path.join(workdir, "cases.jsonl")
    if os.path.exists(p):
        for line in open(p):
            d = json.loads(line)
            descs[d["i"]] = d
    return descs


def known_findings():
    """Parses KNOWN_FINDINGS.txt -> list of dicts for 'open:' entries, and 'fixed:' lines."""
    p = os.path.join(VERIF, "KNOWN_FINDINGS.txt")
    opens, fixed = [], []
    if os.path.exists(p):
        for line in open(p):
            line = line.strip()
            if line.startswith("open:"):
                body, _, what = line[5:].partition("::")
                kv = dict(re.findall(r"(\w+)=('(?:[^']*)'|\S+)", body))
                kv = {k: v.strip("'") for k, v in kv.items()}
                kv["what"] = what.strip()
                opens.append(kv)
            elif line.startswith("fixed:"):
                fixed.append(line)
    return opens, fixed


def short(obj, limit=600):
    s = json.dumps(obj, ensure_ascii=False)
    return s if len(s) <= limit else s[:limit] + "...(truncated)"


def write_json(path, obj):
    os.makedirs(os.path.dirname(path), exist_ok=True)
    tmp = path + ".tmp"
    with open(tmp, "w") as f:
        json.dump(obj, f, indent=1, ensure_ascii=False)
    os.replace(tmp, path)
