(** Applying a renaming of identifiers (rho) and a map on byte ranges (phi) to a syntax tree:
    the common shape of "consistently rename script-chosen names" (C14) and of "rewrite whitespace
    and comments" (C13, where only positions move). *)
From Selene Require Export Lua.Syntax.

Section Map.
  Context (rho : string -> string) (phi : range -> range).

  Definition map_tok (t : tok) : tok :=
    {| t_name := rho (t_name t); t_lo := fst (phi (t_range t)); t_hi := snd (phi (t_range t)) |}.

  Definition map_param (p : param) : param :=
    match p with PrmName t => PrmName (map_tok t) | PrmEllipsis t => PrmEllipsis (map_tok t) end.

  Fixpoint map_expr (e : expr) : expr :=
    match e with
    | EVararg t => EVararg (map_tok t)
    | EFunction b => EFunction (map_funcbody b)
    | EParen e' => EParen (map_expr e')
    | EUnop op e' => EUnop op (map_expr e')
    | EBinop op l r => EBinop op (map_expr l) (map_expr r)
    | ETable fs => ETable (map_fields fs)
    | EVar v => EVar (map_var v)
    | ECall c => ECall (map_fcall c)
    | other => other
    end
  with map_var (v : var) : var :=
    match v with
    | VName t => VName (map_tok t)
    | VExpr p ss rng => VExpr (map_prefix p) (map_suffixes ss) (phi rng)
    end
  with map_prefix (p : prefix) : prefix :=
    match p with PName t => PName (map_tok t) | PExpr e => PExpr (map_expr e) end
  with map_suffix (s : suffix) : suffix :=
    match s with SfxCall c => SfxCall (map_call c) | SfxIndex i => SfxIndex (map_index i) end
  with map_suffixes (ss : suffixes) : suffixes :=
    match ss with SsNil => SsNil | SsCons s r => SsCons (map_suffix s) (map_suffixes r) end
  with map_call (c : call) : call :=
    match c with CAnon a => CAnon (map_args a) | CMethod n a => CMethod (map_tok n) (map_args a) end
  with map_args (a : args) : args :=
    match a with
    | AParens es => AParens (map_exprs es)
    | AString r => AString r
    | ATable fs => ATable (map_fields fs)
    end
  with map_index (i : index) : index :=
    match i with IBrackets e => IBrackets (map_expr e) | IDot n => IDot (map_tok n) end
  with map_fields (fs : fields) : fields :=
    match fs with FsNil => FsNil | FsCons f r => FsCons (map_field f) (map_fields r) end
  with map_field (f : field) : field :=
    match f with
    | FExprKey k v => FExprKey (map_expr k) (map_expr v)
    | FNameKey n v => FNameKey (map_tok n) (map_expr v)
    | FNoKey v => FNoKey (map_expr v)
    end
  with map_exprs (es : exprs) : exprs :=
    match es with EsNil => EsNil | EsCons e r => EsCons (map_expr e) (map_exprs r) end
  with map_fcall (c : fcall) : fcall :=
    match c with FCall p ss rng => FCall (map_prefix p) (map_suffixes ss) (phi rng) end
  with map_funcbody (b : funcbody) : funcbody :=
    match b with FBody ps blk => FBody (map map_param ps) (map_block blk) end
  with map_block (b : block) : block :=
    match b with Block ss last rng => Block (map_stmts ss) (map_olast last) (option_map phi rng) end
  with map_stmts (ss : stmts) : stmts :=
    match ss with StNil => StNil | StCons s r => StCons (map_stmt s) (map_stmts r) end
  with map_stmt (s : stmt) : stmt :=
    match s with
    | SAssign vs es => SAssign (map_vars vs) (map_exprs es)
    | SDo b => SDo (map_block b)
    | SCallStmt c => SCallStmt (map_fcall c)
    | SFunction names method body => SFunction (map map_tok names) (option_map map_tok method) (map_funcbody body)
    | SGenericFor names es b => SGenericFor (map map_tok names) (map_exprs es) (map_block b)
    | SIf c b elifs els => SIf (map_expr c) (map_block b) (map_elseifs elifs) (map_oblock els)
    | SLocal names es => SLocal (map map_tok names) (map_exprs es)
    | SLocalFunction n body => SLocalFunction (map_tok n) (map_funcbody body)
    | SNumericFor v a b step blk => SNumericFor (map_tok v) (map_expr a) (map_expr b) (map_oexpr step) (map_block blk)
    | SRepeat b c => SRepeat (map_block b) (map_expr c)
    | SWhile c b => SWhile (map_expr c) (map_block b)
    end
  with map_vars (vs : vars) : vars :=
    match vs with VsNil => VsNil | VsCons v r => VsCons (map_var v) (map_vars r) end
  with map_elseifs (ei : elseifs) : elseifs :=
    match ei with EiNil => EiNil | EiCons c b r => EiCons (map_expr c) (map_block b) (map_elseifs r) end
  with map_olast (l : olast) : olast :=
    match l with LReturn es => LReturn (map_exprs es) | other => other end
  with map_oblock (o : oblock) : oblock :=
    match o with OBNone => OBNone | OBSome b => OBSome (map_block b) end
  with map_oexpr (o : oexpr) : oexpr :=
    match o with OENone => OENone | OESome e => OESome (map_expr e) end.
End Map.
