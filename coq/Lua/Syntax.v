(** Lua 5.1 abstract syntax, mirroring full_moon's node structure (full_moon-1.2.0 src/ast/mod.rs)
    for the Lua 5.1 fragment.  Identifier tokens carry their byte range; every other position the
    models need is attached to the node that uses it.  Explicit list/option types keep the mutual
    induction principle (Scheme) usable. *)
From Selene Require Export Base.Util.

Record tok := { t_name : string; t_lo : N; t_hi : N }.
Definition range := (N * N)%type.
Definition t_range (t : tok) : range := (t_lo t, t_hi t).

Inductive param := PrmName (t : tok) | PrmEllipsis (t : tok).

Inductive expr :=
| ENil | ETrue | EFalse
| ENumber (raw : string)
| EString (raw : string)
| EVararg (t : tok)
| EFunction (b : funcbody)
| EParen (e : expr)
| EUnop (op : string) (e : expr)
| EBinop (op : string) (l r : expr)
| ETable (fs : fields)
| EVar (v : var)
| ECall (c : fcall)
with var :=
| VName (t : tok)
| VExpr (p : prefix) (ss : suffixes) (rng : range)
with prefix :=
| PName (t : tok)
| PExpr (e : expr)
with suffix :=
| SfxCall (c : call)
| SfxIndex (i : index)
with suffixes :=
| SsNil
| SsCons (s : suffix) (ss : suffixes)
with call :=
| CAnon (a : args)
| CMethod (name : tok) (a : args)
with args :=
| AParens (es : exprs)
| AString (raw : string)
| ATable (fs : fields)
with index :=
| IBrackets (e : expr)
| IDot (name : tok)
with fields :=
| FsNil
| FsCons (f : field) (fs : fields)
with field :=
| FExprKey (k v : expr)
| FNameKey (name : tok) (v : expr)
| FNoKey (v : expr)
with exprs :=
| EsNil
| EsCons (e : expr) (es : exprs)
with fcall :=
| FCall (p : prefix) (ss : suffixes) (rng : range)
with funcbody :=
| FBody (params : list param) (b : block)
with block :=
| Block (ss : stmts) (last : olast) (rng : option range)
with stmts :=
| StNil
| StCons (s : stmt) (ss : stmts)
with stmt :=
| SAssign (vs : vars) (es : exprs)
| SDo (b : block)
| SCallStmt (c : fcall)
| SFunction (names : list tok) (method : option tok) (b : funcbody)
| SGenericFor (names : list tok) (es : exprs) (b : block)
| SIf (c : expr) (b : block) (elifs : elseifs) (els : oblock)
| SLocal (names : list tok) (es : exprs)
| SLocalFunction (name : tok) (b : funcbody)
| SNumericFor (v : tok) (start stop : expr) (step : oexpr) (b : block)
| SRepeat (b : block) (c : expr)
| SWhile (c : expr) (b : block)
with vars :=
| VsNil
| VsCons (v : var) (vs : vars)
with elseifs :=
| EiNil
| EiCons (c : expr) (b : block) (r : elseifs)
with olast :=
| LNone
| LBreak
| LReturn (es : exprs)
with oblock :=
| OBNone
| OBSome (b : block)
with oexpr :=
| OENone
| OESome (e : expr).

Scheme expr_mind := Induction for expr Sort Prop
with var_mind := Induction for var Sort Prop
with prefix_mind := Induction for prefix Sort Prop
with suffix_mind := Induction for suffix Sort Prop
with suffixes_mind := Induction for suffixes Sort Prop
with call_mind := Induction for call Sort Prop
with args_mind := Induction for args Sort Prop
with index_mind := Induction for index Sort Prop
with fields_mind := Induction for fields Sort Prop
with field_mind := Induction for field Sort Prop
with exprs_mind := Induction for exprs Sort Prop
with fcall_mind := Induction for fcall Sort Prop
with funcbody_mind := Induction for funcbody Sort Prop
with block_mind := Induction for block Sort Prop
with stmts_mind := Induction for stmts Sort Prop
with stmt_mind := Induction for stmt Sort Prop
with vars_mind := Induction for vars Sort Prop
with elseifs_mind := Induction for elseifs Sort Prop
with olast_mind := Induction for olast Sort Prop
with oblock_mind := Induction for oblock Sort Prop
with oexpr_mind := Induction for oexpr Sort Prop.

Combined Scheme ast_mutind from expr_mind, var_mind, prefix_mind, suffix_mind, suffixes_mind, call_mind,
  args_mind, index_mind, fields_mind, field_mind, exprs_mind, fcall_mind, funcbody_mind, block_mind,
  stmts_mind, stmt_mind, vars_mind, elseifs_mind, olast_mind, oblock_mind, oexpr_mind.

Fixpoint exprs_length (es : exprs) : nat := match es with EsNil => O | EsCons _ r => S (exprs_length r) end.
