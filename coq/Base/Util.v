(** Shared utilities: association-list maps with first-match lookup, strings from bytes. *)
From Coq Require Export List String Ascii NArith Bool Arith Lia.
Export ListNotations.
Open Scope string_scope.
Open Scope list_scope.

(** Strings that are not printable ASCII are written by the harness as [s_of [bytes]]. *)
Fixpoint s_of (l : list N) : string :=
  match l with
  | [] => EmptyString
  | b :: r => String (ascii_of_N b) (s_of r)
  end.

Definition str_eqb (a b : string) : bool := if string_dec a b then true else false.
Lemma str_eqb_eq a b : str_eqb a b = true <-> a = b.
Proof. unfold str_eqb; destruct (string_dec a b); split; congruence. Qed.

Section Assoc.
  Context {K V : Type} (keq : forall a b : K, {a = b} + {a <> b}).

  Fixpoint lookup (k : K) (m : list (K * V)) : option V :=
    match m with
    | [] => None
    | (k', v) :: r => if keq k k' then Some v else lookup k r
    end.

  (** BTreeMap::insert : replace the value of an existing key in place, else add. *)
  Fixpoint insert (k : K) (v : V) (m : list (K * V)) : list (K * V) :=
    match m with
    | [] => [(k, v)]
    | (k', v') :: r => if keq k k' then (k', v) :: r else (k', v') :: insert k v r
    end.

  (** BTreeMap::extend : insert every binding of [ups], in order. *)
  Definition overwrite (m ups : list (K * V)) : list (K * V) :=
    fold_left (fun acc kv => insert (fst kv) (snd kv) acc) ups m.

  Definition keys (m : list (K * V)) : list K := map fst m.

  Definition mem_key (k : K) (m : list (K * V)) : bool :=
    match lookup k m with Some _ => true | None => false end.
End Assoc.
