From Selene Require Import Base.Util.

Section AssocFacts.
  Context {K V : Type} (keq : forall a b : K, {a = b} + {a <> b}).

  Lemma lookup_insert k v k' (m : list (K * V)) :
    lookup keq k' (insert keq k v m) = if keq k' k then Some v else lookup keq k' m.
  Proof.
    induction m as [|[k0 v0] m IH]; cbn [insert lookup].
    - destruct (keq k' k); reflexivity.
    - destruct (keq k k0) as [->|Hne]; cbn [lookup].
      + destruct (keq k' k0); reflexivity.
      + destruct (keq k' k0) as [->|Hne'].
        * destruct (keq k0 k); [congruence|reflexivity].
        * exact IH.
  Qed.

  Lemma lookup_overwrite k (m ups : list (K * V)) :
    lookup keq k (overwrite keq m ups) =
    match lookup keq k (rev ups) with Some v => Some v | None => lookup keq k m end.
  Proof.
    unfold overwrite. revert m.
    induction ups as [|[k0 v0] ups IH]; intros m; cbn [fold_left rev].
    - reflexivity.
    - rewrite IH. cbn [fst snd].
      assert (Hrev : forall l, lookup keq k (l ++ [(k0, v0)]) =
                match lookup keq k l with Some v => Some v
                | None => if keq k k0 then Some v0 else None end).
      { induction l as [|[a b] l IHl]; cbn [app lookup]; [reflexivity|].
        destruct (keq k a); [reflexivity|exact IHl]. }
      rewrite Hrev, lookup_insert.
      destruct (lookup keq k (rev ups)); [reflexivity|].
      destruct (keq k k0); reflexivity.
  Qed.

  Lemma lookup_filter_key (p : K -> V -> bool) k (m : list (K * V)) :
    NoDup (keys m) ->
    lookup keq k (filter (fun kv => p (fst kv) (snd kv)) m) =
    match lookup keq k m with Some v => if p k v then Some v else None | None => None end.
  Proof.
    induction m as [|[k0 v0] m IH]; intros Hnd; cbn [filter lookup fst snd]; [reflexivity|].
    inversion Hnd as [|? ? Hnotin Hnd']; subst.
    destruct (p k0 v0) eqn:Hp; cbn [lookup].
    - destruct (keq k k0) as [->|Hne]; [rewrite Hp; reflexivity|auto].
    - destruct (keq k k0) as [->|Hne]; [|auto].
      rewrite Hp, IH by assumption.
      assert (Hnone : lookup keq k0 m = None).
      { clear -Hnotin. induction m as [|[a b] m IHm]; cbn; [reflexivity|].
        destruct (keq k0 a) as [->|]; [exfalso; apply Hnotin; left; reflexivity|].
        apply IHm. intro H; apply Hnotin; right; exact H. }
      rewrite Hnone. reflexivity.
  Qed.

  Lemma lookup_rev_nodup k (m : list (K * V)) :
    NoDup (keys m) -> lookup keq k (rev m) = lookup keq k m.
  Proof.
    induction m as [|[k0 v0] m IH]; intros Hnd; cbn [rev lookup]; [reflexivity|].
    inversion Hnd as [|? ? Hnotin Hnd']; subst.
    assert (Happ : forall l, lookup keq k (l ++ [(k0, v0)]) =
              match lookup keq k l with Some v => Some v
              | None => if keq k k0 then Some v0 else None end).
    { induction l as [|[a b] l IHl]; cbn [app lookup]; [reflexivity|].
      destruct (keq k a); [reflexivity|exact IHl]. }
    rewrite Happ, IH by assumption.
    destruct (keq k k0) as [->|Hne]; [|destruct (lookup keq k m); reflexivity].
    assert (Hnone : lookup keq k0 m = None).
    { clear -Hnotin. induction m as [|[a b] m IHm]; cbn; [reflexivity|].
      destruct (keq k0 a) as [->|]; [exfalso; apply Hnotin; left; reflexivity|].
      apply IHm. intro H; apply Hnotin; right; exact H. }
    rewrite Hnone. reflexivity.
  Qed.

  Lemma filter_keys_nodup (p : K * V -> bool) (m : list (K * V)) :
    NoDup (keys m) -> NoDup (keys (filter p m)).
  Proof.
    induction m as [|kv m IH]; intros Hnd; cbn [filter]; [constructor|].
    inversion Hnd as [|? ? Hnotin Hnd']; subst.
    destruct (p kv); [|auto].
    cbn. constructor; [|auto].
    intro Hin. apply Hnotin. unfold keys in *.
    apply in_map_iff in Hin as [x [Hx Hin]]. apply filter_In in Hin as [Hin _].
    apply in_map_iff. exists x. auto.
  Qed.
End AssocFacts.
