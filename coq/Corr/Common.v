(** Conventions shared by all correspondence modules.
    A case evaluates to (code, known):
      code bit 1  = the model and the implementation disagree (correspondence broken)
      code bit 2  = the dumped input is not well-formed (a hypothesis of the theorems fails)
      code bits 4.. = the implementation's own output violates the specification
                      (property-specific meaning, named in vlib/props.py) outside every known class
      known       = bit mask of the known-finding classes that explain violations seen in this case *)
From Selene Require Export Base.Util.

Definition bit (b : bool) (v : N) : N := if b then v else 0%N.

Definition run {C} (check : C -> N * N) (cases : list (N * C)) : N * list (N * N * N) :=
  pair (N.of_nat (List.length cases)) (filter (fun r => negb (N.eqb (snd (fst r)) 0 && N.eqb (snd r) 0))
         (map (fun ic => let r := check (snd ic) in (fst ic, fst r, snd r)) cases)).
