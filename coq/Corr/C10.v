(** Correspondence + spec evaluation for C10. *)
From Selene Require Export Corr.Common Corr.C08 Pipeline.Severity.

Inductive case10 :=
| CCfg (cfg : config) (evs : list event) (first_code : option (N * N)) (fs : list found)
       (impl : list (out * severity))        (* test_on of the file under cfg *)
       (impl_plain : list (out * severity)). (* test_on of the twin with the filters neutralised, under cfg *)

Definition visible_impl (l : list (out * severity)) : list diag :=
  flat_map (fun o => match fst o with
                     | ODiag d => if severity_eqb (d_sev d) SAllow then [] else [d]
                     | OFail _ => [] end) l.

Definition check_case10 (c : case10) : N * N :=
  match c with
  | CCfg cfg evs fc fs impl impl_plain =>
      match collect lint_names evs with
      | None => (1%N, 0%N)
      | Some es =>
          let wf := forallb (fun f => existsb (str_eqb (fd_lint f)) lint_names) fs in
          (* with the filters: model pipeline under cfg vs implementation, what the user sees *)
          let corr := match test_on cfg es fc fs with
                      | Some mo => list_eqb diag_eqb (visible mo) (visible_impl impl)
                                   && list_eqb (fun m i => out_eqb (sev cfg "invalid_lint_filter") m i)
                                        (List.filter (fun o => match o with OFail _ => true | _ => false end) mo)
                                        (List.filter (fun o => match fst o with OFail _ => true | _ => false end) impl)
                      | None => false end in
          (* without filters: the same findings, relabelled by the configuration, allow = invisible *)
          let expect_plain := List.filter (fun d => negb (severity_eqb (d_sev d) SAllow)) (attach cfg fs) in
          let spec_plain := list_eqb diag_eqb expect_plain (visible_impl impl_plain) in
          ((bit (negb corr) 1 + bit (negb wf) 2 + bit (negb corr) 4 + bit (negb spec_plain) 8)%N, 0%N)
      end
  end.

Definition run := Common.run check_case10.
