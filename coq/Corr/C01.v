(** Correspondence for the scope family: Scope/Interp.v vs the real ScopeManager. *)
From Selene Require Export Corr.Common Scope.Interp Scope.Zones Lints.ScopeLints Scope.GFragment Lints.Unused.
From Selene Require Export Std.Lib.

Record iref := { i_range : range; i_name : string; i_read : bool; i_write : option wkind;
                 i_resolved : option range; i_initial : bool }.
Record ivar := { iv_range : range; iv_name : string; iv_shadowed : option range; iv_self : bool;
                 iv_refs : list range }.

Inductive case :=
| CScope (chunk : block) (refs : list iref) (vars : list ivar)
         (roots : list string)                    (* standard-library roots *)
         (undefined : list range)                 (* undefined_variable diagnostics, in order *)
         (shadowing : list (range * range))       (* shadowing: primary, secondary *)
         (unused : list (range * bool))           (* unused_variable: primary, "assigned a value" wording *)
         (lib : Std.Lib.lib)                      (* the standard library the lints ran with *)
         (ignored : list string)                  (* variable names the ignore_pattern matches *)
         (allow_self : bool)
         (sh_ignored : list string)               (* variable names shadowing's ignore_pattern matches *)
| CScopePanic (chunk : block).

Definition var_ident (s : st) (id : N) : range :=
  match nth_error (Interp.vars s) (N.to_nat id) with Some v => t_range (v_tok v) | None => (0, 0)%N end.
Definition ref_ident (s : st) (id : N) : range :=
  match nth_error (refs s) (N.to_nat id) with Some r => t_range (r_tok r) | None => (0, 0)%N end.

Definition orange_eqb (a b : option range) : bool :=
  match a, b with Some x, Some y => range_eq x y | None, None => true | _, _ => false end.
Definition owkind_eqb (a b : option wkind) : bool :=
  match a, b with
  | Some WAssign, Some WAssign | Some WExtend, Some WExtend | None, None => true
  | _, _ => false end.

Fixpoint list_eqb2 {A B} (f : A -> B -> bool) (a : list A) (b : list B) : bool :=
  match a, b with
  | [], [] => true
  | x :: a', y :: b' => f x y && list_eqb2 f a' b'
  | _, _ => false
  end.

Definition ref_eqb (s : st) (m : rref) (i : iref) : bool :=
  range_eq (t_range (r_tok m)) (i_range i) && str_eqb (t_name (r_tok m)) (i_name i)
  && Bool.eqb (r_read m) (i_read i) && owkind_eqb (r_write m) (i_write i)
  && orange_eqb (option_map (var_ident s) (r_resolved m)) (i_resolved i)
  && Bool.eqb (r_scope m =? 0)%N (i_initial i).

Definition var_eqb (s : st) (m : rvar) (i : ivar) : bool :=
  range_eq (t_range (v_tok m)) (iv_range i) && str_eqb (t_name (v_tok m)) (iv_name i)
  && orange_eqb (option_map (var_ident s) (v_shadowed m)) (iv_shadowed i)
  && Bool.eqb (v_self m) (iv_self i)
  && list_eqb2 range_eq (map (ref_ident s) (v_refs m)) (iv_refs i).

Definition check_case (c : case) : N * N :=
  match c with
  | CScope chunk irefs ivars roots undefined shadowing unused_f lib ignored allow_self sh_ignored =>
      let unused := map fst unused_f in
      let corr :=
        match scope_manager chunk with
        | Some s => list_eqb2 (ref_eqb s) (refs s) irefs && list_eqb2 (var_eqb s) (Interp.vars s) ivars
                    && list_eqb2 Interp.range_eq (undefined_report s roots) undefined
                    && list_eqb2 (fun a b => Interp.range_eq (fst a) (fst b) && Interp.range_eq (snd a) (snd b))
                                 (shadowing_report_with (fun n => existsb (str_eqb n) sh_ignored) s) shadowing
        | None => false
        end in
      (* the specification (Lua scoping), evaluated on what the implementation reported *)
      (* unused_variable: the lint model on the model's state vs the real verdicts (same declarations, same wording) *)
      let cfg := {| u_ignored := fun n => existsb (str_eqb n) ignored; u_allow_self := allow_self |} in
      let lint_ok :=
        match scope_manager chunk with
        | Some s =>
            let m := unused_report cfg lib s chunk in
            forallb (fun x => existsb (fun y => Interp.range_eq (fst x) (fst y) && Bool.eqb (snd x) (snd y)) unused_f) m
            && forallb (fun y => existsb (fun x => Interp.range_eq (fst x) (fst y) && Bool.eqb (snd x) (snd y)) m) unused_f
            && Nat.eqb (List.length m) (List.length unused_f)
        | None => true
        end in
      let os := occs chunk in
      let ds := decls chunk in
      let z1 := c01_zone os roots undefined in
      let z3 := c03_zone_with (fun n => existsb (str_eqb n) sh_ignored) os ds shadowing in
      let captured := fun r => existsb (fun v => Zones.range_eq (iv_range v) r
                                                 && match iv_refs v with [] => false | _ => true end) ivars in
      let z2 := c02_zone os ds roots unused captured (fun n => existsb (str_eqb n) ignored) allow_self in
      (* hypotheses of theorem C01_never_reports_locals: token ranges are pairwise distinct (bit 2 when
         violated); whether the program lies in the fragment the theorem covers is reported in bit 2^40
         of the second component (informational, not a class) *)
      let ranges := map (fun o => t_range (o_tok o)) os in
      let distinct := (fix nd (l : list range) : bool :=
                         match l with [] => true | r :: rest => negb (existsb (Zones.range_eq r) rest) && nd rest end) ranges in
      ((bit (negb corr) 1 + bit (negb distinct) 2 + bit (negb lint_ok) 256 + N.lor (fst z1) (N.lor (fst z2) (fst z3)))%N,
       (* known-class masks per property: C01 in bits 0-9, C02 in bits 10-19, C03 in bits 20-29 *)
       (snd z1 + 1024 * snd z2 + 1048576 * snd z3 + bit (gok_block chunk) 1099511627776)%N)
  | CScopePanic chunk =>
      match scope_manager chunk with Some _ => (1%N, 0%N) | None => (0%N, 0%N) end
  end.

Definition run := Common.run check_case.
