(** C13: a program and its trivia-rewritten twin. *)
From Selene Require Export Corr.Common Corr.C14.
Open Scope N_scope.

(** insertions: (offset, length). A token start moves when the insertion is at or before it; a
    token end moves when the insertion is strictly before it. *)
Definition shift_lo (ins : list (N * N)) (p : N) : N :=
  fold_left (fun acc i => if fst i <=? p then acc + snd i else acc) ins p.
Definition shift_hi (ins : list (N * N)) (p : N) : N :=
  fold_left (fun acc i => if fst i <? p then acc + snd i else acc) ins p.
Definition phi_trivia (ins : list (N * N)) (r : range) : range :=
  if fst r =? snd r then (shift_lo ins (fst r), shift_lo ins (fst r))
  else (shift_lo ins (fst r), shift_hi ins (snd r)).

Inductive case13 :=
| CTrivia (ins : list (N * N)) (orig twin : list mdiag).

(** An end point that coincides with an insertion offset may or may not move (it depends on whether
    the lint meant "end of the previous token" or "start of the next one"): both are accepted. *)
Definition point_match (ins : list (N * N)) (p p' : N) : bool :=
  (p' =? shift_lo ins p) || (p' =? shift_hi ins p).
Definition range_match (ins : list (N * N)) (r r' : range) : bool :=
  point_match ins (fst r) (fst r') && point_match ins (snd r) (snd r').

Definition mdiag_match (ins : list (N * N)) (a b : mdiag) : bool :=
  let '(c1, r1, s1, m1) := a in let '(c2, r2, s2, m2) := b in
  str_eqb c1 c2 && range_match ins r1 r2 && str_eqb m1 m2
  && Nat.eqb (List.length s1) (List.length s2) && forallb (fun p => range_match ins (fst p) (snd p)) (combine s1 s2).

Fixpoint list_match {A} (f : A -> A -> bool) (a b : list A) : bool :=
  match a, b with
  | [], [] => true
  | x :: a', y :: b' => f x y && list_match f a' b'
  | _, _ => false
  end.

Definition code_of (d : mdiag) : string := fst (fst (fst d)).

(** every lint counts: the classes once excused here (V1-V3: deprecated, type_check_inside_call) are repaired *)
Definition check_case13 (c : case13) : N * N :=
  match c with
  | CTrivia ins orig twin =>
      if list_match (mdiag_match ins) orig twin then (0, 0) else (4, 0)
  end.

Definition run := Common.run check_case13.
