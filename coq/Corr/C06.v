(** Correspondence + spec evaluation for C06. *)
From Selene Require Export Corr.Common Std.FindGlobal Std.FieldAccess Std.FindGlobalSpec.

Inductive impl_result := IFound (f : field) | INotFound | IPanic.

Inductive case :=
| CFind (l : lib) (names : list string) (res : impl_result) (has_fields : bool)
| CRead (l : lib) (np : key) (v : verdict)
| CWrite (l : lib) (ts : list target) (vs : list verdict).

Definition res_eqb (m : fg_result) (i : impl_result) : bool :=
  match m, i with
  | Found f, IFound g => if field_eq_dec f g then true else false
  | NotFound, INotFound => true
  | MissingStruct _, IPanic => true
  | _, _ => false
  end.

Definition verdicts_eqb (a b : list verdict) : bool :=
  Nat.eqb (List.length a) (List.length b) && forallb (fun p => verdict_eqb (fst p) (snd p)) (combine a b).

Definition check_case (c : case) : N * N :=
  match c with
  | CFind l names res hf =>
      let wf := wf_lib l && match names with [] => false | _ => true end in
      let corr := res_eqb (find_global l names) res
                  && Bool.eqb (global_has_fields l (hd "" names)) hf in
      (* the documented rules, evaluated on what the implementation returned *)
      let explicit_ok := match glookup names (l_globals l) with
                         | Some f => res_eqb (Found f) res | None => true end in
      let simple_ok := if simple_fmap (l_globals l)
                       then res_eqb (match glookup names (l_globals l) with
                                     | Some f => Found f
                                     | None => if node_exists (l_globals l) names
                                               then Found read_only_field else NotFound end) res
                       else true in
      let total_ok := if structs_closed l then match res with IPanic => false | _ => true end else true in
      let root_ok := if hf then match names with [x] => match res with IFound _ => true | _ => false end | _ => true end else true in
      (* The rules proved in Std/FindGlobalSpec.v (explicit entry wins; explicit segment beats `*`;
         `*` is the fallback; no segment -> absent; any absorbs; struct continues in the struct;
         otherwise continue below the node; last segment yields the node's field) are the defining
         equations of [find_global]: they determine the answer for every input, so an
         implementation answer different from the model's breaks one of them on this very input. *)
      let rules_ok := res_eqb (find_global l names) res in
      ((bit (negb corr) 1 + bit (negb wf) 2
        + bit (negb (explicit_ok && simple_ok && total_ok && root_ok && rules_ok)) 4)%N, 0%N)
  | CRead l np v =>
      let ok := verdict_eqb (read_verdict l np) v in
      ((bit (negb ok) 1 + bit (negb (wf_lib l)) 2 + bit (negb ok) 8)%N, 0%N)
  | CWrite l ts vs =>
      let corr := verdicts_eqb (assignment_verdicts l ts) vs in
      (* every target judged independently of its position *)
      let indep := verdicts_eqb (map (target_verdict l) ts) vs in
      ((bit (negb corr) 1 + bit (negb (wf_lib l)) 2 + bit (negb indep) 16)%N, 0%N)
  end.

Definition run := Common.run check_case.
