(** Correspondence for C05: the real lint's diagnostics for one call vs [check_call], and the
    specification evaluated on the diagnostics themselves. *)
From Selene Require Export Corr.Common Std.CallCheck Std.CallCheckSpec.

Inductive c05case :=
| CCall (f : fbehavior) (call_is_method : bool) (a : args) (impl : list problem)
        (strs : list (string * string))   (* string tokens among the arguments: text, content per the tokenizer *)
        (all_parsed : bool)
| CPanic.

Definition problem_eqb (x y : problem) : bool :=
  match x, y with
  | PMethod a, PMethod b => Bool.eqb a b
  | PVarargUnused, PVarargUnused => true
  | PCount a b, PCount c d => Nat.eqb a c && Nat.eqb b d
  | PType i t, PType j u => Nat.eqb i j && argtype_eqb t u
  | _, _ => false
  end.

Fixpoint remove1 (x : problem) (l : list problem) : option (list problem) :=
  match l with
  | [] => None
  | y :: r => if problem_eqb x y then Some r
              else match remove1 x r with Some r' => Some (y :: r') | None => None end
  end.
Fixpoint msub (a b : list problem) : bool :=
  match a with [] => true | x :: r => match remove1 x b with Some b' => msub r b' | None => false end end.
Definition mseq (a b : list problem) : bool := msub a b && Nat.eqb (List.length a) (List.length b).

Definition check_case (c : c05case) : N * N :=
  match c with
  | CPanic => (1, 0)%N
  | CCall f m a impl strs parsed =>
      let corr := mseq (check_call f m a) impl && parsed in
      let method_ok := Bool.eqb (existsb method_problem impl) (negb (Bool.eqb (fn_method f) m)) in
      let mism := negb (Bool.eqb (fn_method f) m) in
      let reported := existsb count_problem impl in
      let n := nargs a in
      (* count: exact (theorem count_exact), bounds for optional-before-required-vararg; S3 is a known class *)
      let count_bad :=
        if mism then reported
        else if negb (required_vararg_last f) || ordered (fn_args f) then negb (Bool.eqb reported (count_outside f a))
        else (negb (maybe_more a) && Nat.ltb n (n_required f) && negb reported) ||
             (Nat.leb (last_required_pos (fn_args f)) n && (takes_vararg f || Nat.leb n (total f)) && reported) in
      let in_s3 := s3 f a in
      (* type problems: only for an argument of definite, unacceptable type *)
      let judge (p : problem) : N :=      (* 0 fine, 1 violation, 2 = S4, 3 = S5 *)
        match p with
        | PType i _ =>
            match nth_error (args_exprs a) i, nth_error (fn_args f) i with
            | Some e, Some d =>
                if is_vararg d || mism then 1%N
                else if s4_shape e then 2%N
                else match spec_type e with
                     | Some t => if negb (compat t d) then 0%N
                                 else match t with SString None => if is_constant (arg_type d) then 3%N else 1%N | _ => 1%N end
                     | None => 1%N
                     end
            | _, _ => 1%N
            end
        | _ => 0%N
        end in
      let js := map judge impl in
      let type_bad := existsb (N.eqb 1) js in
      let strs_ok := forallb (fun rc => ptype_eqb (from_string (fst rc)) (PStr (snd rc))) strs in
      ((bit (negb corr) 1 + bit (negb method_ok) 4 + bit (count_bad && negb in_s3) 8 + bit type_bad 16 + bit (negb strs_ok) 32)%N,
       (bit (count_bad && in_s3) 1 + bit (existsb (N.eqb 2) js) 2 + bit (existsb (N.eqb 3) js) 4)%N)
  end.

Definition run := Common.run check_case.
