(** Correspondence for C08/C09: the real filter machinery vs Filter/Machine.v. *)
From Selene Require Export Corr.Common Filter.Machine Filter.Spec Filter.Comment Filter.Correct7 Generated.LintTable.

Inductive case :=
| CMachine (es : list fentry) (first_code : option (N * N)) (ds : list diag) (inv_sev : severity)
           (impl : option (list (out * severity)))
| CParse (comment : list N) (impl : option (list fconf))
| CFull (evs : list event) (first_code : option (N * N)) (raw : list diag) (impl : list (out * severity))
        (all_comments : list (N * N * list (list N)))
        (before_piece : list (N * N)).   (* the comments that sit directly before the first token of a piece of code *)

Definition lint_names : list string := map (fun x => fst (fst x)) lint_table.

Definition variation_eqb (a b : variation) : bool :=
  match a, b with VAllow, VAllow | VDeny, VDeny | VWarn, VWarn => true | _, _ => false end.
Definition fconf_eqb (a b : fconf) : bool :=
  Bool.eqb (fc_global a) (fc_global b) && str_eqb (fc_lint a) (fc_lint b) && variation_eqb (fc_var a) (fc_var b).

Definition pair_eqb (a b : N * N) : bool := range_eqb a b.

Definition failure_eqb (a b : failure) : bool :=
  match a, b with
  | NoSuchLint l c, NoSuchLint l' c' => str_eqb l l' && pair_eqb c c'
  | GlobalAfterCode c k, GlobalAfterCode c' k' => pair_eqb c c' && pair_eqb k k'
  | Conflict c o, Conflict c' o' => pair_eqb c c' && pair_eqb o o'
  | _, _ => false
  end.

Definition diag_eqb (a b : diag) : bool :=
  str_eqb (d_code a) (d_code b) && (d_start a =? d_start b)%N && (d_payload a =? d_payload b)%N
  && severity_eqb (d_sev a) (d_sev b).

Definition out_eqb (inv : severity) (m : out) (i : out * severity) : bool :=
  match m, fst i with
  | ODiag d, ODiag d' => diag_eqb d d'
  | OFail f, OFail f' => failure_eqb f f' && severity_eqb inv (snd i)
  | _, _ => false
  end.

Fixpoint list_eqb {A B} (f : A -> B -> bool) (a : list A) (b : list B) : bool :=
  match a, b with
  | [], [] => true
  | x :: a', y :: b' => f x y && list_eqb f a' b'
  | _, _ => false
  end.

Definition check_case (c : case) : N * N :=
  match c with
  | CMachine es fc ds inv impl =>
      let m := filter_diagnostics es fc ds in
      let corr := match m, impl with
                  | Some mo, Some io => list_eqb (out_eqb inv) mo io
                  | None, None => true
                  | _, _ => false
                  end in
      (* the specification evaluated on the implementation's own output *)
      let wf := wf_ok fc (oks es) in
      let impl_diags := match impl with
                        | Some io => flat_map (fun o => match fst o with ODiag d => [d] | _ => [] end) io
                        | None => [] end in
      let impl_fails := match impl with
                        | Some io => flat_map (fun o => match fst o with OFail f => [f] | _ => [] end) io
                        | None => [] end in
      let spec_d := match impl with
                    | Some _ => list_eqb diag_eqb (spec_diags (oks es) fc ds) impl_diags
                    | None => false end in
      let spec_f := match impl with
                    | Some _ => list_eqb failure_eqb (spec_failures es fc) impl_fails
                    | None => false end in
      ((bit (negb corr) 1 + bit (negb wf) 2 + bit (wf && negb spec_d) 4 + bit (wf && negb spec_f) 8)%N, 0%N)
  | CParse comment impl =>
      let corr := match parse_comment comment, impl with
                  | Some a, Some b => list_eqb fconf_eqb a b
                  | None, None => true
                  | _, _ => false end in
      ((bit (negb corr) 1)%N, 0%N)
  | CFull evs fc raw impl comments pieces =>
      match collect lint_names evs with
      | None => (1%N, 0%N)
      | Some es =>
          let wf := wf_ok fc (oks es) in
          (* the failures' severity is invalid_lint_filter's (error unless configured): take it from the output *)
          let corr := match filter_diagnostics es fc raw with
                      | Some mo => list_eqb (fun m i => out_eqb (snd i) m i) mo impl
                      | None => false end in
          let impl_diags := flat_map (fun o => match fst o with ODiag d => [d] | _ => [] end) impl in
          let impl_fails := flat_map (fun o => match fst o with OFail f => [f] | _ => [] end) impl in
          let spec_d := list_eqb diag_eqb (spec_diags (oks es) fc raw) impl_diags in
          let spec_f := list_eqb failure_eqb (spec_failures es fc) impl_fails in
          (* every comment of the file that contains a well-formed filter line must be claimed by a
             visited node; one that is not (it sits before else/end/until/`}` or after code on the
             same line) is class F2 *)
          let is_filter := fun c : N * N * list (list N) =>
            existsb (fun line => match parse_comment line with Some _ => true | None => false end) (snd c) in
          let claimed := fun c : N * N * list (list N) =>
            existsb (fun ev => negb (ev_block ev)
                               && existsb (fun c' => range_eqb (fst c') (fst c)) (ev_comments ev)) evs in
          let at_piece := fun c : N * N * list (list N) => existsb (range_eqb (fst c)) pieces in
          let f2 := existsb (fun c => is_filter c && negb (claimed c) && negb (at_piece c)) comments in
          (* a filter comment directly before a piece of code that no visited node claims is ignored silently *)
          let lost := existsb (fun c => is_filter c && negb (claimed c) && at_piece c) comments in
          ((bit (negb corr) 1 + bit (negb wf) 2 + bit (wf && negb spec_d) 4 + bit (wf && negb spec_f) 8 + bit lost 16)%N,
           bit f2 1)
      end
  end.

Definition run := Common.run check_case.
