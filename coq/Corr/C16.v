(** Correspondence + spec evaluation for C16. *)
From Selene Require Export Corr.Common Std.Versions Std.VersionsSpec Std.Extend Std.ExtendSpec.

Inductive presult := PAccepted | PRejected | PPanic.
Definition presult_eqb (a b : presult) : bool :=
  match a, b with PAccepted, PAccepted | PRejected, PRejected | PPanic, PPanic => true | _, _ => false end.

Inductive case :=
| CVersions (vs : list luaversion) (impl : dialect) (impl_errs : list string)
| CParse (c : construct) (vs : list luaversion) (res : presult)
| CCli (chain : list (list luaversion)) (c : construct) (res : presult).

Definition dialect_eqb (a b : dialect) : bool :=
  Bool.eqb (d_luau a) (d_luau b) && Bool.eqb (d_52 a) (d_52 b) && Bool.eqb (d_53 a) (d_53 b)
  && Bool.eqb (d_54 a) (d_54 b) && Bool.eqb (d_jit a) (d_jit b).

Definition vname (v : luaversion) : string :=
  match v with Lua51 => "lua51" | Lua52 => "lua52" | Lua53 => "lua53" | Lua54 => "lua54"
          | Luau => "luau" | LuaJIT => "luajit" | VUnknown s => s end.

(** Known classes (KNOWN_FINDINGS.txt): D1 the parser panics on & | under Luau without the 5.3 bit;
    D2 the parser rejects `;;` under every dialect. *)
Definition in_D1 (c : construct) (d : dialect) : bool :=
  match c with CBitAndOr => d_luau d && negb (d_53 d) | _ => false end.
Definition in_D2 (c : construct) (d : dialect) : bool :=
  match c with CEmptyStmt => accepts c d | _ => false end.

Definition parser_model (c : construct) (d : dialect) : presult :=
  if in_D1 c d then PPanic
  else match c with
       | CEmptyStmt => PRejected
       | _ => if accepts c d then PAccepted else PRejected
       end.

Definition judge (c : construct) (d : dialect) (res : presult) : N * N :=
  let expected := if accepts c d then PAccepted else PRejected in
  let corr := presult_eqb res (parser_model c d) in
  let ok := presult_eqb res expected in
  let d1 := in_D1 c d && presult_eqb res PPanic in
  let d2 := in_D2 c d && presult_eqb res PRejected in
  ((bit (negb corr) 1 + bit (negb ok && negb d1 && negb d2) 4)%N,
   (bit (negb ok && d1) 1 + bit (negb ok && d2) 2)%N).

Definition check_case (c : case) : N * N :=
  match c with
  | CVersions vs impl errs =>
      let m := lua_version vs in
      let corr := dialect_eqb (fst m) impl
                  && (if list_eq_dec string_dec (map vname (snd m)) errs then true else false) in
      let spec := forallb (fun b => Bool.eqb (has b impl) (existsb (has_v b) vs)) [BLuau; B52; B53; B54; BJit]
                  && (if list_eq_dec string_dec (map vname (filter (fun v => negb (known v)) vs)) errs then true else false) in
      ((bit (negb corr) 1 + bit (negb spec) 8)%N, 0%N)
  | CParse c vs res => judge c (fst (lua_version vs)) res
  | CCli chain c res => judge c (fst (lua_version (chain_versions chain))) res
  end.

Definition run := Common.run check_case.
