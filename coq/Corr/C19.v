(** Correspondence for C19: CLI runs observed by the driver vs the model, and the specification
    evaluated on the observed exit status / totals. *)
From Selene Require Export Corr.Common Pipeline.Exit Pipeline.ExitSpec.

Record observed := {
  ob_exit : N;
  ob_summary : option (N * N * N);   (* errors, warnings, parse errors as printed *)
  ob_printed : N * N * N }.          (* diagnostics printed: error severity, warning severity, parse_error *)

Definition opt3_eqb (a b : option (N * N * N)) : bool :=
  match a, b with
  | None, None => true
  | Some (a1, a2, a3), Some (b1, b2, b3) => (a1 =? b1) && (a2 =? b2) && (a3 =? b3)
  | _, _ => false
  end.

Definition check_case (c : options * list entry * observed) : N * N :=
  let '(o, es, ob) := c in
  let t := tally o es in
  let '(pe, pw, pp) := ob_printed ob in
  let corr := (exit_status o es =? ob_exit ob) && opt3_eqb (summary o es) (ob_summary ob)
              && (p_err t =? pe) && (p_warn t =? pw) && (p_parse t =? pp) in
  (* the specification evaluated on what the binary did *)
  let spec_exit := Bool.eqb (ob_exit ob =? 0) (spec_exit_zero o es) && ((ob_exit ob =? 0) || (ob_exit ob =? 1)) in
  let spec_totals :=
    match ob_summary ob with
    | None => luacheck o || no_summary o
    | Some (e, w, p) => (e =? pe + total n_unavailable (all_considered o es)) && (w =? pw) && (p =? pp)
                        && negb (luacheck o || no_summary o)
    end in
  ((bit (negb corr) 1 + bit (negb spec_exit) 4 + bit (negb spec_totals) 8)%N, 0%N).

Definition run := Common.run check_case.
