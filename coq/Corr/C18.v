(** C18: observed multi-threaded output against the protocol's guarantee. *)
From Selene Require Export Corr.Common Pipeline.Conc Pipeline.ConcSpec.
Open Scope N_scope.

Fixpoint list_N_eqb (a b : list N) : bool :=
  match a, b with [], [] => true | x :: a', y :: b' => (x =? y) && list_N_eqb a' b' | _, _ => false end.

Fixpoint is_prefix_N (p l : list N) : bool :=
  match p, l with
  | [], _ => true
  | x :: p', y :: l' => (x =? y) && is_prefix_N p' l'
  | _ :: _, [] => false
  end.

(** remove the first block that is a prefix of the output; None if no block fits *)
Fixpoint take_block (blocks : list (list N)) (o : list N) : option (list (list N) * list N) :=
  match blocks with
  | [] => None
  | b :: rest =>
      if is_prefix_N b o then Some (rest, skipn (List.length b) o)
      else match take_block rest o with
           | Some (rest', o') => Some (b :: rest', o')
           | None => None
           end
  end.

Fixpoint parse_blocks (fuel : nat) (blocks : list (list N)) (o : list N) : bool :=
  match o, blocks with
  | [], [] => true
  | [], _ => false
  | _, _ =>
      match fuel with
      | O => false
      | S f => match take_block blocks o with
               | Some (rest, o') => parse_blocks f rest o'
               | None => false
               end
      end
  end.

Inductive case :=
| CRun (jobs : list (list seg)) (observed : list N) (totals : N * N * N) (exit_seq exit_par : N)
       (worker_panicked : bool).   (* one of the jobs is a file whose check panics in the worker *)

Definition check_case (c : case) : N * N :=
  match c with
  | CRun jobs observed totals e1 e2 panicked =>
      let blocks := List.filter (fun b => match b with [] => false | _ => true end) (flat_map job_blocks jobs) in
      let atomic := parse_blocks (S (List.length blocks)) blocks observed in
      let '(e, w, p) := totals in
      let sums := (e =? sumN (map (adds_segs CErr) jobs)) && (w =? sumN (map (adds_segs CWarn) jobs))
                  && (p =? sumN (map (adds_segs CParse) jobs)) in
      ((bit (negb atomic) 4 + bit (negb sums) 8 + bit (negb (e1 =? e2)) 16
        + bit (panicked && ((e1 =? 0) || (e2 =? 0))) 32)%N, 0%N)
  end.

Definition run := Common.run check_case.
