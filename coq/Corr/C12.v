(** Correspondence for C12: histories / thread schedules of real [Checker::test_on] calls through one
    shared checker, and results of separate processes, against the cache model: every observed result
    must equal the fresh-checker result for that file. Diagnostics are compared through fingerprints
    (a hash of the full diagnostic list, order included) computed by the harness. *)
From Selene Require Export Corr.Common Pipeline.Determinism.
Open Scope N_scope.

Record c12case := {
  c_fresh : list (N * N);            (* file id -> fingerprint of the diagnostics of a fresh checker *)
  c_ops : list (N * N);              (* the calls actually made, in completion order: file id, observed fingerprint *)
}.

Definition lookupN (k : N) (m : list (N * N)) : N :=
  match find (fun kv => fst kv =? k) m with Some kv => snd kv | None => 0 end.

Definition check_case (c : c12case) : N * N :=
  (* the model: lint_all is the oracle table, the cache is irrelevant to its value (run_pure) *)
  let ops := map (fun o => @Check N (fst o)) (c_ops c) in
  let predicted := fst (run (Lib:=unit) (Tree:=unit) (fun _ => tt) (fun _ _ f => lookupN f (c_fresh c)) tt None ops) in
  let observed := map (fun o => Some (snd o)) (c_ops c) in
  let same := forallb (fun po => match po with (Some a, Some b) => a =? b | _ => false end) (combine predicted observed)
              && Nat.eqb (List.length predicted) (List.length observed) in
  (bit (negb same) 1 + bit (negb same) 4, 0).

Definition run := Common.run check_case.
