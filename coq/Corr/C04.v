(** Correspondence for C04: the real lints' diagnostics counted per code vs the models of Lints/Closed.v,
    the value-judged conditions evaluated on the lints' own output, and plain template verdicts for the
    lints that are not modelled. *)
From Selene Require Export Corr.Common Lints.Closed Lints.ClosedSpec Lints.Escape Lints.Same Lints.SameSpec Lints.Lines.

Inductive c04case :=
| CChunk (chunk : block) (div0 nan revloop empty_if empty_loop unbalanced mixed dupkeys paren tablecmp typecheck : nat)
| CArgs (ps : list param) (a : args) (reported : bool)
| CVerdict (lint : string) (expected : bool) (count : nat)
| CEscape (q : quote) (roblox : bool) (literal : list N) (impl : list (nat * nat))
| CEscapePanic
| CSame (chunk : block) (flagged : bool) (same_cond same_block swapped : nat)
| CLines (cfg : one_line_if) (evs : list sev) (impl : list N)
(* empty_if / empty_loop under `comments_count`: the arms of one chain (or the body of one loop) by kind:
   0 empty, 1 a line comment only, 2 a block comment only, 3.. at least one statement *)
| CArms (comments_count : bool) (arms : list N) (count : nat).

(** multiple_statements, judged on the implementation's own output: every reported statement has an
    earlier-visited statement ending on its line *)
Fixpoint has_earlier_same_line (seen : list N) (evs : list sev) (id : N) : bool :=
  match evs with
  | [] => false
  | e :: r => (N.eqb (sv_id e) id && mem (sv_line e) seen) || has_earlier_same_line (sv_line e :: seen) r id
  end.
Definition count_n (x : N) (l : list N) : nat := List.length (filter (N.eqb x) l).
Definition same_multiset (a b : list N) : bool := forallb (fun x => Nat.eqb (count_n x a) (count_n x b)) (a ++ b).

(** L2: a zero spelled other than `0` next to a `/` *)
Definition odd_zero (e : expr) : bool := denotes_zero e && negb (value_is_zero e).
Definition l2_node (n : node) : bool :=
  match n with NExpr (EBinop o l r) => str_eqb o "/" && (odd_zero l || odd_zero r) | _ => false end.

Definition check_case (c : c04case) : N * N :=
  match c with
  | CChunk chunk d0 nn rl ei el ub mx dk pc tc ty =>
      let m := lint_counts chunk in
      let ns := nodes_block chunk in
      let corr := Nat.eqb (n_div0 m) d0 && Nat.eqb (n_nan m) nn && Nat.eqb (n_revloop m) rl &&
                  Nat.eqb (n_empty_if m) ei && Nat.eqb (n_empty_loop m) el && Nat.eqb (n_unbalanced m) ub &&
                  Nat.eqb (n_mixed m) mx && Nat.eqb (n_dupkeys m) dk && Nat.eqb (n_paren m) pc &&
                  Nat.eqb (n_tablecmp m) tc && Nat.eqb (n_typecheck m) ty in
      (* never on a false (value-judged) condition; always on the canonical spelling *)
      let over := Nat.ltb (count cond_div0 ns) d0 || Nat.ltb (count cond_nan ns) nn || Nat.ltb (count cond_revloop_wide ns) rl in
      (* duplicate_keys: never more reports than there are keys that denote an already declared value *)
      let over_dk := Nat.ltb (fold_right (fun n a => (vdup_keys_count n + a)%nat) O ns) dk in
      let under := Nat.ltb d0 (count is_div0 ns) || Nat.ltb nn (count is_compare_nan ns) || Nat.ltb rl (count is_reverse_loop ns)
                   || Nat.ltb el (count is_empty_loop ns) || Nat.ltb ub (count is_unbalanced ns)
                   || Nat.ltb mx (count is_mixed ns) || Nat.ltb tc (count is_table_comparison ns) || Nat.ltb ty (count is_type_check_inside ns) in
      let l2 := existsb l2_node ns in
      (bit (negb corr) 1 + bit ((over && negb l2) || over_dk) 4 + bit under 8, bit (over && l2) 1)%N
  | CArgs ps a reported =>
      let m := negb (correct_num_args (params_count ps 0) (passed a)) in
      let spec := match params_count ps 0 with PFixed k => Nat.ltb k (syntactic_args a) | _ => false end in
      (bit (negb (Bool.eqb m reported)) 1 + bit (reported && negb spec) 4 + bit (negb reported && spec) 8, 0)%N
  | CVerdict _ expected cnt =>
      (bit (negb (Bool.eqb expected (Nat.ltb 0 cnt))) 16, 0)%N
  | CEscape q rb lit impl =>
      let m := bad_escapes q rb lit in
      let same := (fix eqb (a b : list (nat * nat)) : bool :=
                     match a, b with
                     | [], [] => true
                     | (x1, y1) :: r, (x2, y2) :: s => Nat.eqb x1 x2 && Nat.eqb y1 y2 && eqb r s
                     | _, _ => false end) m impl in
      (* reported ranges must lie inside the literal and be non-empty (theorem scan_in_bounds) *)
      let inb := forallb (fun r => Nat.ltb (fst r) (snd r) && Nat.leb (snd r) (List.length lit)) impl in
      (bit (negb same) 1 + bit (negb (scan_fits q rb lit 0)) 2 + bit (negb inb) 4, 0)%N
  | CEscapePanic => (4, 0)%N
  | CSame chunk flagged sc sb sw =>
      let m := same_lint_counts chunk in
      let ns := nodes_block chunk in
      let spec_c := fold_right (fun n a => (spec_same_cond n + a)%nat) O ns in
      let spec_b := fold_right (fun n a => (spec_same_block n + a)%nat) O ns in
      let corr := Nat.eqb (n_same_cond m) sc && Nat.eqb (n_same_block m) sb && Nat.eqb (n_swapped m) sw in
      (* full_moon's `similar` also compares the optional `;` after a statement, which the tree does not keep:
         on flagged chunks the implementation may only report less *)
      let over := Nat.ltb spec_c sc || Nat.ltb spec_b sb in
      let under := Nat.ltb sc spec_c || Nat.ltb sb spec_b in
      if flagged then (bit over 4, 0)%N
      else (bit (negb corr) 1 + bit over 4 + bit under 8, 0)%N
  | CArms cc arms cnt =>
      (* documented: a block is empty when it has no statement; with comments_count a comment makes it non-empty *)
      let expected := List.length (filter (fun a => (a =? 0)%N || (negb cc && ((a =? 1)%N || (a =? 2)%N))) arms) in
      (bit (Nat.ltb expected cnt) 4 + bit (Nat.ltb cnt expected) 8, 0)%N
  | CLines cfg evs impl =>
      let m := reported (lines_run cfg evs) in
      let corr := same_multiset m impl in
      let sound := forallb (has_earlier_same_line [] evs) impl in
      let under := negb (forallb (fun id => mem id impl) (must_report evs)) in
      (bit (negb corr) 1 + bit (negb sound) 4 + bit under 8, 0)%N
  end.

Definition run := Common.run check_case.
