(** Correspondence + spec evaluation for C15: run by coqc on cases written by the harness. *)
From Selene Require Export Corr.Common Std.Extend Std.ExtendSpec.

Inductive case :=
| CPair (d b impl : lib)
| CChain (first : lib) (rest : list lib) (impl : lib)
| CPlus (first : lib) (rest : list lib) (impl : lib)
(* the CLI: `+` segments, each a base chain on disk; which of [names] undefined_variable reported *)
| CCliNames (segments : list (lib * list lib)) (names : list string) (undefined : list string) (ran : bool).

Definition opt_field_eqb (a b : option field) : bool :=
  if opt_eq_dec field_eq_dec a b then true else false.

Definition versions_eqb (a b : list luaversion) : bool :=
  if list_eq_dec luaversion_eq_dec a b then true else false.

Definition structs_equiv (a b : list (string * fmap)) : bool :=
  Nat.eqb (List.length a) (List.length b)
  && forallb (fun sm => match lookup string_dec (fst sm) b with
                        | Some m => fmap_equiv (snd sm) m
                        | None => false end) a.

Definition lib_equiv (a b : lib) : bool :=
  fmap_equiv (l_globals a) (l_globals b)
  && structs_equiv (l_structs a) (l_structs b)
  && versions_eqb (l_versions a) (l_versions b)
  && (if opt_eq_dec string_dec (l_base a) (l_base b) then true else false)
  && (if opt_eq_dec string_dec (l_name a) (l_name b) then true else false).

Definition all_keys (ls : list lib) : list key := flat_map (fun l => keys (l_globals l)) ls.

(** result code: 1 = model and implementation differ; 2 = input not well-formed (harness bug);
    4 = the implementation's globals violate the specification; 8 = its lua_versions do. *)
Definition code (corr wf specg specv : bool) : N * N :=
  ((bit (negb corr) 1 + bit (negb wf) 2 + bit (negb specg) 4 + bit (negb specv) 8)%N, 0%N).

Definition check_case (c : case) : N * N :=
  match c with
  | CPair d b impl =>
      let ks := all_keys [d; b; impl] in
      code (lib_equiv (extend d b) impl)
           (wf_lib d && wf_lib b && wf_lib impl)
           (forallb (fun k => opt_field_eqb (glookup k (l_globals impl))
                                (spec_present (l_globals d) (l_globals b) k)) ks)
           (versions_eqb (l_versions impl) (spec_versions (l_versions d) (l_versions b)))
  | CChain first rest impl =>
      let ks := all_keys (impl :: first :: rest) in
      code (lib_equiv (resolve_chain first rest) impl)
           (wf_lib first && forallb wf_lib rest && wf_lib impl)
           (match rest with
            | [] => true
            | _ => forallb (fun k => opt_field_eqb (glookup k (l_globals impl))
                     (spec_chain_present (l_globals first) (map l_globals rest) k)) ks
            end)
           (versions_eqb (l_versions impl)
              (spec_chain_versions (l_versions first) (map l_versions rest)))
  | CPlus first rest impl =>
      let ks := all_keys (impl :: first :: rest) in
      code (lib_equiv (plus_fold first rest) impl)
           (wf_lib first && forallb wf_lib rest && wf_lib impl)
           (forallb (fun k => opt_field_eqb (glookup k (l_globals impl))
                     (spec_plus_present (l_globals first) (map l_globals rest) k)) ks)
           true
  | CCliNames segs names undefined ran =>
      let libs := map (fun sg => resolve_chain (fst sg) (snd sg)) segs in
      let is_some := fun (o : option field) => match o with Some _ => true | None => false end in
      let strs_eqb := fix eqb (a b : list string) : bool :=
                        match a, b with
                        | [], [] => true
                        | x :: r, y :: t => (if string_dec x y then true else false) && eqb r t
                        | _, _ => false end in
      match libs with
      | [] => code false true true true
      | l0 :: rest =>
          let eff := plus_fold l0 rest in
          let model_undef := List.filter (fun n => negb (is_some (present [n] (l_globals eff)))) names in
          let spec_undef := List.filter (fun n => negb (is_some (spec_plus_present (l_globals l0) (map l_globals rest) [n]))) names in
          code (ran && strs_eqb model_undef undefined) (forallb wf_lib libs) (strs_eqb spec_undef undefined) true
      end
  end.

Definition run := Common.run check_case.
