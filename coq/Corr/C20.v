(** Correspondence for C20: what the selene binary printed under each style vs the style model, and
    the specification evaluated on the printed output itself. *)
From Selene Require Export Corr.Common Pipeline.Location Pipeline.LocationSpec.
Open Scope N_scope.

(** one label as json printed it: start offset/line/column, end offset/line/column (0-based) *)
Definition jlabel := (nat * N * N * (nat * N * N))%type.

Record c20case := {
  c_src : list N;
  c_diags : list diag;                          (* library-level diagnostics (or, for parse errors, json2's) *)
  c_rich : option (list shown);                 (* None: the process died *)
  c_quiet : option (list shown);
  c_json : option (list shown);
  c_json2 : option (list shown);
  c_lc : option (list shown);
  c_lcr : option (list shown * list N);         (* --luacheck --ranges: lines and the end columns *)
  c_labels : list jlabel;                       (* every primary and secondary label json/json2 printed *)
  c_json_same : bool;                           (* json and json2 lines carry identical objects; no junk lines *)
}.

Fixpoint remove1 (x : shown) (l : list shown) : option (list shown) :=
  match l with
  | [] => None
  | y :: r => if shown_eqb x y then Some r
              else match remove1 x r with Some r' => Some (y :: r') | None => None end
  end.
Fixpoint msub (a b : list shown) : bool :=
  match a with [] => true | x :: r => match remove1 x b with Some b' => msub r b' | None => false end end.
Definition mseq (a b : list shown) : bool := msub a b && (List.length a =? List.length b)%nat.

Fixpoint emit_all (st : style) (src : list N) (ds : list diag) : option (list shown) :=
  match ds with
  | [] => Some []
  | d :: r => match emit st src d, emit_all st src r with
              | Some a, Some b => Some (a ++ b) | _, _ => None end
  end.
Fixpoint ranges_all (src : list N) (ds : list diag) : option (list N) :=
  match ds with
  | [] => Some []
  | d :: r => match lc_range_ends src d, ranges_all src r with
              | Some a, Some b => Some (a ++ b) | _, _ => None end
  end.

Definition obs_ok (m o : option (list shown)) : bool :=
  match m, o with Some a, Some b => mseq a b | None, None => true | _, _ => false end.

Definition isnone {A} (o : option A) : bool := match o with None => true | Some _ => false end.

Fixpoint list_N_eqb (a b : list N) : bool :=
  match a, b with [] , [] => true | x :: r, y :: s => (x =? y) && list_N_eqb r s | _, _ => false end.

Definition label_ok (src : list N) (l : jlabel) : bool :=
  let '(s, sl, sc, (e, el, ec)) := l in
  (match location src s with Some (a, b) => (a =? sl) && (b =? sc) | None => false end) &&
  (match location src e with Some (a, b) => (a =? el) && (b =? ec) | None => false end) &&
  (match offset_of src sl sc with Some o => Nat.eqb o s | None => false end) &&
  (match offset_of src el ec with Some o => Nat.eqb o e | None => false end) && Nat.leb s e.

(** first lines of luacheck output: drop the continuation lines the model predicts *)
Definition check_case (c : c20case) : N * N :=
  let src := c_src c in
  let ds := c_diags c in
  let m st := emit_all st src ds in
  let corr :=
    obs_ok (m Rich) (c_rich c) && obs_ok (m Quiet) (c_quiet c) && obs_ok (m Json) (c_json c) &&
    obs_ok (m Json2) (c_json2 c) && obs_ok (m Luacheck) (c_lc c) &&
    (match c_lcr c, m Luacheck, ranges_all src ds with
     | Some (ls, es), Some ml, Some me => mseq ml ls && list_N_eqb me es
     | None, None, _ => true
     | _, _, _ => false end) in
  (* specification on the observed output alone *)
  let outs := [c_rich c; c_quiet c; c_json c; c_json2 c] in
  let printed := filter (fun o => negb (isnone o)) outs in
  let same := match printed with
              | Some a :: r => forallb (fun o => match o with Some b => mseq a b | None => true end) r
              | _ => true end in
  (* luacheck: every diagnostic of the other styles appears, and nothing at another (code, sev, msg) *)
  let lc_same := match printed, c_lc c with
                 | Some a :: _, Some l => msub a l &&
                     forallb (fun s => existsb (fun t => (s_code s =? s_code t) && (s_sev s =? s_sev t) && (s_msg s =? s_msg t)) a) l
                 | _, _ => true end in
  let crashed := existsb isnone (outs ++ [c_lc c]) || isnone (c_lcr c) in
  let all_crashed := forallb isnone (outs ++ [c_lc c]) && isnone (c_lcr c) in
  let lone_crash := crashed && negb all_crashed in
  let t2 := existsb (fun d => negb (boundary src (d_end d)) || negb (boundary src (d_start d))) ds in
  let json_ok := forallb (label_ok src) (c_labels c) && c_json_same c in
  ((bit (negb corr) 1 + bit (negb (wf_text src)) 2 + bit (negb (same && lc_same)) 4 +
    bit (lone_crash && negb t2) 8 + bit (negb json_ok) 16)%N,
   bit (lone_crash && t2) 1).

Definition run := Common.run check_case.
