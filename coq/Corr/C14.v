(** C14: a program and its consistently renamed twin. *)
From Selene Require Export Corr.Common Lua.Map Scope.Interp Scope.Equivariance Scope.EquivInterp.
Open Scope N_scope.

Definition mdiag := (string * range * list range * string)%type.

Definition shift_by (starts : list N) (delta : N) (p : N) : N :=
  p + delta * N.of_nat (List.length (List.filter (fun s => s <? p) starts)).
Definition phi_of (starts : list N) (delta : N) (r : range) : range :=
  (shift_by starts delta (fst r), shift_by starts delta (snd r)).
Definition rho_of (name fresh : string) (s : string) : string := if str_eqb s name then fresh else s.

Definition mdiag_eqb (a b : mdiag) : bool :=
  let '(c1, r1, s1, m1) := a in let '(c2, r2, s2, m2) := b in
  str_eqb c1 c2 && range_eq r1 r2 && str_eqb m1 m2
  && Nat.eqb (List.length s1) (List.length s2) && forallb (fun p => range_eq (fst p) (snd p)) (combine s1 s2).

Fixpoint insert_sorted (d : mdiag) (l : list mdiag) : list mdiag :=
  match l with
  | [] => [d]
  | x :: r => if (fst (snd (fst (fst d))) <=? fst (snd (fst (fst x)))) then d :: l else x :: insert_sorted d r
  end.

Definition map_mdiag (phi : range -> range) (d : mdiag) : mdiag :=
  let '(c, r, s, m) := d in (c, phi r, map phi s, m).

(** multiset equality by mutual inclusion with counting (lists are short) *)
Definition count_d (d : mdiag) (l : list mdiag) : nat := List.length (List.filter (mdiag_eqb d) l).
Definition same_multiset (a b : list mdiag) : bool :=
  Nat.eqb (List.length a) (List.length b) && forallb (fun d => Nat.eqb (count_d d a) (count_d d b)) a.

Inductive case :=
| CRename (name fresh : string) (starts : list N) (delta : N) (orig twin : list mdiag)
          (asts : option (block * block)).


Definition check_case (c : case) : N * N :=
  match c with
  | CRename name fresh starts delta orig twin asts =>
      let phi := phi_of starts delta in
      let rho := rho_of name fresh in
      (* the twin's diagnostics are the original's, moved by phi (messages already un-renamed) *)
      let spec := same_multiset (map (map_mdiag phi) orig) twin in
      (* the twin's tree is the map of the original tree, and the scope model is equivariant on it
         (instance of the theorem, computed) *)
      let model := match asts with
                   | None => true
                   | Some (a, b) =>
                       match scope_manager (map_block rho phi a), scope_manager a with
                       | Some s2, Some s1 =>
                           Nat.eqb (List.length (refs s2)) (List.length (refs s1))
                           && forallb (fun p => tok_range_eq (r_tok (fst p)) (map_tok rho phi (r_tok (snd p)))
                                                && str_eqb (t_name (r_tok (fst p))) (rho (t_name (r_tok (snd p)))))
                                      (combine (refs s2) (refs s1))
                           && match scope_manager b with
                              | Some sb => Nat.eqb (List.length (refs sb)) (List.length (refs s2))
                                           && forallb (fun p => tok_range_eq (r_tok (fst p)) (r_tok (snd p))
                                                                && str_eqb (t_name (r_tok (fst p))) (t_name (r_tok (snd p)))
                                                                && match r_resolved (fst p), r_resolved (snd p) with
                                                                   | Some x, Some y => x =? y | None, None => true | _, _ => false end)
                                                      (combine (refs sb) (refs s2))
                              | None => false end
                       | None, None => true
                       | _, _ => false
                       end
                   end in
      ((bit (negb model) 1 + bit (negb spec) 4)%N, 0%N)
  end.

Definition run := Common.run check_case.
