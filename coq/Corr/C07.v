(** C07: re-bound standard-library names. *)
From Selene Require Export Corr.Common Scope.Interp Lints.StdGate.
Open Scope N_scope.

Definition sdiag := (string * range * string)%type.
Definition sdiag_eqb (a b : sdiag) : bool :=
  let '(c1, r1, m1) := a in let '(c2, r2, m2) := b in str_eqb c1 c2 && range_eq r1 r2 && str_eqb m1 m2.
Fixpoint slist_eqb (a b : list sdiag) : bool :=
  match a, b with [], [] => true | x :: a', y :: b' => sdiag_eqb x y && slist_eqb a' b' | _, _ => false end.

Inductive case :=
| CRebound (inside : block) (root_in : N) (d_in : list sdiag)
           (outside : block) (root_out : N) (d_out d_base : list sdiag)
| CBoundary (is_inside : bool) (prog : block) (root : N) (d d_base : list sdiag).

Definition code_is (c : string) (d : sdiag) : bool := str_eqb (fst (fst d)) c.

(** result: bit 1 the scope model's gate disagrees with what the diagnostics show (a use inside the
    scope must be gated, outside not); bit 4 a diagnostic of the three lints inside the scope;
    bit 8 diagnostics outside differ from those of the program without the binding.
    Known class R1 (mask 1): only must_use leaks. *)
Definition check_case (c : case) : N * N :=
  match c with
  | CRebound inside root_in d_in outside root_out d_out d_base =>
      let gate_in := match scope_manager inside with Some s => gated s root_in | None => false end in
      let gate_out := match scope_manager outside with Some s => gated s root_out | None => true end in
      let corr := gate_in && negb gate_out in
      let in_ok := match d_in with [] => true | _ => false end in
      let only_must_use := forallb (code_is "must_use") d_in in
      let out_ok := slist_eqb d_out d_base in
      ((bit (negb corr) 1 + bit (negb in_ok && negb only_must_use) 4 + bit (negb out_ok) 8)%N,
       bit (negb in_ok && only_must_use) 1)
  | CBoundary is_inside prog root d d_base =>
      let gate := match scope_manager prog with Some s => gated s root | None => negb is_inside end in
      let corr := Bool.eqb gate is_inside in
      if is_inside then
        let ok := match d with [] => true | _ => false end in
        ((bit (negb corr) 1 + bit (negb ok) 4)%N, 0%N)
      else
        ((bit (negb corr) 1 + bit (negb (slist_eqb d d_base)) 8)%N, 0%N)
  end.

Definition run := Common.run check_case.
