(** Correspondence for C11: (a) Deprecated::try_instead vs its model; (b) whole-pipeline runs: did it
    panic, does every diagnostic name an existing lint, is every label range well-formed. *)
From Selene Require Export Corr.Common Std.TryInstead Std.TryInsteadSpec Std.FindGlobal Pipeline.Location
  Generated.LintTable.
Open Scope N_scope.

Inductive c11case :=
| CTry (replace params : list string) (impl : outcome)
| CLint (src : list N) (std : string) (lib : option lib)
        (diags : list (string * list (nat * nat)))      (* code, primary + secondary label ranges *)
        (panicked : bool) (in_parser : bool)
| CProc (depth : N) (died : bool).      (* the binary with its default thread stack on `if` nested [depth] deep *)

Definition outcome_eqb (a b : outcome) : bool :=
  match a, b with
  | Panics, Panics | Nothing, Nothing => true
  | Instead x, Instead y => str_eqb x y
  | _, _ => false
  end.

Definition range_ok (src : list N) (r : nat * nat) : bool :=
  Nat.leb (fst r) (snd r) && Nat.leb (snd r) (List.length src) && boundary src (fst r) && boundary src (snd r).

Definition lint_names : list string := map (fun x => fst (fst x)) lint_table.

Definition has_byte (b : N) (src : list N) : bool := existsb (N.eqb b) src.

Definition check_case (c : c11case) : N * N :=
  match c with
  | CTry replace params impl =>
      let m := try_instead replace params in
      (bit (negb (outcome_eqb m impl)) 1 + bit (outcome_eqb impl Panics) 4, 0)
  | CLint src std lib diags panicked in_parser =>
      (* known classes: T1 a library with a field naming a missing struct; D1 the parser under a
         Luau-only dialect on `&` / `|` *)
      let t1 := match lib with Some l => negb (structs_closed l) | None => false end in
      let d1 := in_parser && (str_eqb std "luau" || str_eqb std "roblox") && (has_byte 38 src || has_byte 124 src) in
      let codes_ok := forallb (fun d => existsb (str_eqb (fst d)) lint_names) diags in
      let ranges_ok := forallb (fun d => forallb (range_ok src) (snd d)) diags in
      (bit (negb (wf_text src)) 2 + bit (panicked && negb t1 && negb d1) 4 + bit (negb codes_ok) 8 + bit (negb ranges_ok) 16,
       bit (panicked && t1 && negb d1) 1 + bit (panicked && d1) 2)
  | CProc depth died =>
      (* D3: unbounded nesting overflows the worker's stack (recursive-descent parser and visitors) *)
      (bit (died && (depth <? 5)) 4, bit (died && (5 <=? depth)) 4)
  end.

Definition run := Common.run check_case.
