(** Correspondence for C17. *)
From Coq Require Export ZArith.
From Selene Require Export Corr.Common Std.Serde Std.SerdeSpec.

Fixpoint yval_eqb (a b : yval) : bool :=
  match a, b with
  | YNull, YNull => true
  | YBool x, YBool y => Bool.eqb x y
  | YInt x, YInt y => Z.eqb x y
  | YStr x, YStr y => str_eqb x y
  | YSeq x, YSeq y =>
      (fix go (x y : list yval) := match x, y with
                                   | [], [] => true
                                   | a :: x', b :: y' => yval_eqb a b && go x' y'
                                   | _, _ => false end) x y
  | YMap x, YMap y =>
      (fix go (x y : list (string * yval)) := match x, y with
                                   | [], [] => true
                                   | (k, a) :: x', (k', b) :: y' => str_eqb k k' && yval_eqb a b && go x' y'
                                   | _, _ => false end) x y
  | _, _ => false
  end.

(** maps are compared up to order: the implementation's BTreeMap iterates by key, the model keeps
    the document's order *)
Definition sfmap_eqb (a b : list (string * field)) : bool :=
  Nat.eqb (List.length a) (List.length b)
  && forallb (fun kf => match lookup string_dec (fst kf) b with
                        | Some f => if field_eq_dec f (snd kf) then true else false
                        | None => false end) a.

Definition rclass_eqb (a b : rclass) : bool :=
  str_eqb (rc_superclass a) (rc_superclass b)
  && (if list_eq_dec string_dec (rc_events a) (rc_events b) then true else false)
  && (if list_eq_dec string_dec (rc_properties a) (rc_properties b) then true else false).

Definition slib_eqb (a b : slib) : bool :=
  (if opt_eq_dec string_dec (s_base a) (s_base b) then true else false)
  && (if opt_eq_dec string_dec (s_name a) (s_name b) then true else false)
  && sfmap_eqb (s_globals a) (s_globals b)
  && Nat.eqb (List.length (s_structs a)) (List.length (s_structs b))
  && forallb (fun sm => match lookup string_dec (fst sm) (s_structs b) with
                        | Some m => sfmap_eqb (snd sm) m | None => false end) (s_structs a)
  && (if list_eq_dec luaversion_eq_dec (s_versions a) (s_versions b) then true else false)
  && (if opt_eq_dec Z.eq_dec (s_last_updated a) (s_last_updated b) then true else false)
  && (if opt_eq_dec string_dec (s_last_selene_version a) (s_last_selene_version b) then true else false)
  && Nat.eqb (List.length (s_roblox_classes a)) (List.length (s_roblox_classes b))
  && forallb (fun c => match lookup string_dec (fst c) (s_roblox_classes b) with
                       | Some c' => rclass_eqb (snd c) c' | None => false end) (s_roblox_classes a).

Inductive case :=
| CSer (l : slib) (v : yval) (value_roundtrip text_roundtrip : bool)
| CDe (v : yval) (res : option slib) (reload_ok : bool).

Definition check_case (c : case) : N * N :=
  match c with
  | CSer l v value_ok text_ok =>
      let corr := yval_eqb (ser_lib l) v
                  && match de_lib v with Some l' => slib_eqb l' l | None => negb (wf_slib l) end in
      (* the property: an equal library comes back (for libraries a load can produce) *)
      let spec := negb (wf_slib l) || (value_ok && text_ok) in
      ((bit (negb corr) 1 + bit (negb spec) 4)%N, 0%N)
  | CDe v res reload_ok =>
      let corr := match de_lib v, res with
                  | Some a, Some b => slib_eqb a b
                  | None, None => true
                  | _, _ => false end in
      ((bit (negb corr) 1 + bit (negb reload_ok) 8)%N, 0%N)
  end.

Definition run := Common.run check_case.
