(** C17: writing any standard library and reading it back yields an equal library (value level). *)
From Coq Require Import ZArith.
From Selene Require Import Std.Serde.

Lemma all_some_map {A B} (f : A -> B) (g : B -> option A) l :
  (forall x, In x l -> g (f x) = Some x) -> all_some (map g (map f l)) = Some l.
Proof.
  induction l as [|x l IH]; intros H; cbn [map all_some]; [reflexivity|].
  rewrite (H x (or_introl eq_refl)), IH by (intros y Hy; apply H; right; exact Hy). reflexivity.
Qed.

Lemma de_strs_ser l : de_strs (ser_strs l) = Some l.
Proof. unfold de_strs, ser_strs. apply all_some_map. reflexivity. Qed.

Lemma de_deprecated_l_ser lz d : de_deprecated_l lz (ser_deprecated d) = Some d.
Proof.
  destruct d as [msg rep]. unfold de_deprecated_l, ser_deprecated. cbn [dep_message dep_replace].
  change (alookup "message" [("message", YStr msg); ("replace", ser_strs rep)]) with (Some (YStr msg)).
  unfold with_default.
  change (alookup "replace" [("message", YStr msg); ("replace", ser_strs rep)]) with (Some (ser_strs rep)).
  cbv beta iota. change (ser_strs rep) with (YSeq (map YStr rep)) at 1. cbv beta iota.
  change (YSeq (map YStr rep)) with (ser_strs rep). rewrite de_strs_ser. reflexivity.
Qed.
Lemma de_deprecated_ser d : de_deprecated (ser_deprecated d) = Some d.
Proof. apply de_deprecated_l_ser. Qed.

Lemma de_argtype_ser t : de_argtype (ser_argtype t) = Some t.
Proof.
  destruct t; try reflexivity.
  - unfold ser_argtype, ser_strs, de_argtype. rewrite (all_some_map YStr de_str) by reflexivity. reflexivity.
Qed.

Lemma de_required_ser r : de_required (ser_required r) = Some r.
Proof. destruct r as [|[m|]]; reflexivity. Qed.

Lemma de_observes_ser o : de_observes (YStr (observes_str o)) = Some o.
Proof. destruct o; reflexivity. Qed.

Lemma de_writability_ser w : de_writability (YStr (writability_str w)) = Some w.
Proof. destruct w; reflexivity. Qed.

Lemma alookup_cons_eq k v m : alookup k ((k, v) :: m) = Some v.
Proof. unfold alookup. cbn [lookup]. destruct (string_dec k k); [reflexivity|congruence]. Qed.
Lemma alookup_cons_ne k k' v m : k <> k' -> alookup k ((k', v) :: m) = alookup k m.
Proof. intros H. unfold alookup. cbn [lookup]. destruct (string_dec k k'); [congruence|reflexivity]. Qed.

Ltac look := repeat first [ rewrite alookup_cons_eq | rewrite alookup_cons_ne by discriminate
                          | (change (alookup _ []) with (@None yval)) ]; cbv beta iota.

Lemma de_option_dep_l_ser lz d : de_option (de_deprecated_l lz) (ser_deprecated d) = Some (Some d).
Proof. unfold de_option. rewrite de_deprecated_l_ser. reflexivity. Qed.
Lemma de_option_dep_ser d : de_option de_deprecated (ser_deprecated d) = Some (Some d).
Proof. apply de_option_dep_l_ser. Qed.

Lemma de_argument_ser a : de_argument (ser_argument a) = Some a.
Proof.
  destruct a as [req ty obs dep]. unfold de_argument, ser_argument, with_default.
  cbn [arg_required arg_type arg_observes arg_deprecated].
  destruct req as [|[m|]], obs, dep as [d|]; cbn [ser_opt app ser_required observes_str]; look;
    cbn [de_required]; rewrite ?de_argtype_ser, ?de_option_dep_ser;
    try (change (de_observes (YStr "read")) with (Some ObsRead)); try (change (de_observes (YStr "write")) with (Some ObsWrite));
    cbv beta iota; reflexivity.
Qed.

Lemma de_arguments_ser l : all_some (map de_argument (map ser_argument l)) = Some l.
Proof. apply all_some_map. intros x _. apply de_argument_ser. Qed.

Lemma filter_kind_entries k dep :
  List.filter (fun kv => negb (str_eqb (fst kv) "deprecated")) (ser_kind_entries k ++ ser_opt "deprecated" ser_deprecated dep)
  = ser_kind_entries k.
Proof.
  destruct k as [|[args me mu]|w|s|]; destruct dep; try destruct me; try destruct mu; reflexivity.
Qed.

Lemma de_kind_ser k : de_kind (ser_kind_entries k) = Some k.
Proof.
  destruct k as [|b|w|s|]; unfold de_kind, with_default.
  - reflexivity.
  - destruct b as [args me mu]. cbn [ser_kind_entries fn_args fn_method fn_must_use].
    destruct me, mu; cbn [app]; look; rewrite de_arguments_ser; reflexivity.
  - cbn [ser_kind_entries]. look. rewrite de_writability_ser. reflexivity.
  - cbn [ser_kind_entries]. look. reflexivity.
  - reflexivity.
Qed.

Lemma de_field_ser f : de_field (ser_field f) = Some f.
Proof.
  destruct f as [k dep]. unfold de_field, ser_field. cbn [f_kind f_deprecated].
  rewrite filter_kind_entries, de_kind_ser.
  assert (H : with_default "deprecated" (ser_kind_entries k ++ ser_opt "deprecated" ser_deprecated dep) None
                (de_option (de_deprecated_l true)) = Some dep).
  { unfold with_default.
    assert (Hn : forall tail, alookup "deprecated" (ser_kind_entries k ++ tail) = alookup "deprecated" tail).
    { intros tail. destruct k as [|[args me mu]|w|s|]; try destruct me; try destruct mu;
        cbn [ser_kind_entries app fn_args fn_method fn_must_use]; look; reflexivity. }
    rewrite Hn. destruct dep as [d|]; cbn [ser_opt]; look; [|reflexivity].
    apply de_option_dep_l_ser. }
  rewrite H. reflexivity.
Qed.

Lemma de_fmap_ser m : de_fmap (ser_fmap m) = Some m.
Proof.
  unfold de_fmap, ser_fmap. rewrite map_map. cbn [fst snd].
  induction m as [|[k f] m IH]; cbn [map all_some fst snd]; [reflexivity|].
  rewrite de_field_ser, IH. reflexivity.
Qed.

Definition wf_version (v : luaversion) : bool :=
  match v with
  | VUnknown s => negb (existsb (str_eqb s) ["lua51"; "lua52"; "lua53"; "lua54"; "luau"; "luajit"])
  | _ => true
  end.

Lemma de_version_ser v : wf_version v = true -> de_version (YStr (version_str v)) = Some v.
Proof.
  destruct v; try reflexivity. cbn [wf_version version_str de_version existsb]. intros H.
  apply negb_true_iff in H. repeat (apply orb_false_iff in H; destruct H as [?H H]).
  repeat match goal with
  | Hx : str_eqb s ?lit = false |- _ =>
      destruct (string_dec s lit) as [->|]; [rewrite (proj2 (str_eqb_eq lit lit) eq_refl) in Hx; discriminate|]; clear Hx
  end. reflexivity.
Qed.

Lemma de_rclass_ser c : de_rclass (ser_rclass c) = Some c.
Proof.
  destruct c as [sup ev pr]. unfold de_rclass, ser_rclass. cbn [rc_superclass rc_events rc_properties].
  look. unfold lenient, ser_strs at 1 2. fold (ser_strs ev). fold (ser_strs pr). rewrite !de_strs_ser. reflexivity.
Qed.

Lemma de_structs_ser (st : list (string * list (string * field))) :
  all_some (map (fun kv => match lenient de_fmap (snd kv) with Some f => Some (fst kv, f) | None => None end)
                (map (fun sm => (fst sm, ser_fmap (snd sm))) st)) = Some st.
Proof.
  rewrite map_map. cbn [fst snd].
  induction st as [|[k m] l IH]; cbn [map all_some fst snd]; [reflexivity|].
  unfold lenient at 1. unfold ser_fmap at 1. fold (ser_fmap m). rewrite de_fmap_ser, IH. reflexivity.
Qed.

Lemma de_rclasses_ser (rc : list (string * rclass)) :
  all_some (map (fun kv => match de_rclass (snd kv) with Some c => Some (fst kv, c) | None => None end)
                (map (fun c => (fst c, ser_rclass (snd c))) rc)) = Some rc.
Proof.
  rewrite map_map. cbn [fst snd].
  induction rc as [|[k c] l IH]; cbn [map all_some fst snd]; [reflexivity|]. rewrite de_rclass_ser, IH. reflexivity.
Qed.

Definition wf_slib (l : slib) : bool := forallb wf_version (s_versions l).

Lemma alookup_opt_entries k l :
  NoDup (map fst l) ->
  alookup k (opt_entries l) = match lookup string_dec k l with Some (Some v) => Some v | _ => None end.
Proof.
  unfold alookup, opt_entries. induction l as [|[k0 o] l IH]; intros Hnd; cbn [flat_map lookup map fst snd]; [reflexivity|].
  inversion Hnd as [|? ? Hnotin Hnd']; subst.
  destruct o as [v|]; cbn [app lookup].
  - destruct (string_dec k k0); [reflexivity|apply IH; exact Hnd'].
  - destruct (string_dec k k0) as [->|]; [|apply IH; exact Hnd'].
    rewrite IH by exact Hnd'.
    assert (Hn : lookup string_dec k0 l = None).
    { clear -Hnotin. induction l as [|[a b] l IHl]; cbn; [reflexivity|].
      destruct (string_dec k0 a) as [->|]; [exfalso; apply Hnotin; left; reflexivity|].
      apply IHl. intro H; apply Hnotin; right; exact H. }
    rewrite Hn. reflexivity.
Qed.

Lemma opt_id {A} (o : option A) : match o with Some v => Some v | None => None end = o.
Proof. destruct o; reflexivity. Qed.

Theorem serde_roundtrip l : wf_slib l = true -> de_lib (ser_lib l) = Some l.
Proof.
  intros Hwf. destruct l as [b n g st vs lu lv rc]. unfold wf_slib in Hwf. cbn [s_versions] in Hwf.
  unfold de_lib, ser_lib.
  assert (Hkeys : forallb (fun kv => existsb (str_eqb (fst kv)) known_keys)
                    (opt_entries (lib_entries {| s_base := b; s_name := n; s_globals := g; s_structs := st; s_versions := vs;
                                                 s_last_updated := lu; s_last_selene_version := lv; s_roblox_classes := rc |})) = true).
  { apply forallb_forall. intros kv Hin. unfold opt_entries in Hin. apply in_flat_map in Hin as [[k o] [Hk Ho]].
    cbn [fst snd] in Ho. destruct o as [v|]; [|destruct Ho]. destruct Ho as [<-|[]]. cbn [fst].
    unfold lib_entries in Hk. cbn [In] in Hk.
    repeat (destruct Hk as [Hk|Hk]; [injection Hk as <- _; reflexivity|]). destruct Hk. }
  rewrite Hkeys. cbn [negb].
  assert (Hnd : NoDup (map fst (lib_entries {| s_base := b; s_name := n; s_globals := g; s_structs := st; s_versions := vs;
                                               s_last_updated := lu; s_last_selene_version := lv; s_roblox_classes := rc |}))).
  { cbn. repeat (constructor; [cbn; intuition discriminate|]). constructor. }
  unfold with_default. rewrite !(alookup_opt_entries _ _ Hnd).
  cbn [lib_entries lookup s_base s_name s_globals s_structs s_versions s_last_updated s_last_selene_version s_roblox_classes].
  cbv [string_dec string_rec string_rect ascii_dec ascii_rec ascii_rect bool_dec bool_rec bool_rect sumbool_rec sumbool_rect eq_rec_r eq_rec eq_rect eq_sym].
  (* field by field *)
  rewrite !opt_id.
  assert (Hb : match option_map YStr b with Some v => de_option de_str v | None => Some None end = Some b) by (destruct b; reflexivity).
  assert (Hn : match option_map YStr n with Some v => de_option de_str v | None => Some None end = Some n) by (destruct n; reflexivity).
  assert (Hvs : all_some (map de_version (map (fun v => YStr (version_str v)) vs)) = Some vs).
  { apply all_some_map. intros v Hv. apply de_version_ser. rewrite forallb_forall in Hwf. exact (Hwf v Hv). }
  assert (Hlu : match option_map YInt lu with Some v => de_option (fun x => match x with YInt z => Some z | _ => None end) v | None => Some None end = Some lu)
    by (destruct lu; reflexivity).
  assert (Hlv : match option_map YStr lv with Some v => de_option de_str v | None => Some None end = Some lv) by (destruct lv; reflexivity).
  rewrite Hb, Hn.
  destruct g as [|g0 g'], st as [|s0 st'], rc as [|c0 rc'];
    unfold lenient;
    repeat (cbv beta iota; first [rewrite de_fmap_ser | rewrite de_structs_ser | rewrite Hvs | rewrite Hlu | rewrite Hlv | rewrite de_rclasses_ser]);
    reflexivity.
Qed.

(** "loading never accepts a document that it would then serialise to something that fails to load" *)
Theorem accepts_implies_reloadable v l : de_lib v = Some l -> wf_slib l = true -> de_lib (ser_lib l) = Some l.
Proof. intros _. apply serde_roundtrip. Qed.
