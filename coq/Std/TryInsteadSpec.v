From Selene Require Import Std.TryInstead.
Open Scope N_scope.

Lemma subst_number_no_panic params d a : a <> APanic -> subst_number params d a <> APanic.
Proof.
  intros Ha. unfold subst_number. destruct (u32_max <? d); [destruct a; congruence|].
  destruct ((N.of_nat (List.length params) <? d) || (d =? 0)) eqn:E; [destruct a; congruence|].
  apply orb_false_iff in E as [E1 E2]. apply N.ltb_ge in E1. apply N.eqb_neq in E2.
  destruct (nth_error params (N.to_nat d - 1)) eqn:En.
  - destruct a; cbn; congruence.
  - exfalso. apply nth_error_None in En. lia.
Qed.

Lemma emit_no_panic a s : a <> APanic -> emit a s <> APanic.
Proof. destruct a; cbn; congruence. Qed.

Lemma scan_no_panic params s : forall state a, a <> APanic -> scan params s state a <> APanic.
Proof.
  induction s as [|c r IH]; intros state a Ha.
  - destruct state; cbn; auto using emit_no_panic, subst_number_no_panic.
  - cbn [scan]. destruct state as [| |d|[|k]].
    + destruct (Ascii.eqb c "%"); apply IH; auto using emit_no_panic.
    + destruct (Ascii.eqb c "%"); [apply IH; auto using emit_no_panic|].
      destruct (is_digit c); [apply IH; assumption|].
      destruct (Ascii.eqb c "." && starts_dotdot r); [apply IH; auto using emit_no_panic|].
      apply IH; auto using emit_no_panic.
    + destruct (is_digit c); [apply IH; assumption|].
      destruct (Ascii.eqb c "%"); apply IH; auto using emit_no_panic, subst_number_no_panic.
    + destruct (Ascii.eqb c "%"); apply IH; auto using emit_no_panic.
    + apply IH; assumption.
Qed.

(** whatever `replace` patterns a library declares and however many arguments a call passes,
    building the "try: ..." suggestion never indexes out of bounds *)
Theorem try_instead_total replace params : try_instead replace params <> Panics.
Proof.
  induction replace as [|fmt r IH]; cbn [try_instead]; [discriminate|].
  unfold expand. pose proof (scan_no_panic params fmt Normal (AOut []) ltac:(discriminate)) as H.
  destruct (scan params fmt Normal (AOut [])); [congruence|exact IH|discriminate].
Qed.

Example try_instead_examples :
  try_instead ["new(%1, %2)"; "other(%...)"; "%%"] ["a"] = Instead "other(a)" /\
  try_instead ["f(%0)"] ["a"] = Nothing /\
  try_instead ["f(%1) -- 100%% %. %.. %x %"] ["a"; "b"] = Instead "f(a) -- 100% %. %.. %x %" /\
  try_instead ["%99999999999"; "g(%...)"] ["a"; "b"] = Instead "g(a, b)".
Proof. vm_compute. repeat split; reflexivity. Qed.
