(** C11: Deprecated::try_instead (selene-lib/src/standard_library/mod.rs:478-520): the `replace`
    patterns of a deprecated entry are expanded with the call's arguments by
    Regex(%(%|[0-9]+|\.\.\.)).replace_all; a pattern naming a parameter that was not passed is skipped.
    The model is the scanner that regex denotes (leftmost match, alternatives in order, digits greedy);
    indexing [parameters[number - 1]] is explicit so that "cannot go out of bounds" is a theorem. *)
From Selene Require Export Base.Util.
Open Scope N_scope.

Inductive res := RPanic | RFail | ROk (s : string).

Definition is_digit (c : ascii) : bool := let n := N_of_ascii c in (48 <=? n) && (n <=? 57).
Definition digit_val (c : ascii) : N := N_of_ascii c - 48.

(** accumulated output, or failure (success := false), or an out-of-bounds index *)
Inductive acc := APanic | AFail | AOut (rev_out : list string).

Definition emit (a : acc) (s : string) : acc :=
  match a with AOut o => AOut (s :: o) | other => other end.

Definition u32_max : N := 4294967295.

(** closure body for a `number` capture: parse::<u32>, the bounds guard, then the index *)
Definition subst_number (params : list string) (digits : N) (a : acc) : acc :=
  if u32_max <? digits then (match a with APanic => APanic | _ => AFail end)
  else if (N.of_nat (List.length params) <? digits) || (digits =? 0) then (match a with APanic => APanic | _ => AFail end)
  else match nth_error params (N.to_nat digits - 1) with
       | Some p => emit a p
       | None => APanic                      (* parameters[number - 1] out of bounds *)
       end.

Fixpoint join (sep : string) (l : list string) : string :=
  match l with [] => "" | [x] => x | x :: r => x ++ sep ++ join sep r end.

Inductive st := Normal | AfterPercent | InNumber (digits : N) | Dots (left : nat).

Definition starts_dotdot (s : string) : bool :=
  match s with String "."%char (String "."%char _) => true | _ => false end.

Definition chr (c : ascii) : string := String c EmptyString.

Fixpoint scan (params : list string) (s : string) (state : st) (a : acc) : acc :=
  match s with
  | EmptyString =>
      match state with
      | Normal => a
      | AfterPercent => emit a "%"
      | InNumber d => subst_number params d a
      | Dots _ => a                            (* unreachable: Dots is entered only with the dots ahead *)
      end
  | String c r =>
      let normal (a : acc) :=
        if Ascii.eqb c "%"%char then scan params r AfterPercent a else scan params r Normal (emit a (chr c)) in
      match state with
      | Normal => normal a
      | AfterPercent =>
          if Ascii.eqb c "%"%char then scan params r Normal (emit a "%")
          else if is_digit c then scan params r (InNumber (digit_val c)) a
          else if Ascii.eqb c "."%char && starts_dotdot r then scan params r (Dots 2) (emit a (join ", " params))
          else normal (emit a "%")
      | InNumber d =>
          if is_digit c then scan params r (InNumber (N.min (10 * d + digit_val c) (u32_max + 1))) a
          else normal (subst_number params d a)
      | Dots (S k) => scan params r (match k with O => Normal | _ => Dots k end) a
      | Dots O => normal a
      end
  end.

Definition expand (params : list string) (fmt : string) : res :=
  match scan params fmt Normal (AOut []) with
  | APanic => RPanic
  | AFail => RFail
  | AOut o => ROk (String.concat "" (rev o))
  end.

Inductive outcome := Panics | Nothing | Instead (s : string).

Fixpoint try_instead (replace : list string) (params : list string) : outcome :=
  match replace with
  | [] => Nothing
  | fmt :: r => match expand params fmt with
                | RPanic => Panics
                | RFail => try_instead r params
                | ROk s => Instead s
                end
  end.
