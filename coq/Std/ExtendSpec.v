(** What C15 demands of a derived/base pair, and the proof that the model of [extend] meets it. *)
From Selene Require Import Base.UtilFacts Std.Extend.

(** Specification, written as a lookup table: the derived library decides when it mentions the
    key (a [Removed] mention deletes), otherwise the base does. *)
Definition spec_present (d b : fmap) (k : key) : option field :=
  match glookup k d with
  | Some f => if is_removed f then None else Some f
  | None => present k b
  end.

Definition spec_versions (d b : list luaversion) : list luaversion :=
  match d with [] => b | _ => d end.

Fixpoint spec_chain_present (first : fmap) (rest : list fmap) (k : key) : option field :=
  match glookup k first with
  | Some f => if is_removed f then None else Some f
  | None => match rest with
            | [] => None
            | b :: rest' => spec_chain_present b rest' k
            end
  end.

Fixpoint spec_chain_versions (first : list luaversion) (rest : list (list luaversion)) :=
  match first with
  | _ :: _ => first
  | [] => match rest with [] => [] | b :: rest' => spec_chain_versions b rest' end
  end.

Lemma nodupb_NoDup {A} (d : forall a b : A, {a = b} + {a <> b}) l :
  nodupb d l = true -> NoDup l.
Proof.
  induction l as [|x l IH]; cbn [nodupb]; intros H; [constructor|].
  apply andb_true_iff in H as [H1 H2].
  destruct (in_dec d x l); [discriminate|]. constructor; auto.
Qed.

Lemma wf_fmap_NoDup m : wf_fmap m = true -> NoDup (keys m).
Proof. apply nodupb_NoDup. Qed.

Lemma glookup_extend_globals d b k :
  wf_fmap d = true -> wf_fmap b = true ->
  glookup k (extend_globals d b) = spec_present d b k.
Proof.
  intros Hd Hb. apply wf_fmap_NoDup in Hd. apply wf_fmap_NoDup in Hb.
  unfold extend_globals, glookup, spec_present, present, glookup.
  rewrite lookup_overwrite.
  rewrite lookup_rev_nodup by (apply filter_keys_nodup; exact Hd).
  rewrite (lookup_filter_key key_eq_dec (fun _ f => negb (is_removed f))) by exact Hd.
  rewrite (lookup_filter_key key_eq_dec
             (fun k f => negb (is_removed f) && negb (removed_in d k))) by exact Hb.
  unfold removed_in, glookup.
  destruct (lookup key_eq_dec k d) as [fd|] eqn:Ed.
  - destruct (is_removed fd) eqn:Er; cbn [negb]; [|reflexivity].
    destruct (lookup key_eq_dec k b) as [fb|]; [|reflexivity].
    rewrite andb_false_r. reflexivity.
  - destruct (lookup key_eq_dec k b) as [fb|]; [|reflexivity].
    cbn [negb]. rewrite andb_true_r. destruct (is_removed fb); reflexivity.
Qed.

(** No [Removed] entry survives an [extend]. *)
Lemma extend_globals_no_removed d b k f :
  wf_fmap d = true -> wf_fmap b = true ->
  glookup k (extend_globals d b) = Some f -> is_removed f = false.
Proof.
  intros Hd Hb. rewrite glookup_extend_globals by assumption.
  unfold spec_present, present.
  destruct (glookup k d) as [fd|].
  - destruct (is_removed fd) eqn:E; [discriminate|]. intros [= <-]. exact E.
  - destruct (glookup k b) as [fb|]; [|discriminate].
    destruct (is_removed fb) eqn:E; [discriminate|]. intros [= <-]. exact E.
Qed.

Theorem extend_lookup d b k :
  wf_lib d = true -> wf_lib b = true ->
  present k (l_globals (extend d b)) = spec_present (l_globals d) (l_globals b) k
  /\ glookup k (l_globals (extend d b)) = spec_present (l_globals d) (l_globals b) k.
Proof.
  intros Hd Hb.
  assert (Hd' : wf_fmap (l_globals d) = true).
  { unfold wf_lib in Hd. apply andb_true_iff in Hd as [Hd _]. apply andb_true_iff in Hd as [Hd _]. exact Hd. }
  assert (Hb' : wf_fmap (l_globals b) = true).
  { unfold wf_lib in Hb. apply andb_true_iff in Hb as [Hb _]. apply andb_true_iff in Hb as [Hb _]. exact Hb. }
  split; [|apply glookup_extend_globals; assumption].
  unfold present. cbn [extend l_globals].
  destruct (glookup k (extend_globals (l_globals d) (l_globals b))) as [f|] eqn:E.
  - rewrite (extend_globals_no_removed _ _ _ _ Hd' Hb' E).
    rewrite <- E. apply glookup_extend_globals; assumption.
  - rewrite <- E. apply glookup_extend_globals; assumption.
Qed.

Theorem extend_versions_spec d b :
  l_versions (extend d b) = spec_versions (l_versions d) (l_versions b).
Proof. cbn. unfold extend_versions, spec_versions. destruct (l_versions d); reflexivity. Qed.

(** The result of [extend] is again a well-formed map (so the statement iterates). *)
Lemma insert_keys_nodup {V} (k : key) (v : V) m :
  NoDup (keys m) -> NoDup (keys (insert key_eq_dec k v m)).
Proof.
  induction m as [|[k0 v0] m IH]; intros Hnd; cbn [insert].
  - cbn. constructor; [intros []|constructor].
  - inversion Hnd as [|? ? Hnotin Hnd']; subst.
    destruct (key_eq_dec k k0) as [->|Hne]; [exact Hnd|].
    cbn. constructor; [|auto].
    intro Hin. apply Hnotin.
    clear -Hin Hne. induction m as [|[a c] m IHm]; cbn [insert keys map fst] in *.
    + destruct Hin as [H|[]]. congruence.
    + destruct (key_eq_dec k a) as [->|Hne2]; cbn [keys map fst] in *.
      * exact Hin.
      * destruct Hin as [H|H]; [left; exact H|right; auto].
Qed.

Lemma overwrite_keys_nodup {V} (m ups : list (key * V)) :
  NoDup (keys m) -> NoDup (keys (overwrite key_eq_dec m ups)).
Proof.
  unfold overwrite. revert m. induction ups as [|[k v] ups IH]; intros m H; cbn [fold_left]; [exact H|].
  apply IH. apply insert_keys_nodup. exact H.
Qed.

Lemma NoDup_nodupb {A} (d : forall a b : A, {a = b} + {a <> b}) l : NoDup l -> nodupb d l = true.
Proof.
  induction 1 as [|x l Hn Hnd IH]; cbn [nodupb]; [reflexivity|].
  destruct (in_dec d x l); [contradiction|]. exact IH.
Qed.

Lemma extend_globals_wf d b : wf_fmap d = true -> wf_fmap b = true -> wf_fmap (extend_globals d b) = true.
Proof.
  intros Hd Hb. apply NoDup_nodupb. unfold extend_globals.
  apply overwrite_keys_nodup. apply filter_keys_nodup. apply wf_fmap_NoDup. exact Hb.
Qed.

(** Chains of any length. *)
Definition wf_globals (l : lib) : bool := wf_fmap (l_globals l).

Lemma resolve_chain_wf first rest :
  wf_globals first = true -> forallb wf_globals rest = true ->
  wf_globals (resolve_chain first rest) = true.
Proof.
  revert first. induction rest as [|b rest IH]; intros first Hf Hr; cbn [resolve_chain]; [exact Hf|].
  cbn [forallb] in Hr. apply andb_true_iff in Hr as [Hb Hr].
  unfold wf_globals. cbn [extend l_globals]. apply extend_globals_wf; [exact Hf|].
  apply IH; assumption.
Qed.

Theorem extend_chain first rest k :
  wf_globals first = true -> forallb wf_globals rest = true ->
  rest <> [] ->
  glookup k (l_globals (resolve_chain first rest)) =
    spec_chain_present (l_globals first) (map l_globals rest) k.
Proof.
  revert first. induction rest as [|b rest IH]; intros first Hf Hr Hne; [congruence|].
  cbn [forallb] in Hr. apply andb_true_iff in Hr as [Hb Hr].
  cbn [resolve_chain extend l_globals map spec_chain_present].
  rewrite glookup_extend_globals;
    [|exact Hf|apply (resolve_chain_wf b rest Hb Hr)].
  unfold spec_present.
  destruct (glookup k (l_globals first)) as [f|]; [reflexivity|].
  destruct rest as [|b' rest'].
  - cbn [resolve_chain map spec_chain_present]. reflexivity.
  - unfold present. rewrite IH by (assumption || discriminate).
    remember (spec_chain_present (l_globals b) (map l_globals (b' :: rest')) k) as r eqn:Er.
    destruct r as [f|]; [|reflexivity].
    (* the chain spec never returns a removed field *)
    assert (Hnr : forall fst0 rst f0, spec_chain_present fst0 rst k = Some f0 -> is_removed f0 = false).
    { clear. intros fst0 rst. revert fst0. induction rst as [|x rst IHr]; intros fst0 f0; cbn [spec_chain_present].
      - destruct (glookup k fst0) as [g|]; [|discriminate].
        destruct (is_removed g) eqn:E; [discriminate|]. intros [= <-]. exact E.
      - destruct (glookup k fst0) as [g|]; [|apply IHr].
        destruct (is_removed g) eqn:E; [discriminate|]. intros [= <-]. exact E. }
    rewrite (Hnr _ _ _ (eq_sym Er)). reflexivity.
Qed.

Theorem extend_chain_versions first rest :
  l_versions (resolve_chain first rest) =
    spec_chain_versions (l_versions first) (map l_versions rest).
Proof.
  revert first. induction rest as [|b rest IH]; intros first; cbn [resolve_chain map spec_chain_versions].
  - destruct (l_versions first); reflexivity.
  - cbn [extend l_versions]. unfold extend_versions. rewrite IH.
    destruct (l_versions first); reflexivity.
Qed.

(** `a+b+c`: each later segment acts as a base of what has been accumulated so far. *)
Theorem plus_fold_step acc b rest :
  plus_fold acc (b :: rest) = plus_fold (extend acc b) rest.
Proof. reflexivity. Qed.

(** The same for the CLI's [a+b+c]: after the first step nothing is marked removed any more,
    so every later segment only fills in what is still absent. *)
Definition spec_plus_present (first : fmap) (rest : list fmap) (k : key) : option field :=
  match rest with
  | [] => glookup k first
  | b :: rest' =>
      fold_left (fun r b' => match r with Some f => Some f | None => present k b' end)
                rest' (spec_present first b k)
  end.

Lemma plus_fold_tail acc rest k :
  wf_globals acc = true -> forallb wf_globals rest = true ->
  (forall f, glookup k (l_globals acc) = Some f -> is_removed f = false) ->
  glookup k (l_globals (plus_fold acc rest)) =
  fold_left (fun r b' => match r with Some f => Some f | None => present k b' end)
            (map l_globals rest) (glookup k (l_globals acc)).
Proof.
  revert acc. induction rest as [|b rest IH]; intros acc Ha Hr Hnr; [reflexivity|].
  cbn [forallb] in Hr. apply andb_true_iff in Hr as [Hb Hr].
  rewrite plus_fold_step. cbn [map fold_left].
  rewrite IH.
  - f_equal. cbn [extend l_globals]. rewrite glookup_extend_globals by assumption.
    unfold spec_present.
    destruct (glookup k (l_globals acc)) as [f|] eqn:E; [|reflexivity].
    rewrite (Hnr f eq_refl). reflexivity.
  - unfold wf_globals. cbn [extend l_globals]. apply extend_globals_wf; assumption.
  - exact Hr.
  - intros f Hf. cbn [extend l_globals] in Hf.
    eapply extend_globals_no_removed; [exact Ha|exact Hb|exact Hf].
Qed.

Theorem plus_fold_lookup first rest k :
  wf_globals first = true -> forallb wf_globals rest = true ->
  glookup k (l_globals (plus_fold first rest)) =
    spec_plus_present (l_globals first) (map l_globals rest) k.
Proof.
  intros Hf Hr. destruct rest as [|b rest]; [reflexivity|].
  cbn [forallb] in Hr. apply andb_true_iff in Hr as [Hb Hr].
  rewrite plus_fold_step. cbn [map spec_plus_present].
  rewrite plus_fold_tail.
  - f_equal. cbn [extend l_globals]. apply glookup_extend_globals; assumption.
  - unfold wf_globals. cbn [extend l_globals]. apply extend_globals_wf; assumption.
  - exact Hr.
  - intros f Hfk. cbn [extend l_globals] in Hfk.
    eapply extend_globals_no_removed; [exact Hf|exact Hb|exact Hfk].
Qed.

(** Non-vacuity: a concrete derived/base pair exercising override, removal, inheritance. *)
Definition ex_fn : field := field_simple (FFunction {| fn_args := []; fn_method := false; fn_must_use := true |}).
Definition ex_ro : field := field_simple (FProperty ReadOnly).
Definition ex_derived : lib :=
  {| l_base := Some "b"; l_name := None;
     l_globals := [(["x"], ex_fn); (["gone"], field_simple FRemoved)];
     l_structs := []; l_versions := [Lua53] |}.
Definition ex_base : lib :=
  {| l_base := None; l_name := None;
     l_globals := [(["x"], ex_ro); (["gone"], ex_ro); (["kept"; "f"], ex_ro)];
     l_structs := []; l_versions := [Lua52] |}.
Example extend_example :
  wf_lib ex_derived = true /\ wf_lib ex_base = true /\
  l_globals (extend ex_derived ex_base) = [(["x"], ex_fn); (["kept"; "f"], ex_ro)] /\
  l_versions (extend ex_derived ex_base) = [Lua53].
Proof. vm_compute. repeat split. Qed.

(** ---- structs ---- *)

Definition slookup (s : string) (m : list (string * fmap)) : option fmap := lookup string_dec s m.

(** structs: BTreeMap::extend inserts the base's structs over the derived library's, so for a struct name
    both define the *base's* definition is the effective one (unlike globals) *)
Definition spec_struct (d b : list (string * fmap)) (s : string) : option fmap :=
  match slookup s b with Some m => Some m | None => slookup s d end.

Definition wf_structs (l : lib) : bool := nodupb string_dec (keys (l_structs l)).

Lemma extend_structs_lookup d b s :
  wf_structs b = true ->
  slookup s (l_structs (extend d b)) = spec_struct (l_structs d) (l_structs b) s.
Proof.
  intros Hb. unfold slookup, spec_struct, slookup. cbn [extend l_structs]. unfold extend_structs.
  rewrite lookup_overwrite, lookup_rev_nodup; [reflexivity|].
  apply nodupb_NoDup in Hb. exact Hb.
Qed.

Lemma insert_skeys_nodup {V} (k : string) (v : V) m :
  NoDup (keys m) -> NoDup (keys (insert string_dec k v m)).
Proof.
  induction m as [|[k0 v0] m IH]; intros Hnd; cbn [insert].
  - cbn. constructor; [intros []|constructor].
  - inversion Hnd as [|? ? Hnotin Hnd']; subst.
    destruct (string_dec k k0) as [->|Hne]; [exact Hnd|].
    cbn. constructor; [|auto].
    intro Hin. apply Hnotin.
    clear -Hin Hne. induction m as [|[a c] m IHm]; cbn [insert keys map fst] in *.
    + destruct Hin as [H|[]]. congruence.
    + destruct (string_dec k a) as [->|Hne2]; cbn [keys map fst] in *.
      * exact Hin.
      * destruct Hin as [H|H]; [left; exact H|right; auto].
Qed.

Lemma overwrite_skeys_nodup {V} (m ups : list (string * V)) :
  NoDup (keys m) -> NoDup (keys (overwrite string_dec m ups)).
Proof.
  unfold overwrite. revert m. induction ups as [|[k v] ups IH]; intros m H; cbn [fold_left]; [exact H|].
  apply IH. apply insert_skeys_nodup. exact H.
Qed.

Lemma extend_wf_structs d b : wf_structs d = true -> wf_structs (extend d b) = true.
Proof.
  unfold wf_structs. cbn [extend l_structs]. unfold extend_structs. intros Hd.
  apply NoDup_nodupb. apply overwrite_skeys_nodup. apply nodupb_NoDup in Hd. exact Hd.
Qed.

(** along a base chain (most derived first) the *innermost* library that defines a struct name decides *)
Fixpoint spec_chain_struct (first : list (string * fmap)) (rest : list (list (string * fmap))) (s : string) : option fmap :=
  match rest with
  | [] => slookup s first
  | b :: rest' => match spec_chain_struct b rest' s with Some m => Some m | None => slookup s first end
  end.

Lemma resolve_chain_wf_structs first rest :
  wf_structs first = true -> wf_structs (resolve_chain first rest) = true.
Proof.
  destruct rest as [|b rest]; cbn [resolve_chain]; intros H; [exact H|]. apply extend_wf_structs. exact H.
Qed.

Lemma extend_chain_structs first rest s :
  forallb wf_structs rest = true ->
  slookup s (l_structs (resolve_chain first rest)) = spec_chain_struct (l_structs first) (map l_structs rest) s.
Proof.
  revert first. induction rest as [|b rest IH]; intros first Hr; cbn [resolve_chain map spec_chain_struct]; [reflexivity|].
  cbn [forallb] in Hr. apply andb_true_iff in Hr as [Hb Hr].
  rewrite extend_structs_lookup by (apply resolve_chain_wf_structs; exact Hb).
  unfold spec_struct. rewrite IH by exact Hr. reflexivity.
Qed.

Definition ex_sd : lib :=
  {| l_base := Some "b"; l_name := None; l_globals := [];
     l_structs := [("S", [(["own"], ex_ro)]); ("D", [(["d"], ex_ro)])]; l_versions := [] |}.
Definition ex_sb : lib :=
  {| l_base := None; l_name := None; l_globals := [];
     l_structs := [("S", [(["base"], ex_ro)]); ("B", [(["b"], ex_ro)])]; l_versions := [] |}.
Example extend_structs_example :
  wf_structs ex_sb = true /\
  slookup "S" (l_structs (extend ex_sd ex_sb)) = Some [(["base"], ex_ro)] /\
  slookup "D" (l_structs (extend ex_sd ex_sb)) = Some [(["d"], ex_ro)] /\
  slookup "B" (l_structs (extend ex_sd ex_sb)) = Some [(["b"], ex_ro)].
Proof. vm_compute. repeat split. Qed.
