(** Facts about the shipped libraries, re-proved on every run against Generated/BuiltinHeads.v
    (regenerated from /repo): each built-in library accepts the syntax of the version it is named
    after and of the versions it is based on. *)
From Selene Require Import Std.Versions Std.VersionsSpec Generated.BuiltinHeads.

Fixpoint builtin_chain (fuel : nat) (name : string) : option (list (list luaversion)) :=
  match fuel with
  | O => None
  | S f =>
      match lookup string_dec name builtin_heads with
      | None => None
      | Some (None, vs) => Some [vs]
      | Some (Some b, vs) =>
          match builtin_chain f b with Some r => Some (vs :: r) | None => None end
      end
  end.

Definition builtin_dialect (name : string) : option dialect :=
  match builtin_chain 16 name with
  | Some ch => Some (fst (lua_version (chain_versions ch)))
  | None => None
  end.

Definition builtin_accepts (name : string) (cs : list construct) : bool :=
  match builtin_dialect name with
  | Some d => forallb (fun c => accepts c d) cs
  | None => false
  end.

Definition builtin_rejects (name : string) (cs : list construct) : bool :=
  match builtin_dialect name with
  | Some d => forallb (fun c => negb (accepts c d)) cs
  | None => false
  end.

Theorem named_after_accepts :
  builtin_accepts "lua51" [] = true /\
  builtin_rejects "lua51" [CGoto; CIntDiv; CBitAndOr; CBitOther; CAttrib; CLuauSyntax; CBinLit; CJitLit; CHexFloat] = true /\
  builtin_accepts "lua52" [CGoto; CHexFloat] = true /\
  builtin_rejects "lua52" [CIntDiv; CBitAndOr; CBitOther; CAttrib; CLuauSyntax; CJitLit] = true /\
  builtin_accepts "lua53" [CGoto; CHexFloat; CIntDiv; CBitAndOr; CBitOther] = true /\
  builtin_rejects "lua53" [CAttrib; CLuauSyntax; CJitLit] = true /\
  builtin_accepts "luau" [CLuauSyntax; CIntDiv; CBinLit] = true /\
  builtin_rejects "luau" [CGoto; CBitOther; CAttrib; CJitLit] = true /\
  builtin_accepts "roblox" [CLuauSyntax; CIntDiv; CBinLit] = true /\
  builtin_rejects "roblox" [CGoto; CBitOther; CAttrib; CJitLit] = true.
Proof. vm_compute. repeat split. Qed.
