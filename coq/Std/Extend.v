(** Model of StandardLibrary::extend (selene-lib/src/standard_library/mod.rs:292-329),
    of from_builtin_name's base recursion (:340-352) and of the CLI's `+` fold
    (selene/src/standard_library.rs:89-124).  [self] is the derived library. *)
From Selene Require Export Std.Lib.

Definition removed_in (m : fmap) (k : key) : bool :=
  match glookup k m with Some f => is_removed f | None => false end.

Definition extend_globals (self other : fmap) : fmap :=
  let survivors :=
    filter (fun kf => negb (is_removed (snd kf)) && negb (removed_in self (fst kf))) other in
  overwrite key_eq_dec survivors (filter (fun kf => negb (is_removed (snd kf))) self).

Definition extend_structs (self other : list (string * fmap)) : list (string * fmap) :=
  overwrite string_dec self other.

Definition nonempty {A} (l : list A) : bool := match l with [] => false | _ => true end.

(** lua_versions: "the derived library's lua_versions, when given, replace the base's". *)
Definition extend_versions (self other : list luaversion) : list luaversion :=
  if nonempty self then self else other.

Definition extend (self other : lib) : lib :=
  {| l_base := l_base self;
     l_name := l_name self;
     l_globals := extend_globals (l_globals self) (l_globals other);
     l_structs := extend_structs (l_structs self) (l_structs other);
     l_versions := extend_versions (l_versions self) (l_versions other) |}.

(** A base chain, most derived first: resolve [l0; l1; …] = extend l0 (resolve [l1; …]). *)
Fixpoint resolve_chain (first : lib) (rest : list lib) : lib :=
  match rest with
  | [] => first
  | b :: rest' => extend first (resolve_chain b rest')
  end.

(** The CLI's "a+b+c": the first segment is extended by each later one in turn. *)
Definition plus_fold (first : lib) (rest : list lib) : lib := fold_left extend rest first.
