(** C17: serialisation of standard libraries at serde's data-model level.
    [yval] is the value tree serde_yaml::to_value / from_value exchange with the derived and
    hand-written Serialize / Deserialize impls of selene-lib/src/standard_library/mod.rs
    (StandardLibrary :104-141, Field :437-445 with #[serde(flatten)], the untagged FieldKindSerde
    :556-605, TrueOnly :535-554, FunctionBehavior :419-431, Argument :620-636, ArgumentType
    :656-739, Required :779-815, Observes, PropertyWritability, Deprecated :460-471, LuaVersion). *)
From Coq Require Import ZArith.
From Selene Require Export Std.Lib.

Inductive yval :=
| YNull | YBool (b : bool) | YInt (z : Z) | YStr (s : string)
| YSeq (l : list yval) | YMap (m : list (string * yval)).

Definition alookup (k : string) (m : list (string * yval)) : option yval := lookup string_dec k m.

Record rclass := { rc_superclass : string; rc_events : list string; rc_properties : list string }.

(** the serialised view of a library: keys are the full dotted strings here *)
Record slib := {
  s_base : option string; s_name : option string;
  s_globals : list (string * field); s_structs : list (string * list (string * field));
  s_versions : list luaversion;
  s_last_updated : option Z; s_last_selene_version : option string;
  s_roblox_classes : list (string * rclass) }.

(** ---------- Serialize ---------- *)
Definition ser_opt {A} (k : string) (f : A -> yval) (o : option A) : list (string * yval) :=
  match o with Some x => [(k, f x)] | None => [] end.
Definition ser_strs (l : list string) : yval := YSeq (map YStr l).

Definition ser_deprecated (d : deprecated) : yval :=
  YMap [("message", YStr (dep_message d)); ("replace", ser_strs (dep_replace d))].

Definition writability_str (w : writability) : string :=
  match w with ReadOnly => "read-only" | NewFields => "new-fields"
          | OverrideFields => "override-fields" | FullWrite => "full-write" end.
Definition observes_str (o : observes) : string :=
  match o with ObsReadWrite => "read-write" | ObsRead => "read" | ObsWrite => "write" end.

Definition ser_argtype (t : argtype) : yval :=
  match t with
  | AAny => YStr "any" | ABool => YStr "bool" | AFunction => YStr "function" | ANil => YStr "nil"
  | ANumber => YStr "number" | AString => YStr "string" | ATable => YStr "table" | AVararg => YStr "..."
  | AConstant cs => ser_strs cs
  | ADisplay d => YMap [("display", YStr d)]
  end.

Definition ser_required (r : required) : yval :=
  match r with NotRequired => YBool false | Required None => YBool true | Required (Some m) => YStr m end.

Definition ser_argument (a : argument) : yval :=
  YMap ((match arg_required a with Required None => [] | r => [("required", ser_required r)] end)
        ++ [("type", ser_argtype (arg_type a))]
        ++ (match arg_observes a with ObsReadWrite => [] | o => [("observes", YStr (observes_str o))] end)
        ++ ser_opt "deprecated" ser_deprecated (arg_deprecated a)).

Definition ser_kind_entries (k : field_kind) : list (string * yval) :=
  match k with
  | FAny => [("any", YBool true)]
  | FFunction b => [("args", YSeq (map ser_argument (fn_args b)))]
                   ++ (if fn_method b then [("method", YBool true)] else [])
                   ++ (if fn_must_use b then [("must_use", YBool true)] else [])
  | FRemoved => [("removed", YBool true)]
  | FProperty w => [("property", YStr (writability_str w))]
  | FStruct s => [("struct", YStr s)]
  end.

(** #[serde(flatten)] field_kind, then deprecated *)
Definition ser_field (f : field) : yval :=
  YMap (ser_kind_entries (f_kind f) ++ ser_opt "deprecated" ser_deprecated (f_deprecated f)).

Definition version_str (v : luaversion) : string :=
  match v with Lua51 => "lua51" | Lua52 => "lua52" | Lua53 => "lua53" | Lua54 => "lua54"
          | Luau => "luau" | LuaJIT => "luajit" | VUnknown s => s end.

Definition ser_fmap (m : list (string * field)) : yval := YMap (map (fun kf => (fst kf, ser_field (snd kf))) m).

Definition ser_rclass (c : rclass) : yval :=
  YMap [("superclass", YStr (rc_superclass c)); ("events", ser_strs (rc_events c)); ("properties", ser_strs (rc_properties c))].

(** struct serialisation with skip_serializing_if: a list of (key, Some value | None = skipped) *)
Definition opt_entries (l : list (string * option yval)) : list (string * yval) :=
  flat_map (fun ko => match snd ko with Some v => [(fst ko, v)] | None => [] end) l.

Definition lib_entries (l : slib) : list (string * option yval) :=
  [("base", option_map YStr (s_base l)); ("name", option_map YStr (s_name l));
   ("globals", match s_globals l with [] => None | g => Some (ser_fmap g) end);
   ("structs", match s_structs l with [] => None | st => Some (YMap (map (fun sm => (fst sm, ser_fmap (snd sm))) st)) end);
   ("lua_versions", Some (YSeq (map (fun v => YStr (version_str v)) (s_versions l))));
   ("last_updated", option_map YInt (s_last_updated l));
   ("last_selene_version", option_map YStr (s_last_selene_version l));
   ("roblox_classes", match s_roblox_classes l with [] => None
                      | rc => Some (YMap (map (fun c => (fst c, ser_rclass (snd c))) rc)) end)].

Definition ser_lib (l : slib) : yval := YMap (opt_entries (lib_entries l)).

(** ---------- Deserialize ---------- *)
Fixpoint all_some {A} (l : list (option A)) : option (list A) :=
  match l with
  | [] => Some []
  | Some x :: r => match all_some r with Some r' => Some (x :: r') | None => None end
  | None :: _ => None
  end.

Definition de_str (v : yval) : option string := match v with YStr s => Some s | _ => None end.
Definition de_bool (v : yval) : option bool := match v with YBool b => Some b | _ => None end.
Definition de_strs (v : yval) : option (list string) :=
  match v with YSeq l => all_some (map de_str l) | _ => None end.

(** a field with #[serde(default)]: absent -> default; present -> must deserialise *)
Definition with_default {A} (k : string) (m : list (string * yval)) (d : A) (f : yval -> option A) : option A :=
  match alookup k m with None => Some d | Some v => f v end.
Definition de_option {A} (f : yval -> option A) (v : yval) : option (option A) :=
  match v with YNull => Some None | _ => match f v with Some x => Some (Some x) | None => None end end.

(** [lz]: the value is read straight from serde_yaml's deserialiser (a Field's own `deprecated`), which
    hands `null` to a sequence visitor as an empty sequence; below `args` the buffered Content is strict *)
Definition de_deprecated_l (lz : bool) (v : yval) : option deprecated :=
  match v with
  | YMap m =>
      match alookup "message" m with
      | Some mv =>
          match de_str mv, with_default "replace" m [] (fun rv => match rv with YNull => if lz then Some [] else de_strs rv | _ => de_strs rv end) with
          | Some msg, Some rep => Some {| dep_message := msg; dep_replace := rep |}
          | _, _ => None
          end
      | None => None
      end
  | _ => None
  end.
Definition de_deprecated := de_deprecated_l false.

Definition de_writability (v : yval) : option writability :=
  match v with
  | YStr s => if string_dec s "read-only" then Some ReadOnly
              else if string_dec s "new-fields" then Some NewFields
              else if string_dec s "override-fields" then Some OverrideFields
              else if string_dec s "full-write" then Some FullWrite else None
  | _ => None
  end.
Definition de_observes (v : yval) : option observes :=
  match v with
  | YStr s => if string_dec s "read-write" then Some ObsReadWrite
              else if string_dec s "read" then Some ObsRead
              else if string_dec s "write" then Some ObsWrite else None
  | _ => None
  end.

(** ArgumentTypeVisitor: visit_str / visit_seq (of strings) / visit_map (String -> String, needs `display`) *)
Definition de_argtype (v : yval) : option argtype :=
  match v with
  | YStr s => if string_dec s "any" then Some AAny else if string_dec s "bool" then Some ABool
              else if string_dec s "function" then Some AFunction else if string_dec s "nil" then Some ANil
              else if string_dec s "number" then Some ANumber else if string_dec s "string" then Some AString
              else if string_dec s "table" then Some ATable else if string_dec s "..." then Some AVararg else None
  | YSeq l => match all_some (map de_str l) with Some cs => Some (AConstant cs) | None => None end
  | YMap m => match all_some (map (fun kv => de_str (snd kv)) m) with
              | Some _ => match alookup "display" m with Some (YStr d) => Some (ADisplay d) | _ => None end
              | None => None
              end
  | _ => None
  end.

(** RequiredVisitor: visit_bool / visit_str *)
Definition de_required (v : yval) : option required :=
  match v with
  | YBool true => Some (Required None)
  | YBool false => Some NotRequired
  | YStr s => Some (Required (Some s))
  | _ => None
  end.

Definition de_argument (v : yval) : option argument :=
  match v with
  | YMap m =>
      match alookup "type" m with
      | Some tv =>
          match with_default "required" m (Required None) de_required, de_argtype tv,
                with_default "observes" m ObsReadWrite de_observes,
                with_default "deprecated" m None (de_option de_deprecated) with
          | Some r, Some t, Some o, Some d =>
              Some {| arg_required := r; arg_type := t; arg_observes := o; arg_deprecated := d |}
          | _, _, _, _ => None
          end
      | None => None
      end
  | _ => None
  end.

Definition de_true_only (v : yval) : bool := match v with YBool true => true | _ => false end.

(** untagged FieldKindSerde: the variants are tried in declaration order on the same map *)
Definition de_kind (m : list (string * yval)) : option field_kind :=
  let try_any := match alookup "any" m with Some v => de_true_only v | None => false end in
  if try_any then Some FAny else
  let try_fn :=
    match alookup "args" m with
    | Some (YSeq l) =>
        match all_some (map de_argument l), with_default "method" m false de_bool,
              with_default "must_use" m false de_bool with
        | Some args, Some me, Some mu => Some (FFunction {| fn_args := args; fn_method := me; fn_must_use := mu |})
        | _, _, _ => None
        end
    | _ => None
    end in
  match try_fn with
  | Some k => Some k
  | None =>
      if match alookup "removed" m with Some v => de_true_only v | None => false end then Some FRemoved else
      match match alookup "property" m with Some v => de_writability v | None => None end with
      | Some w => Some (FProperty w)
      | None => match alookup "struct" m with Some (YStr s) => Some (FStruct s) | _ => None end
      end
  end.

Definition de_field (v : yval) : option field :=
  match v with
  | YMap m =>
      match with_default "deprecated" m None (de_option (de_deprecated_l true)),
            de_kind (List.filter (fun kv => negb (str_eqb (fst kv) "deprecated")) m) with
      | Some d, Some k => Some {| f_kind := k; f_deprecated := d |}
      | _, _ => None
      end
  | _ => None
  end.

Definition de_fmap (v : yval) : option (list (string * field)) :=
  match v with
  | YMap m => all_some (map (fun kv => match de_field (snd kv) with Some f => Some (fst kv, f) | None => None end) m)
  | _ => None
  end.

Definition de_version (v : yval) : option luaversion :=
  match v with
  | YStr s => Some (if string_dec s "lua51" then Lua51 else if string_dec s "lua52" then Lua52
                    else if string_dec s "lua53" then Lua53 else if string_dec s "lua54" then Lua54
                    else if string_dec s "luau" then Luau else if string_dec s "luajit" then LuaJIT else VUnknown s)
  | _ => None
  end.

(** serde_yaml hands `null` to a sequence / map visitor as an empty collection. This only shows where
    the value is read straight from the YAML deserialiser: the top-level fields of the library, the
    per-struct maps and RobloxClass.  Everything below a Field goes through serde's buffered Content
    (because of #[serde(flatten)] / untagged), which is strict. *)
Definition lenient {A} (f : yval -> option (list A)) (v : yval) : option (list A) :=
  match v with YNull => Some [] | _ => f v end.

Definition de_rclass (v : yval) : option rclass :=
  match v with
  | YMap m =>
      match alookup "superclass" m, alookup "events" m, alookup "properties" m with
      | Some (YStr s), Some ev, Some pr =>
          match lenient de_strs ev, lenient de_strs pr with
          | Some e, Some p => Some {| rc_superclass := s; rc_events := e; rc_properties := p |}
          | _, _ => None
          end
      | _, _, _ => None
      end
  | _ => None
  end.

Definition known_keys : list string :=
  ["base"; "name"; "globals"; "structs"; "lua_versions"; "last_updated"; "last_selene_version"; "roblox_classes"].

Definition de_lib (v : yval) : option slib :=
  match v with
  | YMap m =>
      (* #[serde(deny_unknown_fields)] *)
      if negb (forallb (fun kv => existsb (str_eqb (fst kv)) known_keys) m) then None else
      match with_default "base" m None (de_option de_str), with_default "name" m None (de_option de_str),
            with_default "globals" m [] (lenient de_fmap),
            with_default "structs" m []
              (lenient (fun sv => match sv with
                         | YMap sm => all_some (map (fun kv => match lenient de_fmap (snd kv) with Some f => Some (fst kv, f) | None => None end) sm)
                         | _ => None end)),
            with_default "lua_versions" m [] (lenient (fun vv => match vv with YSeq l => all_some (map de_version l) | _ => None end)),
            with_default "last_updated" m None (de_option (fun x => match x with YInt z => Some z | _ => None end)),
            with_default "last_selene_version" m None (de_option de_str),
            with_default "roblox_classes" m []
              (lenient (fun cv => match cv with
                         | YMap cm => all_some (map (fun kv => match de_rclass (snd kv) with Some c => Some (fst kv, c) | None => None end) cm)
                         | _ => None end)) with
      | Some b, Some n, Some g, Some st, Some vs, Some lu, Some lv, Some rc =>
          Some {| s_base := b; s_name := n; s_globals := g; s_structs := st; s_versions := vs;
                  s_last_updated := lu; s_last_selene_version := lv; s_roblox_classes := rc |}
      | _, _, _, _, _, _, _, _ => None
      end
  | _ => None
  end.
