(** Model of StandardLibrary::find_global / global_has_fields
    (selene-lib/src/standard_library/mod.rs:42-102, 230-290).  The trie that extract_into_tree
    builds is represented extensionally: a node exists at path p iff some key has p as a prefix;
    its field is the key's field when p is itself a key and the implicit read-only table otherwise
    (GlobalTreeNode::field).  [MissingStruct] stands for the panic at mod.rs:268. *)
From Selene Require Export Std.Lib.

Fixpoint is_prefix (p k : key) : bool :=
  match p, k with
  | [], _ => true
  | a :: p', b :: k' => (if string_dec a b then true else false) && is_prefix p' k'
  | _ :: _, [] => false
  end.

Definition node_exists (m : fmap) (p : key) : bool :=
  existsb (fun kf => is_prefix p (fst kf)) m.

Definition read_only_field : field := field_simple (FProperty ReadOnly).

Definition node_field (m : fmap) (p : key) : field :=
  match glookup p m with Some f => f | None => read_only_field end.

Inductive fg_result := Found (f : field) | NotFound | MissingStruct (s : string).

(** current.get(name).or_else(|| current.get("*")) below the node at path p *)
Definition get_seg (m : fmap) (p : key) (name : string) : option key :=
  if node_exists m (p ++ [name]) then Some (p ++ [name])
  else if node_exists m (p ++ ["*"]) then Some (p ++ ["*"]) else None.

Fixpoint walk (structs : list (string * fmap)) (m : fmap) (p : key) (names : list string) : fg_result :=
  match names with
  | [] => NotFound
  | [last] =>
      match get_seg m p last with Some q => Found (node_field m q) | None => NotFound end
  | name :: rest =>
      match get_seg m p name with
      | None => NotFound
      | Some q =>
          let f := node_field m q in
          match f_kind f with
          | FAny => Found f
          | FStruct s =>
              match lookup string_dec s structs with
              | None => MissingStruct s
              | Some sm => walk structs sm [] rest
              end
          | _ => walk structs m q rest
          end
      end
  end.

Definition find_global (l : lib) (names : list string) : fg_result :=
  match glookup names (l_globals l) with
  | Some f => Found f
  | None => walk (l_structs l) (l_globals l) [] names
  end.

Definition global_has_fields (l : lib) (name : string) : bool := node_exists (l_globals l) [name].

(** Every struct named by a field (in globals or in a struct) is defined. *)
Definition fmap_structs_ok (structs : list (string * fmap)) (m : fmap) : bool :=
  forallb (fun kf => match f_kind (snd kf) with
                     | FStruct s => mem_key string_dec s structs
                     | _ => true end) m.
Definition structs_closed (l : lib) : bool :=
  fmap_structs_ok (l_structs l) (l_globals l)
  && forallb (fun sm => fmap_structs_ok (l_structs l) (snd sm)) (l_structs l).
