(** Model of the field-access and writability checks of the incorrect_standard_library_use lint
    (selene-lib/src/lints/standard_library.rs:213-267 lint_invalid_field_access, :271-367
    visit_assignment).  Paths are name paths (a.b.c); a target that resolved to a script variable
    is [TLocal]. *)
From Selene Require Export Std.FindGlobal.

Definition found (r : fg_result) : bool := match r with Found _ => true | _ => false end.



(** The `for bound in 1..=name_path.len()` loop: true = some prefix allows new fields (return
    without a diagnostic); the loop stops at the first prefix that does not resolve. *)
Fixpoint permits_new_fields (l : lib) (parent : key) (bounds : list nat) : bool :=
  match bounds with
  | [] => false
  | b :: rest =>
      match find_global l (firstn b parent) with
      | Found f =>
          match f_kind f with
          | FAny => true
          | FProperty w =>
              match w with
              | NewFields | FullWrite => true
              | _ => permits_new_fields l parent rest
              end
          | _ => permits_new_fields l parent rest
          end
      | _ => false
      end
  end.

(** lint_invalid_field_access: true = "does not contain the field" is reported. *)
Definition invalid_field_access (l : lib) (np : key) : bool :=
  match np with
  | [] => false
  | root :: _ =>
      negb (found (find_global l np)) && global_has_fields l root
      && negb (permits_new_fields l (removelast np) (seq 1 (List.length (removelast np))))
  end.

Inductive verdict := VOk | VNotWritable | VNoField.
Definition verdict_eqb (a b : verdict) : bool :=
  match a, b with VOk, VOk | VNotWritable, VNotWritable | VNoField, VNoField => true | _, _ => false end.

Definition writable_kind (k : field_kind) : bool :=
  match k with
  | FProperty OverrideFields | FProperty FullWrite | FAny => true
  | _ => false
  end.

(** One assignment target that did not resolve to a script variable. [np] has length 1 for a bare
    name (no "missing field" check there) and >= 2 for a dotted target. *)
Definition write_verdict (l : lib) (np : key) : verdict :=
  match find_global l np with
  | Found f => if writable_kind (f_kind f) then VOk else VNotWritable
  | _ => match np with
         | _ :: _ :: _ => if invalid_field_access l np then VNoField else VOk
         | _ => VOk
         end
  end.

Inductive target := TLocal | TPath (np : key) | TOther.   (* TOther: call results, dynamic indices *)

(** visit_assignment: one verdict per target, in order.  Each target is judged on its own. *)
Definition target_verdict (l : lib) (t : target) : verdict :=
  match t with TPath np => write_verdict l np | _ => VOk end.

Definition assignment_verdicts (l : lib) (ts : list target) : list verdict :=
  map (target_verdict l) ts.

(** What the code did before the W1 repair: a target that resolved to a script variable made
    visit_assignment `return`, silently skipping every later target. *)
Fixpoint assignment_verdicts_w1 (l : lib) (ts : list target) : list verdict :=
  match ts with
  | [] => []
  | TLocal :: rest => VOk :: map (fun _ => VOk) rest
  | t :: rest => target_verdict l t :: assignment_verdicts_w1 l rest
  end.

Definition read_verdict (l : lib) (np : key) : verdict :=
  if invalid_field_access l np then VNoField else VOk.
