(** C16: the dialect a standard library selects.  Model of full_moon's LuaVersion bit field
    (full_moon-1.2.0 src/ast/versions.rs), of LuaVersion::to_lua_version and of
    StandardLibrary::lua_version (selene-lib/src/standard_library/mod.rs:354-367), plus the
    construct table (which dialect bits make the parser accept a construct; measured against
    full_moon::parse_fallible on every run - DESIGN Appendix D). *)
From Selene Require Export Std.Lib.

Inductive vbit := BLuau | B52 | B53 | B54 | BJit.

Record dialect := { d_luau : bool; d_52 : bool; d_53 : bool; d_54 : bool; d_jit : bool }.

Definition has (b : vbit) (d : dialect) : bool :=
  match b with BLuau => d_luau d | B52 => d_52 d | B53 => d_53 d | B54 => d_54 d | BJit => d_jit d end.

Definition d51 : dialect := {| d_luau := false; d_52 := false; d_53 := false; d_54 := false; d_jit := false |}.

Definition dor (a b : dialect) : dialect :=
  {| d_luau := d_luau a || d_luau b; d_52 := d_52 a || d_52 b; d_53 := d_53 a || d_53 b;
     d_54 := d_54 a || d_54 b; d_jit := d_jit a || d_jit b |}.

(** to_lua_version: lua53() = 52|53, lua54() = 52|53|54; an unknown name is an error. *)
Definition bits (v : luaversion) : option dialect :=
  match v with
  | Lua51 => Some d51
  | Lua52 => Some {| d_luau := false; d_52 := true; d_53 := false; d_54 := false; d_jit := false |}
  | Lua53 => Some {| d_luau := false; d_52 := true; d_53 := true; d_54 := false; d_jit := false |}
  | Lua54 => Some {| d_luau := false; d_52 := true; d_53 := true; d_54 := true; d_jit := false |}
  | Luau => Some {| d_luau := true; d_52 := false; d_53 := false; d_54 := false; d_jit := false |}
  | LuaJIT => Some {| d_luau := false; d_52 := false; d_53 := false; d_54 := false; d_jit := true |}
  | VUnknown _ => None
  end.

(** lua_version(): start from 5.1, OR every known version in, collect the unknown ones as errors. *)
Definition lua_version (vs : list luaversion) : dialect * list luaversion :=
  fold_left (fun acc v => match bits v with
                          | Some d => (dor (fst acc) d, snd acc)
                          | None => (fst acc, (snd acc ++ [v]))
                          end) vs (d51, []).

(** Dialect-specific constructs (the matrix named by the property, plus two more rows). *)
Inductive construct :=
| CGoto | CIntDiv | CBitAndOr | CBitOther | CAttrib | CLuauSyntax | CBinLit | CJitLit | CHexFloat
| CEmptyStmt.

(** Which bits make the parser accept the construct. *)
Definition enabling (c : construct) : list vbit :=
  match c with
  | CGoto => [B52; BJit]          (* goto / ::label::  (lua53/lua54 contain the 52 bit) *)
  | CIntDiv => [B53; BLuau]       (* //  *)
  | CBitAndOr => [B53]            (* & | *)
  | CBitOther => [B53]            (* ~ << >> *)
  | CAttrib => [B54]              (* <const> <close> *)
  | CLuauSyntax => [BLuau]        (* types, compound assignment, interpolated strings, continue, if-expr *)
  | CBinLit => [BLuau; BJit]      (* 0b101 *)
  | CJitLit => [BJit]             (* 1LL 1ULL 1i *)
  | CHexFloat => [B52]            (* 0x1p4 *)
  | CEmptyStmt => [B52]           (* `;;` - what Lua 5.2+ allows (the parser does not: class D2) *)
  end.

Definition accepts (c : construct) (d : dialect) : bool := existsb (fun b => has b d) (enabling c).
