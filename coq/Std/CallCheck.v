(** C05: checking one call against a standard-library function definition.
    Transcription of selene-lib/src/lints/standard_library.rs: get_argument_type (56-203), the body of
    visit_function_call after the function has been found (437-640) and PassedArgumentType (642-700). *)
From Selene Require Export Std.Lib Lua.Syntax.

(** PassedArgumentType *)
Inductive ptype := PPrim (t : argtype) | PStr (text : string).

Definition argtype_eqb (a b : argtype) : bool := if argtype_eq_dec a b then true else false.
Definition ptype_eqb (a b : ptype) : bool :=
  match a, b with
  | PPrim x, PPrim y => argtype_eqb x y
  | PStr x, PStr y => str_eqb x y
  | _, _ => false
  end.

(** ** string tokens *)
Fixpoint count_eqs (s : string) : nat :=
  match s with String "="%char r => S (count_eqs r) | _ => O end.
Fixpoint sdrop (n : nat) (s : string) : string :=
  match n, s with S k, String _ r => sdrop k r | _, _ => s end.
Definition starts_with (c : ascii) (s : string) : bool :=
  match s with String d _ => Ascii.eqb c d | EmptyString => false end.
Definition strip_first_newline (s : string) : string :=
  match s with
  | String "013"%char (String "010"%char r) => r
  | String "010"%char r => r
  | _ => s
  end.

(** PassedArgumentType::from_string on the token text: long brackets lose their `[==[` `]==]` and a
    first newline, other strings their first and last character. *)
Definition from_string (raw : string) : ptype :=
  let quoted := PStr (substring 1 (String.length raw - 2) raw) in
  match raw with
  | String "["%char rest =>
      let level := count_eqs rest in
      if starts_with "["%char (sdrop level rest) && Nat.leb (2 * (level + 2)) (String.length raw)
      then PStr (strip_first_newline (substring (level + 2) (String.length raw - 2 * (level + 2)) raw))
      else quoted
  | _ => quoted
  end.

(** ** get_argument_type *)
Definition is_op (o : string) (l : list string) : bool := existsb (str_eqb o) l.
Definition comparison_ops := [">"; ">="; "<"; "<="; "=="; "~="].
Definition arith_ops := ["+"; "-"; "*"; "/"].

Definition is_and_or (e : expr) : bool :=
  match e with EBinop o _ _ => is_op o ["and"; "or"] | _ => false end.

(** full_moon's operator enums, recovered from the operator's text *)
Inductive uncls := UHash | UMinus | UNot | UOther.
Inductive bincls := BPow | BCmp | BArith | BMod | BConcat | BOther.
Definition un_class (o : string) : uncls :=
  if str_eqb o "#" then UHash else if str_eqb o "-" then UMinus else if str_eqb o "not" then UNot else UOther.
Definition bin_class (o : string) : bincls :=
  if str_eqb o "^" then BPow else if is_op o comparison_ops then BCmp else if is_op o arith_ops then BArith
  else if str_eqb o "%" then BMod else if str_eqb o ".." then BConcat else BOther.

Fixpoint expr_type (e : expr) : option ptype :=
  match e with
  | EParen e' => expr_type e'
  | EUnop o e' =>
      match un_class o with
      | UHash => Some (PPrim ANumber)
      | UMinus => expr_type e'
      | UNot => Some (PPrim ABool)
      | UOther => None
      end
  | EFunction _ => Some (PPrim AFunction)
  | ECall _ => None
  | ENumber _ => Some (PPrim ANumber)
  | EString raw => Some (from_string raw)
  | ETrue | EFalse => Some (PPrim ABool)
  | ENil => Some (PPrim ANil)
  | EVararg _ => Some (PPrim AVararg)
  | ETable _ => Some (PPrim Lib.ATable)
  | EVar _ => None
  | EBinop o l r =>
      match bin_class o with
      | BPow => Some (PPrim ANumber)
      | BCmp => if is_and_or r then None else Some (PPrim ABool)
      | BArith =>
          (* same_type_if_equal: lhs_type == rhs_type ? lhs_type : None *)
          match expr_type l, expr_type r with
          | Some a, Some b => if ptype_eqb a b then Some a else None
          | _, _ => None
          end
      | BMod => Some (PPrim ANumber)
      | BConcat => Some (PPrim Lib.AString)
      | BOther => None
      end
  end.

(** ** matches / type_name *)
Definition is_constant (t : argtype) : bool := match t with AConstant _ => true | _ => false end.

Definition matches (p : ptype) (t : argtype) : bool :=
  match t with
  | AAny => true
  | _ =>
      match p with
      | PPrim us => argtype_eqb us AVararg || argtype_eqb us t || (argtype_eqb us Lib.AString && is_constant t)
      | PStr text => match t with
                     | AConstant cs => existsb (str_eqb text) cs
                     | Lib.AString => true
                     | _ => false
                     end
      end
  end.

Definition type_name (p : ptype) : argtype := match p with PPrim t => t | PStr _ => Lib.AString end.

(** ** the call *)
Inductive problem :=
| PMethod (call_is_method : bool)                 (* "is not a method" / "is a method" *)
| PVarargUnused                                   (* "requires use of the vararg" *)
| PCount (expected passed : nat)                  (* "requires E parameters, P passed" *)
| PType (index : nat) (received : argtype).

Fixpoint exprs_list (es : exprs) : list expr :=
  match es with EsNil => [] | EsCons e r => e :: exprs_list r end.

Definition argument_types (a : args) : list (option ptype) :=
  match a with
  | AParens es => map expr_type (exprs_list es)
  | Syntax.AString raw => [Some (from_string raw)]
  | Syntax.ATable _ => [Some (PPrim Lib.ATable)]
  end.

Definition maybe_more (a : args) : bool :=
  match a with
  | AParens es => match last (map Some (exprs_list es)) None with
                  | Some (ECall _) | Some (EVararg _) => true
                  | _ => false
                  end
  | _ => false
  end.

Definition is_required (x : argument) : bool :=
  match arg_required x with NotRequired => false | Required _ => true end.
Definition is_vararg (x : argument) : bool :=
  match arg_type x with AVararg => true | _ => false end.

Fixpoint type_problems (i : nat) (passed : list (option ptype)) (decl : list argument) : list problem :=
  match passed, decl with
  | p :: ps, d :: ds =>
      let rest := type_problems (S i) ps ds in
      if is_vararg d then rest
      else match p with
           | None => rest
           | Some pt =>
               if negb (is_required d) && ptype_eqb pt (PPrim ANil) then rest
               else if matches pt (arg_type d) then rest
               else PType i (type_name pt) :: rest
           end
  | _, _ => []
  end.

Definition check_call (f : fbehavior) (call_is_method : bool) (a : args) : list problem :=
  if negb (Bool.eqb (fn_method f) call_is_method) then [PMethod call_is_method] else
  let passed := argument_types a in
  let n := List.length passed in
  let total := List.length (fn_args f) in
  let expected0 := List.length (filter is_required (fn_args f)) in
  let mm := maybe_more a in
  let lastd := last (map Some (fn_args f)) None in
  let last_is_vararg := match lastd with Some d => is_vararg d | None => false end in
  let last_required_vararg := match lastd with Some d => is_vararg d && is_required d | None => false end in
  let unused := if last_required_vararg && Nat.ltb n total && negb mm then [PVarargUnused] else [] in
  let expected := if last_required_vararg then expected0 - 1 else expected0 in
  let max_args := if last_required_vararg then total - 1 else total in
  let count := if (Nat.ltb n expected && negb mm) || (negb last_is_vararg && Nat.ltb max_args n)
               then [PCount expected n] else [] in
  unused ++ count ++ type_problems 0 passed (fn_args f).
