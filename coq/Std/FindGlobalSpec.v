(** C06: the documented resolution rules, proved of the model of find_global. *)
From Selene Require Import Std.FindGlobal Std.FieldAccess.
From Coq Require Import Permutation.

(** 1. an explicitly defined entry wins *)
Theorem explicit_wins l names f :
  glookup names (l_globals l) = Some f -> find_global l names = Found f.
Proof. unfold find_global. intros ->. reflexivity. Qed.

(** 2. an explicit segment beats `*`; `*` is the fallback *)
Theorem explicit_beats_wildcard m p n :
  node_exists m (p ++ [n]) = true -> get_seg m p n = Some (p ++ [n]).
Proof. unfold get_seg. intros ->. reflexivity. Qed.

Theorem wildcard_fallback m p n :
  node_exists m (p ++ [n]) = false -> node_exists m (p ++ ["*"]) = true ->
  get_seg m p n = Some (p ++ ["*"]).
Proof. unfold get_seg. intros -> ->. reflexivity. Qed.

Theorem no_segment_absent structs m p n rest :
  node_exists m (p ++ [n]) = false -> node_exists m (p ++ ["*"]) = false ->
  walk structs m p (n :: rest) = NotFound.
Proof.
  intros H1 H2. cbn [walk]. unfold get_seg. rewrite H1, H2. destruct rest; reflexivity.
Qed.

(** 3. an `any` segment accepts everything below it *)
Theorem any_absorbs structs m p n r rest q :
  get_seg m p n = Some q -> f_kind (node_field m q) = FAny ->
  walk structs m p (n :: r :: rest) = Found (node_field m q).
Proof. intros Hq Hk. cbn [walk]. rewrite Hq. cbn zeta. rewrite Hk. reflexivity. Qed.

(** 4. a struct-typed segment continues inside that struct *)
Theorem struct_continues structs m p n r rest q s sm :
  get_seg m p n = Some q -> f_kind (node_field m q) = FStruct s ->
  lookup string_dec s structs = Some sm ->
  walk structs m p (n :: r :: rest) = walk structs sm [] (r :: rest).
Proof. intros Hq Hk Hs. cbn [walk]. rewrite Hq. cbn zeta. rewrite Hk, Hs. reflexivity. Qed.

Theorem other_continues_below structs m p n r rest q :
  get_seg m p n = Some q ->
  (forall s, f_kind (node_field m q) <> FStruct s) -> f_kind (node_field m q) <> FAny ->
  walk structs m p (n :: r :: rest) = walk structs m q (r :: rest).
Proof.
  intros Hq Hs Ha. cbn [walk]. rewrite Hq. cbn zeta.
  destruct (f_kind (node_field m q)) eqn:E; try reflexivity; [congruence|exfalso; eapply Hs; reflexivity].
Qed.

(** 5. totality: with every named struct defined, the lookup never hits the panic *)
Lemma glookup_In k m f : glookup k m = Some f -> In (k, f) m.
Proof.
  unfold glookup. induction m as [|[k0 f0] m IH]; cbn [lookup]; [discriminate|].
  destruct (key_eq_dec k k0) as [->|]; [intros [= ->]; left; reflexivity|intros H; right; auto].
Qed.

Lemma node_field_struct_ok structs m q s :
  fmap_structs_ok structs m = true -> f_kind (node_field m q) = FStruct s ->
  mem_key string_dec s structs = true.
Proof.
  intros Hok. unfold node_field. destruct (glookup q m) as [f|] eqn:E.
  - intros Hk. apply glookup_In in E. unfold fmap_structs_ok in Hok.
    rewrite forallb_forall in Hok. specialize (Hok _ E). cbn [snd] in Hok. rewrite Hk in Hok. exact Hok.
  - cbn. discriminate.
Qed.

Lemma walk_total structs m p names s :
  forallb (fun sm => fmap_structs_ok structs (snd sm)) structs = true ->
  fmap_structs_ok structs m = true ->
  walk structs m p names <> MissingStruct s.
Proof.
  intros Hall. revert m p. induction names as [|n rest IH]; intros m p Hm; cbn [walk]; [discriminate|].
  destruct rest as [|r rest].
  - destruct (get_seg m p n); discriminate.
  - destruct (get_seg m p n) as [q|]; [|discriminate]. cbn zeta.
    destruct (f_kind (node_field m q)) eqn:Ek; try (apply IH; exact Hm); [discriminate|].
    pose proof (node_field_struct_ok structs m q s0 Hm Ek) as Hmem.
    unfold mem_key in Hmem. destruct (lookup string_dec s0 structs) as [sm|] eqn:El; [|discriminate].
    apply IH. rewrite forallb_forall in Hall.
    assert (Hin : In (s0, sm) structs).
    { clear -El. induction structs as [|[a b] st IHs]; cbn [lookup] in El; [discriminate|].
      destruct (string_dec s0 a) as [->|]; [injection El as ->; left; reflexivity|right; auto]. }
    exact (Hall _ Hin).
Qed.

Theorem find_global_total l names s :
  structs_closed l = true -> find_global l names <> MissingStruct s.
Proof.
  unfold structs_closed, find_global. intros H. apply andb_true_iff in H as [Hg Hs].
  destruct (glookup names (l_globals l)); [discriminate|]. apply walk_total; assumption.
Qed.

(** ... and a library whose field names a missing struct does reach the panic (class T1). *)
Definition dangling_lib : lib :=
  {| l_base := None; l_name := None;
     l_globals := [(["a"], field_simple (FStruct "Missing"))]; l_structs := []; l_versions := [] |}.
Theorem find_global_refuted_dangling :
  structs_closed dangling_lib = false /\ find_global dangling_lib ["a"; "b"] = MissingStruct "Missing".
Proof. vm_compute. split; reflexivity. Qed.

(** 6. wildcard-free, struct-free, any-free libraries: the declarative prefix-set reading.
       "a path that is only a prefix of defined names is an implicit read-only table;
        anything else is absent" *)
Definition simple_fmap (m : fmap) : bool :=
  forallb (fun kf => negb (existsb (fun seg => if string_dec seg "*" then true else false) (fst kf))
                     && match f_kind (snd kf) with FAny | FStruct _ => false | _ => true end) m.

Lemma is_prefix_app_l p a k : is_prefix (p ++ a) k = true -> is_prefix p k = true.
Proof.
  revert k. induction p as [|x p IH]; intros k; cbn [app is_prefix]; [reflexivity|].
  destruct k as [|y k]; [discriminate|]. intros H. apply andb_true_iff in H as [H1 H2].
  rewrite H1. cbn. eauto.
Qed.

Lemma node_exists_app_l m p a : node_exists m (p ++ a) = true -> node_exists m p = true.
Proof.
  unfold node_exists. rewrite !existsb_exists. intros [kf [Hin Hp]]. exists kf. split; [exact Hin|].
  eapply is_prefix_app_l; exact Hp.
Qed.

Lemma is_prefix_mentions p k seg : is_prefix (p ++ [seg]) k = true -> In seg k.
Proof.
  revert k. induction p as [|x p IH]; intros k; cbn [app is_prefix].
  - destruct k as [|y k]; [discriminate|]. destruct (string_dec seg y) as [->|]; [left; reflexivity|discriminate].
  - destruct k as [|y k]; [discriminate|]. intros H. apply andb_true_iff in H as [_ H]. right. eauto.
Qed.

Lemma simple_no_wildcard_node m p : simple_fmap m = true -> node_exists m (p ++ ["*"]) = false.
Proof.
  intros Hs. apply not_true_is_false. unfold node_exists. rewrite existsb_exists.
  intros [kf [Hin Hp]]. unfold simple_fmap in Hs. rewrite forallb_forall in Hs.
  specialize (Hs _ Hin). apply andb_true_iff in Hs as [Hs _].
  apply is_prefix_mentions in Hp. apply negb_true_iff in Hs.
  apply not_true_iff_false in Hs. apply Hs.
  apply existsb_exists. exists "*". split; [exact Hp|]. destruct (string_dec "*" "*"); congruence.
Qed.

Lemma simple_node_field_kind m q :
  simple_fmap m = true ->
  f_kind (node_field m q) <> FAny /\ forall s, f_kind (node_field m q) <> FStruct s.
Proof.
  intros Hs. unfold node_field. destruct (glookup q m) as [f|] eqn:E.
  - apply glookup_In in E. unfold simple_fmap in Hs. rewrite forallb_forall in Hs.
    specialize (Hs _ E). apply andb_true_iff in Hs as [_ Hs]. cbn [snd] in Hs.
    destruct (f_kind f); try discriminate; split; try discriminate; intros; discriminate.
  - cbn. split; [discriminate|intros; discriminate].
Qed.

Lemma walk_simple structs m p names :
  simple_fmap m = true -> names <> [] ->
  walk structs m p names =
  if node_exists m (p ++ names) then Found (node_field m (p ++ names)) else NotFound.
Proof.
  intros Hs. revert p. induction names as [|n rest IH]; intros p Hne; [congruence|].
  destruct rest as [|r rest].
  - cbn [walk]. unfold get_seg. rewrite (simple_no_wildcard_node m p Hs).
    destruct (node_exists m (p ++ [n])); reflexivity.
  - destruct (node_exists m (p ++ [n])) eqn:En.
    + destruct (simple_node_field_kind m (p ++ [n]) Hs) as [Ha Hst].
      rewrite (other_continues_below structs m p n r rest (p ++ [n])
                 (explicit_beats_wildcard m p n En) Hst Ha).
      rewrite IH by discriminate. rewrite <- app_assoc. reflexivity.
    + rewrite no_segment_absent; [|exact En|apply simple_no_wildcard_node; exact Hs].
      destruct (node_exists m (p ++ n :: r :: rest)) eqn:E2; [|reflexivity].
      change (n :: r :: rest) with ([n] ++ r :: rest) in E2. rewrite app_assoc in E2.
      apply node_exists_app_l in E2. congruence.
Qed.

Theorem simple_characterisation l names :
  simple_fmap (l_globals l) = true -> names <> [] ->
  find_global l names =
    match glookup names (l_globals l) with
    | Some f => Found f                                              (* explicitly defined *)
    | None => if node_exists (l_globals l) names
              then Found read_only_field                             (* only a prefix: read-only table *)
              else NotFound                                          (* anything else is absent *)
    end.
Proof.
  intros Hs Hne. unfold find_global. destruct (glookup names (l_globals l)) eqn:E; [reflexivity|].
  rewrite walk_simple by assumption. cbn [app]. unfold node_field. rewrite E. reflexivity.
Qed.

(** 7. the result depends on the map's content only, not on the order in which keys are listed
       (so not on the order in which extract_into_tree inserts them). *)
Lemma walk_ext structs m m' p names :
  (forall q, node_exists m q = node_exists m' q) -> (forall q, glookup q m = glookup q m') ->
  walk structs m p names = walk structs m' p names.
Proof.
  intros Hn Hg. revert p. induction names as [|n rest IH]; intros p; [reflexivity|].
  assert (Hseg : get_seg m p n = get_seg m' p n) by (unfold get_seg; rewrite !Hn; reflexivity).
  assert (Hf : forall q, node_field m q = node_field m' q) by (intros q; unfold node_field; rewrite Hg; reflexivity).
  cbn [walk]. rewrite Hseg. destruct rest as [|r rest].
  - destruct (get_seg m' p n); [rewrite Hf|]; reflexivity.
  - destruct (get_seg m' p n) as [q|]; [|reflexivity]. cbn zeta. rewrite Hf.
    destruct (f_kind (node_field m' q)); try apply IH; reflexivity.
Qed.

Lemma existsb_perm {A} (f : A -> bool) l l' : Permutation l l' -> existsb f l = existsb f l'.
Proof.
  induction 1 as [|x l l' _ IH|x y l|l l' l'' _ IH1 _ IH2]; cbn [existsb].
  - reflexivity.
  - rewrite IH. reflexivity.
  - destruct (f x), (f y); reflexivity.
  - congruence.
Qed.

Lemma glookup_none_notin k (m : fmap) : glookup k m = None -> ~ In k (keys m).
Proof.
  unfold glookup. induction m as [|[k0 f0] m IH]; cbn [lookup keys map fst]; [intros _ []|].
  destruct (key_eq_dec k k0) as [->|Hne]; [discriminate|].
  intros H [Heq|Hin]; [congruence|]. exact (IH H Hin).
Qed.

Lemma In_glookup k f (m : fmap) : NoDup (keys m) -> In (k, f) m -> glookup k m = Some f.
Proof.
  unfold glookup. induction m as [|[k0 f0] m IH]; intros Hnd Hin; [destruct Hin|].
  inversion Hnd as [|? ? Hnotin Hnd']; subst. cbn [lookup].
  destruct Hin as [Heq|Hin].
  - injection Heq as -> ->. destruct (key_eq_dec k k); congruence.
  - destruct (key_eq_dec k k0) as [->|]; [|auto].
    exfalso. apply Hnotin. unfold keys. apply in_map_iff. exists (k0, f). auto.
Qed.

Lemma glookup_perm k (m m' : fmap) :
  NoDup (keys m) -> Permutation m m' -> glookup k m = glookup k m'.
Proof.
  intros Hnd Hp.
  assert (Hnd' : NoDup (keys m')).
  { eapply Permutation_NoDup; [|exact Hnd]. unfold keys. apply Permutation_map. exact Hp. }
  destruct (glookup k m) as [f|] eqn:E.
  - symmetry. apply In_glookup; [exact Hnd'|]. eapply Permutation_in; [exact Hp|]. apply glookup_In. exact E.
  - destruct (glookup k m') as [f'|] eqn:E'; [|reflexivity].
    apply glookup_In in E'. apply Permutation_sym in Hp. eapply Permutation_in in E'; [|exact Hp].
    apply (In_glookup _ _ _ Hnd) in E'. congruence.
Qed.

Theorem find_global_order_independent l l' names :
  NoDup (keys (l_globals l)) -> Permutation (l_globals l) (l_globals l') ->
  l_structs l = l_structs l' ->
  find_global l names = find_global l' names.
Proof.
  intros Hnd Hp Hs. unfold find_global. rewrite <- Hs.
  rewrite (glookup_perm names _ _ Hnd Hp).
  destruct (glookup names (l_globals l')); [reflexivity|].
  apply walk_ext.
  - intros q. unfold node_exists. apply existsb_perm. exact Hp.
  - intros q. apply glookup_perm; assumption.
Qed.

(** 8. a known root always resolves (discharges the `assert!(!name_path.is_empty())`
       of lint_invalid_field_access: the branch is never entered for a one-segment path) *)
Theorem has_fields_implies_found l x :
  global_has_fields l x = true -> found (find_global l [x]) = true.
Proof.
  unfold global_has_fields, find_global. intros H.
  destruct (glookup [x] (l_globals l)); [reflexivity|].
  cbn [walk]. unfold get_seg. cbn [app]. rewrite H. reflexivity.
Qed.

Corollary invalid_access_needs_two_segments l x : invalid_field_access l [x] = false.
Proof.
  unfold invalid_field_access.
  destruct (global_has_fields l x) eqn:E.
  - rewrite (has_fields_implies_found l x E). reflexivity.
  - rewrite andb_false_r. reflexivity.
Qed.

(** 9. writes: the documented writability table, and independence of the targets *)
Theorem write_verdict_table l np w dep :
  find_global l np = Found {| f_kind := FProperty w; f_deprecated := dep |} ->
  write_verdict l np =
    match w with
    | ReadOnly => VNotWritable | NewFields => VNotWritable
    | OverrideFields => VOk | FullWrite => VOk
    end.
Proof. unfold write_verdict. intros ->. destruct w; reflexivity. Qed.

Theorem write_any_ok l np dep :
  find_global l np = Found {| f_kind := FAny; f_deprecated := dep |} -> write_verdict l np = VOk.
Proof. unfold write_verdict. intros ->. reflexivity. Qed.

Theorem new_field_needs_permission l root a rest :
  found (find_global l (root :: a :: rest)) = false ->
  write_verdict l (root :: a :: rest) = VNoField <->
  global_has_fields l root = true /\
  permits_new_fields l (removelast (root :: a :: rest))
     (seq 1 (List.length (removelast (root :: a :: rest)))) = false.
Proof.
  intros Hnf. unfold write_verdict.
  destruct (find_global l (root :: a :: rest)) eqn:E; cbn [found] in Hnf; try discriminate;
  unfold invalid_field_access; rewrite E; cbn [found negb andb];
  destruct (global_has_fields l root); cbn [andb];
  destruct (permits_new_fields l _ _); cbn [negb]; split; intros H; try discriminate;
    try (destruct H; discriminate); try (split; reflexivity); reflexivity.
Qed.

Theorem targets_independent l ts1 t ts2 :
  nth (List.length ts1) (assignment_verdicts l (ts1 ++ t :: ts2)) VOk = target_verdict l t.
Proof.
  unfold assignment_verdicts. rewrite map_app. cbn [map].
  rewrite app_nth2; rewrite map_length; [|lia]. rewrite Nat.sub_diag. reflexivity.
Qed.

Definition w1_lib : lib :=
  {| l_base := None; l_name := None;
     l_globals := [(["math"; "pi"], field_simple (FProperty ReadOnly))]; l_structs := []; l_versions := [] |}.
Theorem w1_refuted :
  assignment_verdicts_w1 w1_lib [TLocal; TPath ["math"; "pi"]] = [VOk; VOk] /\
  assignment_verdicts w1_lib [TLocal; TPath ["math"; "pi"]] = [VOk; VNotWritable] /\
  assignment_verdicts_w1 w1_lib [TPath ["math"; "pi"]; TLocal] = [VNotWritable; VOk].
Proof. vm_compute. repeat split. Qed.
