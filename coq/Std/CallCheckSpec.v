(** C05 specification: what a call must look like to satisfy a definition, stated without reference to
    how the lint computes it, and the theorems relating [check_call] to it. *)
From Selene Require Import Std.CallCheck.

(** ** what an argument denotes *)
Inductive styp := SNil | SBool | SNumber | SString (content : option string) | STable | SFunction.

Fixpoint has_backslash (s : string) : bool :=
  match s with String c r => Ascii.eqb c "\"%char || has_backslash r | EmptyString => false end.

(** the content a string token denotes; [None] when it contains escapes (not decoded here) *)
Definition string_value (raw : string) : option string :=
  match from_string raw with
  | PStr text => if starts_with "["%char raw then Some text
                 else if has_backslash text then None else Some text
  | PPrim _ => None
  end.

Definition is_num (t : option styp) : bool := match t with Some SNumber => true | _ => false end.

Fixpoint spec_type (e : expr) : option styp :=
  match e with
  | ENil => Some SNil
  | ETrue | EFalse => Some SBool
  | ENumber _ => Some SNumber
  | EString raw => Some (SString (string_value raw))
  | EFunction _ => Some SFunction
  | ETable _ => Some STable
  | EVararg _ | ECall _ | EVar _ => None
  | EParen e' => spec_type e'
  | EUnop o e' =>
      match un_class o with
      | UNot => Some SBool
      | UHash => Some SNumber
      | UMinus => if is_num (spec_type e') then Some SNumber else None
      | UOther => None
      end
  | EBinop o l r =>
      match bin_class o with
      | BConcat => Some (SString None)
      | BCmp => Some SBool
      | BPow | BMod => Some SNumber
      | BArith => if is_num (spec_type l) && is_num (spec_type r) then Some SNumber else None
      | BOther => None
      end
  end.

(** is a value of this kind acceptable for the declared parameter? *)
Definition compat (t : styp) (d : argument) : bool :=
  match arg_type d with
  | AAny | AVararg => true
  | ty =>
      match t with
      | SNil => argtype_eqb ty ANil || negb (is_required d)
      | SBool => argtype_eqb ty ABool
      | SNumber => argtype_eqb ty ANumber
      | STable => argtype_eqb ty Lib.ATable
      | SFunction => argtype_eqb ty AFunction
      | SString c =>
          match ty with
          | Lib.AString => true
          | AConstant cs => match c with Some x => existsb (str_eqb x) cs | None => true end
          | _ => false
          end
      end
  end.

(** ** the classes in which selene is known to deviate (KNOWN_FINDINGS.txt) *)

(** S4: unary minus / arithmetic applied to something that is not a number literal is given the
    operand's type (`-"5"` is a string, `-nil` is nil) *)
Fixpoint strip_parens (e : expr) : expr := match e with EParen e' => strip_parens e' | _ => e end.
Definition s4_shape (e : expr) : bool :=
  match strip_parens e with
  | EUnop o x => match un_class o with UMinus => negb (is_num (spec_type x)) | _ => false end
  | EBinop o l r =>
      match bin_class o with
      | BArith => negb (is_num (spec_type l) && is_num (spec_type r))
      | BCmp => is_and_or r
      | _ => false
      end
  | _ => false
  end.

(** S5: a quoted string with escapes is compared undecoded with a constant list *)
Definition s5_shape (e : expr) : bool :=
  match strip_parens e with
  | EString raw => match string_value raw with None => true | Some _ => false end
  | _ => false
  end.

Definition nargs (a : args) : nat := List.length (argument_types a).
Definition n_required (f : fbehavior) : nat := List.length (filter is_required (fn_args f)).
Definition total (f : fbehavior) : nat := List.length (fn_args f).
Definition takes_vararg (f : fbehavior) : bool :=
  match last (map Some (fn_args f)) None with Some d => is_vararg d | None => false end.

(** S3: more arguments than parameters, the last one a call or `...` *)
Definition s3 (f : fbehavior) (a : args) : bool :=
  maybe_more a && negb (takes_vararg f) && Nat.ltb (total f) (nargs a).

(** every required parameter precedes every optional one *)
Fixpoint ordered (ds : list argument) : bool :=
  match ds with
  | [] => true
  | d :: r => (is_required d || negb (existsb is_required r)) && ordered r
  end.

(** position after the last required parameter *)
Fixpoint last_required_pos (ds : list argument) : nat :=
  match ds with
  | [] => O
  | d :: r => let k := last_required_pos r in
              if Nat.eqb k 0 then (if is_required d then 1 else 0) else S k
  end.

Definition count_problem (p : problem) : bool :=
  match p with PVarargUnused | PCount _ _ => true | _ => false end.
Definition method_problem (p : problem) : bool := match p with PMethod _ => true | _ => false end.

(** the number of arguments lies outside what the definition allows *)
Definition count_outside (f : fbehavior) (a : args) : bool :=
  negb (maybe_more a) && (Nat.ltb (nargs a) (n_required f) || negb (takes_vararg f) && Nat.ltb (total f) (nargs a)).

Definition args_exprs (a : args) : list expr :=
  match a with AParens es => exprs_list es | Syntax.AString raw => [EString raw] | Syntax.ATable fs => [ETable fs] end.

(** ** theorems *)

Theorem method_exact f m a :
  existsb method_problem (check_call f m a) = negb (Bool.eqb (fn_method f) m).
Proof.
  unfold check_call. destruct (Bool.eqb (fn_method f) m) eqn:E; cbn [negb]; [|reflexivity].
  rewrite !existsb_app.
  assert (Ht : forall ps ds i, existsb method_problem (type_problems i ps ds) = false).
  { induction ps as [|p ps IH]; intros ds i; [reflexivity|]. destruct ds as [|d ds]; [reflexivity|].
    cbn [type_problems]. destruct (is_vararg d); [apply IH|]. destruct p as [pt|]; [|apply IH].
    destruct (negb (is_required d) && ptype_eqb pt (PPrim ANil)); [apply IH|].
    destruct (matches pt (arg_type d)); [apply IH|]. cbn. apply IH. }
  rewrite Ht.
  repeat match goal with |- context [if ?c then _ else _] => destruct c end; reflexivity.
Qed.

Theorem method_mismatch_only f m a :
  Bool.eqb (fn_method f) m = false -> check_call f m a = [PMethod m].
Proof. intros H. unfold check_call. rewrite H. reflexivity. Qed.

Lemma type_problems_no_count ps : forall ds i, existsb count_problem (type_problems i ps ds) = false.
Proof.
  induction ps as [|p ps IH]; intros ds i; [reflexivity|]. destruct ds as [|d ds]; [reflexivity|].
  cbn [type_problems]. destruct (is_vararg d); [apply IH|]. destruct p as [pt|]; [|apply IH].
  destruct (negb (is_required d) && ptype_eqb pt (PPrim ANil)); [apply IH|].
  destruct (matches pt (arg_type d)); [apply IH|]. cbn. apply IH.
Qed.

(** the lint's count decision, in closed form *)
Lemma count_reported f m a :
  Bool.eqb (fn_method f) m = true ->
  let lrv := match last (map Some (fn_args f)) None with Some d => is_vararg d && is_required d | None => false end in
  existsb count_problem (check_call f m a) =
    (lrv && Nat.ltb (nargs a) (total f) && negb (maybe_more a)) ||
    ((Nat.ltb (nargs a) (if lrv then n_required f - 1 else n_required f) && negb (maybe_more a)) ||
     (negb (takes_vararg f) && Nat.ltb (if lrv then total f - 1 else total f) (nargs a))).
Proof.
  intros H. unfold check_call, nargs, total, n_required, takes_vararg. rewrite H. cbn [negb].
  rewrite !existsb_app, type_problems_no_count, orb_false_r.
  destruct (last (map Some (fn_args f)) None) as [d|]; cbn zeta;
    repeat match goal with |- context [if ?c then _ else _] => destruct c eqn:? end; cbn; try reflexivity;
    rewrite ?orb_false_r; try congruence.
Qed.

Lemma last_some {A} (l : list A) d : last (map Some l) None = Some d -> exists l', l = l' ++ [d].
Proof.
  induction l as [|x l IH]; [discriminate|]. destruct l as [|y l].
  - cbn. intros [= ->]. exists []. reflexivity.
  - intros H. change (last (map Some (y :: l)) None = Some d) in H. destruct (IH H) as [l' ->].
    exists (x :: l'). reflexivity.
Qed.

Lemma filter_app_len {A} (p : A -> bool) l1 l2 :
  List.length (filter p (l1 ++ l2)) = (List.length (filter p l1) + List.length (filter p l2))%nat.
Proof. rewrite filter_app, app_length. reflexivity. Qed.

Lemma ordered_all_required ds d : ordered (ds ++ [d]) = true -> is_required d = true ->
  List.length (filter is_required ds) = List.length ds.
Proof.
  induction ds as [|x ds IH]; intros Ho Hd; [reflexivity|]. cbn [app ordered] in Ho.
  apply andb_true_iff in Ho as [H1 H2]. cbn [filter].
  assert (is_required x = true).
  { destruct (is_required x); [reflexivity|]. cbn in H1. rewrite existsb_app in H1. cbn in H1. rewrite Hd in H1.
    rewrite orb_true_r in H1. discriminate. }
  rewrite H. cbn. f_equal. apply IH; assumption.
Qed.

(** the last parameter is a required `...` *)
Definition required_vararg_last (f : fbehavior) : bool :=
  match last (map Some (fn_args f)) None with Some d => is_vararg d && is_required d | None => false end.

(** outside class S3: a count problem is reported exactly when the number of syntactic arguments lies
    outside [number of required parameters, total] (when the definition ends in a required `...`, we
    ask that no optional parameter precedes it) *)
Theorem count_exact f m a :
  Bool.eqb (fn_method f) m = true -> (required_vararg_last f = true -> ordered (fn_args f) = true) -> s3 f a = false ->
  existsb count_problem (check_call f m a) = count_outside f a.
Proof.
  intros Hm Ho Hs3. rewrite (count_reported f m a Hm). cbv zeta. unfold count_outside, s3, required_vararg_last in *.
  unfold takes_vararg, total, n_required in *.
  destruct (last (map Some (fn_args f)) None) as [d|] eqn:El.
  - destruct (last_some _ _ El) as [ds Eds]. rewrite Eds in *. rewrite filter_app_len, app_length in *. cbn [List.length filter] in *.
    destruct (is_vararg d) eqn:Ev, (is_required d) eqn:Er; cbn [andb negb orb] in *; rewrite ?Er in *; cbn [List.length] in *.
    + (* required vararg last: every parameter is required *)
      rewrite (ordered_all_required ds d (Ho eq_refl) Er).
      destruct (maybe_more a); cbn [negb andb orb]; rewrite ?andb_false_r, ?andb_true_r, ?orb_false_r; [reflexivity|].
      destruct (Nat.ltb_spec (nargs a) (List.length ds + 1)), (Nat.ltb_spec (nargs a) (List.length ds + 1 - 1));
        cbn [orb]; try reflexivity; lia.
    + destruct (maybe_more a); cbn [negb andb orb]; rewrite ?andb_false_r, ?andb_true_r, ?orb_false_r; reflexivity.
    + destruct (maybe_more a); cbn [negb andb orb] in *; rewrite ?andb_false_r, ?andb_true_r, ?orb_false_r; [exact Hs3|reflexivity].
    + destruct (maybe_more a); cbn [negb andb orb] in *; rewrite ?andb_false_r, ?andb_true_r, ?orb_false_r; [exact Hs3|reflexivity].
  - destruct (maybe_more a); cbn [negb andb orb] in *; rewrite ?andb_false_r, ?andb_true_r, ?orb_false_r; [exact Hs3|reflexivity].
Qed.

Lemma filter_length_le {A} (p : A -> bool) l : (List.length (filter p l) <= List.length l)%nat.
Proof. induction l as [|x l IH]; cbn; [lia|]. destruct (p x); cbn; lia. Qed.

Lemma last_required_pos_le ds : (List.length (filter is_required ds) <= last_required_pos ds <= List.length ds)%nat.
Proof.
  induction ds as [|d ds IH]; [cbn; lia|]. cbn [last_required_pos filter List.length].
  destruct (Nat.eqb_spec (last_required_pos ds) 0) as [E|E]; destruct (is_required d); cbn [List.length]; lia.
Qed.

Lemma last_required_pos_snoc ds d : is_required d = true -> last_required_pos (ds ++ [d]) = S (List.length ds).
Proof.
  intros Hd. induction ds as [|x ds IH]; cbn [app last_required_pos List.length].
  - rewrite Hd. reflexivity.
  - rewrite IH. cbn. reflexivity.
Qed.

(** on any definition: too few for every reading is reported, enough for every reading is not *)
Theorem count_bounds f m a :
  Bool.eqb (fn_method f) m = true ->
  (maybe_more a = false -> (nargs a < n_required f)%nat -> existsb count_problem (check_call f m a) = true) /\
  ((last_required_pos (fn_args f) <= nargs a)%nat -> (takes_vararg f = true \/ (nargs a <= total f)%nat) ->
     existsb count_problem (check_call f m a) = false).
Proof.
  intros Hm. rewrite (count_reported f m a Hm). cbv zeta. unfold takes_vararg, total, n_required.
  pose proof (last_required_pos_le (fn_args f)) as Hle.
  destruct (last (map Some (fn_args f)) None) as [d|] eqn:El; split.
  - intros Hmm Hlt. rewrite Hmm. cbn [negb]. rewrite !andb_true_r.
    destruct (is_vararg d && is_required d) eqn:E.
    + destruct (Nat.ltb_spec (nargs a) (List.length (fn_args f))); [reflexivity|]. lia.
    + cbn [orb andb]. destruct (Nat.ltb_spec (nargs a) (List.length (filter is_required (fn_args f)))); [reflexivity|lia].
  - intros Hpos Hmax. destruct (last_some _ _ El) as [ds Eds].
    destruct (is_vararg d) eqn:Ev, (is_required d) eqn:Er; cbn [andb negb orb].
    + rewrite Eds in Hpos. rewrite (last_required_pos_snoc ds d Er) in Hpos. rewrite Eds, app_length. cbn [List.length].
      destruct (Nat.ltb_spec (nargs a) (List.length ds + 1)); [lia|]. cbn [andb orb].
      rewrite filter_app_len. cbn [filter]. rewrite Er. cbn [List.length].
      pose proof (filter_length_le is_required ds).
      destruct (Nat.ltb_spec (nargs a) (List.length (filter is_required ds) + 1 - 1)); [lia|]. reflexivity.
    + destruct (Nat.ltb_spec (nargs a) (List.length (filter is_required (fn_args f)))); [lia|]. reflexivity.
    + destruct Hmax as [Hv|Hmax]; [discriminate|].
      destruct (Nat.ltb_spec (nargs a) (List.length (filter is_required (fn_args f)))); [lia|].
      destruct (Nat.ltb_spec (List.length (fn_args f)) (nargs a)); [lia|]. reflexivity.
    + destruct Hmax as [Hv|Hmax]; [discriminate|].
      destruct (Nat.ltb_spec (nargs a) (List.length (filter is_required (fn_args f)))); [lia|].
      destruct (Nat.ltb_spec (List.length (fn_args f)) (nargs a)); [lia|]. reflexivity.
  - intros Hmm Hlt. rewrite Hmm. cbn [negb andb orb]. rewrite andb_true_r.
    destruct (Nat.ltb_spec (nargs a) (List.length (filter is_required (fn_args f)))); [reflexivity|lia].
  - intros Hpos Hmax. cbn [andb orb negb]. destruct Hmax as [Hv|Hmax]; [discriminate|].
    destruct (Nat.ltb_spec (nargs a) (List.length (filter is_required (fn_args f)))); [lia|].
    destruct (Nat.ltb_spec (List.length (fn_args f)) (nargs a)); [lia|]. reflexivity.
Qed.

(** ** types *)
Definition agrees (p : ptype) (t : styp) : Prop :=
  match p, t with
  | PPrim ANil, SNil | PPrim ABool, SBool | PPrim ANumber, SNumber
  | PPrim Lib.ATable, STable | PPrim AFunction, SFunction => True
  | PPrim Lib.AString, SString None => True
  | PStr text, SString c => c = None \/ c = Some text
  | _, _ => False
  end.

Lemma num_agree e : spec_type e = Some SNumber -> expr_type e = Some (PPrim ANumber).
Proof.
  induction e; cbn [spec_type expr_type]; try discriminate; try reflexivity; auto.
  - destruct (un_class op); try discriminate; try reflexivity.
    destruct (spec_type e) as [[]|]; cbn [is_num]; try discriminate. intros _. apply IHe. reflexivity.
  - destruct (bin_class op); try discriminate; try reflexivity.
    destruct (spec_type e1) as [[]|], (spec_type e2) as [[]|]; cbn [is_num andb]; try discriminate.
    intros _. rewrite IHe1, IHe2 by reflexivity. reflexivity.
Qed.

Lemma from_string_pstr raw : exists text, from_string raw = PStr text.
Proof.
  unfold from_string. destruct raw as [|c r]; [eexists; reflexivity|].
  destruct (Ascii.eqb c "["%char) eqn:E.
  - apply Ascii.eqb_eq in E. subst c.
    destruct (starts_with "[" (sdrop (count_eqs r) r) && Nat.leb _ _); eexists; reflexivity.
  - destruct c as [[] [] [] [] [] [] [] []]; try (eexists; reflexivity); discriminate.
Qed.

Lemma type_agree e : forall p, s4_shape e = false -> expr_type e = Some p ->
  p = PPrim AVararg \/ exists t, spec_type e = Some t /\ agrees p t.
Proof.
  induction e; intros p Hs Hp; cbn [spec_type expr_type] in *; try discriminate;
    try (injection Hp as <-; right; eexists; split; [reflexivity|exact I]).
  - (* string *) injection Hp as <-. right. eexists; split; [reflexivity|].
    unfold string_value. destruct (from_string_pstr raw) as [text E]. rewrite E. cbn.
    destruct (starts_with "[" raw); [right; reflexivity|]. destruct (has_backslash text); [left|right]; reflexivity.
  - (* vararg *) injection Hp as <-. left. reflexivity.
  - (* paren *) apply IHe; assumption.
  - (* unop *) unfold s4_shape in Hs. cbn [strip_parens] in Hs.
    destruct (un_class op); try discriminate;
      try (injection Hp as <-; right; eexists; split; [reflexivity|exact I]).
    apply negb_false_iff in Hs. rewrite Hs. destruct (spec_type e) as [[]|] eqn:Es; try discriminate.
    rewrite (num_agree e Es) in Hp. injection Hp as <-. right. eexists; split; [reflexivity|exact I].
  - (* binop *) unfold s4_shape in Hs. cbn [strip_parens] in Hs.
    destruct (bin_class op); try discriminate;
      try (injection Hp as <-; right; eexists; split; [reflexivity|exact I]).
    + rewrite Hs in Hp. injection Hp as <-. right. eexists; split; [reflexivity|exact I].
    + apply negb_false_iff in Hs. rewrite Hs. apply andb_true_iff in Hs as [H1 H2].
      destruct (spec_type e1) as [[]|] eqn:E1; try discriminate. destruct (spec_type e2) as [[]|] eqn:E2; try discriminate.
      rewrite (num_agree e1 E1), (num_agree e2 E2) in Hp. cbn in Hp. injection Hp as <-.
      right. eexists; split; [reflexivity|exact I].
Qed.

Lemma argument_types_map a : argument_types a = map expr_type (args_exprs a).
Proof. destruct a; reflexivity. Qed.

Lemma type_problems_in i got ps : forall ds k,
  In (PType i got) (type_problems k ps ds) ->
  exists j pt d, i = (k + j)%nat /\ nth_error ps j = Some (Some pt) /\ nth_error ds j = Some d /\
    is_vararg d = false /\ (negb (is_required d) && ptype_eqb pt (PPrim ANil)) = false /\
    matches pt (arg_type d) = false /\ got = type_name pt.
Proof.
  induction ps as [|p ps IH]; intros ds k H; [contradiction|]. destruct ds as [|d ds]; [contradiction|].
  cbn [type_problems] in H.
  assert (Hrest : In (PType i got) (type_problems (S k) ps ds) ->
                  exists j pt d0, i = (k + j)%nat /\ nth_error (p :: ps) j = Some (Some pt) /\ nth_error (d :: ds) j = Some d0 /\
                    is_vararg d0 = false /\ (negb (is_required d0) && ptype_eqb pt (PPrim ANil)) = false /\
                    matches pt (arg_type d0) = false /\ got = type_name pt).
  { intros H'. destruct (IH ds (S k) H') as (j & pt & d0 & -> & H1 & H2 & H3).
    exists (S j), pt, d0. split; [lia|]. split; [exact H1|]. split; [exact H2|exact H3]. }
  destruct (is_vararg d) eqn:Ev; [auto|]. destruct p as [pt|]; [|auto].
  destruct (negb (is_required d) && ptype_eqb pt (PPrim ANil)) eqn:En; [auto|].
  destruct (matches pt (arg_type d)) eqn:Em; [auto|].
  destruct H as [H|H]; [|auto]. injection H as <- <-.
  exists 0%nat, pt, d. repeat split; auto.
Qed.

Lemma matches_compat pt t d :
  agrees pt t -> is_vararg d = false -> matches pt (arg_type d) = false ->
  (negb (is_required d) && ptype_eqb pt (PPrim ANil)) = false ->
  compat t d = false \/ (t = SString None /\ is_constant (arg_type d) = true).
Proof.
  unfold compat, matches, is_vararg. intros Ha Hv Hm Hn.
  destruct pt as [[]|text], t as [| | |[c|]| |]; cbn in Ha; try contradiction;
    destruct (arg_type d) eqn:Et; try discriminate; cbn in *; auto;
    try (destruct (is_required d); cbn in *; auto; discriminate).
  - destruct Ha as [Ha|Ha]; [discriminate|]. injection Ha as ->. auto.
Qed.

(** a type problem is reported only for an argument whose form has a definite type that the declared
    parameter does not accept - outside S4 (arithmetic on non-numbers) and S5 (string of unknown
    content against a constant list) *)
Theorem type_sound f m a i got :
  In (PType i got) (check_call f m a) ->
  exists e d, nth_error (args_exprs a) i = Some e /\ nth_error (fn_args f) i = Some d /\ is_vararg d = false /\
    (s4_shape e = true \/
     exists t, spec_type e = Some t /\ (compat t d = false \/ (t = SString None /\ is_constant (arg_type d) = true))).
Proof.
  unfold check_call. destruct (negb (Bool.eqb (fn_method f) m)).
  - intros [H|[]]. discriminate.
  - cbv zeta. rewrite !in_app_iff. intros [H|[H|H]].
    + destruct (_ && _ && _) in H; [destruct H as [H|[]]; discriminate|contradiction].
    + destruct (_ || _) in H; [destruct H as [H|[]]; discriminate|contradiction].
    + apply type_problems_in in H. destruct H as (j & pt & d & -> & H1 & H2 & Hv & Hn & Hm & ->).
      rewrite argument_types_map in H1. rewrite nth_error_map in H1.
      destruct (nth_error (args_exprs a) j) as [e|] eqn:Ee; [|discriminate]. cbn in H1. injection H1 as H1.
      exists e, d. cbn [Nat.add]. repeat split; auto.
      destruct (s4_shape e) eqn:E4; [left; reflexivity|right].
      destruct (type_agree e pt E4 H1) as [->|(t & Ht & Hag)].
      * (* a vararg matches everything *) unfold matches in Hm. destruct (arg_type d); discriminate.
      * exists t. split; [exact Ht|]. eapply matches_compat; eauto.
Qed.

Lemma all_excluded (l : list problem) :
  existsb method_problem l = false -> existsb count_problem l = false ->
  (forall i got, ~ In (PType i got) l) -> l = [].
Proof.
  destruct l as [|x l]; [reflexivity|]. cbn [existsb]. intros H1 H2 H3.
  apply orb_false_iff in H1 as [H1 _]. apply orb_false_iff in H2 as [H2 _].
  destruct x; try discriminate. exfalso. apply (H3 index received). left. reflexivity.
Qed.

(** a call that satisfies the definition is never reported *)
Theorem satisfied_never_reported f m a :
  fn_method f = m -> (required_vararg_last f = true -> ordered (fn_args f) = true) -> s3 f a = false -> count_outside f a = false ->
  (forall i e d, nth_error (args_exprs a) i = Some e -> nth_error (fn_args f) i = Some d ->
     s4_shape e = false /\ forall t, spec_type e = Some t -> compat t d = true /\ ~ (t = SString None /\ is_constant (arg_type d) = true)) ->
  check_call f m a = [].
Proof.
  intros Hm Ho Hs Hc Hargs.
  assert (Hmb : Bool.eqb (fn_method f) m = true) by (apply Bool.eqb_true_iff; exact Hm).
  apply all_excluded.
  - rewrite method_exact, Hmb. reflexivity.
  - rewrite (count_exact f m a Hmb Ho Hs). exact Hc.
  - intros i got Hin. destruct (type_sound f m a i got Hin) as (e & d & He & Hd & _ & H).
    destruct (Hargs i e d He Hd) as [H4 Ht]. destruct H as [H|(t & Hs' & H)]; [congruence|].
    destruct (Ht t Hs') as [Hcomp Hn5]. destruct H as [H|H]; [congruence|contradiction].
Qed.
