From Selene Require Import Std.Versions Std.Extend Std.ExtendSpec.

Definition known (v : luaversion) : bool := match bits v with Some _ => true | None => false end.
Definition has_v (b : vbit) (v : luaversion) : bool :=
  match bits v with Some d => has b d | None => false end.
Definition accepts_v (c : construct) (v : luaversion) : bool :=
  match bits v with Some d => accepts c d | None => false end.

Lemma has_dor b d e : has b (dor d e) = has b d || has b e.
Proof. destruct b; reflexivity. Qed.

Lemma lua_version_from vs d0 errs b :
  has b (fst (fold_left (fun acc v => match bits v with
                          | Some d => (dor (fst acc) d, snd acc)
                          | None => (fst acc, (snd acc ++ [v]))
                          end) vs (d0, errs)))
  = has b d0 || existsb (has_v b) vs.
Proof.
  revert d0 errs. induction vs as [|v vs IH]; intros d0 errs; cbn [fold_left existsb].
  - rewrite orb_false_r. reflexivity.
  - unfold has_v at 1. destruct (bits v) as [d|]; cbn [fst snd]; rewrite IH.
    + rewrite has_dor, orb_assoc. reflexivity.
    + cbn [orb]. reflexivity.
Qed.

(** The dialect is the union of the declared versions, Lua 5.1 when none is declared. *)
Theorem version_union vs b : has b (fst (lua_version vs)) = existsb (has_v b) vs.
Proof. unfold lua_version. rewrite lua_version_from. destruct b; reflexivity. Qed.

Theorem default_is_51 : fst (lua_version []) = d51.
Proof. reflexivity. Qed.

(** Every construct of a declared dialect is accepted; a construct that no declared dialect has is not. *)
Theorem accepts_union vs c :
  accepts c (fst (lua_version vs)) = existsb (accepts_v c) vs.
Proof.
  unfold accepts. 
  assert (H : forall bs, existsb (fun b => has b (fst (lua_version vs))) bs =
                         existsb (fun v => match bits v with Some d => existsb (fun b => has b d) bs | None => false end) vs).
  { induction bs as [|b bs IH]; cbn [existsb].
    - induction vs as [|v vs IHv]; cbn [existsb]; [reflexivity|].
      rewrite <- IHv. destruct (bits v); reflexivity.
    - rewrite IH, version_union. clear IH.
      induction vs as [|v vs IHv]; cbn [existsb]; [reflexivity|].
      rewrite <- IHv. unfold has_v. destruct (bits v) as [d|]; cbn [orb].
      + destruct (has b d), (existsb (fun b0 => has b0 d) bs); cbn;
          rewrite ?orb_true_r; try reflexivity.
        all: destruct (existsb (has_v b) vs); reflexivity.
      + reflexivity. }
  unfold accepts_v, accepts. apply H.
Qed.

(** Unknown version names are exactly what is reported as an error. *)
Theorem unknown_reported vs : snd (lua_version vs) = filter (fun v => negb (known v)) vs.
Proof.
  unfold lua_version.
  assert (H : forall d0 errs,
    snd (fold_left (fun acc v => match bits v with
                          | Some d => (dor (fst acc) d, snd acc)
                          | None => (fst acc, (snd acc ++ [v]))
                          end) vs (d0, errs)) = errs ++ filter (fun v => negb (known v)) vs).
  { induction vs as [|v vs IH]; intros d0 errs; cbn [fold_left filter].
    - rewrite app_nil_r. reflexivity.
    - unfold known at 1. destruct (bits v); cbn [fst snd negb]; rewrite IH.
      + reflexivity.
      + rewrite <- app_assoc. reflexivity. }
  apply H.
Qed.

(** Inheritance through base chains (with C15): the dialect of a resolved chain is that of the
    most derived library that declares any version. *)
Theorem chain_inherits first rest :
  lua_version (l_versions (resolve_chain first rest)) =
  lua_version (spec_chain_versions (l_versions first) (map l_versions rest)).
Proof. rewrite extend_chain_versions. reflexivity. Qed.

Definition chain_versions (chain : list (list luaversion)) : list luaversion :=
  match chain with [] => [] | f :: r => spec_chain_versions f r end.
