(** The standard-library data model: a transliteration of the public data types of
    selene-lib/src/standard_library/mod.rs.  Maps (BTreeMap) are association lists without
    duplicate keys; a dotted key "a.b.c" is kept as its list of segments ["a";"b";"c"]
    (the harness splits on '.'; "*" is the wildcard segment). *)
From Selene Require Export Base.Util.

Inductive writability := ReadOnly | NewFields | OverrideFields | FullWrite.

Inductive argtype :=
| AAny | ABool | AConstant (cs : list string) | ADisplay (d : string)
| AFunction | ANil | ANumber | AString | ATable | AVararg.

Inductive required := NotRequired | Required (msg : option string).
Inductive observes := ObsReadWrite | ObsRead | ObsWrite.

Record deprecated := { dep_message : string; dep_replace : list string }.

Record argument := {
  arg_required : required;
  arg_type : argtype;
  arg_observes : observes;
  arg_deprecated : option deprecated }.

Record fbehavior := { fn_args : list argument; fn_method : bool; fn_must_use : bool }.

Inductive field_kind :=
| FAny | FFunction (b : fbehavior) | FProperty (w : writability) | FStruct (s : string) | FRemoved.

Record field := { f_kind : field_kind; f_deprecated : option deprecated }.

Definition key := list string.
Definition fmap := list (key * field).

Inductive luaversion := Lua51 | Lua52 | Lua53 | Lua54 | Luau | LuaJIT | VUnknown (s : string).

Record lib := {
  l_base : option string;
  l_name : option string;
  l_globals : fmap;
  l_structs : list (string * fmap);
  l_versions : list luaversion }.

(** Decidable equalities (transparent, so that [vm_compute] can run them). *)
Definition key_eq_dec : forall a b : key, {a = b} + {a <> b} := list_eq_dec string_dec.
Definition writability_eq_dec : forall a b : writability, {a = b} + {a <> b}.
Proof. decide equality. Defined.
Definition argtype_eq_dec : forall a b : argtype, {a = b} + {a <> b}.
Proof. decide equality; auto using list_eq_dec, string_dec. Defined.
Definition opt_eq_dec {A} (d : forall a b : A, {a = b} + {a <> b}) :
  forall a b : option A, {a = b} + {a <> b}.
Proof. decide equality. Defined.
Definition required_eq_dec : forall a b : required, {a = b} + {a <> b}.
Proof. decide equality; auto using opt_eq_dec, string_dec. Defined.
Definition observes_eq_dec : forall a b : observes, {a = b} + {a <> b}.
Proof. decide equality. Defined.
Definition deprecated_eq_dec : forall a b : deprecated, {a = b} + {a <> b}.
Proof. decide equality; auto using list_eq_dec, string_dec. Defined.
Definition argument_eq_dec : forall a b : argument, {a = b} + {a <> b}.
Proof.
  decide equality; auto using opt_eq_dec, deprecated_eq_dec, observes_eq_dec,
    argtype_eq_dec, required_eq_dec.
Defined.
Definition fbehavior_eq_dec : forall a b : fbehavior, {a = b} + {a <> b}.
Proof. decide equality; auto using bool_dec, list_eq_dec, argument_eq_dec. Defined.
Definition field_kind_eq_dec : forall a b : field_kind, {a = b} + {a <> b}.
Proof. decide equality; auto using string_dec, writability_eq_dec, fbehavior_eq_dec. Defined.
Definition field_eq_dec : forall a b : field, {a = b} + {a <> b}.
Proof. decide equality; auto using opt_eq_dec, deprecated_eq_dec, field_kind_eq_dec. Defined.
Definition luaversion_eq_dec : forall a b : luaversion, {a = b} + {a <> b}.
Proof. decide equality; auto using string_dec. Defined.

Definition is_removed (f : field) : bool :=
  match f_kind f with FRemoved => true | _ => false end.

Definition glookup (k : key) (m : fmap) : option field := lookup key_eq_dec k m.

(** What a user can observe of a map: a [Removed] entry counts as absent. *)
Definition present (k : key) (m : fmap) : option field :=
  match glookup k m with
  | Some f => if is_removed f then None else Some f
  | None => None
  end.

Fixpoint nodupb {A} (d : forall a b : A, {a = b} + {a <> b}) (l : list A) : bool :=
  match l with
  | [] => true
  | x :: r => (if in_dec d x r then false else true) && nodupb d r
  end.

Definition wf_fmap (m : fmap) : bool := nodupb key_eq_dec (keys m).
Definition wf_lib (l : lib) : bool :=
  wf_fmap (l_globals l) && nodupb string_dec (keys (l_structs l))
  && forallb (fun s => wf_fmap (snd s)) (l_structs l).

(** Map equality up to order, used to compare a model result with the implementation's
    BTreeMap (dumped in iteration order). *)
Definition fmap_equiv (a b : fmap) : bool :=
  Nat.eqb (List.length a) (List.length b)
  && forallb (fun kv => match glookup (fst kv) b with
                        | Some f => if field_eq_dec f (snd kv) then true else false
                        | None => false end) a.

Definition field_simple (k : field_kind) : field := {| f_kind := k; f_deprecated := None |}.
