(** C12: checking a file is a pure function of (configuration, library, source).
    Three parts:
    1. a model of the only state that outlives a [test_on] call - write-once caches - and of calls
       made in any order / from any threads through one shared checker;
    2. order coming out of a hash table is erased by sorting on distinct keys;
    3. the classification of every shared-state / hash-order site the translator finds in /repo
       (Generated/SharedSites.v, regenerated on every run) into the classes parts 1 and 2 cover. *)
From Coq Require Import Sorting.Permutation Sorting.Sorted.
From Selene Require Export Base.Util Generated.SharedSites.

(** ** 1. write-once caches *)
Section Cache.
  Context {Lib Tree File Diags : Type}.
  Context (build : Lib -> Tree).                  (* extract_into_tree: pure *)
  Context (lint_all : Lib -> Tree -> File -> Diags).   (* every lint takes &self and builds its state per call *)

  Definition cache := option Tree.

  (** OnceCell::get_or_init: the first caller stores the value, everybody reads the stored one *)
  Definition get_or_init (lib : Lib) (c : cache) : Tree * cache :=
    match c with Some t => (t, c) | None => (build lib, Some (build lib)) end.

  Definition test_on (lib : Lib) (c : cache) (f : File) : Diags * cache :=
    let '(t, c') := get_or_init lib c in (lint_all lib t f, c').

  (** a thread does either half of a call at a time: touching the cache, or the whole call *)
  Inductive op := Touch | Check (f : File).

  Definition step (lib : Lib) (c : cache) (o : op) : option Diags * cache :=
    match o with
    | Touch => (None, snd (get_or_init lib c))
    | Check f => let '(d, c') := test_on lib c f in (Some d, c')
    end.

  Fixpoint run (lib : Lib) (c : cache) (ops : list op) : list (option Diags) * cache :=
    match ops with
    | [] => ([], c)
    | o :: r => let '(d, c') := step lib c o in
                let '(ds, c'') := run lib c' r in (d :: ds, c'')
    end.

  Definition Inv (lib : Lib) (c : cache) : Prop := c = None \/ c = Some (build lib).

  Definition pure_result (lib : Lib) (o : op) : option Diags :=
    match o with Touch => None | Check f => Some (lint_all lib (build lib) f) end.
End Cache.

(** ** 2. sorting erases the order of a hash table *)
Section Sort.
  Context {A : Type} (key : A -> N).

  Fixpoint insert_sorted (x : A) (l : list A) : list A :=
    match l with
    | [] => [x]
    | y :: r => if (key x <=? key y)%N then x :: l else y :: insert_sorted x r
    end.
  Fixpoint isort (l : list A) : list A :=
    match l with [] => [] | x :: r => insert_sorted x (isort r) end.
End Sort.

(** ** 3. classification of the sites found in /repo *)
Inductive cls :=
| Immutable        (* static initialised once from constants, only read *)
| IdempotentCache  (* write-once cell whose initialiser is a pure function of immutable data (part 1) *)
| LookupOnly       (* hash collection that is only inserted into / looked up, never iterated *)
| IteratedSorted   (* iterated, the result sorted on distinct keys before use (part 2) *)
| IteratedCounted  (* iterated only to count the elements satisfying a predicate (part 2) *)
| LoadTime         (* used while a library / configuration is loaded, not by test_on *)
| CliOnly          (* counters / options of the command-line driver, not an input of test_on *)
| TestOnly.        (* test support code *)

Definition site_eqb (a b : site) : bool :=
  match a, b with
  | SStatic f n t m, SStatic f' n' t' m' => str_eqb f f' && str_eqb n n' && str_eqb t t' && Bool.eqb m m'
  | SInterior f t k, SInterior f' t' k' => str_eqb f f' && str_eqb t t' && Nat.eqb k k'
  | SAmbient f w k, SAmbient f' w' k' => str_eqb f f' && str_eqb w w' && Nat.eqb k k'
  | SHash f n i, SHash f' n' i' => str_eqb f f' && str_eqb n n' && Bool.eqb i i'
  | SHashFn f n, SHashFn f' n' => str_eqb f f' && str_eqb n n'
  | _, _ => false
  end.

Definition classified : list (site * cls) := [
  (SHash "selene-lib/src/ast_util/scopes.rs" "captured_references" false, LookupOnly);
  (SHash "selene-lib/src/ast_util/scopes.rs" "else_blocks" false, LookupOnly);
  (SStatic "selene-lib/src/lib.rs" "ALL_LINTS" "Vec" false, Immutable);
  (SHash "selene-lib/src/lib.rs" "config" false, LookupOnly);
  (SHash "selene-lib/src/lib.rs" "lints" false, LookupOnly);
  (SStatic "selene-lib/src/lint_filtering.rs" "NODES_TO_IGNORE" "HashSet" false, Immutable);
  (SHash "selene-lib/src/lint_filtering.rs" "NODES_TO_IGNORE" false, LookupOnly);
  (SHash "selene-lib/src/lint_filtering.rs" "comments_checked" false, LookupOnly);
  (SHash "selene-lib/src/lint_filtering.rs" "set" false, LookupOnly);
  (SStatic "selene-lib/src/lints/bad_string_escape.rs" "STRING_ESCAPE_REGEX" "Regex" false, Immutable);
  (SHash "selene-lib/src/lints/duplicate_keys.rs" "declared_fields" false, LookupOnly);
  (SHash "selene-lib/src/lints/global_usage.rs" "checked" false, LookupOnly);
  (SHash "selene-lib/src/lints/mismatched_arg_count.rs" "definitions" false, LookupOnly);
  (SHash "selene-lib/src/lints/multiple_statements.rs" "if_lines" false, LookupOnly);
  (SHash "selene-lib/src/lints/multiple_statements.rs" "lines_with_stmt" false, LookupOnly);
  (SHash "selene-lib/src/lints/manual_table_clone.rs" "inside_stmt_begins" true, IteratedCounted);
  (SHash "selene-lib/src/lints/roblox_incorrect_roact_usage.rs" "definitions_of_create_element" false, LookupOnly);
  (SStatic "selene-lib/src/lints/test_util.rs" "TEST_PROJECTS_ROOT" "PathBuf" false, TestOnly);
  (SStatic "selene-lib/src/lints/undefined_variable.rs" "VARARG_STRING" "String" false, Immutable);
  (SHash "selene-lib/src/lints/undefined_variable.rs" "read" false, LookupOnly);
  (SHash "selene-lib/src/lints/unscoped_variables.rs" "read" false, LookupOnly);
  (SStatic "selene-lib/src/possible_std.rs" "ROBLOX_BASE_STD" "OnceCell" false, IdempotentCache);
  (SInterior "selene-lib/src/possible_std.rs" "OnceCell" 2, IdempotentCache);
  (SHash "selene-lib/src/possible_std.rs" "all_default_standard_libraries()" true, IteratedSorted);
  (SStatic "selene-lib/src/standard_library/mod.rs" "ANY_TABLE" "BTreeMap" false, Immutable);
  (SStatic "selene-lib/src/standard_library/mod.rs" "READ_ONLY_FIELD" "Field" false, Immutable);
  (SStatic "selene-lib/src/standard_library/mod.rs" "CACHED_RESULT" "OnceCell" false, IdempotentCache);
  (SInterior "selene-lib/src/standard_library/mod.rs" "OnceCell" 3, IdempotentCache);
  (SHash "selene-lib/src/standard_library/mod.rs" "map" false, LoadTime);
  (SHash "selene-lib/src/standard_library/mod.rs" "stds" false, LookupOnly);
  (SHashFn "selene-lib/src/standard_library/mod.rs" "all_default_standard_libraries", IteratedSorted);
  (SStatic "selene-lib/src/standard_library/v1.rs" "ANY_TABLE" "BTreeMap" false, LoadTime);
  (SHash "selene-lib/src/standard_library/v1.rs" "map" false, LoadTime);
  (SStatic "selene-lib/src/test_util.rs" "TEST_FULL_RUN_ROOT" "PathBuf" false, TestOnly);
  (SStatic "selene/src/main.rs" "OPTIONS" "RwLock" false, CliOnly);
  (SStatic "selene/src/main.rs" "LINT_ERRORS" "AtomicUsize" false, CliOnly);
  (SStatic "selene/src/main.rs" "LINT_WARNINGS" "AtomicUsize" false, CliOnly);
  (SStatic "selene/src/main.rs" "PARSE_ERRORS" "AtomicUsize" false, CliOnly);
  (SStatic "selene/src/main.rs" "STANDARD_LIBRARY_ERRORS" "AtomicUsize" false, CliOnly);
  (SInterior "selene/src/main.rs" "RwLock" 2, CliOnly);
  (SInterior "selene/src/main.rs" "AtomicUsize" 4, CliOnly);
  (SAmbient "selene/src/main.rs" "env" 4, CliOnly);
  (SHash "selene/src/roblox/api.rs" "map" false, LoadTime)
].

Definition classify (s : site) : option cls :=
  match find (fun sc => site_eqb s (fst sc)) classified with Some sc => Some (snd sc) | None => None end.

(** a class is only acceptable for a site of the matching shape: nothing mutable, nothing iterated
    that is not sorted, no ambient input in the library *)
Definition class_fits (s : site) (c : cls) : bool :=
  match s, c with
  | SStatic _ _ _ true, _ => false
  | SHash _ _ true, (IteratedSorted | IteratedCounted) => true
  | SHash _ _ true, _ => false
  | SHash _ _ false, (LookupOnly | LoadTime) => true
  | SHashFn _ _, IteratedSorted => true
  | SStatic _ _ _ false, (Immutable | IdempotentCache | CliOnly | TestOnly | LoadTime) => true
  | SInterior _ _ _, (IdempotentCache | CliOnly) => true
  | SAmbient _ _ _, CliOnly => true
  | _, _ => false
  end.

Definition site_ok (s : site) : bool :=
  match classify s with Some c => class_fits s c | None => false end.

Definition unclassified : list site := filter (fun s => negb (site_ok s)) sites.
