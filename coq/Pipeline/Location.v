(** C20: byte offset <-> (line, column), as codespan computes it (codespan-0.11.1 src/file.rs:325-358):
    line = number of line starts at or before the offset (lines start after every '\n');
    column = number of characters between the line start and the offset; an offset beyond the end
    or inside a UTF-8 sequence is an error (which json / json2 / luacheck output `expect`). *)
From Coq Require Export List NArith Bool Lia.
Export ListNotations.
Open Scope N_scope.

Definition is_cont (b : N) : bool := (128 <=? b) && (b <? 192).
Definition is_nl (b : N) : bool := b =? 10.

(** scanning state: bytes consumed, current line, characters on the current line *)
Fixpoint scan (src : list N) (n : nat) (line col : N) : option (N * N) :=
  match n with
  | O => match src with
         | b :: _ => if is_cont b then None else Some (line, col)     (* not a char boundary *)
         | [] => Some (line, col)
         end
  | S n' =>
      match src with
      | [] => None                                                    (* offset beyond the end *)
      | b :: r => if is_nl b then scan r n' (line + 1) 0
                  else scan r n' line (if is_cont b then col else col + 1)
      end
  end.

Definition location (src : list N) (off : nat) : option (N * N) := scan src off 0 0.

(** the inverse walk: to the start of line [line], then [col] characters forward *)
Fixpoint skip_conts (src : list N) : nat :=
  match src with b :: r => if is_cont b then S (skip_conts r) else O | [] => O end.

Fixpoint advance (src : list N) (col : nat) : option nat :=
  match col with
  | O => Some O
  | S c =>
      match src with
      | [] => None
      | b :: r => if is_nl b then None
                  else let k := skip_conts r in
                       match advance (skipn k r) c with Some p => Some (S (k + p)) | None => None end
      end
  end.

Fixpoint goto_line (src : list N) (line : nat) : option nat :=
  match line with
  | O => Some O
  | S l => match src with
           | [] => None
           | b :: r => match (if is_nl b then goto_line r l else goto_line r (S l)) with
                       | Some p => Some (S p) | None => None end
           end
  end.

Definition offset_of (src : list N) (line col : N) : option nat :=
  match goto_line src (N.to_nat line) with
  | Some ls => match advance (skipn ls src) (N.to_nat col) with Some p => Some (ls + p)%nat | None => None end
  | None => None
  end.

Definition boundary (src : list N) (off : nat) : bool :=
  match nth_error src off with Some b => negb (is_cont b) | None => Nat.eqb off (List.length src) end.

(** Text hypotheses that valid UTF-8 guarantees (`String::from_utf8_lossy` in main.rs:202): the text
    does not begin with a continuation byte, nor does a line. *)
Definition head_ok (src : list N) : bool := match src with b :: _ => negb (is_cont b) | [] => true end.
Fixpoint after_nl_ok (src : list N) : bool :=
  match src with
  | b :: r => (if is_nl b then head_ok r else true) && after_nl_ok r
  | [] => true
  end.
Definition wf_text (src : list N) : bool := head_ok src && after_nl_ok src.

(** The luacheck writer's loop (main.rs:361-370): print at [start]; while the line printed is not the
    end line, print again at column 0 of the next line. Fuel makes the loop a Gallina function; the
    theorems say how much is enough, and that a reversed range never terminates. *)
Fixpoint lc_loop (fuel : nat) (line col el : N) : option (list (N * N)) :=
  match fuel with
  | O => None
  | S f => if line =? el then Some [(line, col)]
           else match lc_loop f (line + 1) 0 el with Some r => Some ((line, col) :: r) | None => None end
  end.

(** What each style shows of one diagnostic. Lines/columns as printed (text styles are 1-based). *)
Inductive style := Rich | Quiet | Json | Json2 | Luacheck.

Record diag := { d_code : N; d_sev : N; d_msg : N; d_start : nat; d_end : nat;
  d_parse : bool  (* a parse error: `--luacheck` prints those through the rich writer (main.rs:218-281) *) }.

Record shown := { s_code : N; s_sev : N; s_msg : N; s_line : N; s_col : N }.

Definition shown_eqb (a b : shown) : bool :=
  (s_code a =? s_code b) && (s_sev a =? s_sev b) && (s_msg a =? s_msg b) && (s_line a =? s_line b) && (s_col a =? s_col b).

Definition mk (d : diag) (lc : N * N) : shown :=
  {| s_code := d_code d; s_sev := d_sev d; s_msg := d_msg d; s_line := fst lc + 1; s_col := snd lc + 1 |}.

(** codespan-reporting's renderer clamps instead of failing (term/views.rs uses the same `location`
    but rich/short rendering of selene's labels never `unwrap`s it: a failed lookup aborts the emit with
    an Err that main.rs `expect`s).  We model text styles as needing the start location only. *)
Definition emit (st : style) (src : list N) (d : diag) : option (list shown) :=
  match st with
  | Rich | Quiet =>
      match location src (d_start d) with Some lc => Some [mk d lc] | None => None end
  | Json | Json2 =>
      match location src (d_start d), location src (d_end d) with
      | Some lc, Some _ => Some [mk d lc]
      | _, _ => None
      end
  | Luacheck =>
      if d_parse d then match location src (d_start d) with Some lc => Some [mk d lc] | None => None end else
      match location src (d_end d), location src (d_start d) with
      | Some (el, _), Some (sl, sc) =>
          match lc_loop (S (N.to_nat (el - sl))) sl sc el with
          | Some ls => Some (map (mk d) ls)
          | None => None
          end
      | _, _ => None
      end
  end.

(** the identity every style must agree on: the first line shown *)
Definition key (o : list shown) : option shown := hd_error o.

(** `--ranges`: the end column printed on each luacheck line (main.rs:331-346): the end column on the
    last line, otherwise the number of characters of that line as `str::lines` yields it (without the
    line terminator "\n" or "\r\n"). *)
Fixpoint count_line (src : list N) : N :=
  match src with
  | [] => 0
  | b :: r => if is_nl b then 0
              else if (b =? 13) && (match r with b' :: _ => is_nl b' | [] => false end) then 0
              else (if is_cont b then 0 else 1) + count_line r
  end.

Definition line_chars (src : list N) (line : N) : option N :=
  match goto_line src (N.to_nat line) with Some ls => Some (count_line (skipn ls src)) | None => None end.

Definition lc_range_ends (src : list N) (d : diag) : option (list N) :=
  if d_parse d then (match emit Luacheck src d with Some _ => Some [] | None => None end) else
  match location src (d_end d), emit Luacheck src d with
  | Some (el, ec), Some ls =>
      Some (map (fun s => if s_line s =? el + 1 then ec
                          else match line_chars src (s_line s - 1) with Some k => k | None => 0 end) ls)
  | _, _ => None
  end.
