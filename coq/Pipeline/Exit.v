(** Model of the CLI's counting and exit-status arithmetic (selene/src/main.rs:183-199, 288-301,
    394-407, 629-732).  A run is a list of command-line entries; every file has an [outcome]
    (what happens when it is checked) and a flag telling whether the `exclude` glob set matches it. *)
From Coq Require Export List NArith Bool Lia.
Export ListNotations.
Open Scope N_scope.

Inductive outcome :=
| Missing                 (* fs::metadata fails: counted before exclusion is looked at *)
| Unreadable              (* open/read fails *)
| ParseFail (k : N)       (* k parse errors, each printed as a parse_error diagnostic *)
| Linted (e w a : N)      (* diagnostics by final severity: error, warning, allow *)
| Panics.                 (* the worker thread panics (ThreadPool::panic_count) *)

Record file := { f_excluded : bool; f_outcome : outcome }.

Inductive entry := EFile (f : file) | EDir (fs : list file).

Record options := { allow_warnings : bool; no_exclude : bool; no_summary : bool; luacheck : bool }.

Record counters := { c_parse : N; c_err : N; c_warn : N; c_panic : N;
                     p_err : N; p_warn : N; p_parse : N }.   (* p_* = diagnostics printed *)

Definition zero : counters :=
  {| c_parse := 0; c_err := 0; c_warn := 0; c_panic := 0; p_err := 0; p_warn := 0; p_parse := 0 |}.

Definition check_file (c : counters) (o : outcome) : counters :=
  match o with
  | Missing | Unreadable =>
      {| c_parse := c_parse c; c_err := c_err c + 1; c_warn := c_warn c; c_panic := c_panic c;
         p_err := p_err c; p_warn := p_warn c; p_parse := p_parse c |}
  | ParseFail k =>
      {| c_parse := c_parse c + k; c_err := c_err c; c_warn := c_warn c; c_panic := c_panic c;
         p_err := p_err c; p_warn := p_warn c; p_parse := p_parse c + k |}
  | Linted e w _ =>
      {| c_parse := c_parse c; c_err := c_err c + e; c_warn := c_warn c + w; c_panic := c_panic c;
         p_err := p_err c + e; p_warn := p_warn c + w; p_parse := p_parse c |}
  | Panics =>
      {| c_parse := c_parse c; c_err := c_err c; c_warn := c_warn c; c_panic := c_panic c + 1;
         p_err := p_err c; p_warn := p_warn c; p_parse := p_parse c |}
  end.

(** main.rs:639-651: metadata first (Missing), then the exclude test, then the job. *)
Definition skipped (o : options) (f : file) : bool :=
  negb (no_exclude o) && f_excluded f.

Definition step_top (o : options) (c : counters) (f : file) : counters :=
  match f_outcome f with
  | Missing => check_file c Missing
  | oc => if skipped o f then c else check_file c oc
  end.

(** Files found by a directory walk exist (they were just listed); exclusion applies to them. *)
Definition step_walked (o : options) (c : counters) (f : file) : counters :=
  if skipped o f then c else check_file c (f_outcome f).

Definition step (o : options) (c : counters) (e : entry) : counters :=
  match e with
  | EFile f => step_top o c f
  | EDir fs => fold_left (step_walked o) fs c
  end.

Definition tally (o : options) (es : list entry) : counters := fold_left (step o) es zero.

(** main.rs:723-732 (STANDARD_LIBRARY_ERRORS is never incremented anywhere: always 0). *)
Definition exit_of (o : options) (c : counters) : N :=
  let total := c_parse c + c_err c + c_warn c + 0 + c_panic c in
  if 0 <? total then
    if negb (total =? c_warn c) || negb (allow_warnings o) then 1 else 0
  else 0.

Definition exit_status (o : options) (es : list entry) : N := exit_of o (tally o es).

(** What `Results:` / json2 Summary shows, if anything: (errors, warnings, parse errors). *)
Definition summary (o : options) (es : list entry) : option (N * N * N) :=
  if negb (luacheck o) && negb (no_summary o)
  then let c := tally o es in Some (c_err c, c_warn c, c_parse c)
  else None.
