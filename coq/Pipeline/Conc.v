(** C18: the worker protocol of the CLI (selene/src/main.rs:183-392, 629-721) as a small-step
    semantics.  Every file is a straight-line program over the shared state: it adds to the global
    counters with fetch_add, and writes its diagnostics while holding the stdout lock - one block per
    parse-error diagnostic (emit_codespan_locked), one block for all lint diagnostics of the file.
    The scheduler is arbitrary: any enabled thread may step.  (The thread pool only ever produces
    schedules of this kind, whatever the number of workers and the assignment of files to them.) *)
From Coq Require Export List NArith Bool Lia Permutation.
Export ListNotations.
Open Scope N_scope.

Inductive counter := CErr | CWarn | CParse.
Inductive act := AAdd (c : counter) (n : N) | ALock | AWrite (line : N) | AUnlock.

Record state := { threads : list (list act); owner : option nat; out : list N; tot : N * N * N }.

Definition bump (c : counter) (n : N) (t : N * N * N) : N * N * N :=
  let '(e, w, p) := t in
  match c with CErr => (e + n, w, p) | CWarn => (e, w + n, p) | CParse => (e, w, p + n) end.

Fixpoint set_thread (i : nat) (t : list act) (ts : list (list act)) : list (list act) :=
  match ts, i with
  | [], _ => []
  | _ :: r, O => t :: r
  | x :: r, S i' => x :: set_thread i' t r
  end.

(** thread i performs its next action, if it is enabled *)
Definition step (s : state) (i : nat) : option state :=
  match nth_error (threads s) i with
  | Some (a :: rest) =>
      let ts' := set_thread i rest (threads s) in
      match a with
      | AAdd c n => Some {| threads := ts'; owner := owner s; out := out s; tot := bump c n (tot s) |}
      | ALock => match owner s with
                 | None => Some {| threads := ts'; owner := Some i; out := out s; tot := tot s |}
                 | Some _ => None                       (* blocked *)
                 end
      | AWrite l => match owner s with
                    | Some j => if Nat.eqb i j then Some {| threads := ts'; owner := owner s; out := out s ++ [l]; tot := tot s |}
                                else None
                    | None => None
                    end
      | AUnlock => match owner s with
                   | Some j => if Nat.eqb i j then Some {| threads := ts'; owner := None; out := out s; tot := tot s |}
                               else None
                   | None => None
                   end
      end
  | _ => None
  end.

Fixpoint run (s : state) (sched : list nat) : option state :=
  match sched with
  | [] => Some s
  | i :: r => match step s i with Some s' => run s' r | None => None end
  end.

Definition finished (s : state) : Prop := Forall (fun t => t = []) (threads s).

(** ---- the shape of a file's program ---- *)
Definition block (lines : list N) : list act := ALock :: map AWrite lines ++ [AUnlock].

(** a job: some counter updates interleaved with whole blocks *)
Inductive seg := SAdd (c : counter) (n : N) | SBlock (lines : list N).
Definition seg_acts (g : seg) : list act := match g with SAdd c n => [AAdd c n] | SBlock ls => block ls end.
Definition job_acts (j : list seg) : list act := flat_map seg_acts j.

Definition job_blocks (j : list seg) : list (list N) :=
  flat_map (fun g => match g with SBlock ls => [ls] | SAdd _ _ => [] end) j.
Definition job_adds (j : list seg) : N * N * N :=
  fold_left (fun t g => match g with SAdd c n => bump c n t | SBlock _ => t end) j (0, 0, 0).

Definition init (jobs : list (list seg)) : state :=
  {| threads := map job_acts jobs; owner := None; out := []; tot := (0, 0, 0) |}.
