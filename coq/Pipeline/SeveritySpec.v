From Selene Require Import Pipeline.Severity Filter.Facts.

(** 1. what is found does not depend on the configuration (by construction of the pipeline:
       the lint passes never see the severities) *)
Theorem found_independent_of_severities cfg cfg' fs :
  map erase (attach cfg fs) = map erase (attach cfg' fs).
Proof. unfold attach. rewrite !map_map. reflexivity. Qed.

(** 2. a lint absent from the configuration keeps its built-in default;
       high_cyclomatic_complexity stays silent unless enabled (re-proved against the regenerated table) *)
Theorem absent_keeps_default cfg lint :
  configured cfg lint = None -> sev cfg lint = default_severity lint.
Proof. unfold sev. intros ->. reflexivity. Qed.

Theorem hcc_default_allow : sev [] "high_cyclomatic_complexity" = SAllow.
Proof. vm_compute. reflexivity. Qed.

Theorem configured_wins cfg lint v : configured cfg lint = Some v -> sev cfg lint = to_severity v.
Proof. unfold sev. intros ->. reflexivity. Qed.

(** 3. the stack machine never looks at the severity a diagnostic carries: relabelling the input
       relabels exactly the diagnostics no filter governs *)
Definition resev (g : diag -> severity) (d : diag) : diag := with_sev d (g d).

Lemma insert_diag_resev g d l :
  insert_diag (resev g d) (map (resev g) l) = map (resev g) (insert_diag d l).
Proof.
  induction l as [|x l IH]; cbn [map insert_diag]; [reflexivity|].
  cbn [resev with_sev d_start]. destruct (d_start d <=? d_start x)%N; cbn [map]; [reflexivity|].
  f_equal. exact IH.
Qed.

Lemma sort_diags_resev g ds : sort_diags (map (resev g) ds) = map (resev g) (sort_diags ds).
Proof.
  induction ds as [|d ds IH]; cbn [map sort_diags fold_right]; [reflexivity|].
  fold (sort_diags (map (resev g) ds)). fold (sort_diags ds). rewrite IH. apply insert_diag_resev.
Qed.

(** outputs of replay on a relabelled list: same shape; a diagnostic either takes the governing
    filter's severity (independent of the label) or keeps its label *)
Inductive relabelled (g : diag -> severity) : list diag -> list diag -> Prop :=
| rl_nil : relabelled g [] []
| rl_governed d o o' : relabelled g o o' -> relabelled g (d :: o) (d :: o')
| rl_free d o o' : relabelled g o o' -> relabelled g (d :: o) (resev g d :: o').

Lemma replay_resev g ds pending stack outs :
  replay ds pending stack = Some outs ->
  exists outs', replay (map (resev g) ds) pending stack = Some outs' /\
                map erase outs' = map erase outs /\
                Forall2 (fun o o' => o' = o \/ (o' = resev g o)) outs outs'.
Proof.
  revert pending stack outs. induction ds as [|d ds IH]; intros pending stack outs; cbn [map replay].
  - intros [= <-]. exists []. repeat split. constructor.
  - cbn [resev with_sev d_start d_code].
    destruct (run_instrs (S (List.length pending)) (d_start d) pending stack) as [[p' s']|]; [|discriminate].
    destruct (replay ds p' s') as [o|] eqn:Eo; [|discriminate].
    destruct (IH _ _ _ Eo) as (o' & Ho' & Her & Hf2). rewrite Ho'.
    destruct (find_conf (d_code d) s') as [c|].
    + destruct (severity_eqb (to_severity (fc_var c)) SAllow).
      * intros [= <-]. exists o'. auto.
      * intros [= <-]. eexists. split; [reflexivity|]. split.
        -- cbn [map erase with_sev d_code d_start d_payload]. f_equal. exact Her.
        -- constructor; [left; reflexivity|exact Hf2].
    + intros [= <-]. eexists. split; [reflexivity|]. split.
      * cbn [map erase with_sev d_code d_start d_payload]. f_equal. exact Her.
      * constructor; [right; reflexivity|exact Hf2].
Qed.

(** 4. inline filters take precedence over the configured value, in both directions: whenever a
       filter governs a diagnostic, the emitted severity is the filter's, whatever the input label *)
Theorem inline_beats_config ds pending stack outs d :
  replay ds pending stack = Some outs -> In d outs ->
  (exists d0, In d0 ds /\ erase d0 = erase d /\
     (d = d0 \/ exists c, fc_lint c = d_code d0 /\ d_sev d = to_severity (fc_var c) /\ to_severity (fc_var c) <> SAllow)).
Proof.
  revert pending stack outs. induction ds as [|x ds IH]; intros pending stack outs; cbn [replay].
  - intros [= <-] [].
  - destruct (run_instrs (S (List.length pending)) (d_start x) pending stack) as [[p' s']|]; [|discriminate].
    destruct (replay ds p' s') as [o|] eqn:Eo; [|discriminate].
    assert (Hrec : In d o -> exists d0, In d0 (x :: ds) /\ erase d0 = erase d /\
              (d = d0 \/ exists c, fc_lint c = d_code d0 /\ d_sev d = to_severity (fc_var c) /\ to_severity (fc_var c) <> SAllow)).
    { intros Hin. destruct (IH _ _ _ Eo Hin) as (d0 & H0 & H1 & H2). exists d0. split; [right; exact H0|auto]. }
    destruct (find_conf (d_code x) s') as [c|] eqn:Ef.
    + destruct (severity_eqb (to_severity (fc_var c)) SAllow) eqn:Es.
      * intros [= <-]. exact Hrec.
      * intros [= <-] [<-|Hin]; [|exact (Hrec Hin)].
        exists x. split; [left; reflexivity|]. split; [reflexivity|]. right. exists c.
        unfold find_conf in Ef. apply find_some in Ef as [_ Ef]. apply str_eqb_eq in Ef.
        repeat split; [exact Ef|]. intros Hs. rewrite Hs in Es. discriminate.
    + intros [= <-] [<-|Hin]; [|exact (Hrec Hin)]. exists x. split; [left; reflexivity|]. split; [reflexivity|left; reflexivity].
Qed.

(** 5. a lint set to `allow` and not re-enabled by a filter contributes nothing visible *)
Theorem allow_contributes_nothing code ds pending stack outs :
  replay ds pending stack = Some outs ->
  (forall d, In d ds -> d_code d = code -> d_sev d = SAllow) ->
  Forall (fun c => fc_lint c <> code) (pushed pending) -> Forall (fun c => fc_lint c <> code) stack ->
  forall d, In d outs -> d_code d = code -> d_sev d = SAllow.
Proof.
  intros Hr Hall Hp Hs d Hin Hc.
  pose proof (replay_frame code ds pending stack outs Hr Hp Hs) as Hf.
  assert (Hd : In d (List.filter (fun d => str_eqb (d_code d) code) outs)).
  { apply filter_In. split; [exact Hin|apply str_eqb_eq; exact Hc]. }
  rewrite Hf in Hd. apply filter_In in Hd as [Hd _]. exact (Hall d Hd Hc).
Qed.
