(** C10: how configured severities enter the pipeline (selene-lib/src/lib.rs:232-282).
    Lints are oracles: [found] is what the lint passes return for a file, tagged with the lint
    that produced each diagnostic, in ALL_LINTS order; severities are attached afterwards by
    get_lint_severity, then filter_diagnostics runs. *)
From Selene Require Export Filter.Machine Filter.Spec Generated.LintTable.

Definition config := list (string * variation).        (* [lints] section; absent = not configured *)

Definition default_severity (lint : string) : severity :=
  match find (fun row => str_eqb (fst (fst row)) lint) lint_table with
  | Some row => snd (fst row)
  | None => SError
  end.

Definition configured (cfg : config) (lint : string) : option variation :=
  match find (fun kv => str_eqb (fst kv) lint) cfg with Some kv => Some (snd kv) | None => None end.

(** get_lint_severity *)
Definition sev (cfg : config) (lint : string) : severity :=
  match configured cfg lint with Some v => to_severity v | None => default_severity lint end.

(** a found diagnostic: (lint that produced it, code, start, payload); code = lint name for every
    lint (checked by the correspondence) but kept separate as in the code *)
Record found := { fd_lint : string; fd_code : string; fd_start : N; fd_payload : N }.

Definition attach (cfg : config) (fs : list found) : list diag :=
  map (fun f => {| d_code := fd_code f; d_start := fd_start f; d_payload := fd_payload f;
                   d_sev := sev cfg (fd_lint f) |}) fs.

Definition test_on (cfg : config) (es : list fentry) (fc : option (N * N)) (fs : list found)
  : option (list out) :=
  filter_diagnostics es fc (attach cfg fs).

(** What a user sees: Allow-severity diagnostics are dropped at output/count time (main.rs:291-301,380-387). *)
Definition visible (outs : list out) : list diag :=
  flat_map (fun o => match o with
                     | ODiag d => if severity_eqb (d_sev d) SAllow then [] else [d]
                     | OFail _ => [] end) outs.

Definition erase (d : diag) : string * N * N := (d_code d, d_start d, d_payload d).
