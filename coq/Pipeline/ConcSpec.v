(** C18 theorems: for every schedule, the totals are the sums over the files, the output is a
    concatenation of whole blocks (a permutation of all blocks), and no reachable state is stuck. *)
From Coq Require Import PeanoNat.
From Selene Require Import Pipeline.Conc.
Open Scope N_scope.

(** ---------- abstract view of a thread ---------- *)
Inductive athread :=
| TB (segs : list seg)                       (* at a block boundary *)
| TW (rest : list N) (segs : list seg).      (* inside its block: lines still to write *)

Definition acts_of (t : athread) : list act :=
  match t with
  | TB segs => job_acts segs
  | TW ls segs => map AWrite ls ++ [AUnlock] ++ job_acts segs
  end.
Definition blocks_of (t : athread) : list (list N) :=
  match t with TB segs => job_blocks segs | TW _ segs => job_blocks segs end.
Definition is_TB (t : athread) : Prop := match t with TB _ => True | TW _ _ => False end.

Definition cnt (c : counter) (t : N * N * N) : N :=
  let '(e, w, p) := t in match c with CErr => e | CWarn => w | CParse => p end.
Definition counter_eqb (a b : counter) : bool :=
  match a, b with CErr, CErr | CWarn, CWarn | CParse, CParse => true | _, _ => false end.

Fixpoint adds_segs (c : counter) (segs : list seg) : N :=
  match segs with
  | [] => 0
  | SAdd c' n :: r => (if counter_eqb c c' then n else 0) + adds_segs c r
  | SBlock _ :: r => adds_segs c r
  end.
Definition adds_of (c : counter) (t : athread) : N :=
  match t with TB segs => adds_segs c segs | TW _ segs => adds_segs c segs end.
Definition sumN (l : list N) : N := fold_right N.add 0 l.

(** the invariant *)
Inductive Inv (jobs : list (list seg)) (s : state) : Prop :=
| mkInv (ats : list athread) (done : list (list N)) (cur : list N) :
    threads s = map acts_of ats ->
    match owner s with
    | None => Forall is_TB ats /\ cur = [] /\ out s = concat done
    | Some i => exists ls segs, nth_error ats i = Some (TW ls segs) /\
                                (forall j t, j <> i -> nth_error ats j = Some t -> is_TB t) /\
                                out s = concat done ++ cur
    end ->
    Permutation (done ++ (match owner s with
                          | Some i => match nth_error ats i with Some (TW ls _) => [cur ++ ls] | _ => [] end
                          | None => [] end)
                      ++ flat_map blocks_of ats)
                (flat_map job_blocks jobs) ->
    (forall c, cnt c (tot s) + sumN (map (adds_of c) ats) = sumN (map (adds_segs c) jobs)) ->
    Inv jobs s.

Lemma cnt_bump c c' n t : cnt c (bump c' n t) = cnt c t + (if counter_eqb c c' then n else 0).
Proof. destruct t as [[e w] p], c, c'; cbn; lia. Qed.

Lemma init_inv jobs : Inv jobs (init jobs).
Proof.
  apply (mkInv _ _ (map TB jobs) ([]) ([])); cbn [init threads owner out tot].
  - rewrite map_map. reflexivity.
  - split; [|split; reflexivity]. apply Forall_forall. intros t Ht. apply in_map_iff in Ht as [j [<- _]]. exact I.
  - cbn [app]. rewrite flat_map_concat_map, map_map, <- flat_map_concat_map. apply Permutation_refl.
  - intros c. rewrite map_map. cbn [adds_of]. destruct c; cbn [cnt]; rewrite N.add_0_l; reflexivity.
Qed.

Fixpoint set_nth {A} (i : nat) (x : A) (l : list A) : list A :=
  match l, i with
  | [], _ => []
  | _ :: r, O => x :: r
  | y :: r, S i' => y :: set_nth i' x r
  end.

Lemma set_thread_map i t ats a :
  nth_error ats i = Some a ->
  set_thread i (acts_of t) (map acts_of ats) = map acts_of (set_nth i t ats).
Proof.
  revert i. induction ats as [|x ats IH]; intros i H; destruct i; cbn in *; try discriminate; [reflexivity|].
  f_equal. apply IH. exact H.
Qed.

Lemma nth_set_nth_eq {A} i (x : A) l a : nth_error l i = Some a -> nth_error (set_nth i x l) i = Some x.
Proof. revert i. induction l as [|y l IH]; intros i H; destruct i; cbn in *; try discriminate; [reflexivity|auto]. Qed.
Lemma nth_set_nth_ne {A} i j (x : A) l : i <> j -> nth_error (set_nth i x l) j = nth_error l j.
Proof.
  revert i j. induction l as [|y l IH]; intros i j H; destruct i, j; cbn; try reflexivity; try congruence.
  apply IH. congruence.
Qed.

Lemma sum_set_nth (f : athread -> N) i x l a :
  nth_error l i = Some a -> sumN (map f (set_nth i x l)) + f a = sumN (map f l) + f x.
Proof.
  revert i. induction l as [|y l IH]; intros i H; destruct i; cbn in *; try discriminate.
  - injection H as ->. unfold sumN. lia.
  - specialize (IH i H). unfold sumN in *. lia.
Qed.

Lemma perm_set_nth (f : athread -> list (list N)) i x l a extra :
  nth_error l i = Some a -> Permutation (f a) (extra ++ f x) ->
  Permutation (flat_map f l) (extra ++ flat_map f (set_nth i x l)).
Proof.
  revert i. induction l as [|y l IH]; intros i H Hp; destruct i; cbn in *; try discriminate.
  - injection H as ->. rewrite app_assoc. apply Permutation_app_tail. exact Hp.
  - specialize (IH i H Hp).
    eapply Permutation_trans; [apply Permutation_app_head; exact IH|].
    rewrite !app_assoc. apply Permutation_app_tail. apply Permutation_app_comm.
Qed.

Lemma Forall_set_nth {A} (P : A -> Prop) i x l : Forall P l -> P x -> Forall P (set_nth i x l).
Proof.
  revert i. induction l as [|y l IH]; intros i Hl Hx; destruct i; cbn; inversion Hl; subst; constructor; auto.
Qed.

(** one step preserves the invariant *)
Theorem step_inv jobs s i s' : Inv jobs s -> step s i = Some s' -> Inv jobs s'.
Proof.
  intros [ats done cur Hth Hown Hbl Hcnt] Hstep. unfold step in Hstep. rewrite Hth, nth_error_map in Hstep.
  destruct (nth_error ats i) as [t|] eqn:Et; cbn [option_map] in Hstep; [|discriminate].
  destruct t as [segs|ls segs]; cbn [acts_of] in Hstep.
  - (* at a boundary *)
    destruct segs as [|g segs]; cbn [job_acts flat_map] in Hstep; [discriminate|].
    destruct g as [c n|lines]; cbn [seg_acts app block] in Hstep.
    + (* fetch_add *)
      injection Hstep as <-. fold (job_acts segs). change (job_acts segs) with (acts_of (TB segs)).
      rewrite (set_thread_map i (TB segs) ats _ Et).
      apply (mkInv _ _ (set_nth i (TB segs) ats) (done) (cur)); cbn [threads owner out tot].
      * reflexivity.
      * destruct (owner s) as [o|].
        -- destruct Hown as (ls & sg & Ho & Hothers & Hout).
           assert (Hio : i <> o) by (intros ->; rewrite Et in Ho; discriminate).
           exists ls, sg. split; [rewrite nth_set_nth_ne by exact Hio; exact Ho|]. split; [|exact Hout].
           intros j t Hj Hnt. destruct (PeanoNat.Nat.eq_dec i j) as [->|Hne].
           ++ rewrite (nth_set_nth_eq _ _ _ _ Et) in Hnt. injection Hnt as <-. exact I.
           ++ rewrite nth_set_nth_ne in Hnt by exact Hne. eapply Hothers; eauto.
        -- destruct Hown as (Hall & Hc & Hout). split; [apply Forall_set_nth; [exact Hall|exact I]|auto].
      * eapply Permutation_trans; [|exact Hbl]. apply Permutation_app_head.
        destruct (owner s) as [o|].
        -- assert (Hio : i <> o).
           { intros ->. destruct Hown as (ls & sg & Ho & _). rewrite Et in Ho. discriminate. }
           rewrite nth_set_nth_ne by exact Hio. apply Permutation_app_head.
           apply Permutation_sym. apply (perm_set_nth blocks_of i (TB segs) ats _ [] Et). apply Permutation_refl.
        -- cbn [app]. apply Permutation_sym. apply (perm_set_nth blocks_of i (TB segs) ats _ [] Et). apply Permutation_refl.
      * intros c'. specialize (Hcnt c'). rewrite cnt_bump.
        pose proof (sum_set_nth (adds_of c') i (TB segs) ats _ Et) as Hs. cbn [adds_of adds_segs] in Hs. lia.
    + (* lock *)
      rewrite <- app_assoc in Hstep.
      destruct (owner s) as [o|] eqn:Eo; [discriminate|]. injection Hstep as <-.
      change (map AWrite lines ++ AUnlock :: flat_map seg_acts segs) with (acts_of (TW lines segs)).
      rewrite (set_thread_map i (TW lines segs) ats _ Et).
      destruct Hown as (Hall & -> & Hout).
      apply (mkInv _ _ (set_nth i (TW lines segs) ats) (done) ([])); cbn [threads owner out tot].
      * reflexivity.
      * exists lines, segs. split; [apply (nth_set_nth_eq _ _ _ _ Et)|]. split; [|rewrite app_nil_r; exact Hout].
        intros j t Hj Hnt. rewrite nth_set_nth_ne in Hnt by congruence.
        rewrite Forall_forall in Hall. apply Hall. eapply nth_error_In. exact Hnt.
      * rewrite (nth_set_nth_eq _ _ _ _ Et). cbn [app]. cbn [app] in Hbl.
        eapply Permutation_trans; [|exact Hbl]. apply Permutation_app_head.
        apply Permutation_sym. apply (perm_set_nth blocks_of i (TW lines segs) ats _ [lines] Et).
        cbn [blocks_of job_blocks flat_map app]. apply Permutation_refl.
      * intros c'. specialize (Hcnt c').
        pose proof (sum_set_nth (adds_of c') i (TW lines segs) ats _ Et) as Hs. cbn [adds_of adds_segs] in Hs. lia.
  - (* inside its block *)
    destruct ls as [|l ls]; cbn [map app] in Hstep.
    + (* unlock *)
      destruct (owner s) as [o|] eqn:Eo; [|discriminate].
      destruct (Nat.eqb i o) eqn:Eio; [|discriminate]. apply Nat.eqb_eq in Eio. subst o.
      injection Hstep as <-. change (job_acts segs) with (acts_of (TB segs)).
      rewrite (set_thread_map i (TB segs) ats _ Et).
      destruct Hown as (ls' & sg' & Ho & Hothers & Hout). rewrite Et in Ho. injection Ho as <- <-.
      apply (mkInv _ _ (set_nth i (TB segs) ats) (done ++ [cur]) ([])); cbn [threads owner out tot].
      * reflexivity.
      * split; [|split; [reflexivity|rewrite concat_app; cbn [concat]; rewrite app_nil_r; exact Hout]].
        apply Forall_forall. intros t Ht. apply In_nth_error in Ht as [j Hj].
        destruct (PeanoNat.Nat.eq_dec i j) as [->|Hne].
        -- rewrite (nth_set_nth_eq _ _ _ _ Et) in Hj. injection Hj as <-. exact I.
        -- rewrite nth_set_nth_ne in Hj by exact Hne. eapply Hothers; [|exact Hj]. congruence.
      * rewrite Et in Hbl. rewrite app_nil_r in Hbl. cbn [app]. rewrite <- app_assoc. cbn [app].
        eapply Permutation_trans; [|exact Hbl]. apply Permutation_app_head. cbn [app]. apply perm_skip.
        apply Permutation_sym. apply (perm_set_nth blocks_of i (TB segs) ats _ [] Et). apply Permutation_refl.
      * intros c'. specialize (Hcnt c').
        pose proof (sum_set_nth (adds_of c') i (TB segs) ats _ Et) as Hs. cbn [adds_of] in Hs. lia.
    + (* write one line *)
      destruct (owner s) as [o|] eqn:Eo; [|discriminate].
      destruct (Nat.eqb i o) eqn:Eio; [|discriminate]. apply Nat.eqb_eq in Eio. subst o.
      injection Hstep as <-.
      change (map AWrite ls ++ AUnlock :: job_acts segs) with (acts_of (TW ls segs)) ||
        change (map AWrite ls ++ [AUnlock] ++ job_acts segs) with (acts_of (TW ls segs)).
      rewrite (set_thread_map i (TW ls segs) ats _ Et).
      destruct Hown as (ls' & sg' & Ho & Hothers & Hout). rewrite Et in Ho. injection Ho as <- <-.
      apply (mkInv _ _ (set_nth i (TW ls segs) ats) (done) (cur ++ [l])); cbn [threads owner out tot].
      * reflexivity.
      * exists ls, segs. split; [apply (nth_set_nth_eq _ _ _ _ Et)|]. split; [|rewrite Hout, app_assoc; reflexivity].
        intros j t Hj Hnt. rewrite nth_set_nth_ne in Hnt by congruence. eapply Hothers; eauto.
      * rewrite (nth_set_nth_eq _ _ _ _ Et). rewrite Et in Hbl. rewrite <- app_assoc. cbn [app].
        eapply Permutation_trans; [|exact Hbl]. apply Permutation_app_head. cbn [app]. apply perm_skip.
        apply Permutation_sym. apply (perm_set_nth blocks_of i (TW ls segs) ats _ [] Et). apply Permutation_refl.
      * intros c'. specialize (Hcnt c').
        pose proof (sum_set_nth (adds_of c') i (TW ls segs) ats _ Et) as Hs. cbn [adds_of] in Hs. lia.
Qed.

Theorem run_inv jobs sched : forall s s', Inv jobs s -> run s sched = Some s' -> Inv jobs s'.
Proof.
  induction sched as [|i r IH]; intros s s' Hinv; cbn [run]; [intros [= <-]; exact Hinv|].
  destruct (step s i) as [s1|] eqn:Es; [|discriminate]. apply IH. eapply step_inv; eauto.
Qed.

Lemma job_acts_nil segs : job_acts segs = [] -> segs = [].
Proof. destruct segs as [|[c n|ls] r]; cbn; [reflexivity|discriminate|discriminate]. Qed.

(** C18: totals, atomic blocks, same blocks as any other (e.g. the single-threaded) run *)
Theorem complete_run_correct jobs sched s :
  run (init jobs) sched = Some s -> finished s ->
  (forall c, cnt c (tot s) = sumN (map (adds_segs c) jobs)) /\
  exists blocks, out s = concat blocks /\ Permutation blocks (flat_map job_blocks jobs).
Proof.
  intros Hrun Hfin. destruct (run_inv jobs sched _ _ (init_inv jobs) Hrun) as [ats done cur Hth Hown Hbl Hcnt].
  unfold finished in Hfin. rewrite Hth in Hfin.
  assert (Hempty : Forall (fun t => acts_of t = []) ats).
  { apply Forall_forall. intros t Ht. rewrite Forall_forall in Hfin. apply Hfin. apply in_map. exact Ht. }
  assert (Hall : forall t, In t ats -> t = TB []).
  { intros t Ht. rewrite Forall_forall in Hempty. specialize (Hempty t Ht). destruct t as [segs|ls segs]; cbn in Hempty.
    - apply job_acts_nil in Hempty. subst. reflexivity.
    - destruct ls; discriminate. }
  destruct (owner s) as [o|].
  - destruct Hown as (ls & sg & Ho & _). apply nth_error_In in Ho. apply Hall in Ho. discriminate.
  - destruct Hown as (_ & -> & Hout). split.
    + intros c. specialize (Hcnt c).
      assert (Hz : sumN (map (adds_of c) ats) = 0).
      { clear -Hall. induction ats as [|t ats IH]; [reflexivity|]. cbn [map sumN fold_right].
        rewrite (Hall t (or_introl eq_refl)). cbn [adds_of adds_segs]. fold (sumN (map (adds_of c) ats)).
        rewrite IH by (intros x Hx; apply Hall; right; exact Hx). reflexivity. }
      lia.
    + exists done. split; [exact Hout|]. cbn [app] in Hbl.
      assert (Hz : flat_map blocks_of ats = []).
      { clear -Hall. induction ats as [|t ats IH]; [reflexivity|]. cbn [flat_map].
        rewrite (Hall t (or_introl eq_refl)). cbn. apply IH. intros x Hx; apply Hall; right; exact Hx. }
      rewrite Hz, app_nil_r in Hbl. exact Hbl.
Qed.

(** no reachable state is stuck: either everything is finished or some thread can step *)
Theorem no_deadlock jobs sched s :
  run (init jobs) sched = Some s -> finished s \/ exists i s', step s i = Some s'.
Proof.
  intros Hrun. destruct (run_inv jobs sched _ _ (init_inv jobs) Hrun) as [ats done cur Hth Hown Hbl Hcnt].
  destruct (owner s) as [o|] eqn:Eo.
  - right. destruct Hown as (ls & sg & Ho & _). exists o. unfold step. rewrite Hth, nth_error_map, Ho. cbn [option_map acts_of].
    destruct ls as [|l ls]; cbn [map app]; rewrite Eo, Nat.eqb_refl; eexists; reflexivity.
  - destruct Hown as (Hall & _ & _).
    assert (Hdec : Forall (fun t => t = TB []) ats \/ exists i g segs, nth_error ats i = Some (TB (g :: segs))).
    { clear -Hall. induction ats as [|t ats IH]; [left; constructor|].
      inversion Hall as [|? ? Ht Hall']; subst. destruct t as [segs|]; [|contradiction].
      destruct segs as [|g segs]; [|right; exists 0%nat, g, segs; reflexivity].
      destruct (IH Hall') as [H|(i & g & sg & H)]; [left; constructor; auto|right; exists (S i), g, sg; exact H]. }
    destruct Hdec as [Hnil|(i & g & segs & Hi)].
    + left. unfold finished. rewrite Hth. apply Forall_forall. intros a Ha. apply in_map_iff in Ha as [t [<- Ht]].
      rewrite Forall_forall in Hnil. rewrite (Hnil t Ht). reflexivity.
    + right. exists i. unfold step. rewrite Hth, nth_error_map, Hi. cbn [option_map acts_of job_acts flat_map].
      destruct g as [c n|lines]; cbn [seg_acts app block]; [eexists; reflexivity|]. rewrite Eo. eexists; reflexivity.
Qed.
