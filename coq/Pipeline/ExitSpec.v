(** C19: the declarative reading of "exit status is zero exactly when nothing was reported",
    and the proof that the counter arithmetic implements it for every list of entries. *)
From Selene Require Import Pipeline.Exit.

(** The outcomes of the files that are actually looked at, in order. *)
Definition considered (o : options) (e : entry) : list outcome :=
  match e with
  | EFile f =>
      match f_outcome f with
      | Missing => [Missing]
      | oc => if skipped o f then [] else [oc]
      end
  | EDir fs => map f_outcome (filter (fun f => negb (skipped o f)) fs)
  end.

Definition all_considered (o : options) (es : list entry) : list outcome :=
  flat_map (considered o) es.

(** [quiet]: reports nothing at all.  [soft]: reports at most warnings. *)
Definition quiet (oc : outcome) : Prop :=
  match oc with
  | Linted e w _ => e = 0 /\ w = 0
  | ParseFail k => k = 0
  | _ => False
  end.

Definition soft (oc : outcome) : Prop :=
  match oc with
  | Linted e _ _ => e = 0
  | ParseFail k => k = 0
  | _ => False
  end.

Definition n_parse oc := match oc with ParseFail k => k | _ => 0 end.
Definition n_err oc := match oc with Missing | Unreadable => 1 | Linted e _ _ => e | _ => 0 end.
Definition n_lint_err oc := match oc with Linted e _ _ => e | _ => 0 end.
Definition n_unavailable oc := match oc with Missing | Unreadable => 1 | _ => 0 end.
Definition n_warn oc := match oc with Linted _ w _ => w | _ => 0 end.
Definition n_panic oc := match oc with Panics => 1 | _ => 0 end.

Definition sumN (l : list N) : N := fold_right N.add 0 l.
Definition total (f : outcome -> N) (l : list outcome) : N := sumN (map f l).

Lemma total_zero f l : total f l = 0 <-> Forall (fun oc => f oc = 0) l.
Proof.
  unfold total. induction l as [|x l IH]; cbn [map sumN fold_right].
  - split; [constructor|reflexivity].
  - split.
    + intros H. assert (f x = 0 /\ sumN (map f l) = 0) as [Hx Hl] by (unfold sumN in *; lia).
      constructor; [exact Hx|apply IH; exact Hl].
    + intros H. inversion H as [|? ? Hx Hl]; subst. apply IH in Hl. unfold sumN in *. lia.
Qed.

Definition counters_of (l : list outcome) (c : counters) : counters := fold_left check_file l c.

Lemma step_is_considered o c e : step o c e = counters_of (considered o e) c.
Proof.
  destruct e as [f|fs]; cbn [step considered].
  - unfold step_top. destruct (f_outcome f) eqn:E; cbn [counters_of fold_left];
      try reflexivity; destruct (skipped o f); reflexivity.
  - revert c. induction fs as [|f fs IH]; intros c; cbn [fold_left filter map]; [reflexivity|].
    unfold step_walked at 2. destruct (skipped o f); cbn [negb map counters_of fold_left]; apply IH.
Qed.

Lemma tally_is_considered o es : tally o es = counters_of (all_considered o es) zero.
Proof.
  unfold tally. generalize zero as c. induction es as [|e es IH]; intros c;
    cbn [fold_left all_considered flat_map]; [reflexivity|].
  rewrite IH, step_is_considered. unfold counters_of. rewrite fold_left_app. reflexivity.
Qed.

Lemma counters_sums l c :
  let c' := counters_of l c in
  c_parse c' = c_parse c + total n_parse l /\
  c_err c' = c_err c + total n_err l /\
  c_warn c' = c_warn c + total n_warn l /\
  c_panic c' = c_panic c + total n_panic l /\
  p_err c' = p_err c + total n_lint_err l /\
  p_warn c' = p_warn c + total n_warn l /\
  p_parse c' = p_parse c + total n_parse l.
Proof.
  revert c. induction l as [|oc l IH]; intros c; cbn zeta.
  - unfold total. cbn [counters_of fold_left map sumN fold_right]. repeat split; lia.
  - unfold total in *. cbn [counters_of fold_left map sumN fold_right].
    specialize (IH (check_file c oc)). cbn zeta in IH. unfold counters_of in IH.
    destruct IH as (H1 & H2 & H3 & H4 & H5 & H6 & H7).
    destruct oc; cbn [check_file c_parse c_err c_warn c_panic p_err p_warn p_parse
                      n_parse n_err n_warn n_panic n_lint_err] in *;
      unfold sumN in *; repeat split; lia.
Qed.

Lemma tally_sums o es :
  let c := tally o es in let l := all_considered o es in
  c_parse c = total n_parse l /\ c_err c = total n_err l /\ c_warn c = total n_warn l /\
  c_panic c = total n_panic l /\ p_err c = total n_lint_err l /\ p_warn c = total n_warn l /\
  p_parse c = total n_parse l.
Proof.
  cbn zeta. rewrite tally_is_considered.
  pose proof (counters_sums (all_considered o es) zero) as H. cbn zeta in H.
  cbn [zero c_parse c_err c_warn c_panic p_err p_warn p_parse] in H.
  destruct H as (H1 & H2 & H3 & H4 & H5 & H6 & H7).
  repeat split; lia.
Qed.

Lemma Forall_and_inv {A} (P Q : A -> Prop) l : Forall (fun x => P x /\ Q x) l <-> Forall P l /\ Forall Q l.
Proof.
  induction l as [|x l IH]; split.
  - intros _. split; constructor.
  - intros _. constructor.
  - intros H. inversion H as [|? ? [Hp Hq] Hl]; subst. apply IH in Hl as [H1 H2]. split; constructor; auto.
  - intros [H1 H2]. inversion H1; inversion H2; subst. constructor; [split; auto|apply IH; auto].
Qed.

Lemma Forall_iff {A} (P Q : A -> Prop) l : (forall x, P x <-> Q x) -> (Forall P l <-> Forall Q l).
Proof. intros H. split; apply Forall_impl; intros a; apply H. Qed.

Lemma soft_iff l :
  Forall soft l <-> total n_parse l = 0 /\ total n_err l = 0 /\ total n_panic l = 0.
Proof.
  rewrite !total_zero, <- !Forall_and_inv. apply Forall_iff.
  intros oc; destruct oc; cbn; intuition (try discriminate; auto).
Qed.

Lemma quiet_iff l :
  Forall quiet l <-> total n_parse l = 0 /\ total n_err l = 0 /\ total n_panic l = 0 /\ total n_warn l = 0.
Proof.
  rewrite !total_zero, <- !Forall_and_inv. apply Forall_iff.
  intros oc; destruct oc; cbn; intuition (try discriminate; auto).
Qed.

(** C19, first sentence. *)
Theorem exit_zero_iff o es :
  exit_status o es = 0 <->
  Forall quiet (all_considered o es) \/
  (Forall soft (all_considered o es) /\ allow_warnings o = true).
Proof.
  unfold exit_status, exit_of. rewrite quiet_iff, soft_iff.
  pose proof (tally_sums o es) as H. cbn zeta in H.
  destruct H as (H1 & H2 & H3 & H4 & _).
  rewrite <- H1, <- H2, <- H3, <- H4.
  set (c := tally o es).
  destruct (0 <? c_parse c + c_err c + c_warn c + 0 + c_panic c) eqn:Epos.
  - apply N.ltb_lt in Epos.
    destruct (c_parse c + c_err c + c_warn c + 0 + c_panic c =? c_warn c) eqn:Eeq;
      destruct (allow_warnings o); cbn [negb orb].
    + apply N.eqb_eq in Eeq. split; [intros _; right; split; [lia|reflexivity]|reflexivity].
    + apply N.eqb_eq in Eeq. split; [discriminate|]. intros [H|[_ H]]; [lia|discriminate].
    + apply N.eqb_neq in Eeq. split; [discriminate|]. intros [H|[H _]]; lia.
    + apply N.eqb_neq in Eeq. split; [discriminate|]. intros [H|[_ H]]; [lia|discriminate].
  - apply N.ltb_ge in Epos. split; [intros _; left; lia|reflexivity].
Qed.

Lemma err_split l : total n_err l = total n_lint_err l + total n_unavailable l.
Proof.
  unfold total. induction l as [|oc l IH]; cbn [map sumN fold_right]; [reflexivity|].
  unfold sumN in *. destruct oc; cbn [n_err n_lint_err n_unavailable]; lia.
Qed.

(** C19, last sentence: the printed totals equal the number of diagnostics printed with each
    severity (parse errors are printed as error-severity diagnostics with code parse_error), plus one
    error per missing/unreadable file, whose message goes to stderr. *)
Theorem totals_match_printed o es e w p :
  summary o es = Some (e, w, p) ->
  let c := tally o es in
  e = p_err c + total n_unavailable (all_considered o es) /\ w = p_warn c /\ p = p_parse c.
Proof.
  unfold summary. destruct (negb (luacheck o) && negb (no_summary o)); [|discriminate].
  intros [= <- <- <-]. cbn zeta.
  pose proof (tally_sums o es) as H. cbn zeta in H.
  destruct H as (H1 & H2 & H3 & H4 & H5 & H6 & H7).
  rewrite H2, H3, H5, H6, H1, H7. repeat split. apply err_split.
Qed.

(** C19, middle sentence: excluded files are not checked unless --no-exclude is given. *)
Definition drop_excluded_entry (e : entry) : list entry :=
  match e with
  | EFile f => match f_outcome f with
               | Missing => [e]
               | _ => if f_excluded f then [] else [e]
               end
  | EDir fs => [EDir (filter (fun f => negb (f_excluded f)) fs)]
  end.

Definition clear_flag (f : file) : file := {| f_excluded := false; f_outcome := f_outcome f |}.
Definition clear_flags_entry (e : entry) : entry :=
  match e with EFile f => EFile (clear_flag f) | EDir fs => EDir (map clear_flag fs) end.

Lemma considered_drop o e :
  no_exclude o = false ->
  flat_map (considered o) (drop_excluded_entry e) = considered o e.
Proof.
  intros Hn. destruct e as [f|fs]; cbn [drop_excluded_entry].
  - unfold considered at 2. unfold skipped. rewrite Hn. cbn [negb andb].
    destruct (f_outcome f) eqn:E; cbn [flat_map considered]; rewrite ?E; cbn [app]; try reflexivity;
      destruct (f_excluded f) eqn:Ex; cbn [flat_map considered app]; rewrite ?E; unfold skipped;
      rewrite ?Hn, ?Ex; reflexivity.
  - cbn [flat_map considered]. rewrite app_nil_r. f_equal.
    unfold skipped. rewrite Hn. cbn [negb andb].
    induction fs as [|f fs IH]; cbn [filter]; [reflexivity|].
    destruct (f_excluded f) eqn:Ex; cbn [negb filter]; rewrite ?Ex; cbn [negb]; rewrite IH; reflexivity.
Qed.

Theorem excluded_not_checked o es :
  no_exclude o = false ->
  tally o (flat_map drop_excluded_entry es) = tally o es.
Proof.
  intros Hn. rewrite !tally_is_considered. f_equal.
  unfold all_considered. induction es as [|e es IH]; cbn [flat_map]; [reflexivity|].
  rewrite flat_map_app, IH, considered_drop by exact Hn. reflexivity.
Qed.

Theorem no_exclude_checks_all o es :
  no_exclude o = true ->
  tally o es = tally o (map clear_flags_entry es).
Proof.
  intros Hn. rewrite !tally_is_considered. f_equal.
  unfold all_considered. induction es as [|e es IH]; cbn [flat_map map]; [reflexivity|].
  rewrite IH. f_equal.
  destruct e as [f|fs]; cbn [clear_flags_entry considered clear_flag f_outcome].
  - unfold skipped. rewrite Hn. cbn [negb andb]. reflexivity.
  - unfold skipped. rewrite Hn. cbn [negb andb].
    induction fs as [|f fs IHf]; cbn [filter map]; [reflexivity|].
    cbn [clear_flag f_outcome]. f_equal. exact IHf.
Qed.

(** Non-vacuity. *)
Definition ex_opts := {| allow_warnings := true; no_exclude := false; no_summary := false; luacheck := false |}.
Definition ex_entries :=
  [EFile {| f_excluded := false; f_outcome := Linted 0 2 1 |};
   EFile {| f_excluded := true; f_outcome := Linted 3 0 0 |};
   EDir [{| f_excluded := false; f_outcome := Linted 0 0 4 |}; {| f_excluded := true; f_outcome := ParseFail 2 |}]].
Example exit_example :
  exit_status ex_opts ex_entries = 0 /\ summary ex_opts ex_entries = Some (0, 2, 0) /\
  exit_status {| allow_warnings := false; no_exclude := false; no_summary := false; luacheck := false |} ex_entries = 1 /\
  exit_status {| allow_warnings := true; no_exclude := true; no_summary := false; luacheck := false |} ex_entries = 1 /\
  summary {| allow_warnings := true; no_exclude := true; no_summary := false; luacheck := false |} ex_entries = Some (3, 2, 2).
Proof. vm_compute. repeat split. Qed.

(** Boolean versions of the specification's predicates (for evaluating the specification on the
    implementation's observed behaviour), with their reflection lemmas. *)
Definition quietb (oc : outcome) : bool :=
  match oc with Linted e w _ => (e =? 0) && (w =? 0) | ParseFail k => k =? 0 | _ => false end.
Definition softb (oc : outcome) : bool :=
  match oc with Linted e _ _ => e =? 0 | ParseFail k => k =? 0 | _ => false end.

Lemma quietb_spec l : forallb quietb l = true <-> Forall quiet l.
Proof.
  rewrite forallb_forall, Forall_forall. split; intros H oc Hin; specialize (H oc Hin);
    destruct oc; cbn in *; try discriminate; try contradiction;
    rewrite ?andb_true_iff, ?N.eqb_eq in *; auto.
Qed.
Lemma softb_spec l : forallb softb l = true <-> Forall soft l.
Proof.
  rewrite forallb_forall, Forall_forall. split; intros H oc Hin; specialize (H oc Hin);
    destruct oc; cbn in *; try discriminate; try contradiction; rewrite ?N.eqb_eq in *; auto.
Qed.

Definition spec_exit_zero (o : options) (es : list entry) : bool :=
  let l := all_considered o es in
  forallb quietb l || (forallb softb l && allow_warnings o).

Theorem exit_zero_iff_b o es : (exit_status o es =? 0) = spec_exit_zero o es.
Proof.
  unfold spec_exit_zero.
  destruct (exit_status o es =? 0) eqn:E.
  - apply N.eqb_eq, exit_zero_iff in E. symmetry. apply orb_true_iff.
    destruct E as [E|[E Ha]]; [left; apply quietb_spec; exact E|right].
    apply andb_true_iff. split; [apply softb_spec; exact E|exact Ha].
  - symmetry. apply not_true_is_false. intros H. apply N.eqb_neq in E. apply E, exit_zero_iff.
    apply orb_true_iff in H as [H|H]; [left; apply quietb_spec; exact H|right].
    apply andb_true_iff in H as [H1 H2]. split; [apply softb_spec; exact H1|exact H2].
Qed.
