From Coq Require Import Sorting.Permutation Sorting.Sorted Lia.
From Selene Require Import Pipeline.Determinism.

Section CacheFacts.
  Context {Lib Tree File Diags : Type}.
  Context (build : Lib -> Tree) (lint_all : Lib -> Tree -> File -> Diags).
  Notation step := (step build lint_all).
  Notation run := (run build lint_all).
  Notation Inv := (Inv build).

  Lemma step_inv lib c o : Inv lib c -> Inv lib (snd (step lib c o)) /\ fst (step lib c o) = pure_result build lint_all lib o.
  Proof.
    intros [->| ->]; destruct o; cbn; split; try (right; reflexivity); reflexivity.
  Qed.

  (** whatever was checked before and whatever other threads do in between, every call returns what a
      fresh checker would return for that file *)
  Theorem run_pure lib ops : forall c, Inv lib c ->
    fst (run lib c ops) = map (pure_result build lint_all lib) ops /\ Inv lib (snd (run lib c ops)).
  Proof.
    induction ops as [|o ops IH]; intros c Hc; [split; [reflexivity|exact Hc]|].
    cbn [run map]. destruct (step_inv lib c o Hc) as [Hi Hr].
    destruct (step lib c o) as [d c'] eqn:Es. cbn [fst snd] in *.
    destruct (IH c' Hi) as [H1 H2]. destruct (run lib c' ops) as [ds c''] eqn:Er. cbn [fst snd] in *.
    split; [rewrite Hr, H1; reflexivity|exact H2].
  Qed.

  (** history independence: the result for [f] after any history equals the result on a fresh checker *)
  Corollary history_independent lib hist f :
    fst (test_on build lint_all lib (snd (run lib None hist)) f) = fst (test_on build lint_all lib None f).
  Proof.
    destruct (run_pure lib hist None (or_introl eq_refl)) as [_ [-> | ->]]; reflexivity.
  Qed.

  (** two interleavings of the same calls give each call the same result *)
  Corollary schedule_independent lib ops1 ops2 :
    Permutation ops1 ops2 ->
    Permutation (fst (run lib None ops1)) (fst (run lib None ops2)).
  Proof.
    intros HP. rewrite (proj1 (run_pure lib ops1 None (or_introl eq_refl))), (proj1 (run_pure lib ops2 None (or_introl eq_refl))).
    apply Permutation_map. exact HP.
  Qed.
End CacheFacts.

Section SortFacts.
  Context {A : Type} (key : A -> N).
  Notation isort := (isort key).
  Notation insert_sorted := (insert_sorted key).

  Definition klt (x y : A) : Prop := (key x < key y)%N.

  Lemma insert_perm x l : Permutation (x :: l) (insert_sorted x l).
  Proof.
    induction l as [|y r IH]; cbn; [reflexivity|]. destruct (key x <=? key y)%N; [reflexivity|].
    rewrite perm_swap. apply perm_skip. exact IH.
  Qed.
  Lemma isort_perm l : Permutation l (isort l).
  Proof. induction l as [|x r IH]; cbn; [reflexivity|]. rewrite <- insert_perm. apply perm_skip. exact IH. Qed.

  Lemma insert_sorted_strict x l :
    StronglySorted klt l -> ~ In (key x) (map key l) -> StronglySorted klt (insert_sorted x l).
  Proof.
    induction l as [|y r IH]; intros Hs Hn; cbn; [constructor; constructor|].
    inversion Hs as [|? ? Hr Hall]; subst.
    destruct (N.leb_spec (key x) (key y)) as [Hle|Hgt].
    - assert (key x < key y)%N by (cbn in Hn; lia). constructor; [exact Hs|]. constructor; [exact H|].
      eapply Forall_impl; [|exact Hall]. unfold klt. intros; lia.
    - constructor.
      + apply IH; [exact Hr|]. cbn in Hn. tauto.
      + assert (HP := insert_perm x r). eapply Permutation_Forall; [exact HP|]. constructor; [exact Hgt|exact Hall].
  Qed.

  Lemma isort_strict l : NoDup (map key l) -> StronglySorted klt (isort l).
  Proof.
    induction l as [|x r IH]; cbn; intros Hn; [constructor|]. inversion Hn as [|? ? Hx Hr]; subst.
    apply insert_sorted_strict; [apply IH; exact Hr|].
    intros Hin. apply Hx. eapply Permutation_in; [|exact Hin]. apply Permutation_map. symmetry. apply isort_perm.
  Qed.

  Lemma strict_sorted_unique : forall l1 l2, StronglySorted klt l1 -> StronglySorted klt l2 -> Permutation l1 l2 ->
    NoDup (map key l1) -> l1 = l2.
  Proof.
    induction l1 as [|x r IH]; intros l2 H1 H2 HP Hn.
    - apply Permutation_nil in HP. congruence.
    - destruct l2 as [|y s]; [apply Permutation_sym, Permutation_nil in HP; discriminate|].
      inversion H1 as [|? ? Hr1 Ha1]; subst. inversion H2 as [|? ? Hr2 Ha2]; subst.
      assert (Hxy : x = y).
      { assert (Hin1 : In x (y :: s)) by (eapply Permutation_in; [exact HP|left; reflexivity]).
        assert (Hin2 : In y (x :: r)) by (eapply Permutation_in; [symmetry; exact HP|left; reflexivity]).
        destruct Hin1 as [->|Hin1]; [reflexivity|]. destruct Hin2 as [->|Hin2]; [reflexivity|].
        rewrite Forall_forall in Ha1, Ha2. specialize (Ha1 _ Hin2). specialize (Ha2 _ Hin1). unfold klt in *. lia. }
      subst y. f_equal. apply IH; auto.
      + eapply Permutation_cons_inv. exact HP.
      + inversion Hn; assumption.
  Qed.

  (** any two iteration orders of the same entries, sorted on their (distinct) keys, give the same list *)
  Theorem sort_erases_order l1 l2 : Permutation l1 l2 -> NoDup (map key l1) -> isort l1 = isort l2.
  Proof.
    intros HP Hn.
    assert (Hn2 : NoDup (map key l2)) by (eapply Permutation_NoDup; [apply Permutation_map; exact HP|exact Hn]).
    apply strict_sorted_unique.
    - apply isort_strict; exact Hn.
    - apply isort_strict; exact Hn2.
    - rewrite <- (isort_perm l1), <- (isort_perm l2). exact HP.
    - eapply Permutation_NoDup; [apply Permutation_map; apply isort_perm|exact Hn].
  Qed.

  (** counting is insensitive to the iteration order *)
  Theorem count_erases_order (p : A -> bool) l1 l2 :
    Permutation l1 l2 -> List.length (filter p l1) = List.length (filter p l2).
  Proof.
    induction 1 as [|x l l' _ IH|x y l|l l' l'' _ IH1 _ IH2]; cbn; try reflexivity.
    - destruct (p x); cbn; congruence.
    - destruct (p x), (p y); reflexivity.
    - congruence.
  Qed.
End SortFacts.

(** every shared-state / hash-order site the translator finds in /repo today is classified, and its
    class fits its shape *)
Theorem all_sites_classified : unclassified = [].
Proof. vm_compute. reflexivity. Qed.
