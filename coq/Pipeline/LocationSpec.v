From Coq Require Import Arith.
From Selene Require Import Pipeline.Location.
Open Scope N_scope.

(** location is defined exactly on char boundaries within the text *)
Lemma scan_defined src : forall n line col,
  scan src n line col <> None <-> boundary src n = true.
Proof.
  induction src as [|b r IH]; intros n line col.
  - destruct n; cbn; split; intros H; try congruence; try discriminate.
  - destruct n as [|n']; cbn [scan boundary nth_error].
    + destruct (is_cont b); cbn; split; intros H; congruence.
    + destruct (is_nl b); rewrite IH; unfold boundary; cbn [nth_error List.length Nat.eqb]; reflexivity.
Qed.

Theorem location_defined_iff src off : location src off <> None <-> boundary src off = true.
Proof. apply scan_defined. Qed.

(** general scan: what it returns from an arbitrary starting (line, col) *)
Fixpoint count_nl (src : list N) (n : nat) : N :=
  match n, src with
  | S n', b :: r => (if is_nl b then 1 else 0) + count_nl r n'
  | _, _ => 0
  end.

Lemma scan_line src : forall n line col l c,
  scan src n line col = Some (l, c) -> l = line + count_nl src n.
Proof.
  induction src as [|b r IH]; intros n line col l c; destruct n as [|n']; cbn [scan count_nl].
  - intros [= <- <-]. lia.
  - discriminate.
  - destruct (is_cont b); [discriminate|]. intros [= <- <-]. lia.
  - destruct (is_nl b); intros H; apply IH in H; lia.
Qed.

(** the line reported is the number of newlines before the offset *)
Theorem location_line src off l c : location src off = Some (l, c) -> l = count_nl src off.
Proof. intros H. apply scan_line in H. lia. Qed.

(** round trip on a single line: advancing [c] characters from a boundary lands where the scan was *)
Lemma skip_conts_spec r k : skip_conts r = k ->
  (forall i, (i < k)%nat -> exists b, nth_error r i = Some b /\ is_cont b = true) /\
  (match nth_error r k with Some b => is_cont b = false | None => True end).
Proof.
  revert k. induction r as [|b r IH]; intros k; cbn [skip_conts].
  - intros <-. split; [intros i Hi; lia|exact I].
  - destruct (is_cont b) eqn:Eb.
    + intros <-. destruct (IH _ eq_refl) as [H1 H2]. split.
      * intros [|i] Hi; [exists b; auto|]. apply H1. lia.
      * exact H2.
    + intros <-. split; [intros i Hi; lia|exact Eb].
Qed.

Lemma skipn_hd_nth {A} (r : list A) : forall k b t, skipn k r = b :: t -> nth_error r k = Some b.
Proof.
  induction r as [|x r IH]; intros [|k] b t H; cbn in *; try discriminate.
  - congruence.
  - eapply IH; eauto.
Qed.

(** scan restricted to one line (no newline crossed): result column counts the lead bytes *)
Lemma scan_same_line src : forall n line col l c,
  scan src n line col = Some (l, c) -> l = line ->
  (forall i b, (i < n)%nat -> nth_error src i = Some b -> is_nl b = false).
Proof.
  induction src as [|b r IH]; intros n line col l c H Hl i x Hi Hx; destruct n as [|n']; try lia.
  - destruct i; discriminate.
  - cbn [scan] in H. destruct (is_nl b) eqn:Enl.
    + apply scan_line in H. lia.
    + destruct i as [|i]; [injection Hx as <-; exact Enl|].
      eapply IH; eauto. lia.
Qed.

Lemma advance_scan src : forall n col c,
  (match src with b :: _ => is_cont b = false | [] => True end) ->
  scan src n 0 col = Some (0, c) ->
  advance src (N.to_nat (c - col)) = Some n /\ col <= c.
Proof.
  intros n. revert src. induction n as [n IH] using (well_founded_induction Wf_nat.lt_wf). intros src col c Hstart Hscan.
  destruct n as [|n'].
  - destruct src as [|b r]; cbn [scan] in Hscan.
    + assert (c = col) by congruence. subst c. rewrite N.sub_diag. split; [reflexivity|lia].
    + destruct (is_cont b); [discriminate|]. assert (c = col) by congruence. subst c. rewrite N.sub_diag. split; [reflexivity|lia].
  - destruct src as [|b r]; [discriminate|]. cbn [scan] in Hscan.
    destruct (is_nl b) eqn:Enl; [apply scan_line in Hscan; lia|].
    rewrite Hstart in Hscan.
    (* after the lead byte b come k continuation bytes, all consumed before reaching a boundary *)
    remember (skip_conts r) as k eqn:Ek. symmetry in Ek. destruct (skip_conts_spec r k Ek) as [Hc Hend].
    assert (Hk : (k <= n')%nat).
    { destruct (Nat.le_gt_cases k n') as [H|H]; [exact H|exfalso].
      (* the scan would stop inside the continuation bytes: not a boundary *)
      assert (Hb : boundary r n' = true) by (apply (scan_defined r n' 0 (col + 1)); congruence).
      unfold boundary in Hb. destruct (Hc n' H) as (x & Hx & Hcont). rewrite Hx, Hcont in Hb. discriminate. }
    (* consume the k continuation bytes *)
    assert (Hskip : forall m r' cc, (forall i, (i < m)%nat -> exists b, nth_error r' i = Some b /\ is_cont b = true) ->
                      forall n1, (m <= n1)%nat -> scan r' n1 0 cc = scan (skipn m r') (n1 - m) 0 cc).
    { clear. induction m as [|m IHm]; intros r' cc Hall n1 Hle.
      - rewrite Nat.sub_0_r. reflexivity.
      - destruct (Hall 0%nat ltac:(lia)) as (b0 & Hb0 & Hc0). destruct r' as [|x r'']; [discriminate|]. injection Hb0 as ->.
        destruct n1 as [|n1]; [lia|]. cbn [scan skipn Nat.sub].
        assert (Hnl : is_nl b0 = false).
        { unfold is_cont, is_nl in *. apply andb_true_iff in Hc0 as [H1 _]. apply N.leb_le in H1. apply N.eqb_neq. lia. }
        rewrite Hnl, Hc0. apply IHm; [|lia]. intros i Hi. apply (Hall (S i)). lia. }
    rewrite (Hskip k r (col + 1) Hc n' Hk) in Hscan.
    assert (Hstart' : match skipn k r with b0 :: _ => is_cont b0 = false | [] => True end).
    { destruct (skipn k r) as [|b0 t] eqn:Es; [exact I|].
      assert (H : nth_error r k = Some b0) by (apply skipn_hd_nth with t; exact Es).
      rewrite H in Hend. exact Hend. }
    destruct (IH (n' - k)%nat ltac:(lia) (skipn k r) (col + 1) c Hstart' Hscan) as [Hadv Hle].
    split; [|lia].
    replace (N.to_nat (c - col)) with (S (N.to_nat (c - (col + 1)))) by lia.
    cbn [advance]. rewrite Enl, Ek, Hadv. f_equal. lia.
Qed.

(** shifting the starting line / column shifts the result *)
Lemma scan_shift src : forall n line col l c line',
  scan src n line col = Some (l, c) -> scan src n line' col = Some (l - line + line', c).
Proof.
  induction src as [|b r IH]; intros n line col l c line' H; destruct n as [|n']; cbn [scan] in *; try discriminate.
  - injection H as <- <-. f_equal. f_equal. lia.
  - destruct (is_cont b); [discriminate|]. injection H as <- <-. f_equal. f_equal. lia.
  - destruct (is_nl b).
    + pose proof (scan_line _ _ _ _ _ _ H) as Hl. apply (IH _ _ _ _ _ (line' + 1)) in H. rewrite H. f_equal. f_equal. lia.
    + apply IH. exact H.
Qed.

Lemma goto_line_0 src : goto_line src 0 = Some 0%nat.
Proof. destruct src; reflexivity. Qed.

Lemma scan_goto src : forall n line col l c,
  scan src n line col = Some (l, c) -> line < l ->
  exists ls, goto_line src (N.to_nat (l - line)) = Some ls /\ (ls <= n)%nat /\ (0 < ls)%nat /\
             scan (skipn ls src) (n - ls) 0 0 = Some (0, c).
Proof.
  induction src as [|b r IH]; intros n line col l c H Hlt; destruct n as [|n']; cbn [scan] in H; try discriminate.
  - injection H as <- <-. lia.
  - destruct (is_cont b); [discriminate|]. injection H as <- <-. lia.
  - destruct (N.to_nat (l - line)) as [|k] eqn:Ek; [lia|].
    cbn [goto_line]. destruct (is_nl b) eqn:Enl.
    + destruct (N.eq_dec l (line + 1)) as [->|Hne].
      * assert (k = 0%nat) by lia. subst k. exists 1%nat. cbn [goto_line skipn]. rewrite goto_line_0. split; [reflexivity|]. split; [lia|]. split; [lia|].
        replace (S n' - 1)%nat with n' by lia. apply (scan_shift _ _ _ _ _ _ 0) in H. rewrite H. f_equal. f_equal. lia.
      * pose proof (scan_line _ _ _ _ _ _ H) as Hl.
        destruct (IH n' (line + 1) 0 l c H ltac:(lia)) as (ls & Hg & Hle & Hpos & Hs).
        replace (N.to_nat (l - (line + 1))) with k in Hg by lia.
        exists (S ls). rewrite Hg. repeat split; try lia. exact Hs.
    + destruct (IH n' line _ l c H Hlt) as (ls & Hg & Hle & Hpos & Hs).
      rewrite Ek in Hg. exists (S ls). rewrite Hg. repeat split; try lia. exact Hs.
Qed.

Lemma goto_head_ok src : forall k ls,
  after_nl_ok src = true -> goto_line src k = Some ls -> (k = 0%nat -> head_ok src = true) ->
  head_ok (skipn ls src) = true.
Proof.
  induction src as [|b r IH]; intros k ls Hok Hg H0; destruct k as [|k]; cbn [goto_line] in Hg.
  - injection Hg as <-. apply H0. reflexivity.
  - discriminate.
  - injection Hg as <-. apply H0. reflexivity.
  - cbn [after_nl_ok] in Hok. apply andb_true_iff in Hok as [Hnl Hok].
    destruct (is_nl b).
    + destruct (goto_line r k) as [p|] eqn:Eg; [|discriminate]. injection Hg as <-. cbn [skipn].
      apply (IH k p Hok Eg). intros _. exact Hnl.
    + destruct (goto_line r (S k)) as [p|] eqn:Eg; [|discriminate]. injection Hg as <-. cbn [skipn].
      apply (IH (S k) p Hok Eg). discriminate.
Qed.

Lemma head_ok_start src : head_ok src = true -> match src with b :: _ => is_cont b = false | [] => True end.
Proof. destruct src as [|b r]; cbn; [auto|]. destruct (is_cont b); cbn; congruence. Qed.

(** ** The offsets json prints determine, and are determined by, the (line, column) it prints. *)
Theorem location_inverse src off l c :
  wf_text src = true -> location src off = Some (l, c) -> offset_of src l c = Some off.
Proof.
  intros Hwf H. unfold wf_text in Hwf. apply andb_true_iff in Hwf as [Hh Ha].
  unfold offset_of, location in *. destruct (N.eq_dec l 0) as [->|Hl].
  - cbn [N.to_nat]. rewrite goto_line_0. cbn [skipn]. destruct (advance_scan src off 0 c (head_ok_start _ Hh) H) as [Hadv _].
    rewrite N.sub_0_r in Hadv. rewrite Hadv. reflexivity.
  - destruct (scan_goto src off 0 0 l c H ltac:(lia)) as (ls & Hg & Hle & Hpos & Hs).
    rewrite N.sub_0_r in Hg. rewrite Hg.
    assert (Hh' : head_ok (skipn ls src) = true) by (apply (goto_head_ok src _ ls Ha Hg); lia).
    destruct (advance_scan _ _ 0 c (head_ok_start _ Hh') Hs) as [Hadv _].
    rewrite N.sub_0_r in Hadv. rewrite Hadv. f_equal. lia.
Qed.

(** distinct boundaries have distinct (line, column): the printed position identifies the offset *)
Corollary location_injective src o1 o2 lc :
  wf_text src = true -> location src o1 = Some lc -> location src o2 = Some lc -> o1 = o2.
Proof.
  destruct lc as [l c]. intros Hwf H1 H2. apply (location_inverse _ _ _ _ Hwf) in H1, H2. congruence.
Qed.

(** ** the luacheck loop *)
Lemma lc_loop_closed : forall k sl sc el, el = sl + N.of_nat k ->
  lc_loop (S k) sl sc el = Some ((sl, sc) :: map (fun i => (sl + 1 + N.of_nat i, 0)) (seq 0 k)).
Proof.
  induction k as [|k IH]; intros sl sc el He.
  - cbn [lc_loop seq map]. replace (sl =? el) with true by (symmetry; apply N.eqb_eq; lia). reflexivity.
  - cbn [lc_loop]. replace (sl =? el) with false by (symmetry; apply N.eqb_neq; lia).
    change (match lc_loop (S k) (sl + 1) 0 el with Some r => Some ((sl, sc) :: r) | None => None end = Some ((sl, sc) :: map (fun i => (sl + 1 + N.of_nat i, 0)) (seq 0 (S k)))).
    rewrite (IH (sl + 1) 0 el) by lia. f_equal. f_equal. cbn [seq map]. f_equal; [f_equal; lia|].
    rewrite <- seq_shift, map_map. apply map_ext. intros i. f_equal. lia.
Qed.

Lemma lc_loop_reversed : forall fuel sl sc el, el < sl -> lc_loop fuel sl sc el = None.
Proof.
  induction fuel as [|f IH]; intros sl sc el H; cbn [lc_loop]; [reflexivity|].
  replace (sl =? el) with false by (symmetry; apply N.eqb_neq; lia). rewrite IH by lia. reflexivity.
Qed.

Lemma count_nl_mono src : forall a b, (a <= b)%nat -> count_nl src a <= count_nl src b.
Proof.
  induction src as [|x r IH]; intros a b H; destruct a, b; cbn [count_nl]; try lia.
  specialize (IH a b ltac:(lia)). lia.
Qed.

(** ** styles *)
Definition wf_diag (src : list N) (d : diag) : Prop :=
  boundary src (d_start d) = true /\ boundary src (d_end d) = true /\ (d_start d <= d_end d)%nat.

Lemma loc_some src off : boundary src off = true -> exists l c, location src off = Some (l, c).
Proof.
  intros H. apply location_defined_iff in H. destruct (location src off) as [[l c]|]; [eauto|congruence].
Qed.

(** no style fails on a well-formed diagnostic, and all of them show it at the same position *)
Theorem styles_total_and_agree src d :
  wf_diag src d ->
  exists l c, location src (d_start d) = Some (l, c) /\
    forall st, exists o, emit st src d = Some o /\ key o = Some (mk d (l, c)).
Proof.
  intros (Hs & He & Hle). destruct (loc_some _ _ Hs) as (l & c & Hl). destruct (loc_some _ _ He) as (el & ec & Hel).
  exists l, c. split; [exact Hl|]. intros st. destruct st; cbn [emit]; rewrite Hl; try rewrite Hel.
  - eexists; split; reflexivity.
  - eexists; split; reflexivity.
  - eexists; split; reflexivity.
  - eexists; split; reflexivity.
  - destruct (d_parse d); [eexists; split; reflexivity|].
    pose proof (location_line _ _ _ _ Hl) as E1. pose proof (location_line _ _ _ _ Hel) as E2.
    pose proof (count_nl_mono src _ _ Hle) as Hm.
    rewrite (lc_loop_closed (N.to_nat (el - l)) l c el) by lia.
    eexists; split; reflexivity.
Qed.

(** the luacheck style repeats a diagnostic once per line it spans, later lines at column 1 *)
Theorem luacheck_lines src d l c el ec :
  d_parse d = false -> location src (d_start d) = Some (l, c) -> location src (d_end d) = Some (el, ec) -> l <= el ->
  emit Luacheck src d = Some (mk d (l, c) :: map (fun i => mk d (l + 1 + N.of_nat i, 0)) (seq 0 (N.to_nat (el - l)))).
Proof.
  intros Hp Hl Hel Hle. cbn [emit]. rewrite Hp, Hl, Hel. rewrite (lc_loop_closed (N.to_nat (el - l)) l c el) by lia.
  cbn [map]. rewrite map_map. reflexivity.
Qed.

(** a style fails exactly when a location it needs is not a character boundary inside the text *)
Theorem json_fails_iff src d :
  emit Json src d = None <-> (boundary src (d_start d) = false \/ boundary src (d_end d) = false).
Proof.
  cbn [emit]. pose proof (location_defined_iff src (d_start d)) as H1. pose proof (location_defined_iff src (d_end d)) as H2.
  destruct (location src (d_start d)), (location src (d_end d)), (boundary src (d_start d)), (boundary src (d_end d));
    split; intros H; try discriminate; try (destruct H; discriminate); auto;
    try (exfalso; apply H1; [discriminate|reflexivity] || (apply H2; [discriminate|reflexivity])); 
    try (exfalso; destruct H1 as [_ H1]; specialize (H1 eq_refl); congruence);
    try (exfalso; destruct H2 as [_ H2]; specialize (H2 eq_refl); congruence);
    try (exfalso; destruct H1 as [H1 _]; assert (X : false = true) by (apply H1; discriminate); discriminate);
    try (exfalso; destruct H2 as [H2 _]; assert (X : false = true) by (apply H2; discriminate); discriminate).
Qed.
