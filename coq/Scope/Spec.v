(** Lua 5.1 scoping, part 2: resolving the Lua-order events with an explicit environment.
    For every identifier occurrence: the binding Lua gives it and the known-class flags;
    for every declaration: the innermost same-name declaration visible at that point. *)
From Selene Require Export Scope.LuaEvents.
Open Scope N_scope.

Inductive obind := OLocal (d : range) | OGlobal | OVarargMain | OVarargFn (d : range) | OVarargNone.

Record occ := { o_tok : tok; o_kind : okind; o_bind : obind; o_flags : N; o_top : bool }.
Record declinfo := { d_tok : tok; d_kind : dkind; d_visible : option range; d_flags : N; d_table : bool }.
Inductive item := IOcc (o : occ) | IDecl (d : declinfo).

Inductive benv := BVar (name : string) (d : range) | BBarrier (vararg : option range) | BMark.

Fixpoint lookup_name (name : string) (env : list benv) : option range :=
  match env with
  | [] => None
  | BVar n d :: r => if str_eqb n name then Some d else lookup_name name r
  | _ :: r => lookup_name name r
  end.

Fixpoint lookup_vararg (env : list benv) : obind :=
  match env with
  | [] => OVarargMain
  | BBarrier (Some d) :: _ => OVarargFn d
  | BBarrier None :: _ => OVarargNone
  | _ :: r => lookup_vararg r
  end.

Record lctx := { c_eout : list (string * N); c_ein : list (string * N); c_surplus : bool; c_nested : bool }.
Record lstate := { l_env : list benv; l_ctx : list lctx; l_items : list item }.

Definition cur_ctx (s : lstate) : lctx :=
  match l_ctx s with c :: _ => c | [] => {| c_eout := []; c_ein := []; c_surplus := false; c_nested := false |} end.

Definition flags_of (name : string) (l : list (string * N)) : N :=
  fold_left (fun acc p => if str_eqb (fst p) name then N.lor acc (snd p) else acc) l 0.

Definition has_mark (env : list benv) : bool := existsb (fun b => match b with BMark => true | _ => false end) env.
Definition at_top (env : list benv) : bool :=
  negb (existsb (fun b => match b with BMark | BBarrier _ => true | _ => false end) env).

Fixpoint pop_to_mark (env : list benv) : list benv :=
  match env with [] => [] | BMark :: r => r | _ :: r => pop_to_mark r end.
Fixpoint pop_to_barrier (env : list benv) : list benv :=
  match env with [] => [] | BBarrier _ :: r => r | _ :: r => pop_to_barrier r end.

Definition emit_decl (s : lstate) (t : tok) (k : dkind) (is_table : bool) : lstate :=
  {| l_env := BVar (t_name t) (t_range t) :: l_env s; l_ctx := l_ctx s;
     l_items := l_items s ++ [IDecl {| d_tok := t; d_kind := k; d_visible := lookup_name (t_name t) (l_env s);
                                       d_flags := flags_of (t_name t) (c_eout (cur_ctx s)); d_table := is_table |}] |}.

Definition vararg_of (ps : list param) : option range :=
  fold_left (fun acc p => match p with PrmEllipsis t => Some (t_range t) | _ => acc end) ps None.

Definition lstep (s : lstate) (e : lev) : lstate :=
  match e with
  | LOcc t k is_va =>
      let c := cur_ctx s in
      let sur := if c_surplus c then K4 else 0 in
      let o :=
        if is_va then
          let b := lookup_vararg (l_env s) in
          {| o_tok := t; o_kind := k; o_bind := b;
             o_flags := N.lor (N.lor (flags_of "..." (c_eout c)) sur)
                              (match b with OVarargMain => if c_nested c || has_mark (l_env s) then K5 else 0 | _ => 0 end);
             o_top := at_top (l_env s) |}
        else
          {| o_tok := t; o_kind := k;
             o_bind := match lookup_name (t_name t) (l_env s) with Some d => OLocal d | None => OGlobal end;
             o_flags := N.lor (flags_of (t_name t) (c_eout c)) sur;
             o_top := at_top (l_env s) |} in
      {| l_env := l_env s; l_ctx := l_ctx s; l_items := l_items s ++ [IOcc o] |}
  | LDecl t k is_table => emit_decl s t k is_table
  | LBlockOpen => {| l_env := BMark :: l_env s; l_ctx := l_ctx s; l_items := l_items s |}
  | LBlockClose => {| l_env := pop_to_mark (l_env s); l_ctx := l_ctx s; l_items := l_items s |}
  | LFnOpen self ps =>
      let c := cur_ctx s in
      let s1 := {| l_env := BBarrier (vararg_of ps) :: l_env s;
                   l_ctx := {| c_eout := c_ein c; c_ein := c_ein c; c_surplus := false; c_nested := false |} :: l_ctx s;
                   l_items := l_items s |} in
      let s2 := match self with
                | Some m => emit_decl s1 {| t_name := "self"; t_lo := t_lo m; t_hi := t_hi m |} DSelf false
                | None => s1 end in
      fold_left (fun st p => match p with PrmName t => emit_decl st t DParam false | PrmEllipsis _ => st end) ps s2
  | LFnClose => {| l_env := pop_to_barrier (l_env s); l_ctx := tl (l_ctx s); l_items := l_items s |}
  | LCtxPush eo ei sp ne =>
      let c := cur_ctx s in
      {| l_env := l_env s;
         l_ctx := {| c_eout := c_eout c ++ eo; c_ein := c_ein c ++ ei; c_surplus := sp; c_nested := c_nested c || ne |} :: l_ctx s;
         l_items := l_items s |}
  | LCtxPop => {| l_env := l_env s; l_ctx := tl (l_ctx s); l_items := l_items s |}
  end.

Definition resolve (chunk : block) : list item :=
  l_items (fold_left lstep (lua_events chunk) {| l_env := []; l_ctx := []; l_items := [] |}).

Definition occs (chunk : block) : list occ :=
  flat_map (fun i => match i with IOcc o => [o] | _ => [] end) (resolve chunk).
Definition decls (chunk : block) : list declinfo :=
  flat_map (fun i => match i with IDecl d => [d] | _ => [] end) (resolve chunk).
