(** Agreement, part 5: one lemma per statement form. *)
From Selene Require Export Scope.SimStmt.
From Coq Require Import Lia.
Open Scope nat_scope.

Definition SimB (b : block) : Prop := forall s l s', Inv s l -> run s (core b) = Some s' -> Inv s' (lrun (L_inner b) l).
Definition LFb (b : block) : Prop := forall l1, LF l1 (lrun (L_inner b) l1).

Lemma Re e : R_expr e = map rd (toks_expr e). Proof. apply (proj1 R_toks). Qed.
Lemma Res es : R_exprs es = map rd (toks_exprs es). Proof. destruct R_toks as (_&_&_&_&_&_&_&_&_&_&H&_). apply H. Qed.
Lemma Rv v : R_var v = map rd (toks_var v). Proof. destruct R_toks as (_&H&_). apply H. Qed.
Lemma Le e : ff_expr e = true -> L_expr e = map locc (toks_expr e). Proof. apply (proj1 L_toks). Qed.
Lemma Les es : ff_exprs es = true -> L_exprs es = map locc (toks_exprs es). Proof. destruct L_toks as (_&_&_&_&_&_&_&_&_&_&H&_). apply H. Qed.
Lemma Lfc c : ff_fcall c = true -> L_fcall c = map locc (toks_fcall c). Proof. destruct L_toks as (_&_&_&_&_&_&_&_&_&_&_&H). apply H. Qed.
Lemma We e : ff_expr e = true -> wsub (W_expr e) (toks_expr e). Proof. apply (proj1 W_toks). Qed.
Lemma Wes es : ff_exprs es = true -> wsub (W_exprs es) (toks_exprs es). Proof. destruct W_toks as (_&_&_&_&_&_&_&_&_&_&H&_). apply H. Qed.
Lemma Wfc c : ff_fcall c = true -> wsub (W_fcall c) (toks_fcall c). Proof. destruct W_toks as (_&_&_&_&_&_&_&_&_&_&_&H). apply H. Qed.
Lemma Wv v : ff_var v = true -> wsub (W_var v) (toks_var v). Proof. destruct W_toks as (_&H&_). apply H. Qed.

Lemma occ_toks ts : flat_map occ_tok (map locc ts) = tk ts. Proof. apply flat_map_occ_locc. Qed.

Lemma incl_refl' {A} (l : list A) : incl l l. Proof. intros x Hx; exact Hx. Qed.

(** f(...) as a statement *)
Lemma sim_call c s l s' : ff_fcall c = true -> Inv s l -> run s (W_fcall c) = Some s' -> Inv s' (lrun (L_fcall c) l).
Proof.
  intros Hff Hi Hrun. rewrite (Lfc c Hff).
  apply (seg_occ s l s' (map locc (toks_fcall c)) (W_fcall c)); auto.
  - apply all_occ_map_locc.
  - rewrite occ_toks. apply (covered_wsub _ (toks_fcall c)); [apply Wfc; exact Hff|apply incl_refl'].
Qed.

(** do ... end *)
Lemma sim_do b s l s' : SimB b -> LFb b -> Inv s l ->
  run s ([EvOpen false] ++ core b ++ [EvClose]) = Some s' -> Inv s' (lrun ([LBlockOpen] ++ L_inner b ++ [LBlockClose]) l).
Proof.
  intros Hb Hlf Hi Hrun.
  destruct (scoped_block s l s' false (core b) (L_inner b) (core_neutral b) Hlf) as [H _]; auto.
  intros sa sb Hia Hr. apply (Hb _ _ _ Hia Hr).
Qed.

(** while c do ... end *)
Lemma sim_while c b s l s' : ff_expr c = true -> SimB b -> LFb b -> Inv s l ->
  run s (R_expr c ++ [EvOpen false] ++ W_expr c ++ core b ++ [EvClose]) = Some s' ->
  Inv s' (lrun (L_expr c ++ [LBlockOpen] ++ L_inner b ++ [LBlockClose]) l).
Proof.
  intros Hff Hb Hlf Hi Hrun. apply run_app in Hrun as (s1 & H1 & Hrun). rewrite lrun_app.
  rewrite (Le c Hff) in *. rewrite Re in H1.
  destruct (seg_occ s l s1 (map locc (toks_expr c)) (map rd (toks_expr c))) as [Hi1 _]; auto.
  { apply all_occ_map_locc. } { rewrite occ_toks. apply covered_R. apply incl_refl'. }
  destruct (lrun_occs (map locc (toks_expr c)) (all_occ_map_locc _) l) as (He1 & _ & Ha1). cbv zeta in *. rewrite occ_toks in Ha1.
  set (l1 := lrun (map locc (toks_expr c)) l) in *.
  replace ([EvOpen false] ++ W_expr c ++ core b ++ [EvClose]) with ([EvOpen false] ++ (W_expr c ++ core b) ++ [EvClose]) in Hrun
    by (rewrite <- !app_assoc; reflexivity).
  apply (scoped_block s1 l1 s' false (W_expr c ++ core b) (L_inner b)); auto.
  - apply neutral_app; [apply W_expr_neutral|apply core_neutral].
  - intros sa sb Hia Hr. apply run_app in Hr as (sm & Hr1 & Hr2).
    destruct (seg_same sa (lstep l1 LBlockOpen) (lstep l1 LBlockOpen) sm (tk (toks_expr c)) (W_expr c)) as [Him _]; auto.
    + apply LSame_refl.
    + cbn [lstep l_env l_items]. apply avail_mark. rewrite He1. exact Ha1.
    + apply (covered_wsub _ (toks_expr c)); [apply We; exact Hff|apply incl_refl'].
    + apply (Hb _ _ _ Him Hr2).
Qed.

(** repeat ... until c *)
Lemma sim_repeat c b s l s' : ff_expr c = true -> SimB b -> LFb b -> Inv s l ->
  run s ([EvOpen false] ++ core b ++ W_expr c ++ R_expr c ++ [EvClose]) = Some s' ->
  Inv s' (lrun ([LBlockOpen] ++ L_inner b ++ L_expr c ++ [LBlockClose]) l).
Proof.
  intros Hff Hb Hlf Hi Hrun.
  replace ([EvOpen false] ++ core b ++ W_expr c ++ R_expr c ++ [EvClose])
    with ([EvOpen false] ++ (core b ++ W_expr c ++ R_expr c) ++ [EvClose]) in Hrun by (rewrite <- !app_assoc; reflexivity).
  replace ([LBlockOpen] ++ L_inner b ++ L_expr c ++ [LBlockClose])
    with ([LBlockOpen] ++ (L_inner b ++ L_expr c) ++ [LBlockClose]) by (rewrite <- !app_assoc; reflexivity).
  apply (scoped_block s l s' false (core b ++ W_expr c ++ R_expr c) (L_inner b ++ L_expr c)); auto.
  - apply neutral_app; [apply core_neutral|]. apply neutral_app; [apply W_expr_neutral|apply quiet_neutral; apply R_expr_quiet].
  - intros l1. rewrite lrun_app. eapply LF_trans; [apply Hlf|]. apply LSame_LF. apply all_occ_same. apply L_expr_occ. exact Hff.
  - intros sa sb Hia Hr. apply run_app in Hr as (sm & Hr1 & Hr2). rewrite lrun_app.
    pose proof (Hb _ _ _ Hia Hr1) as Him. rewrite (Le c Hff).
    apply (seg_occ sm _ sb (map locc (toks_expr c)) (W_expr c ++ R_expr c)); auto.
    + apply all_occ_map_locc.
    + rewrite occ_toks. apply covered_app.
      * apply (covered_wsub _ (toks_expr c)); [apply We; exact Hff|apply incl_refl'].
      * intros dn' _. rewrite Re. apply covered_R. apply incl_refl'.
Qed.

(** local names = es *)
Lemma local_hook_covered names : forall es dn, covered (tk (toks_exprs es)) dn (local_hook names es).
Proof.
  induction names as [|n r IH]; intros es dn; cbn [local_hook covered]; [exact I|].
  destruct es as [|e es'].
  - cbn [covered]. exact (IH EsNil (t_name n :: dn)).
  - cbn [toks_exprs]. rewrite map_app. apply covered_app.
    + rewrite Re. apply covered_R. apply incl_app_l.
    + intros dn' _. cbn [app covered]. split; [right; left; reflexivity|].
      apply (covered_weaken (tk (toks_exprs es')) _ _ (t_name n :: dn') (t_name n :: dn')); [apply incl_app_r|apply incl_refl'|apply IH].
Qed.

Lemma local_hook_defs names : forall es n, In n names -> In (EvDefine n false) (local_hook names es).
Proof.
  induction names as [|m r IH]; intros es n Hin; [contradiction|]. cbn [local_hook].
  destruct Hin as [->|Hin].
  - destruct es; [left; reflexivity|]. apply in_or_app. right. left. reflexivity.
  - destruct es; [right; apply IH; exact Hin|]. apply in_or_app. right. right. right. apply IH. exact Hin.
Qed.

Lemma L_local_exprs_avail names es : forall k l, ff_exprs es = true ->
  let l' := lrun (L_local_exprs names es k) l in
  LSame l l' /\ avail (l_items l') (l_env l) (tk (toks_exprs es)) /\ (forall x, In x (l_items l) -> In x (l_items l')).
Proof.
  induction es as [|e r IH]; intros k l H; cbn [L_local_exprs toks_exprs]; cbv zeta.
  - split; [apply LSame_refl|]. split; [apply avail_nil|auto].
  - cbn [ff_exprs] in H. apply andb_true_iff in H as [He Hr].
    match goal with |- context [lrun ([?x] ++ L_expr e ++ [LCtxPop] ++ ?rest) l] =>
      replace ([x] ++ L_expr e ++ [LCtxPop] ++ rest) with (([x] ++ L_expr e ++ [LCtxPop]) ++ rest) by (rewrite <- !app_assoc; reflexivity);
      destruct (bracket_avail (map (fun n => (t_name n, K2)) (firstn k names)) (map (fun n => (t_name n, K3)) names)
                  (Nat.leb (List.length names) k) false (L_expr e) l (L_expr_occ e He)) as (S1 & A1 & M1)
    end.
    cbv zeta in *. rewrite lrun_app.
    set (l1 := lrun ([LCtxPush (map (fun n => (t_name n, K2)) (firstn k names)) (map (fun n => (t_name n, K3)) names)
                        (Nat.leb (List.length names) k) false] ++ L_expr e ++ [LCtxPop]) l) in *.
    destruct (IH (S k) l1 Hr) as (S2 & A2 & M2). cbv zeta in *.
    split; [eapply LSame_trans; eauto|]. split; [|auto].
    rewrite map_app. apply avail_app.
    + rewrite (Le e He), occ_toks in A1. eapply avail_mono; [exact M2|exact A1].
    + destruct S1 as [_ E1]. rewrite E1 in A2. exact A2.
Qed.

Lemma L_local_decls_names names : forall es l, exists bs, only_vars bs /\
  l_env (lrun (L_local_decls names es) l) = bs ++ l_env l /\
  (forall n d, In (BVar n d) bs -> exists t, In t names /\ t_name t = n).
Proof.
  induction names as [|n r IH]; intros es l; cbn [L_local_decls fold_left].
  - exists []. repeat split; [constructor|intros n d []].
  - assert (Hstep : forall b, exists bs, only_vars bs /\
              l_env (lrun (L_local_decls r (match es with EsNil => EsNil | EsCons _ rest => rest end)) (lstep l (LDecl n DLocal b))) = bs ++ l_env l /\
              (forall m d, In (BVar m d) bs -> exists t, In t (n :: r) /\ t_name t = m)).
    { intros b. destruct (IH (match es with EsNil => EsNil | EsCons _ rest => rest end) (lstep l (LDecl n DLocal b))) as (bs & Hv & He & Hn).
      exists (bs ++ [BVar (t_name n) (t_range n)]). split; [apply Forall_app; split; [exact Hv|constructor; [exact I|constructor]]|].
      split; [rewrite He; cbn [lstep emit_decl l_env]; rewrite <- app_assoc; reflexivity|].
      intros m d Hin. apply in_app_iff in Hin as [Hin|[Hin|[]]].
      - destruct (Hn m d Hin) as (t & Ht & E). exists t. split; [right; exact Ht|exact E].
      - injection Hin as <- _. exists n. split; [left; reflexivity|reflexivity]. }
    destruct es; cbn [fold_left]; apply Hstep.
Qed.

Lemma sim_local names es s l s' : forallb nd names = true -> ff_exprs es = true -> Inv s l ->
  run s (local_hook names es ++ W_exprs es) = Some s' ->
  Inv s' (lrun (L_local_exprs names es 0 ++ L_local_decls names es) l).
Proof.
  intros Hnd Hff Hi Hrun. rewrite lrun_app.
  destruct (L_local_exprs_avail names es 0 l Hff) as (S1 & A1 & M1). cbv zeta in *.
  set (l1 := lrun (L_local_exprs names es 0) l) in *.
  assert (Hi1 : Inv s l1).
  { destruct Hi as [Hr Hn Hg Hne]. destruct S1 as [_ E1]. constructor; rewrite ?E1; auto. apply (G_items s (l_items l)); auto. }
  destruct (L_local_decls_names names es l1) as (bs & Hv & He & Hn).
  apply (seg_decls s l1 _ s' (tk (toks_exprs es)) (local_hook names es ++ W_exprs es) names); auto.
  - destruct S1 as [_ E1]. rewrite E1. exact A1.
  - apply covered_app; [apply local_hook_covered|]. intros dn' _.
    apply (covered_wsub _ (toks_exprs es)); [apply Wes; exact Hff|apply incl_refl'].
  - apply quiet_app; [apply local_hook_quiet|].
    destruct (Wes es Hff) as (ws & -> & _). clear. induction ws; constructor; [exact I|assumption].
  - intros n Hin. exists false. apply in_or_app. left. apply local_hook_defs. exact Hin.
  - exists bs. auto.
  - intros x Hx. apply lrun_items_in. exact Hx.
Qed.

(** vs = es *)
Fixpoint toks_vars (vs : vars) : list (tok * bool) :=
  match vs with VsNil => [] | VsCons v r => toks_var v ++ toks_vars r end.

Lemma L_var_target_toks v : ff_var v = true -> flat_map occ_tok (L_var v OTarget) = tk (toks_var v).
Proof.
  destruct v as [t|p ss r]; cbn [ff_var L_var toks_var]; intros H; [reflexivity|].
  apply andb_true_iff in H as [Hp Hs]. rewrite flat_map_app, map_app. f_equal.
  - destruct p; cbn [L_prefix toks_prefix ff_prefix] in *; [reflexivity|]. rewrite (Le e Hp). apply occ_toks.
  - destruct L_toks as (_&_&_&_&Hss&_). rewrite (Hss ss Hs). apply occ_toks.
Qed.

Lemma L_vars_toks vs : ok_vars vs = true -> all_occ (L_vars vs) /\ flat_map occ_tok (L_vars vs) = tk (toks_vars vs).
Proof.
  induction vs as [|v r IH]; cbn [ok_vars L_vars toks_vars]; intros H; [split; [constructor|reflexivity]|].
  apply andb_true_iff in H as [Hv Hr]. destruct (IH Hr) as [A B]. split.
  - apply all_occ_app; [apply L_var_target_occ; exact Hv|exact A].
  - rewrite flat_map_app, map_app, B, (L_var_target_toks v Hv). reflexivity.
Qed.

Lemma assign_target_covered v ts dn : incl (tk (toks_var v)) ts -> covered ts dn (assign_target v).
Proof.
  intros Hi. destruct v as [t|p ss r]; cbn [assign_target].
  - cbn [covered]. split; [left; apply Hi; left; reflexivity|exact I].
  - destruct p as [name|e].
    + assert (Hname : In name ts) by (apply Hi; cbn [toks_var toks_prefix map app]; left; reflexivity).
      apply covered_app.
      * destruct ss; [exact I|]. apply covered_app; [rewrite Rv; apply covered_R; exact Hi|].
        intros dn' _. cbn [covered]. split; [left; exact Hname|exact I].
      * intros dn' _. cbn [covered]. split; [left; exact Hname|exact I].
    + rewrite Rv. apply covered_R. exact Hi.
Qed.

Lemma assign_hook_covered vs : forall es ts dn, incl (tk (toks_exprs es)) ts -> incl (tk (toks_vars vs)) ts -> covered ts dn (assign_hook vs es).
Proof.
  induction vs as [|v r IH]; intros es ts dn He Hv; cbn [assign_hook]; [exact I|].
  cbn [toks_vars] in Hv. rewrite map_app in Hv.
  assert (Hv1 : incl (tk (toks_var v)) ts) by (intros x Hx; apply Hv; apply in_or_app; left; exact Hx).
  assert (Hv2 : incl (tk (toks_vars r)) ts) by (intros x Hx; apply Hv; apply in_or_app; right; exact Hx).
  destruct es as [|e es'].
  - apply covered_app; [apply assign_target_covered; exact Hv1|]. intros dn' _. apply IH; [intros x []|exact Hv2].
  - cbn [toks_exprs] in He. rewrite map_app in He. apply covered_app.
    + rewrite Re. apply covered_R. intros x Hx. apply He. apply in_or_app. left. exact Hx.
    + intros dn' _. apply covered_app; [apply assign_target_covered; exact Hv1|]. intros dn'' _.
      apply IH; [intros x Hx; apply He; apply in_or_app; right; exact Hx|exact Hv2].
Qed.

Lemma W_vars_wsub vs : ok_vars vs = true -> wsub (W_vars vs) (toks_vars vs).
Proof.
  induction vs as [|v r IH]; cbn [ok_vars W_vars toks_vars]; intros H; [apply wsub_nil|].
  apply andb_true_iff in H as [Hv Hr]. apply wsub_app; [apply Wv; exact Hv|apply IH; exact Hr].
Qed.

Lemma L_assign_exprs_avail es : forall n k l, ff_exprs es = true ->
  let l' := lrun (L_assign_exprs es n k) l in
  LSame l l' /\ avail (l_items l') (l_env l) (tk (toks_exprs es)) /\ (forall x, In x (l_items l) -> In x (l_items l')).
Proof.
  induction es as [|e r IH]; intros n k l H; cbn [L_assign_exprs toks_exprs]; cbv zeta.
  - split; [apply LSame_refl|]. split; [apply avail_nil|auto].
  - cbn [ff_exprs] in H. apply andb_true_iff in H as [He Hr].
    replace ([LCtxPush [] [] (Nat.leb n k) false] ++ L_expr e ++ [LCtxPop] ++ L_assign_exprs r n (S k))
      with (([LCtxPush [] [] (Nat.leb n k) false] ++ L_expr e ++ [LCtxPop]) ++ L_assign_exprs r n (S k))
      by (rewrite <- !app_assoc; reflexivity).
    destruct (bracket_avail [] [] (Nat.leb n k) false (L_expr e) l (L_expr_occ e He)) as (S1 & A1 & M1).
    cbv zeta in *. rewrite lrun_app.
    set (l1 := lrun ([LCtxPush [] [] (Nat.leb n k) false] ++ L_expr e ++ [LCtxPop]) l) in *.
    destruct (IH n (S k) l1 Hr) as (S2 & A2 & M2). cbv zeta in *.
    split; [eapply LSame_trans; eauto|]. split; [|auto].
    rewrite map_app. apply avail_app.
    + rewrite (Le e He), occ_toks in A1. eapply avail_mono; [exact M2|exact A1].
    + destruct S1 as [_ E1]. rewrite E1 in A2. exact A2.
Qed.

Lemma sim_assign vs es s l s' : ok_vars vs = true -> ff_exprs es = true -> Inv s l ->
  run s (assign_hook vs es ++ W_vars vs ++ W_exprs es) = Some s' ->
  Inv s' (lrun (L_assign_exprs es (L_vars_length vs) 0 ++ L_vars vs) l).
Proof.
  intros Hvs Hff Hi Hrun. rewrite lrun_app.
  destruct (L_assign_exprs_avail es (L_vars_length vs) 0 l Hff) as (S1 & A1 & M1). cbv zeta in *.
  set (l1 := lrun (L_assign_exprs es (L_vars_length vs) 0) l) in *.
  destruct (L_vars_toks vs Hvs) as [Ho Ht].
  destruct (lrun_occs (L_vars vs) Ho l1) as (E2 & C2 & A2). cbv zeta in *. rewrite Ht in A2.
  set (l2 := lrun (L_vars vs) l1) in *.
  destruct S1 as [C1 E1].
  destruct (seg_same s l l2 s' (tk (toks_exprs es) ++ tk (toks_vars vs)) (assign_hook vs es ++ W_vars vs ++ W_exprs es)) as [H _]; auto.
  - split; congruence.
  - intros x Hx. apply lrun_items_in. apply M1. exact Hx.
  - apply avail_app; [eapply avail_mono; [|exact A1]; intros x Hx; apply lrun_items_in; exact Hx|rewrite <- E1; exact A2].
  - apply covered_app; [apply assign_hook_covered; [apply incl_app_l|apply incl_app_r]|]. intros dn' _.
    apply covered_app.
    + apply (covered_wsub _ (toks_vars vs)); [apply W_vars_wsub; exact Hvs|apply incl_app_r].
    + intros dn'' _. apply (covered_wsub _ (toks_exprs es)); [apply Wes; exact Hff|apply incl_app_l].
Qed.

(** function bodies *)
Lemma W_funcbody_shape ps blk :
  W_funcbody (FBody ps blk) = [EvOpen true] ++ (define_params ps ++ core blk) ++ [EvClose].
Proof. cbn [W_funcbody]. rewrite W_block_false, <- !app_assoc. reflexivity. Qed.

Lemma fn_plain ps blk s l s' : forallb ok_param ps = true -> SimB blk -> LFb blk -> Inv s l ->
  run s (W_funcbody (FBody ps blk)) = Some s' ->
  Inv s' (lrun (L_funcbody None (FBody ps blk)) l) /\ stack s' = stack s /\ names_prefix (mvars s) (mvars s').
Proof.
  intros Hok Hb Hlf Hi Hrun. rewrite W_funcbody_shape in Hrun. cbn [L_funcbody].
  apply (fn_sim s l s' None ps (core blk) (L_inner blk) (core_neutral blk) Hlf); auto.
Qed.

(** local function name(...) ... end *)
Lemma sim_localfn name ps blk s l s' : nd name = true -> forallb ok_param ps = true -> SimB blk -> LFb blk -> Inv s l ->
  run s ([EvDefine name false; EvOpen false] ++ W_funcbody (FBody ps blk) ++ [EvClose]) = Some s' ->
  Inv s' (lrun ([LDecl name DLocalFn false] ++ L_funcbody None (FBody ps blk)) l).
Proof.
  intros Hnd Hok Hb Hlf Hi Hrun.
  change ([EvDefine name false; EvOpen false] ++ W_funcbody (FBody ps blk) ++ [EvClose])
    with ([EvDefine name false] ++ [EvOpen false] ++ W_funcbody (FBody ps blk) ++ [EvClose]) in Hrun.
  apply run_app in Hrun as (sa & Ha & Hrun). rewrite lrun_app.
  set (la := lrun [LDecl name DLocalFn false] l).
  assert (Hia : Inv sa la).
  { apply (seg_decls s l la sa [] [EvDefine name false] [name]); auto.
    - apply avail_nil.
    - exact I.
    - constructor; [exact I|constructor].
    - intros n [<-|[]]. exists false. left. reflexivity.
    - cbn [forallb]. rewrite Hnd. reflexivity.
    - exists [BVar (t_name name) (t_range name)]. split; [constructor; [exact I|constructor]|]. split; [reflexivity|].
      intros n d [[= <- _]|[]]. exists name. split; [left; reflexivity|reflexivity].
    - intros x Hx. unfold la. apply lrun_items_in. exact Hx. }
  set (l3 := lrun (L_funcbody None (FBody ps blk)) la).
  assert (Hl3 : LSame la l3).
  { unfold l3. cbn [L_funcbody]. apply fn_bracket. exact Hlf. }
  destruct (scoped_gen sa la l3 s' false (W_funcbody (FBody ps blk))) as [H _]; auto.
  - apply W_funcbody_neutral.
  - destruct Hl3 as [_ E]. exact E.
  - intros x Hx. unfold l3. apply lrun_items_in. exact Hx.
  - intros s1 s2 E1 H2. pose proof (open_noLua _ _ _ _ Hia E1) as Hi1.
    destruct (fn_plain ps blk s1 la s2 Hok Hb Hlf Hi1 H2) as [[_ _ Hg _] _]. exact Hg.
Qed.

(** function a.b:c(...) ... end *)
Lemma sim_function names method ps blk s l s' : forallb ok_param ps = true -> SimB blk -> LFb blk -> Inv s l ->
  run s (W_stmt (SFunction names method (FBody ps blk))) = Some s' ->
  Inv s' (lrun (L_stmt (SFunction names method (FBody ps blk))) l).
Proof.
  intros Hok Hb Hlf Hi Hrun. cbn [W_stmt L_stmt] in *. destruct names as [|base rest]; [injection Hrun as <-; exact Hi|].
  set (longer := match rest, method with [], None => false | _, _ => true end) in *.
  set (pre := (if longer then [EvWrite base WExtend] else []) ++ [EvRead base] ++ (if longer then [] else [EvHoist])).
  set (fnpart := (match method with
                  | Some m => [EvOpen false; EvDefine {| t_name := "self"; t_lo := t_lo m; t_hi := t_hi m |} true]
                  | None => [] end) ++ W_funcbody (FBody ps blk) ++ (match method with Some _ => [EvClose] | None => [] end)).
  assert (Hsplit : run s (pre ++ fnpart) = Some s').
  { unfold pre, fnpart. rewrite <- !app_assoc. exact Hrun. }
  apply run_app in Hsplit as (s1 & H1 & H2). rewrite lrun_app.
  destruct (seg_occ s l s1 [LOcc base (if longer then OIndexTarget else OTarget) false] pre) as [Hi1 _]; auto.
  { constructor; [exact I|constructor]. }
  { cbn [flat_map occ_tok app]. unfold pre. destruct longer; cbn [app covered]; repeat split; auto; left; left; reflexivity. }
  set (l1 := lrun [LOcc base (if longer then OIndexTarget else OTarget) false] l) in *.
  unfold fnpart in H2. destruct method as [m|].
  - cbn [L_funcbody]. rewrite W_funcbody_shape in H2.
    destruct (fn_sim s1 l1 s' (Some m) ps (core blk) (L_inner blk) (core_neutral blk) Hlf) as [H _]; auto.
  - cbn [app] in H2. rewrite app_nil_r in H2. destruct (fn_plain ps blk s1 l1 s' Hok Hb Hlf Hi1 H2) as [H _]. exact H.
Qed.

(** declaring a list of loop variables *)
Lemma decls_names (k : dkind) names : forall l, exists bs, only_vars bs /\
  l_env (lrun (map (fun n => LDecl n k false) names) l) = bs ++ l_env l /\
  (forall n d, In (BVar n d) bs -> exists t, In t names /\ t_name t = n).
Proof.
  induction names as [|n r IH]; intros l; cbn [map fold_left].
  - exists []. repeat split; [constructor|intros n d []].
  - destruct (IH (lstep l (LDecl n k false))) as (bs & Hv & He & Hn).
    exists (bs ++ [BVar (t_name n) (t_range n)]). split; [apply Forall_app; split; [exact Hv|constructor; [exact I|constructor]]|].
    split; [rewrite He; cbn [lstep emit_decl l_env]; rewrite <- app_assoc; reflexivity|].
    intros m d Hin. apply in_app_iff in Hin as [Hin|[Hin|[]]].
    + destruct (Hn m d Hin) as (t & Ht & E). exists t. split; [right; exact Ht|exact E].
    + injection Hin as <- _. exists n. split; [left; reflexivity|reflexivity].
Qed.

Lemma flat_defs_covered names ts dn : covered ts dn (flat_map (fun n => [EvDefine n false; EvWrite n WAssign]) names).
Proof.
  revert dn. induction names as [|n r IH]; intros dn; cbn [flat_map app covered]; [exact I|].
  split; [right; left; reflexivity|apply IH].
Qed.

Lemma flat_defs_in names n : In n names -> In (EvDefine n false) (flat_map (fun n => [EvDefine n false; EvWrite n WAssign]) names).
Proof. intros H. apply in_flat_map. exists n. split; [exact H|left; reflexivity]. Qed.

Lemma wsub_quiet evs ts : wsub evs ts -> quiet evs.
Proof. intros (ws & -> & _). induction ws; constructor; [exact I|assumption]. Qed.

(** for names in es do ... end *)
Lemma sim_gfor names es b s l s' : forallb nd names = true -> ff_exprs es = true -> SimB b -> LFb b -> Inv s l ->
  run s (W_stmt (SGenericFor names es b)) = Some s' -> Inv s' (lrun (L_stmt (SGenericFor names es b)) l).
Proof.
  intros Hnd Hff Hb Hlf Hi Hrun. cbn [W_stmt L_stmt] in *. rewrite W_block_false in Hrun.
  apply run_app in Hrun as (s1 & H1 & Hrun).
  match goal with |- Inv _ (lrun ([?x] ++ L_exprs es ++ [LCtxPop] ++ ?rest) l) =>
    replace ([x] ++ L_exprs es ++ [LCtxPop] ++ rest) with (([x] ++ L_exprs es ++ [LCtxPop]) ++ rest) by (rewrite <- !app_assoc; reflexivity);
    destruct (bracket_avail [] (map (fun n => (t_name n, K3)) names) false false (L_exprs es) l (L_exprs_occ es Hff)) as (S1 & A1 & M1)
  end.
  cbv zeta in *. rewrite lrun_app.
  set (l1 := lrun ([LCtxPush [] (map (fun n => (t_name n, K3)) names) false false] ++ L_exprs es ++ [LCtxPop]) l) in *.
  rewrite (Les es Hff), occ_toks in A1. rewrite Res in H1.
  destruct (seg_same s l l1 s1 (tk (toks_exprs es)) (map rd (toks_exprs es))) as [Hi1 _]; auto.
  { apply covered_R. apply incl_refl'. }
  replace ([EvOpen false] ++ flat_map (fun n => [EvDefine n false; EvWrite n WAssign]) names ++ W_exprs es ++ core b ++ [EvClose])
    with ([EvOpen false] ++ ((flat_map (fun n => [EvDefine n false; EvWrite n WAssign]) names ++ W_exprs es) ++ core b) ++ [EvClose]) in Hrun
    by (rewrite <- !app_assoc; reflexivity).
  replace ([LBlockOpen] ++ map (fun n => LDecl n DLoop false) names ++ L_inner b ++ [LBlockClose])
    with ([LBlockOpen] ++ (map (fun n => LDecl n DLoop false) names ++ L_inner b) ++ [LBlockClose]) by (rewrite <- !app_assoc; reflexivity).
  apply (scoped_block s1 l1 s' false ((flat_map (fun n => [EvDefine n false; EvWrite n WAssign]) names ++ W_exprs es) ++ core b)
           (map (fun n => LDecl n DLoop false) names ++ L_inner b)); auto.
  - apply neutral_app; [|apply core_neutral]. apply quiet_neutral. apply quiet_app; [apply flat_define_quiet|apply (wsub_quiet _ _ (Wes es Hff))].
  - intros lx. rewrite lrun_app. apply (LF_trans lx (lrun (map (fun n => LDecl n DLoop false) names) lx)); [apply decls_LF; intros n; eauto|apply Hlf].
  - intros sa sb Hia Hr. apply run_app in Hr as (sm & Hr1 & Hr2). rewrite lrun_app.
    set (lx := lstep l1 LBlockOpen) in *.
    destruct (decls_names DLoop names lx) as (bs & Hv & He & Hn).
    apply (Hb sm _ sb); [|exact Hr2].
    apply (seg_decls sa lx _ sm (tk (toks_exprs es)) (flat_map (fun n => [EvDefine n false; EvWrite n WAssign]) names ++ W_exprs es) names); auto.
    + unfold lx. cbn [lstep l_env l_items]. apply avail_mark. destruct S1 as [_ E1]. rewrite E1. exact A1.
    + apply covered_app; [apply flat_defs_covered|]. intros dn' _.
      apply (covered_wsub _ (toks_exprs es)); [apply Wes; exact Hff|apply incl_refl'].
    + apply quiet_app; [apply flat_define_quiet|apply (wsub_quiet _ _ (Wes es Hff))].
    + intros n Hin. exists false. apply in_or_app. left. apply flat_defs_in. exact Hin.
    + exists bs. auto.
    + intros x Hx. apply lrun_items_in. exact Hx.
Qed.

(** for v = a, b [, st] do ... end *)
Definition toks_oexpr (o : oexpr) : list (tok * bool) := match o with OENone => [] | OESome e => toks_expr e end.

Lemma nfor_levs a b st : ff_expr a = true -> ff_expr b = true -> ok_oexpr st = true ->
  all_occ (L_expr a ++ L_expr b ++ L_oexpr st) /\
  flat_map occ_tok (L_expr a ++ L_expr b ++ L_oexpr st) = tk (toks_expr a ++ toks_expr b ++ toks_oexpr st).
Proof.
  intros Ha Hb Hs. assert (Hst : all_occ (L_oexpr st) /\ flat_map occ_tok (L_oexpr st) = tk (toks_oexpr st)).
  { destruct st as [|e]; cbn [L_oexpr toks_oexpr ok_oexpr] in *; [split; [constructor|reflexivity]|].
    split; [apply L_expr_occ; exact Hs|rewrite (Le e Hs); apply occ_toks]. }
  destruct Hst as [Ho Ht]. split.
  - apply all_occ_app; [apply L_expr_occ; exact Ha|]. apply all_occ_app; [apply L_expr_occ; exact Hb|exact Ho].
  - rewrite !flat_map_app, !map_app, Ht, (Le a Ha), (Le b Hb), !occ_toks. reflexivity.
Qed.

Lemma sim_nfor v a b st blk s l s' :
  nd v = true -> ff_expr a = true -> ff_expr b = true -> ok_oexpr st = true -> SimB blk -> LFb blk -> Inv s l ->
  run s (W_stmt (SNumericFor v a b st blk)) = Some s' -> Inv s' (lrun (L_stmt (SNumericFor v a b st blk)) l).
Proof.
  intros Hnd Ha Hb Hs Hblk Hlf Hi Hrun. cbn [W_stmt L_stmt] in *. rewrite W_block_false in Hrun.
  destruct (nfor_levs a b st Ha Hb Hs) as [Hocc Htoks].
  set (ts := tk (toks_expr a ++ toks_expr b ++ toks_oexpr st)) in *.
  (* Lua: the bounds *)
  match goal with |- Inv _ (lrun ([?x] ++ L_expr a ++ L_expr b ++ L_oexpr st ++ [LCtxPop] ++ ?rest) l) =>
    replace ([x] ++ L_expr a ++ L_expr b ++ L_oexpr st ++ [LCtxPop] ++ rest)
      with (([x] ++ (L_expr a ++ L_expr b ++ L_oexpr st) ++ [LCtxPop]) ++ rest) by (rewrite <- !app_assoc; reflexivity);
    destruct (bracket_avail [(t_name v, K1)] [(t_name v, K3)] false true (L_expr a ++ L_expr b ++ L_oexpr st) l Hocc) as (S1 & A1 & M1)
  end.
  cbv zeta in *. rewrite lrun_app.
  set (l1 := lrun ([LCtxPush [(t_name v, K1)] [(t_name v, K3)] false true] ++ (L_expr a ++ L_expr b ++ L_oexpr st) ++ [LCtxPop]) l) in *.
  rewrite Htoks in A1. destruct S1 as [C1 E1].
  assert (Hi1 : Inv s l1).
  { destruct Hi as [Hr Hn Hg Hne]. constructor; rewrite ?E1; auto. apply (G_items s (l_items l)); auto. }
  change ([LBlockOpen; LDecl v DLoop false] ++ L_inner blk ++ [LBlockClose])
    with ([LBlockOpen] ++ ([LDecl v DLoop false] ++ L_inner blk) ++ [LBlockClose]).
  set (l3 := lrun ([LBlockOpen] ++ ([LDecl v DLoop false] ++ L_inner blk) ++ [LBlockClose]) l1).
  assert (Hl3 : LSame l1 l3).
  { unfold l3. apply block_bracket. intros lx. rewrite lrun_app.
    apply (LF_trans lx (lrun [LDecl v DLoop false] lx)); [cbn [fold_left]; apply lstep_decl_LF|apply Hlf]. }
  set (hd := [EvDefine v false; EvWrite v WAssign] ++ R_expr a ++ R_expr b ++ oexpr_R st).
  set (wpart := W_expr a ++ W_expr b ++ W_oexpr st).
  assert (Hshape : [EvOpen false; EvDefine v false; EvWrite v WAssign] ++ R_expr a ++ R_expr b ++ oexpr_R st ++
                   [EvOpen false] ++ W_expr a ++ W_expr b ++ W_oexpr st ++ core blk ++ [EvClose; EvClose]
                   = [EvOpen false] ++ (hd ++ [EvOpen false] ++ (wpart ++ core blk) ++ [EvClose]) ++ [EvClose]).
  { unfold hd, wpart. cbn [app]. rewrite <- !app_assoc. cbn [app]. rewrite <- !app_assoc. cbn [app]. reflexivity. }
  rewrite Hshape in Hrun. clear Hshape.
  assert (Hhdq : quiet hd).
  { unfold hd. apply quiet_app; [constructor; [exact I|constructor; [exact I|constructor]]|].
    apply quiet_app; [apply R_expr_quiet|]. apply quiet_app; [apply R_expr_quiet|apply oexpr_R_quiet]. }
  assert (Hhdc : covered ts [] hd).
  { unfold hd. cbn [app covered]. split; [right; left; reflexivity|].
    unfold ts. rewrite !map_app. rewrite !Re. apply covered_app; [apply covered_R; apply incl_app_l|]. intros dn' _.
    apply covered_app; [apply covered_R; intros x Hx; apply in_or_app; right; apply in_or_app; left; exact Hx|]. intros dn'' _.
    destruct st as [|e]; cbn [oexpr_R toks_oexpr]; [exact I|]. rewrite Re. apply covered_R.
    intros x Hx. apply in_or_app; right; apply in_or_app; right; exact Hx. }
  assert (Hwsub : wsub wpart (toks_expr a ++ toks_expr b ++ toks_oexpr st)).
  { unfold wpart. apply wsub_app; [apply We; exact Ha|]. apply wsub_app; [apply We; exact Hb|].
    destruct st as [|e]; cbn [W_oexpr toks_oexpr ok_oexpr] in *; [apply wsub_nil|apply We; exact Hs]. }
  destruct (scoped_gen s l1 l3 s' false (hd ++ [EvOpen false] ++ (wpart ++ core blk) ++ [EvClose])) as [H _]; auto.
  - apply neutral_app; [apply quiet_neutral; exact Hhdq|]. apply neutral_bracket.
    apply neutral_app; [apply quiet_neutral; apply (wsub_quiet _ _ Hwsub)|apply core_neutral].
  - destruct Hl3 as [_ E]. exact E.
  - intros x Hx. unfold l3. apply lrun_items_in. exact Hx.
  - intros s1 s2 Eo H2. pose proof (open_noLua _ _ _ _ Hi1 Eo) as Hio.
    apply run_app in H2 as (sr & Hr1 & H2).
    destruct (seg_same s1 l1 l1 sr ts hd Hio (LSame_refl l1) (fun x Hx => Hx)) as [Hir _]; auto.
    { rewrite E1. exact A1. }
    assert (Hvis : fv sr (t_name v) <> None).
    { destruct Hio as [_ _ _ Hne1]. apply (quiet_defs hd Hhdq s1 sr Hne1 Hr1 v false). unfold hd. left. reflexivity. }
    apply run_app in H2 as (sa & Hoa & H2). apply run_app in H2 as (sb & Hb2 & Hc2).
    cbn [run] in Hoa. destruct (step sr (EvOpen false)) as [sa'|] eqn:Eoa; [|discriminate]. injection Hoa as ->.
    pose proof (open_inv _ _ _ _ Hir Eoa) as Hia.
    assert (Hvisa : fv sa (t_name v) <> None).
    { destruct (step_open _ _ _ Eoa) as (Hle & _). apply Hle; [|exact Hvis]. unfold nd in Hnd. intros E. rewrite E in Hnd. cbn in Hnd. discriminate. }
    apply run_app in Hb2 as (sm & Hw & Hcore).
    set (lx := lstep l1 LBlockOpen) in *.
    destruct (seg_same sa lx lx sm ts wpart Hia (LSame_refl lx) (fun x Hx => Hx)) as [Him Hmono]; auto.
    { unfold lx. cbn [lstep l_env l_items]. apply avail_mark. rewrite E1. exact A1. }
    { apply (covered_wsub _ _ _ _ Hwsub). apply incl_refl'. }
    assert (Hid : Inv sm (lstep lx (LDecl v DLoop false))).
    { destruct Him as [Hr Hn Hg Hne]. constructor; cbn [lstep emit_decl l_env l_items].
      - intros name Hl. cbn [lookup_name] in Hl. destruct (str_eqb (t_name v) name) eqn:En.
        + apply str_eqb_eq in En. subst name. apply Hmono. exact Hvisa.
        + apply Hr. exact Hl.
      - unfold NoDots. cbn [lookup_name]. unfold nd in Hnd. apply negb_true_iff in Hnd. rewrite Hnd. exact Hn.
      - apply (G_items sm (l_items lx)); [intros x Hx; apply in_or_app; left; exact Hx|exact Hg].
      - exact Hne. }
    pose proof (Hblk _ _ _ Hid Hcore) as [_ _ Hgb _].
    cbn [run] in Hc2. destruct (step sb EvClose) as [sc|] eqn:Ec; [|discriminate]. injection Hc2 as <-.
    apply (close_keeps_G _ _ _ Ec).
    unfold l3. rewrite !lrun_app. cbn [fold_left]. exact Hgb.
Qed.

(** ** if: arms *)
Definition Arm (s0 : st) (E0 : list benv) (s : st) (l : lstate) : Prop :=
  Rel s0 E0 /\ NoDots E0 /\ stack s0 <> [] /\ (exists top, stack s = top :: stack s0) /\
  names_prefix (mvars s0) (mvars s) /\ G s (l_items l) /\ l_env l = E0.

Lemma arm_close s0 E0 s l s' : Arm s0 E0 s l -> step s EvClose = Some s' ->
  Inv s' l /\ stack s' = stack s0 /\ names_prefix (mvars s0) (mvars s').
Proof.
  intros (Hr & Hnd & Hne & (top & Hst) & Hp & Hg & He) Hs.
  destruct (close_inv s0 s s' E0 (l_items l) top Hr Hne Hst Hp Hg Hs) as (A & B & C & D).
  split; [|split; [exact C|rewrite D; exact Hp]]. constructor; rewrite ?He; auto. rewrite C. exact Hne.
Qed.

(** one arm: condition, then the block in its own scope, left open *)
Lemma arm_run c b s l s2 : ff_expr c = true -> SimB b -> LFb b -> Inv s l ->
  run s (R_expr c ++ [EvOpen false] ++ W_expr c ++ core b) = Some s2 ->
  exists s0, Arm s0 (l_env l) s2 (lrun (L_expr c ++ [LBlockOpen] ++ L_inner b ++ [LBlockClose]) l).
Proof.
  intros Hff Hb Hlf Hi Hrun. apply run_app in Hrun as (s1 & H1 & Hrun). rewrite lrun_app.
  rewrite (Le c Hff). rewrite Re in H1.
  destruct (seg_occ s l s1 (map locc (toks_expr c)) (map rd (toks_expr c))) as [Hi1 Hmono1]; auto.
  { apply all_occ_map_locc. } { rewrite occ_toks. apply covered_R. apply incl_refl'. }
  destruct (lrun_occs (map locc (toks_expr c)) (all_occ_map_locc _) l) as (He1 & _ & Ha1). cbv zeta in *. rewrite occ_toks in Ha1.
  set (l1 := lrun (map locc (toks_expr c)) l) in *.
  apply run_app in Hrun as (sa & Ho & Hrun). cbn [run] in Ho.
  destruct (step s1 (EvOpen false)) as [sa'|] eqn:Eo; [|discriminate]. injection Ho as ->.
  pose proof (open_inv _ _ _ _ Hi1 Eo) as Hia.
  apply run_app in Hrun as (sm & Hw & Hc).
  destruct (seg_same sa (lstep l1 LBlockOpen) (lstep l1 LBlockOpen) sm (tk (toks_expr c)) (W_expr c)) as [Him _]; auto.
  { apply LSame_refl. } { cbn [lstep l_env l_items]. apply avail_mark. rewrite He1. exact Ha1. }
  { apply (covered_wsub _ (toks_expr c)); [apply We; exact Hff|apply incl_refl']. }
  pose proof (Hb _ _ _ Him Hc) as [_ _ Hg2 _].
  destruct (step_open _ _ _ Eo) as (_ & _ & Hv & Hst).
  destruct (run_tail (W_expr c ++ core b) sa s2 [{| s_id := next_scope s1; s_vars := []; s_refs := []; s_blocked := false |}] (stack s1) 1)
    as (pre' & Hst2 & Hl & _).
  { rewrite Hst. reflexivity. } { discriminate. }
  { apply (neutral_app 1); [apply W_expr_neutral|apply core_neutral|]. lia. }
  { apply run_app. exists sm. auto. }
  destruct pre' as [|top [|x y]]; cbn in Hl; try lia. cbn [app] in Hst2.
  destruct Hi1 as [Hr1 Hnd1 Hg1 Hne1].
  exists s1. unfold Arm. rewrite <- He1.
  split; [exact Hr1|]. split; [exact Hnd1|]. split; [exact Hne1|]. split; [exists top; exact Hst2|]. split.
  - assert (Hp : names_prefix (mvars sa) (mvars s2)) by (apply (run_mono (W_expr c ++ core b)); apply run_app; exists sm; auto).
    rewrite Hv in Hp. exact Hp.
  - split.
    + rewrite !lrun_app. cbn [fold_left]. exact Hg2.
    + destruct (block_bracket (L_inner b) l1 Hlf) as [_ E]. exact E.
Qed.

Lemma fv_push_mono (a b : list rvar) top stk name :
  names_prefix a b -> name <> "..." -> find_variable a stk name <> None -> find_variable b (top :: stk) name <> None.
Proof.
  intros Hp Hn H. cbn [find_variable]. unfold in_scope. destruct (find (var_name_is b name) (s_vars top)); [discriminate|].
  destruct (str_eqb name "...") eqn:E; [apply str_eqb_eq in E; congruence|]. rewrite andb_false_r.
  apply (find_variable_mono a); assumption.
Qed.

Definition else_events (o : oblock) : list ev :=
  match o with
  | OBNone => [EvClose]
  | OBSome eb => W_block true eb ++ (match eb with Block _ _ (Some _) => [] | Block _ _ None => [EvClose] end)
  end.
Definition else_lua (o : oblock) : list lev :=
  match o with OBNone => [] | OBSome eb => [LBlockOpen] ++ L_inner eb ++ [LBlockClose] end.

Lemma else_part o s0 E0 s l s' :
  (forall eb, o = OBSome eb -> SimB eb /\ LFb eb) -> Arm s0 E0 s l ->
  run s (else_events o) = Some s' -> Inv s' (lrun (else_lua o) l).
Proof.
  intros Hsub Harm Hrun. destruct o as [|eb]; cbn [else_events else_lua] in *.
  - cbn [run] in Hrun. destruct (step s EvClose) as [s1|] eqn:Ec; [|discriminate]. injection Hrun as <-.
    apply (arm_close _ _ _ _ _ Harm Ec).
  - destruct (Hsub eb eq_refl) as [Hb Hlf]. destruct eb as [ss last [r|]]; cbn [W_block] in Hrun.
    + (* a registered else block: close the previous arm, open its own scope *)
      rewrite app_nil_r in Hrun.
      change ([EvClose; EvOpen false] ++ W_stmts ss ++ W_olast last ++ [EvClose])
        with ([EvClose] ++ [EvOpen false] ++ W_stmts ss ++ W_olast last ++ [EvClose]) in Hrun.
      apply run_app in Hrun as (s1 & Hc & Hrun). cbn [run] in Hc.
      destruct (step s EvClose) as [s1'|] eqn:Ec; [|discriminate]. injection Hc as ->.
      destruct (arm_close _ _ _ _ _ Harm Ec) as [Hi1 _].
      replace ([EvOpen false] ++ W_stmts ss ++ W_olast last ++ [EvClose])
        with ([EvOpen false] ++ core (Block ss last (Some r)) ++ [EvClose]) in Hrun by (cbn [core]; rewrite <- !app_assoc; reflexivity).
      apply (sim_do (Block ss last (Some r)) s1 l s' Hb Hlf Hi1 Hrun).
    + (* an empty else block: its (no) statements run in the previous arm's scope *)
      cbn [app] in Hrun. rewrite app_nil_r in Hrun.
      replace ((W_stmts ss ++ W_olast last) ++ [EvClose]) with (core (Block ss last None) ++ [EvClose]) in Hrun by reflexivity.
      apply run_app in Hrun as (s2 & H2 & Hc).
      destruct Harm as (Hr & Hnd & Hne & (top & Hst) & Hp & Hg & He).
      assert (Hix : Inv s (lstep l LBlockOpen)).
      { constructor; cbn [lstep l_env l_items]; rewrite ?He.
        - intros name Hl. cbn [lookup_name] in Hl. unfold fv. rewrite Hst.
          apply (fv_push_mono (mvars s0)); [exact Hp| |apply Hr; exact Hl]. intros ->. apply Hl. exact Hnd.
        - exact Hnd.
        - exact Hg.
        - rewrite Hst. discriminate. }
      pose proof (Hb _ _ _ Hix H2) as [_ _ Hg2 _].
      destruct (run_tail (core (Block ss last None)) s s2 [top] (stack s0) 1) as (pre' & Hst2 & Hl & _);
        [exact Hst|discriminate|apply core_neutral; lia|exact H2|].
      destruct pre' as [|top2 [|x y]]; cbn in Hl; try lia. cbn [app] in Hst2.
      cbn [run] in Hc. destruct (step s2 EvClose) as [s3|] eqn:Ec; [|discriminate]. injection Hc as ->.
      assert (Hp2 : names_prefix (mvars s0) (mvars s2)).
      { eapply names_prefix_trans; [exact Hp|]. apply (run_mono _ _ _ H2). }
      set (l2 := lrun (L_inner (Block ss last None)) (lstep l LBlockOpen)) in *.
      destruct (close_inv s0 s2 s' E0 (l_items l2) top2 Hr Hne Hst2 Hp2 Hg2 Ec) as (A & B & C & D).
      rewrite !lrun_app. cbn [fold_left]. fold l2.
      destruct (Hlf (lstep l LBlockOpen)) as [_ (bs & Hv & Hev)]. fold l2 in Hev.
      assert (Eenv : l_env (lstep l2 LBlockClose) = E0).
      { change (l_env (lstep l2 LBlockClose)) with (pop_to_mark (l_env l2)). rewrite Hev.
        change (l_env (lstep l LBlockOpen)) with (BMark :: l_env l). rewrite pop_to_mark_vars by exact Hv. exact He. }
      constructor; rewrite ?Eenv; auto. rewrite C. exact Hne.
Qed.

(** return es *)
Lemma sim_return es s l s' : ff_exprs es = true -> Inv s l -> run s (R_exprs es ++ W_exprs es) = Some s' -> Inv s' (lrun (L_exprs es) l).
Proof.
  intros Hff Hi Hrun. rewrite (Les es Hff).
  apply (seg_occ s l s' (map locc (toks_exprs es)) (R_exprs es ++ W_exprs es)); auto.
  - apply all_occ_map_locc.
  - rewrite occ_toks. apply covered_app; [rewrite Res; apply covered_R; apply incl_refl'|]. intros dn' _.
    apply (covered_wsub _ (toks_exprs es)); [apply Wes; exact Hff|apply incl_refl'].
Qed.
