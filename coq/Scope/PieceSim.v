(** Lifting the function-expression restriction, part 4: running a list of pieces on the Lua side
    (recording what is needed to replay its function bodies) and on the model side. *)
From Selene Require Export Scope.GFragment Scope.SimStmts.
From Coq Require Import Lia.
Open Scope nat_scope.

Definition toks_of (ps : list piece) : list tok := flat_map (fun p => match p with PTok t _ => [t] | PFn _ => [] end) ps.

Lemma toks_of_app a b : toks_of (a ++ b) = toks_of a ++ toks_of b.
Proof. unfold toks_of. apply flat_map_app. Qed.

Lemma toks_of_in t va ps : In (PTok t va) ps -> In t (toks_of ps).
Proof. intros H. unfold toks_of. apply in_flat_map. exists (PTok t va). split; [exact H|left; reflexivity]. Qed.

(** Lua side *)
Lemma lua_pieces ps : (forall b, In (PFn b) ps -> FrE (L_funcbody None b)) -> forall l,
  let l' := lrun (flat_map piece_lev ps) l in
  LSame l l' /\ avail (l_items l') (l_env l) (toks_of ps) /\
  (forall b, In (PFn b) ps -> Replay (l_items l') (l_env l) (L_funcbody None b)) /\
  (forall x, In x (l_items l) -> In x (l_items l')).
Proof.
  induction ps as [|p r IH]; intros Hfr l; cbn [flat_map]; cbv zeta.
  - split; [apply LSame_refl|]. split; [apply avail_nil|]. split; [intros b []|auto].
  - rewrite lrun_app. set (l1 := lrun (piece_lev p) l).
    assert (Hfr' : forall b, In (PFn b) r -> FrE (L_funcbody None b)) by (intros b Hb; apply Hfr; right; exact Hb).
    destruct (IH Hfr' l1) as (S2 & A2 & R2 & M2). cbv zeta in *.
    assert (H1 : LSame l l1 /\ (forall x, In x (l_items l) -> In x (l_items l1)) /\
                 match p with
                 | PTok t _ => avail (l_items l1) (l_env l) [t]
                 | PFn b => Replay (l_items l1) (l_env l) (L_funcbody None b)
                 end).
    { unfold l1. destruct p as [t va|b]; cbn [piece_lev].
      - destruct (lstep_occ l t OUse va) as (He & Hc & o & Hi & Ht & _ & Hb). cbn [fold_left].
        split; [split; assumption|]. split; [intros x Hx; rewrite Hi; apply in_or_app; left; exact Hx|].
        intros t' [<-|[]]. exists o. split; [rewrite Hi; apply in_or_app; right; left; reflexivity|auto].
      - split; [apply (Hfr b); left; reflexivity|]. split; [intros x Hx; apply lrun_items_in; exact Hx|apply replay_actual]. }
    destruct H1 as (S1 & M1 & P1). destruct S1 as [C1 E1]. rewrite E1 in A2, R2.
    split; [eapply LSame_trans; [split; eassumption|exact S2]|]. split; [|split; [|auto]].
    + change (toks_of (p :: r)) with (toks_of ([p] ++ r)). rewrite toks_of_app. apply avail_app; [|exact A2].
      destruct p as [t va|b]; cbn; [eapply avail_mono; [exact M2|exact P1]|apply avail_nil].
    + intros b [->|Hb]; [eapply replay_mono; [exact M2|exact P1]|apply R2; exact Hb].
Qed.

(** model side *)
Definition SimFnV (b : funcbody) : Prop := forall s lv s', Inv s lv -> run s (W_funcbody b) = Some s' ->
  Inv s' (lrun (L_funcbody None b) lv) /\ stack s' = stack s /\ names_prefix (mvars s) (mvars s').

Lemma model_pieces ps : forall s l E s',
  Inv s l -> Rel s E -> NoDots E -> avail (l_items l) E (toks_of ps) ->
  (forall b, In (PFn b) ps -> Replay (l_items l) E (L_funcbody None b) /\ SimFnV b) ->
  run s (flat_map piece_ev ps) = Some s' ->
  Inv s' l /\ Rel s' E /\ (forall name, fv s name <> None -> fv s' name <> None).
Proof.
  induction ps as [|p r IH]; intros s l E s' Hi Hr Hnd Ha Hfn Hrun; cbn [flat_map] in Hrun.
  - injection Hrun as <-. auto.
  - apply run_app in Hrun as (s1 & H1 & H2).
    assert (Ha' : avail (l_items l) E (toks_of r)).
    { change (toks_of (p :: r)) with (toks_of ([p] ++ r)) in Ha. rewrite toks_of_app in Ha. intros t Ht. apply Ha. apply in_or_app. right. exact Ht. }
    assert (Hfn' : forall b, In (PFn b) r -> Replay (l_items l) E (L_funcbody None b) /\ SimFnV b) by (intros b Hb; apply Hfn; right; exact Hb).
    assert (Hstep : Inv s1 l /\ Rel s1 E /\ (forall name, fv s name <> None -> fv s1 name <> None)).
    { destruct Hi as [Hrl Hndl Hg Hne]. destruct p as [t va|b]; cbn [piece_ev] in H1.
      - assert (Hat : avail (l_items l) E [t]) by (intros t' [<-|[]]; apply Ha; cbn; left; reflexivity).
        assert (Hdn : forall n, In n (@nil string) -> fv s n <> None) by (intros n []).
        assert (Hcov : covered [t] [] [EvRead t]) by (cbn; split; [left; left; reflexivity|exact I]).
        destruct (quiet_ok [EvRead t] [t] [] (l_items l) E s s1 Hcov Hat Hr Hdn Hg Hne H1) as (A & B & C & D).
        split; [|split; [exact A|exact D]]. constructor; auto. intros name Hn. apply D. apply Hrl. exact Hn.
      - destruct (Hfn b (or_introl eq_refl)) as [Hrep Hsim].
        assert (Hiv : Inv s (virt l E)) by (constructor; cbn [virt l_env l_items]; auto).
        destruct (Hsim s (virt l E) s1 Hiv H1) as ([_ _ Hg1 Hne1] & Hst & Hp).
        assert (Hmono : forall name, fv s name <> None -> fv s1 name <> None).
        { intros name Hn. unfold fv in *. rewrite Hst. apply (find_variable_mono (mvars s)); assumption. }
        split; [|split; [intros name Hn; apply Hmono; apply Hr; exact Hn|exact Hmono]].
        constructor; auto.
        + intros name Hn. apply Hmono. apply Hrl. exact Hn.
        + apply (G_embed s1 _ (l_items l) (virt_replay_keys l E _ Hrep) Hg1). }
    destruct Hstep as (Hi1 & Hr1 & Hm1). destruct (IH s1 l E s' Hi1 Hr1 Hnd Ha' Hfn' H2) as (A & B & C).
    split; [exact A|]. split; [exact B|]. intros name Hn. apply C. apply Hm1. exact Hn.
Qed.
