(** Every run of the scope state machine: a variable's [shadowed] is an earlier variable of the same name. *)
From Selene Require Export Scope.RefsInv.
From Coq Require Import Lia.
Open Scope nat_scope.

Definition shadow_ok (s : st) : Prop :=
  forall i v sid, nth_error (vars s) i = Some v -> v_shadowed v = Some sid ->
    N.to_nat sid < i /\ exists sv, nth_error (vars s) (N.to_nat sid) = Some sv /\ t_name (v_tok sv) = t_name (v_tok v).

Lemma var_name_is_some vs name id : var_name_is vs name id = true ->
  exists v, nth_error vs (N.to_nat id) = Some v /\ t_name (v_tok v) = name.
Proof.
  unfold var_name_is. destruct (nth_error vs (N.to_nat id)) as [v|]; [|discriminate].
  intros H. apply str_eqb_eq in H. exists v. auto.
Qed.

Lemma shadow_ok_define s t b : shadow_ok s -> shadow_ok (fst (define s t b)).
Proof.
  intros H i v sid. unfold define. cbn [fst vars]. intros Hi Hs.
  destruct (Nat.lt_ge_cases i (List.length (vars s))) as [Hlt|Hge].
  - rewrite nth_error_app1 in Hi by exact Hlt. destruct (H i v sid Hi Hs) as (A & sv & B & C).
    split; [exact A|]. exists sv. split; [|exact C]. rewrite nth_error_app1; [exact B|lia].
  - rewrite nth_error_app2 in Hi by exact Hge. destruct (i - List.length (vars s)) as [|k] eqn:Ek; [|destruct k; discriminate].
    cbn in Hi. injection Hi as <-. cbn [v_shadowed v_tok] in *.
    apply find_variable_name in Hs. destruct (var_name_is_some _ _ _ Hs) as (sv & Hsv & Hn).
    assert (N.to_nat sid < List.length (vars s)) by (apply nth_error_Some; congruence).
    split; [lia|]. exists sv. split; [rewrite nth_error_app1 by lia; exact Hsv|exact Hn].
Qed.

Lemma shadow_ok_set_nth s n f :
  (forall v, v_tok (f v) = v_tok v /\ v_shadowed (f v) = v_shadowed v) ->
  shadow_ok s -> forall refs' stack' ns cap,
  shadow_ok {| refs := refs'; vars := set_nth n f (vars s); stack := stack'; next_scope := ns; captured := cap |}.
Proof.
  intros Hf H refs' stack' ns cap i v sid. cbn [vars]. rewrite nth_error_set_nth_same.
  assert (Hget : forall j w, nth_error (set_nth n f (vars s)) j = Some w -> exists w0, nth_error (vars s) j = Some w0 /\ v_tok w = v_tok w0 /\ v_shadowed w = v_shadowed w0).
  { intros j w. rewrite nth_error_set_nth_same. destruct (Nat.eqb n j).
    - destruct (nth_error (vars s) j) as [w0|]; [|discriminate]. cbn. intros [= <-]. exists w0. destruct (Hf w0). auto.
    - intros E. exists w. auto. }
  intros Hi Hs.
  assert (Hi' : nth_error (set_nth n f (vars s)) i = Some v) by (rewrite nth_error_set_nth_same; exact Hi).
  destruct (Hget i v Hi') as (v0 & Hv0 & Ht & Hsh). rewrite Hsh in Hs.
  destruct (H i v0 sid Hv0 Hs) as (A & sv & B & C). split; [exact A|].
  destruct (Nat.eqb n (N.to_nat sid)) eqn:En.
  - exists (f sv). split; [rewrite nth_error_set_nth_same, En, B; reflexivity|]. destruct (Hf sv) as [E _]. rewrite E, Ht. exact C.
  - exists sv. split; [rewrite nth_error_set_nth_same, En; exact B|]. rewrite Ht. exact C.
Qed.

Lemma shadow_ok_same_vars s s' : vars s' = vars s -> shadow_ok s -> shadow_ok s'.
Proof. intros E H i v sid. rewrite E. apply H. Qed.

Lemma reference_variable_shadow s new s' : shadow_ok s -> reference_variable s new = Some s' -> shadow_ok s'.
Proof.
  intros H. unfold reference_variable. destruct (find_index _ (refs s) 0) as [i|].
  - destruct (nth_error (refs s) i) as [old|]; [|discriminate].
    destruct (r_write new), (r_write old); try discriminate; intros [= <-]; apply (shadow_ok_same_vars s); auto.
  - intros [= <-]. destruct (find_variable (vars s) (stack s) (t_name (r_tok new))) as [vid|].
    + apply shadow_ok_set_nth; [intros v; split; reflexivity|exact H].
    + apply (shadow_ok_same_vars s); auto.
Qed.

Lemma step_shadow s e s' : shadow_ok s -> step s e = Some s' -> shadow_ok s'.
Proof.
  intros H. destruct e; cbn [step].
  - intros [= <-]. apply (shadow_ok_same_vars s); auto.
  - destruct (stack s) as [|x [|y r]]; try discriminate. intros [= <-]. apply (shadow_ok_same_vars s); auto.
  - destruct (existsb _ (captured s)); [intros [= <-]; exact H|]. apply reference_variable_shadow. apply (shadow_ok_same_vars s); auto.
  - apply reference_variable_shadow. exact H.
  - intros [= <-]. apply shadow_ok_define. exact H.
  - destruct (stack s) as [|sc rest]; [discriminate|]. destruct (s_refs sc) as [|rid rr]; [discriminate|].
    destruct (nth_error (refs s) (N.to_nat rid)) as [r|]; [|discriminate].
    destruct (find_variable (vars s) (sc :: rest) (t_name (r_tok r))); [intros [= <-]; exact H|].
    pose proof (shadow_ok_define s (r_tok r) false H) as Hd. destruct (define s (r_tok r) false) as [sd vid] eqn:Ed. cbn [fst] in Hd.
    intros [= <-]. apply (shadow_ok_same_vars sd); auto.
Qed.

Lemma run_shadow evs : forall s s', shadow_ok s -> run s evs = Some s' -> shadow_ok s'.
Proof.
  induction evs as [|e r IH]; intros s s' H; cbn [run]; [intros [= <-]; exact H|].
  destruct (step s e) as [s1|] eqn:E; [|discriminate]. apply IH. apply (step_shadow s e s1 H E).
Qed.

Theorem scope_manager_shadow chunk s : scope_manager chunk = Some s -> shadow_ok s.
Proof.
  unfold scope_manager. destruct (run init_st (events_of_chunk chunk)) as [s0|] eqn:E; [|discriminate].
  destruct (stack s0) as [|x [|y r]]; try discriminate. intros [= <-]. apply (run_shadow (events_of_chunk chunk) init_st s0); [|exact E].
  intros i v sid Hi. destruct i; discriminate.
Qed.
