(** Lua 5.1 scoping, part 1: the syntax tree flattened, in Lua's own evaluation order, into the
    events that matter for name resolution.  Written from the reference manual (2.4.7, 2.6),
    independently of selene's walk.  Brackets (LCtxPush/LCtxPop) carry the bookkeeping for the
    occurrence-level known classes K1-K5 (DESIGN section 3). *)
From Selene Require Export Lua.Syntax.
Open Scope N_scope.

Inductive dkind := DLocal | DParam | DLoop | DSelf | DLocalFn.
Inductive okind := OUse | OIndexTarget | OTarget.

Definition K1 : N := 1.   (* numeric-for bound naming the loop variable *)
Definition K2 : N := 2.   (* initialiser k of a multi-name local naming one of the names < k *)
Definition K3 : N := 4.   (* inside a closure nested in an expression of a local / for header, naming a declared name *)
Definition K4 : N := 8.   (* directly in a surplus expression (more expressions than targets) *)
Definition K5 : N := 16.  (* main-chunk `...` read below a non-function block or in a numeric-for bound *)

Inductive lev :=
| LOcc (t : tok) (k : okind) (is_vararg : bool)
| LDecl (t : tok) (k : dkind) (is_table : bool)
| LBlockOpen | LBlockClose
| LFnOpen (self : option tok) (ps : list param) | LFnClose
| LCtxPush (eout ein : list (string * N)) (surplus nested : bool) | LCtxPop.

Definition is_table_expr (e : expr) : bool := match e with ETable _ => true | _ => false end.

Fixpoint L_vars_length (vs : vars) : nat :=
  match vs with VsNil => O | VsCons _ r => S (L_vars_length r) end.

Fixpoint L_local_decls (names : list tok) (es : exprs) : list lev :=
  match names with
  | [] => []
  | n :: r =>
      match es with
      | EsNil => LDecl n DLocal false :: L_local_decls r EsNil
      | EsCons e rest => LDecl n DLocal (is_table_expr e) :: L_local_decls r rest
      end
  end.

Fixpoint L_expr (e : expr) : list lev :=
  match e with
  | EParen e' => L_expr e'
  | EUnop _ e' => L_expr e'
  | EBinop _ l r => L_expr l ++ L_expr r
  | EFunction b => L_funcbody None b
  | ECall f => L_fcall f
  | ETable fs => L_fields fs
  | EVararg t => [LOcc t OUse true]
  | EVar v => L_var v OUse
  | _ => []
  end
with L_var (v : var) (k : okind) : list lev :=
  match v with
  | VName t => [LOcc t k false]
  | VExpr p ss _ => L_prefix p (match k with OTarget => OIndexTarget | k' => k' end) ++ L_suffixes ss
  end
with L_prefix (p : prefix) (k : okind) : list lev :=
  match p with PName t => [LOcc t k false] | PExpr e => L_expr e end
with L_suffixes (ss : suffixes) : list lev :=
  match ss with SsNil => [] | SsCons s r => L_suffix s ++ L_suffixes r end
with L_suffix (s : suffix) : list lev :=
  match s with SfxCall c => L_call c | SfxIndex i => L_index i end
with L_call (c : call) : list lev :=
  match c with CAnon a => L_args a | CMethod _ a => L_args a end
with L_args (a : args) : list lev :=
  match a with AParens es => L_exprs es | AString _ => [] | ATable fs => L_fields fs end
with L_index (i : index) : list lev :=
  match i with IBrackets e => L_expr e | IDot _ => [] end
with L_fields (fs : fields) : list lev :=
  match fs with FsNil => [] | FsCons f r => L_field f ++ L_fields r end
with L_field (f : field) : list lev :=
  match f with
  | FExprKey k v => L_expr k ++ L_expr v
  | FNameKey _ v => L_expr v
  | FNoKey v => L_expr v
  end
with L_exprs (es : exprs) : list lev :=
  match es with EsNil => [] | EsCons e r => L_expr e ++ L_exprs r end
with L_fcall (f : fcall) : list lev :=
  match f with FCall p ss _ => L_prefix p OUse ++ L_suffixes ss end
with L_funcbody (self : option tok) (b : funcbody) : list lev :=
  match b with FBody ps blk => [LFnOpen self ps] ++ L_inner blk ++ [LFnClose] end
with L_inner (b : block) : list lev :=
  match b with Block ss last _ => L_stmts ss ++ L_olast last end
with L_stmts (ss : stmts) : list lev :=
  match ss with StNil => [] | StCons s r => L_stmt s ++ L_stmts r end
with L_stmt (s : stmt) : list lev :=
  match s with
  | SAssign vs es => L_assign_exprs es (L_vars_length vs) O ++ L_vars vs
  | SDo b => [LBlockOpen] ++ L_inner b ++ [LBlockClose]
  | SCallStmt f => L_fcall f
  | SFunction names method body =>
      match names with
      | [] => []
      | base :: rest =>
          let longer := match rest, method with [], None => false | _, _ => true end in
          [LOcc base (if longer then OIndexTarget else OTarget) false] ++ L_funcbody method body
      end
  | SGenericFor names es b =>
      [LCtxPush [] (map (fun n => (t_name n, K3)) names) false false] ++ L_exprs es ++ [LCtxPop] ++
      [LBlockOpen] ++ map (fun n => LDecl n DLoop false) names ++ L_inner b ++ [LBlockClose]
  | SIf c b elifs els =>
      L_expr c ++ [LBlockOpen] ++ L_inner b ++ [LBlockClose] ++ L_elseifs elifs ++
      match els with OBNone => [] | OBSome eb => [LBlockOpen] ++ L_inner eb ++ [LBlockClose] end
  | SLocal names es =>
      L_local_exprs names es O ++ L_local_decls names es
  | SLocalFunction name body => [LDecl name DLocalFn false] ++ L_funcbody None body
  | SNumericFor v start stop step b =>
      [LCtxPush [(t_name v, K1)] [(t_name v, K3)] false true] ++
      L_expr start ++ L_expr stop ++ L_oexpr step ++ [LCtxPop] ++
      [LBlockOpen; LDecl v DLoop false] ++ L_inner b ++ [LBlockClose]
  | SRepeat b c => [LBlockOpen] ++ L_inner b ++ L_expr c ++ [LBlockClose]
  | SWhile c b => L_expr c ++ [LBlockOpen] ++ L_inner b ++ [LBlockClose]
  end
with L_vars (vs : vars) : list lev :=
  match vs with VsNil => [] | VsCons v r => L_var v OTarget ++ L_vars r end
with L_assign_exprs (es : exprs) (ntargets k : nat) : list lev :=
  match es with
  | EsNil => []
  | EsCons e r => [LCtxPush [] [] (Nat.leb ntargets k) false] ++ L_expr e ++ [LCtxPop] ++ L_assign_exprs r ntargets (S k)
  end
with L_local_exprs (names : list tok) (es : exprs) (k : nat) : list lev :=
  match es with
  | EsNil => []
  | EsCons e r =>
      [LCtxPush (map (fun n => (t_name n, K2)) (firstn k names)) (map (fun n => (t_name n, K3)) names)
                (Nat.leb (List.length names) k) false] ++ L_expr e ++ [LCtxPop] ++ L_local_exprs names r (S k)
  end
with L_elseifs (ei : elseifs) : list lev :=
  match ei with
  | EiNil => []
  | EiCons c b r => L_expr c ++ [LBlockOpen] ++ L_inner b ++ [LBlockClose] ++ L_elseifs r
  end
with L_olast (l : olast) : list lev :=
  match l with LReturn es => L_exprs es | _ => [] end
with L_oexpr (o : oexpr) : list lev :=
  match o with OENone => [] | OESome e => L_expr e end.

Definition lua_events (chunk : block) : list lev := L_inner chunk.
