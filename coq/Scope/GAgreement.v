(** Lifting the function-expression restriction, part 6: the whole walk for arbitrary programs. *)
From Selene Require Export Scope.GStmts Scope.Agreement.
From Coq Require Import Lia.
Open Scope nat_scope.

Definition FnAll (ps : list piece) : Prop := forall b, In (PFn b) ps -> gok_funcbody b = true /\ SimFnV b.

Lemma FnAll_nil : FnAll []. Proof. intros b []. Qed.
Lemma FnAll_app a b : FnAll a -> FnAll b -> FnAll (a ++ b).
Proof. intros Ha Hb f Hf. apply in_app_iff in Hf. destruct Hf; auto. Qed.
Lemma FnAll_tok t va : FnAll [PTok t va]. Proof. intros b [H|[]]. discriminate. Qed.

Lemma FnAll_fr ps : FnAll ps -> FnFr ps.
Proof. intros H b Hb. destruct (H b Hb) as [Hok _]. destruct gframes as (_&_&_&_&_&_&_&_&_&_&_&_&Hf&_). apply (Hf b Hok None). Qed.
Lemma FnAll_sim ps : FnAll ps -> FnSim ps.
Proof. intros H b Hb. apply (H b Hb). Qed.

Lemma glfb b : gok_block b = true -> LFb b.
Proof. intros H. destruct gframes as (_&_&_&_&_&_&_&_&_&_&_&_&_&Hb&_). apply (Hb b H). Qed.
Lemma gfre e : gok_expr e = true -> FrE (L_expr e).
Proof. apply (proj1 gframes). Qed.

Theorem gsim_all :
  (forall e, gok_expr e = true -> FnAll (lp_expr e)) /\
  (forall v, gok_var v = true -> FnAll (lp_var v)) /\
  (forall p, gok_prefix p = true -> FnAll (lp_prefix p)) /\
  (forall s, gok_suffix s = true -> FnAll (lp_suffix s)) /\
  (forall ss, gok_suffixes ss = true -> FnAll (lp_suffixes ss)) /\
  (forall c, gok_call c = true -> FnAll (lp_call c)) /\
  (forall a, gok_args a = true -> FnAll (lp_args a)) /\
  (forall i, gok_index i = true -> FnAll (lp_index i)) /\
  (forall fs, gok_fields fs = true -> FnAll (lp_fields fs)) /\
  (forall f, gok_field f = true -> FnAll (lp_field f)) /\
  (forall es, gok_exprs es = true -> FnAll (lp_exprs es)) /\
  (forall c, gok_fcall c = true -> FnAll (lp_fcall c)) /\
  (forall body, gok_funcbody body = true -> match body with FBody _ b => SimB b end) /\
  (forall b, gok_block b = true -> SimB b) /\
  (forall ss, gok_stmts ss = true -> forall s l s', Inv s l -> run s (W_stmts ss) = Some s' -> Inv s' (lrun (L_stmts ss) l)) /\
  (forall st, gok_stmt st = true -> forall s l s', Inv s l -> run s (W_stmt st) = Some s' -> Inv s' (lrun (L_stmt st) l)) /\
  (forall vs, gok_vars vs = true -> FnAll (lp_vars vs)) /\
  (forall ei, gok_elseifs ei = true -> SimEi ei) /\
  (forall ol, gok_olast ol = true -> forall s l s', Inv s l -> run s (W_olast ol) = Some s' -> Inv s' (lrun (L_olast ol) l)) /\
  (forall o, gok_oblock o = true -> forall eb, o = OBSome eb -> SimB eb) /\
  (forall o, gok_oexpr o = true -> FnAll (lp_oexpr o)).
Proof.
  apply ast_mutind.
  (* expressions *)
  - intros _. apply FnAll_nil.
  - intros _. apply FnAll_nil.
  - intros _. apply FnAll_nil.
  - intros r _. apply FnAll_nil.
  - intros r _. apply FnAll_nil.
  - intros t _. cbn [lp_expr]. apply FnAll_tok.
  - (* function *) intros b Hb Hok. cbn [gok_expr lp_expr] in *. intros f [[= <-]|[]]. split; [exact Hok|].
    destruct b as [ps blk]. specialize (Hb Hok). cbn [gok_funcbody] in Hok. apply andb_true_iff in Hok as [Hps Hblk].
    intros s lv s' Hi Hrun. apply (fn_plain ps blk s lv s' Hps Hb (glfb blk Hblk) Hi Hrun).
  - intros e He Hok. cbn [gok_expr lp_expr] in *. auto.
  - intros o e He Hok. cbn [gok_expr lp_expr] in *. auto.
  - intros o l r Hl Hr Hok. cbn [gok_expr lp_expr] in *. apply andb_true_iff in Hok as [H1 H2]. apply FnAll_app; auto.
  - intros fs Hfs Hok. cbn [gok_expr lp_expr] in *. auto.
  - intros v Hv Hok. cbn [gok_expr lp_expr] in *. auto.
  - intros c Hc Hok. cbn [gok_expr lp_expr] in *. auto.
  (* var *)
  - intros t _. cbn [lp_var]. apply FnAll_tok.
  - intros p Hp ss Hss r Hok. cbn [gok_var lp_var] in *. apply andb_true_iff in Hok as [H1 H2]. apply FnAll_app; auto.
  (* prefix *)
  - intros t _. cbn [lp_prefix]. apply FnAll_tok.
  - intros e He Hok. cbn [gok_prefix lp_prefix] in *. auto.
  (* suffix *)
  - intros c Hc Hok. cbn [gok_suffix lp_suffix] in *. auto.
  - intros i Hi Hok. cbn [gok_suffix lp_suffix] in *. auto.
  (* suffixes *)
  - intros _. apply FnAll_nil.
  - intros s Hs r Hr Hok. cbn [gok_suffixes lp_suffixes] in *. apply andb_true_iff in Hok as [H1 H2]. apply FnAll_app; auto.
  (* call *)
  - intros a Ha Hok. cbn [gok_call lp_call] in *. auto.
  - intros n a Ha Hok. cbn [gok_call lp_call] in *. auto.
  (* args *)
  - intros es Hes Hok. cbn [gok_args lp_args] in *. auto.
  - intros r _. apply FnAll_nil.
  - intros fs Hfs Hok. cbn [gok_args lp_args] in *. auto.
  (* index *)
  - intros e He Hok. cbn [gok_index lp_index] in *. auto.
  - intros n _. apply FnAll_nil.
  (* fields *)
  - intros _. apply FnAll_nil.
  - intros f Hf r Hr Hok. cbn [gok_fields lp_fields] in *. apply andb_true_iff in Hok as [H1 H2]. apply FnAll_app; auto.
  (* field *)
  - intros k Hk v Hv Hok. cbn [gok_field lp_field] in *. apply andb_true_iff in Hok as [H1 H2]. apply FnAll_app; auto.
  - intros n v Hv Hok. cbn [gok_field lp_field] in *. auto.
  - intros v Hv Hok. cbn [gok_field lp_field] in *. auto.
  (* exprs *)
  - intros _. apply FnAll_nil.
  - intros e He r Hr Hok. cbn [gok_exprs lp_exprs] in *. apply andb_true_iff in Hok as [H1 H2]. apply FnAll_app; auto.
  (* fcall *)
  - intros p Hp ss Hss r Hok. cbn [gok_fcall lp_fcall] in *. apply andb_true_iff in Hok as [H1 H2]. apply FnAll_app; auto.
  (* funcbody *)
  - intros ps b Hb Hok. cbn [gok_funcbody] in Hok. apply andb_true_iff in Hok as [_ Hok]. auto.
  (* block *)
  - intros ss Hss ol Hol r Hok s l s' Hi Hrun. cbn [gok_block] in Hok. apply andb_true_iff in Hok as [H1 H2].
    cbn [core L_inner] in *. apply run_app in Hrun as (s1 & R1 & R2). rewrite lrun_app.
    apply (Hol H2 s1 _ s'); [|exact R2]. apply (Hss H1 s l s1 Hi R1).
  (* stmts *)
  - intros _ s l s' Hi [= <-]. exact Hi.
  - intros st Hst r Hr Hok s l s' Hi Hrun. cbn [gok_stmts] in Hok. apply andb_true_iff in Hok as [H1 H2].
    cbn [W_stmts L_stmts] in *. apply run_app in Hrun as (s1 & R1 & R2). rewrite lrun_app.
    apply (Hr H2 s1 _ s'); [|exact R2]. apply (Hst H1 s l s1 Hi R1).
  (* stmt *)
  - (* assign *) intros vs Hvs es Hes Hok s l s' Hi Hrun. cbn [gok_stmt] in Hok. apply andb_true_iff in Hok as [H1 H2].
    cbn [W_stmt L_stmt] in *.
    assert (Hall : FnAll (lp_exprs es ++ lp_vars vs)) by (apply FnAll_app; auto).
    apply (gsim_assign vs es s l s' (FnAll_fr _ Hall) (FnAll_sim _ Hall) Hi Hrun).
  - (* do *) intros b Hb Hok s l s' Hi Hrun. cbn [gok_stmt] in Hok. cbn [W_stmt L_stmt] in *. rewrite W_block_false in Hrun.
    apply (sim_do b s l s'); auto. apply glfb; exact Hok.
  - (* call *) intros c Hc Hok s l s' Hi Hrun. cbn [gok_stmt] in Hok. cbn [W_stmt L_stmt] in *.
    apply (gsim_call c s l s' (FnAll_fr _ (Hc Hok)) (FnAll_sim _ (Hc Hok)) Hi Hrun).
  - (* function *) intros ns m b Hb Hok s l s' Hi Hrun. cbn [gok_stmt] in Hok. destruct b as [ps blk]. specialize (Hb Hok).
    cbn [gok_funcbody] in Hok. apply andb_true_iff in Hok as [Hps Hblk].
    apply (sim_function ns m ps blk s l s'); auto. apply glfb; exact Hblk.
  - (* generic for *) intros ns es Hes b Hb Hok s l s' Hi Hrun. cbn [gok_stmt] in Hok.
    apply andb_true_iff in Hok as [Hok H3]. apply andb_true_iff in Hok as [H1 H2].
    apply (gsim_gfor ns es b s l s' H1 (FnAll_fr _ (Hes H2)) (FnAll_sim _ (Hes H2)) (Hb H3) (glfb b H3) Hi Hrun).
  - (* if *) intros c Hc b Hb eis Hei els Hob Hok s l s' Hi Hrun. cbn [gok_stmt] in Hok.
    apply andb_true_iff in Hok as [Hok H4]. apply andb_true_iff in Hok as [Hok H3]. apply andb_true_iff in Hok as [H1 H2].
    cbn [W_stmt L_stmt] in *. rewrite W_block_false in Hrun.
    assert (Hsplit : run s ((R_expr c ++ [EvOpen false] ++ W_expr c ++ core b) ++ W_elseifs eis ++ else_events els) = Some s').
    { rewrite <- !app_assoc. exact Hrun. }
    apply run_app in Hsplit as (s2 & R1 & R2). apply run_app in R2 as (s3 & R2 & R3).
    assert (Hlua : L_expr c ++ [LBlockOpen] ++ L_inner b ++ [LBlockClose] ++ L_elseifs eis ++
                   match els with OBNone => [] | OBSome eb => [LBlockOpen] ++ L_inner eb ++ [LBlockClose] end
                   = (L_expr c ++ [LBlockOpen] ++ L_inner b ++ [LBlockClose]) ++ L_elseifs eis ++ else_lua els).
    { rewrite <- !app_assoc. reflexivity. }
    rewrite Hlua. set (A := L_expr c ++ [LBlockOpen] ++ L_inner b ++ [LBlockClose]) in *. rewrite 2 lrun_app.
    destruct (garm_run c b s l s2 (FnAll_fr _ (Hc H1)) (FnAll_sim _ (Hc H1)) (Hb H2) (glfb b H2) Hi R1) as [s0 Harm]. fold A in Harm.
    destruct (Hei H3 s0 (l_env l) s2 _ s3 Harm R2) as [s0' Harm'].
    apply (else_part els s0' (l_env l) s3 _ s'); [|exact Harm'|exact R3].
    intros eb ->. cbn [gok_oblock] in H4. split; [apply (Hob H4 eb eq_refl)|apply glfb; exact H4].
  - (* local *) intros ns es Hes Hok s l s' Hi Hrun. cbn [gok_stmt] in Hok. apply andb_true_iff in Hok as [H1 H2].
    cbn [W_stmt L_stmt] in *. apply (gsim_local ns es s l s' H1 (FnAll_fr _ (Hes H2)) (FnAll_sim _ (Hes H2)) Hi Hrun).
  - (* local function *) intros n b Hb Hok s l s' Hi Hrun. cbn [gok_stmt] in Hok. apply andb_true_iff in Hok as [H1 H2].
    destruct b as [ps blk]. specialize (Hb H2). cbn [gok_funcbody] in H2. apply andb_true_iff in H2 as [Hps Hblk].
    cbn [W_stmt L_stmt] in *. apply (sim_localfn n ps blk s l s'); auto. apply glfb; exact Hblk.
  - (* numeric for *) intros v a Ha b Hb st Hst blk Hblk Hok s l s' Hi Hrun. cbn [gok_stmt] in Hok.
    apply andb_true_iff in Hok as [Hok H5]. apply andb_true_iff in Hok as [Hok H4]. apply andb_true_iff in Hok as [Hok H3].
    apply andb_true_iff in Hok as [H1 H2].
    assert (Hall : FnAll (lp_expr a ++ lp_expr b ++ lp_oexpr st)) by (apply FnAll_app; [auto|apply FnAll_app; auto]).
    apply (gsim_nfor v a b st blk s l s' H1 (FnAll_fr _ Hall) (FnAll_sim _ Hall) (Hblk H5) (glfb blk H5) Hi Hrun).
  - (* repeat *) intros b Hb c Hc Hok s l s' Hi Hrun. cbn [gok_stmt] in Hok. apply andb_true_iff in Hok as [H1 H2].
    cbn [W_stmt L_stmt] in *. rewrite W_block_false in Hrun.
    apply (gsim_repeat c b s l s' (gfre c H2) (FnAll_fr _ (Hc H2)) (FnAll_sim _ (Hc H2)) (Hb H1) (glfb b H1) Hi Hrun).
  - (* while *) intros c Hc b Hb Hok s l s' Hi Hrun. cbn [gok_stmt] in Hok. apply andb_true_iff in Hok as [H1 H2].
    cbn [W_stmt L_stmt] in *. rewrite W_block_false in Hrun.
    apply (gsim_while c b s l s' (FnAll_fr _ (Hc H1)) (FnAll_sim _ (Hc H1)) (Hb H2) (glfb b H2) Hi Hrun).
  (* vars *)
  - intros _. apply FnAll_nil.
  - intros v Hv r Hr Hok. cbn [gok_vars lp_vars] in *. apply andb_true_iff in Hok as [H1 H2]. apply FnAll_app; auto.
  (* elseifs *)
  - intros _ s0 E0 s l s' Harm [= <-]. exists s0. exact Harm.
  - intros c Hc b Hb r Hr Hok s0 E0 s l s' Harm Hrun. cbn [gok_elseifs] in Hok.
    apply andb_true_iff in Hok as [Hok H3]. apply andb_true_iff in Hok as [H1 H2].
    cbn [W_elseifs L_elseifs] in *. rewrite W_block_false in Hrun.
    apply run_app in Hrun as (s1 & Hcl & Hrun). cbn [run] in Hcl.
    destruct (step s EvClose) as [s1'|] eqn:Ec; [|discriminate]. injection Hcl as ->.
    destruct (arm_close _ _ _ _ _ Harm Ec) as [Hi1 _].
    assert (Hsplit : run s1 ((R_expr c ++ [EvOpen false] ++ W_expr c ++ core b) ++ W_elseifs r) = Some s').
    { rewrite <- !app_assoc. exact Hrun. }
    apply run_app in Hsplit as (s2 & R1 & R2).
    replace (L_expr c ++ [LBlockOpen] ++ L_inner b ++ [LBlockClose] ++ L_elseifs r)
      with ((L_expr c ++ [LBlockOpen] ++ L_inner b ++ [LBlockClose]) ++ L_elseifs r) by (rewrite <- !app_assoc; reflexivity).
    set (A := L_expr c ++ [LBlockOpen] ++ L_inner b ++ [LBlockClose]) in *. rewrite lrun_app.
    destruct (garm_run c b s1 l s2 (FnAll_fr _ (Hc H1)) (FnAll_sim _ (Hc H1)) (Hb H2) (glfb b H2) Hi1 R1) as [s0' Harm']. fold A in Harm'.
    destruct Harm as (_ & _ & _ & _ & _ & _ & He). rewrite He in Harm'.
    apply (Hr H3 s0' E0 s2 _ s' Harm' R2).
  (* olast *)
  - intros _ s l s' Hi [= <-]. exact Hi.
  - intros _ s l s' Hi [= <-]. exact Hi.
  - intros es Hes Hok s l s' Hi Hrun. cbn [gok_olast] in Hok. cbn [W_olast L_olast] in *.
    apply (gsim_return es s l s' (FnAll_fr _ (Hes Hok)) (FnAll_sim _ (Hes Hok)) Hi Hrun).
  (* oblock *)
  - intros _ eb H. discriminate.
  - intros b Hb Hok eb [= <-]. cbn [gok_oblock] in Hok. auto.
  (* oexpr *)
  - intros _. apply FnAll_nil.
  - intros e He Hok. cbn [gok_oexpr lp_oexpr] in *. auto.
Qed.

(** For EVERY Lua 5.1 program (the only requirement: no declared name is literally "..."), whenever the
    scope analysis completes: an identifier that Lua's scoping rules bind to a local variable, parameter,
    loop variable or `self` is never reported by undefined_variable - function expressions, closures
    walked late (K3), multi-name locals (K2), numeric-for bounds (K1) and surplus expressions (K4)
    included, whatever the standard library is. *)
Theorem undefined_never_on_locals_all chunk roots s :
  gok_block chunk = true ->
  NoDup (map (fun o => t_range (o_tok o)) (occs chunk)) ->
  scope_manager chunk = Some s ->
  forall o d, In o (occs chunk) -> o_bind o = OLocal d -> ~ In (t_range (o_tok o)) (undefined_report s roots).
Proof.
  intros Hok Hnd Hsm o d Ho Hb Hrep.
  unfold scope_manager in Hsm. destruct (run init_st (events_of_chunk chunk)) as [sf|] eqn:Hrun; [|discriminate].
  assert (sf = s) by (destruct (stack sf) as [|x [|y r]]; congruence). subst sf.
  unfold events_of_chunk in Hrun. rewrite W_block_false in Hrun.
  destruct gsim_all as (_&_&_&_&_&_&_&_&_&_&_&_&_&Hblock&_).
  pose proof (Hblock chunk Hok init_st l0 s inv_init Hrun) as [_ _ Hg _].
  change (l_items (lrun (L_inner chunk) l0)) with (resolve chunk) in Hg.
  destruct (undefined_report_exact s roots) as [_ Hex]. apply Hex in Hrep as (r & Hr & Hq & Hrange).
  unfold qualifies in Hq. repeat (apply andb_true_iff in Hq as [Hq ?]).
  destruct (Hg r Hr) as [Hres|(o' & Ho' & Htok & Hnl)].
  - destruct (r_resolved r); [discriminate|congruence].
  - apply occs_items in Ho'.
    assert (o' = o).
    { apply (NoDup_map_eq (fun o => t_range (o_tok o)) (occs chunk)); auto. cbn. rewrite Htok. exact Hrange. }
    subst o'. unfold nonlocal in Hnl. rewrite Hb in Hnl. exact Hnl.
Qed.

(** the same invariant, stated on references: every reference the analysis records for an identifier
    that Lua binds locally is resolved (this is what the standard-library lints' shadowing gate reads) *)
Theorem local_references_resolved chunk s :
  gok_block chunk = true ->
  NoDup (map (fun o => t_range (o_tok o)) (occs chunk)) ->
  scope_manager chunk = Some s ->
  forall o d r, In o (occs chunk) -> o_bind o = OLocal d -> In r (refs s) -> t_range (r_tok r) = t_range (o_tok o) ->
  r_resolved r <> None.
Proof.
  intros Hok Hnd Hsm o d r Ho Hb Hr Hrange.
  unfold scope_manager in Hsm. destruct (run init_st (events_of_chunk chunk)) as [sf|] eqn:Hrun; [|discriminate].
  assert (sf = s) by (destruct (stack sf) as [|x [|y r']]; congruence). subst sf.
  unfold events_of_chunk in Hrun. rewrite W_block_false in Hrun.
  destruct gsim_all as (_&_&_&_&_&_&_&_&_&_&_&_&_&Hblock&_).
  pose proof (Hblock chunk Hok init_st l0 s inv_init Hrun) as [_ _ Hg _].
  change (l_items (lrun (L_inner chunk) l0)) with (resolve chunk) in Hg.
  destruct (Hg r Hr) as [Hres|(o' & Ho' & Htok & Hnl)]; [exact Hres|].
  apply occs_items in Ho'.
  assert (o' = o).
  { apply (NoDup_map_eq (fun o => t_range (o_tok o)) (occs chunk)); auto. cbn. rewrite Htok. exact Hrange. }
  subst o'. unfold nonlocal in Hnl. rewrite Hb in Hnl. contradiction.
Qed.
