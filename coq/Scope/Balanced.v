(** The open/close sequence the scope walk emits for any syntax tree is balanced and never closes
    the root scope: the `assert!`s of close_scope (scopes.rs:750-756) and of from_ast
    ("scopes not all popped", :292) cannot fire. *)
From Selene Require Import Scope.Events Scope.Interp.
Open Scope nat_scope.

Fixpoint depth_after (d : nat) (evs : list ev) : option nat :=
  match evs with
  | [] => Some d
  | EvOpen _ :: r => depth_after (S d) r
  | EvClose :: r => match d with S (S d') => depth_after (S d') r | _ => None end
  | _ :: r => depth_after d r
  end.

Lemma depth_after_app d a b :
  depth_after d (a ++ b) = match depth_after d a with Some d' => depth_after d' b | None => None end.
Proof.
  revert d. induction a as [|e a IH]; intros d; cbn [app depth_after]; [reflexivity|].
  destruct e; try apply IH. destruct d as [|[|d']]; try reflexivity. apply IH.
Qed.

(** neutral from depth >= k *)
Definition neutral (k : nat) (evs : list ev) : Prop := forall d, k <= d -> depth_after d evs = Some d.

Lemma neutral_nil k : neutral k [].
Proof. intros d _. reflexivity. Qed.

Lemma neutral_app k a b : neutral k a -> neutral k b -> neutral k (a ++ b).
Proof. intros Ha Hb d Hd. rewrite depth_after_app, (Ha d Hd). apply Hb. exact Hd. Qed.

Lemma neutral_weaken k k' evs : k <= k' -> neutral k evs -> neutral k' evs.
Proof. intros Hk H d Hd. apply H. lia. Qed.

Lemma neutral_bracket b evs : neutral 1 evs -> neutral 1 ([EvOpen b] ++ evs ++ [EvClose]).
Proof.
  intros H d Hd. cbn [app depth_after]. rewrite depth_after_app, (H (S d)) by lia.
  cbn [depth_after]. destruct d; [lia|reflexivity].
Qed.

Definition quiet (evs : list ev) : Prop :=
  Forall (fun e => match e with EvOpen _ | EvClose => False | _ => True end) evs.

Lemma quiet_neutral k evs : quiet evs -> neutral k evs.
Proof.
  intros H d _. revert d. induction H as [|e evs He _ IH]; intros d; cbn [depth_after]; [reflexivity|].
  destruct e; try contradiction; apply IH.
Qed.

Lemma quiet_app a b : quiet a -> quiet b -> quiet (a ++ b).
Proof. intros Ha Hb. apply Forall_app. split; assumption. Qed.

Ltac q := repeat first [apply quiet_app | apply Forall_nil | (apply Forall_cons; [exact I|])].

Lemma R_expr_quiet e : quiet (R_expr e)
with R_var_quiet v : quiet (R_var v)
with R_prefix_quiet p : quiet (R_prefix p)
with R_suffixes_quiet ss : quiet (R_suffixes ss)
with R_suffix_quiet s : quiet (R_suffix s)
with R_call_quiet c : quiet (R_call c)
with R_args_quiet a : quiet (R_args a)
with R_index_quiet i : quiet (R_index i)
with R_fields_quiet fs : quiet (R_fields fs)
with R_field_quiet f : quiet (R_field f)
with R_exprs_quiet es : quiet (R_exprs es)
with R_fcall_quiet c : quiet (R_fcall c).
Proof.
  - destruct e; cbn [R_expr]; q; auto.
  - destruct v; cbn [R_var]; q; auto.
  - destruct p; cbn [R_prefix]; q; auto.
  - destruct ss; cbn [R_suffixes]; q; auto.
  - destruct s; cbn [R_suffix]; auto.
  - destruct c; cbn [R_call]; auto.
  - destruct a; cbn [R_args]; q; auto.
  - destruct i; cbn [R_index]; q; auto.
  - destruct fs; cbn [R_fields]; q; auto.
  - destruct f; cbn [R_field]; q; auto.
  - destruct es; cbn [R_exprs]; q; auto.
  - destruct c; cbn [R_fcall]; q; auto.
Qed.

Lemma R_function_args_quiet a : quiet (R_function_args a).
Proof. destruct a; cbn; q. apply R_exprs_quiet. Qed.

Lemma define_params_quiet ps : quiet (define_params ps).
Proof. unfold define_params. induction ps as [|p ps IH]; cbn [map]; q. destruct p; constructor; auto. Qed.

Lemma assign_target_quiet v : quiet (assign_target v).
Proof.
  destruct v as [t|p ss rng]; [cbn [assign_target]; q|].
  pose proof (R_var_quiet (VExpr p ss rng)) as H.
  destruct p as [t|e']; [|exact H].
  destruct ss as [|s ss]; [cbn [assign_target app]; q|].
  change (assign_target (VExpr (PName t) (SsCons s ss) rng))
    with ((R_var (VExpr (PName t) (SsCons s ss) rng) ++ [EvRead t]) ++ [EvWrite t WAssign]).
  apply quiet_app; [apply quiet_app; [exact H|q]|q].
Qed.

Lemma assign_hook_quiet vs : forall es, quiet (assign_hook vs es).
Proof.
  induction vs as [|v vs IH]; intros es; cbn [assign_hook]; [constructor|].
  destruct es as [|e es]; q; try apply R_expr_quiet; try apply assign_target_quiet; apply IH.
Qed.

Lemma local_hook_quiet names : forall es, quiet (local_hook names es).
Proof.
  induction names as [|n names IH]; intros es; cbn [local_hook]; [constructor|].
  destruct es; q; try apply R_expr_quiet; apply IH.
Qed.

Lemma oexpr_R_quiet o : quiet (oexpr_R o).
Proof. destruct o; cbn; q. apply R_expr_quiet. Qed.

Lemma da_skip k a b d : neutral k a -> k <= d -> depth_after d (a ++ b) = depth_after d b.
Proof. intros Ha Hd. rewrite depth_after_app, (Ha d Hd). reflexivity. Qed.
Lemma da_skip_q a b d : quiet a -> depth_after d (a ++ b) = depth_after d b.
Proof. intros Ha. apply (da_skip 0); [apply quiet_neutral; exact Ha|lia]. Qed.

Definition closes_one (evs : list ev) : Prop :=
  forall d, 2 <= d -> depth_after d evs = Some (d - 1).

Definition block_spec (is_else : bool) (b : block) : Prop :=
  match b with
  | Block _ _ (Some _) => if is_else then closes_one (W_block true b) else neutral 1 (W_block false b)
  | Block _ _ None => neutral 1 (W_block is_else b)
  end.

Ltac n1 :=
  repeat first [ apply neutral_nil | apply neutral_app | apply neutral_bracket
               | (apply quiet_neutral; first [apply R_expr_quiet | apply R_exprs_quiet | apply R_call_quiet
                    | apply R_index_quiet | apply R_prefix_quiet | apply R_function_args_quiet
                    | apply assign_hook_quiet | apply local_hook_quiet | apply oexpr_R_quiet
                    | apply define_params_quiet]) ].

Lemma flat_define_quiet names : quiet (flat_map (fun n => [EvDefine n false; EvWrite n WAssign]) names).
Proof. induction names as [|n names IH]; cbn [flat_map app]; [constructor|]. constructor; [exact I|constructor; [exact I|exact IH]]. Qed.

Lemma W_expr_neutral e : neutral 1 (W_expr e)
with W_var_neutral v : neutral 1 (W_var v)
with W_prefix_neutral p : neutral 1 (W_prefix p)
with W_suffixes_neutral ss : neutral 1 (W_suffixes ss)
with W_suffix_neutral s : neutral 1 (W_suffix s)
with W_call_neutral c : neutral 1 (W_call c)
with W_args_neutral a : neutral 1 (W_args a)
with W_index_neutral i : neutral 1 (W_index i)
with W_fields_neutral fs : neutral 1 (W_fields fs)
with W_field_neutral f : neutral 1 (W_field f)
with W_exprs_neutral es : neutral 1 (W_exprs es)
with W_fcall_neutral c : neutral 1 (W_fcall c)
with W_funcbody_neutral b : neutral 1 (W_funcbody b)
with W_block_spec b : forall is_else, block_spec is_else b
with W_stmts_neutral ss : neutral 1 (W_stmts ss)
with W_stmt_neutral s : neutral 1 (W_stmt s)
with W_vars_neutral vs : neutral 1 (W_vars vs)
with W_elseifs_neutral ei : neutral 2 (W_elseifs ei)
with W_olast_neutral l : neutral 1 (W_olast l)
with W_oexpr_neutral o : neutral 1 (W_oexpr o).
Proof.
  - destruct e; cbn [W_expr]; n1; auto.
  - destruct v; cbn [W_var]; n1; auto.
  - destruct p; cbn [W_prefix]; n1; auto.
  - destruct ss; cbn [W_suffixes]; n1; auto.
  - destruct s; cbn [W_suffix]; n1; auto.
  - destruct c; cbn [W_call]; n1; auto.
  - destruct a; cbn [W_args]; n1; auto.
  - destruct i; cbn [W_index]; n1; auto.
  - destruct fs; cbn [W_fields]; n1; auto.
  - destruct f; cbn [W_field]; n1; auto.
  - destruct es; cbn [W_exprs]; n1; auto.
  - destruct c; cbn [W_fcall]; n1; auto.
  - destruct b as [ps blk]. cbn [W_funcbody].
    pose proof (W_block_spec blk false) as Hb.
    assert (Hn : neutral 1 (W_block false blk)) by (destruct blk as [ss last [r|]]; exact Hb).
    rewrite (app_assoc (define_params ps)).
    apply neutral_bracket. apply neutral_app; [apply quiet_neutral; apply define_params_quiet|exact Hn].
  - destruct b as [ss last rng]. intros is_else.
    pose proof (W_stmts_neutral ss) as Hs. pose proof (W_olast_neutral last) as Hl.
    destruct rng as [r|]; cbn [block_spec].
    + destruct is_else; cbn [W_block].
      * intros d Hd. cbn [app depth_after]. destruct d as [|[|d']]; try lia.
        rewrite (da_skip 1 _ _ _ Hs) by lia. rewrite (da_skip 1 _ _ _ Hl) by lia.
        cbn [depth_after]. first [reflexivity | f_equal; lia].
      * cbn [app]. rewrite app_nil_r. apply neutral_app; assumption.
    + cbn [W_block]. destruct is_else; cbn [andb app]; rewrite ?app_nil_r; apply neutral_app; assumption.
  - destruct ss; cbn [W_stmts]; n1; auto.
  - destruct s; cbn [W_stmt].
    + n1; auto.
    + pose proof (W_block_spec b false) as Hb.
      assert (Hn : neutral 1 (W_block false b)) by (destruct b as [ss last [r|]]; exact Hb).
      apply neutral_bracket. exact Hn.
    + auto.
    + destruct names as [|base rest]; [apply neutral_nil|].
      pose proof (W_funcbody_neutral b) as Hf.
      destruct method as [m|].
      * (* method: open; define self; body; close *)
        apply neutral_app; [apply quiet_neutral; destruct rest; q|].
        apply neutral_app; [apply quiet_neutral; q|].
        apply neutral_app; [apply quiet_neutral; destruct rest; q|].
        change ([EvOpen false; EvDefine {| t_name := "self"; t_lo := t_lo m; t_hi := t_hi m |} true] ++ W_funcbody b ++ [EvClose])
          with ([EvOpen false] ++ ([EvDefine {| t_name := "self"; t_lo := t_lo m; t_hi := t_hi m |} true] ++ W_funcbody b) ++ [EvClose]).
        apply neutral_bracket. apply neutral_app; [apply quiet_neutral; q|exact Hf].
      * apply neutral_app; [apply quiet_neutral; destruct rest; q|].
        apply neutral_app; [apply quiet_neutral; q|].
        apply neutral_app; [apply quiet_neutral; destruct rest; q|].
        cbn [app]. rewrite app_nil_r. exact Hf.
    + pose proof (W_block_spec b false) as Hb.
      assert (Hn : neutral 1 (W_block false b)) by (destruct b as [ss last [r|]]; exact Hb).
      apply neutral_app; [apply quiet_neutral; apply R_exprs_quiet|].
      rewrite (app_assoc (W_exprs es)), (app_assoc (flat_map _ names)).
      apply neutral_bracket. apply neutral_app; [apply quiet_neutral; apply flat_define_quiet|].
      apply neutral_app; [apply W_exprs_neutral|exact Hn].
    + (* if *)
      pose proof (W_block_spec b false) as Hb.
      assert (Hn : neutral 1 (W_block false b)) by (destruct b as [ss last [r|]]; exact Hb).
      intros d Hd. rewrite (da_skip_q _ _ _ (R_expr_quiet c)). cbn [app depth_after].
      rewrite (da_skip 1 _ _ _ (W_expr_neutral c)) by lia. rewrite (da_skip 1 _ _ _ Hn) by lia.
      rewrite (da_skip 2 _ _ _ (W_elseifs_neutral elifs)) by lia.
      destruct els as [|eb].
      * cbn [depth_after]. destruct d; [lia|reflexivity].
      * pose proof (W_block_spec eb true) as He. destruct eb as [ss last [r|]]; cbn [block_spec] in He.
        -- rewrite app_nil_r. rewrite (He (S d)) by lia. first [reflexivity | f_equal; lia].
        -- rewrite (da_skip 1 _ _ _ He) by lia. cbn [depth_after]. destruct d; [lia|reflexivity].
    + n1; auto.
    + pose proof (W_funcbody_neutral b) as Hf.
      change ([EvDefine name false; EvOpen false] ++ W_funcbody b ++ [EvClose])
        with ([EvDefine name false] ++ ([EvOpen false] ++ W_funcbody b ++ [EvClose])).
      apply neutral_app; [apply quiet_neutral; q|apply neutral_bracket; exact Hf].
    + pose proof (W_block_spec b false) as Hb.
      assert (Hn : neutral 1 (W_block false b)) by (destruct b as [ss last [r|]]; exact Hb).
      intros d Hd. cbn [app depth_after].
      rewrite (da_skip_q _ _ _ (R_expr_quiet start)), (da_skip_q _ _ _ (R_expr_quiet stop)), (da_skip_q _ _ _ (oexpr_R_quiet step)).
      cbn [app depth_after].
      rewrite (da_skip 1 _ _ _ (W_expr_neutral start)) by lia. rewrite (da_skip 1 _ _ _ (W_expr_neutral stop)) by lia.
      rewrite (da_skip 1 _ _ _ (W_oexpr_neutral step)) by lia. rewrite (da_skip 1 _ _ _ Hn) by lia.
      cbn [depth_after]. destruct d; [lia|reflexivity].
    + pose proof (W_block_spec b false) as Hb.
      assert (Hn : neutral 1 (W_block false b)) by (destruct b as [ss last [r|]]; exact Hb).
      intros d Hd. cbn [app depth_after].
      rewrite (da_skip 1 _ _ _ Hn) by lia. rewrite (da_skip 1 _ _ _ (W_expr_neutral c)) by lia.
      rewrite (da_skip_q _ _ _ (R_expr_quiet c)).
      cbn [depth_after]. destruct d; [lia|reflexivity].
    + pose proof (W_block_spec b false) as Hb.
      assert (Hn : neutral 1 (W_block false b)) by (destruct b as [ss last [r|]]; exact Hb).
      intros d Hd. rewrite (da_skip_q _ _ _ (R_expr_quiet c)). cbn [app depth_after].
      rewrite (da_skip 1 _ _ _ (W_expr_neutral c)) by lia. rewrite (da_skip 1 _ _ _ Hn) by lia.
      cbn [depth_after]. destruct d; [lia|reflexivity].
  - destruct vs; cbn [W_vars]; n1; auto.
  - destruct ei as [|c b r]; cbn [W_elseifs]; [apply neutral_nil|].
    pose proof (W_block_spec b false) as Hb.
    assert (Hn : neutral 1 (W_block false b)) by (destruct b as [ss last [rg|]]; exact Hb).
    intros d Hd. cbn [app depth_after]. destruct d as [|[|d']]; try lia.
    rewrite (da_skip_q _ _ _ (R_expr_quiet c)). cbn [app depth_after].
    rewrite (da_skip 1 _ _ _ (W_expr_neutral c)) by lia. rewrite (da_skip 1 _ _ _ Hn) by lia.
    apply (W_elseifs_neutral r). lia.
  - destruct l; cbn [W_olast]; n1; auto.
  - destruct o; cbn [W_oexpr]; n1; auto.
Qed.

Theorem chunk_balanced chunk : depth_after 1 (events_of_chunk chunk) = Some 1.
Proof.
  unfold events_of_chunk. pose proof (W_block_spec chunk false) as H.
  destruct chunk as [ss last [r|]]; cbn [block_spec] in H; apply H; lia.
Qed.

Lemma push_var_len id stk : List.length (push_var_to_scope id stk) = List.length stk.
Proof. destruct stk; reflexivity. Qed.
Lemma push_ref_len id stk : List.length (push_ref_to_scope id stk) = List.length stk.
Proof. destruct stk; reflexivity. Qed.

Lemma reference_variable_len s r s' :
  reference_variable s r = Some s' -> List.length (stack s') = List.length (stack s).
Proof.
  unfold reference_variable.
  destruct (find_index _ (refs s) 0) as [i|].
  - destruct (nth_error (refs s) i) as [old|]; [|discriminate].
    destruct (r_write r), (r_write old); try discriminate; intros [= <-]; reflexivity.
  - intros [= <-]. cbn [stack]. apply push_ref_len.
Qed.

Lemma step_depth s e s' :
  step s e = Some s' -> depth_after (List.length (stack s)) [e] = Some (List.length (stack s')).
Proof.
  destruct e; cbn [step depth_after].
  - intros [= <-]. reflexivity.
  - destruct (stack s) as [|x [|y rest]]; try discriminate. intros [= <-]. reflexivity.
  - destruct (existsb _ (captured s)); [intros [= <-]; reflexivity|].
    intros H. apply reference_variable_len in H. cbn [stack] in H. rewrite H. reflexivity.
  - intros H. apply reference_variable_len in H. rewrite H. reflexivity.
  - intros [= <-]. unfold define. cbn [fst stack]. rewrite push_var_len. reflexivity.
  - destruct (stack s) as [|sc rest] eqn:Es; [discriminate|].
    destruct (s_refs sc) as [|rid rr]; [discriminate|].
    destruct (nth_error (refs s) (N.to_nat rid)) as [r|]; [|discriminate].
    destruct (find_variable (vars s) (sc :: rest) (t_name (r_tok r))).
    + intros [= <-]. rewrite Es. reflexivity.
    + unfold define. cbn [fst snd stack]. intros [= <-]. cbn [stack]. rewrite Es, push_var_len. reflexivity.
Qed.

Lemma run_depth evs : forall s s',
  run s evs = Some s' -> depth_after (List.length (stack s)) evs = Some (List.length (stack s')).
Proof.
  induction evs as [|e evs IH]; intros s s'; cbn [run].
  - intros [= <-]. reflexivity.
  - destruct (step s e) as [s1|] eqn:Es; [|discriminate]. intros H.
    change (e :: evs) with ([e] ++ evs). rewrite depth_after_app, (step_depth _ _ _ Es). apply IH. exact H.
Qed.

(** from_ast's final assert ("scopes not all popped") holds whenever the walk completes *)
Theorem final_stack_is_root chunk s' :
  run init_st (events_of_chunk chunk) = Some s' -> List.length (stack s') = 1.
Proof.
  intros H. apply run_depth in H. cbn [init_st stack List.length] in H.
  rewrite chunk_balanced in H. injection H as <-. reflexivity.
Qed.

(** close_scope's assert ("popped off the last of the stack") never fires *)
Theorem close_never_pops_root chunk pre post s :
  events_of_chunk chunk = pre ++ EvClose :: post ->
  run init_st pre = Some s -> 2 <= List.length (stack s).
Proof.
  intros Hsplit Hrun. pose proof (chunk_balanced chunk) as Hb. rewrite Hsplit, depth_after_app in Hb.
  apply run_depth in Hrun. cbn [init_st stack List.length] in Hrun. rewrite Hrun in Hb.
  cbn [depth_after] in Hb. destruct (List.length (stack s)) as [|[|n]]; try discriminate. lia.
Qed.
