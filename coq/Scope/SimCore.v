(** Agreement, part 3: the invariant tying the model state to the Lua resolver state, and the generic
    lemmas for quiet segments, opening and closing scopes. *)
From Selene Require Export Scope.SimBase Scope.SimLua.
From Coq Require Import Lia.
Open Scope nat_scope.

Definition Rel (s : st) (E : list benv) : Prop := forall name, lookup_name name E <> None -> fv s name <> None.
Definition NoDots (E : list benv) : Prop := lookup_name "..." E = None.

(** every reference is resolved, or its own token's Lua occurrence is not a local *)
Definition G (s : st) (items : list item) : Prop :=
  forall r, In r (refs s) ->
    r_resolved r <> None \/ exists o, In (IOcc o) items /\ o_tok o = r_tok r /\ nonlocal o.

Record Inv (s : st) (l : lstate) : Prop := {
  inv_rel : Rel s (l_env l); inv_nd : NoDots (l_env l); inv_g : G s (l_items l); inv_stk : stack s <> [] }.

Lemma G_items s items items' : (forall x, In x items -> In x items') -> G s items -> G s items'.
Proof. intros H Hg r Hr. destruct (Hg r Hr) as [?|(o & Ho & ? & ?)]; [left; auto|right; exists o; auto]. Qed.

Lemma in_nth_error {A} (x : A) l : In x l -> exists i, nth_error l i = Some x.
Proof. apply In_nth_error. Qed.

(** G across a step: old references stay fine, new ones must be justified *)
Lemma G_step s s' items :
  refs_mono (refs s) (refs s') -> G s items ->
  (forall i r, nth_error (refs s') i = Some r -> List.length (refs s) <= i ->
     r_resolved r <> None \/ exists o, In (IOcc o) items /\ o_tok o = r_tok r /\ nonlocal o) ->
  G s' items.
Proof.
  intros [Hlen Hm] Hg Hnew r Hr. destruct (In_nth_error _ _ Hr) as [i Hi].
  destruct (Nat.lt_ge_cases i (List.length (refs s))) as [Hlt|Hge]; [|apply (Hnew i r Hi Hge)].
  destruct (nth_error (refs s) i) as [r0|] eqn:E0; [|apply nth_error_None in E0; lia].
  destruct (Hm i r0 E0) as (r' & Hr' & Ht & Hres). rewrite Hi in Hr'. injection Hr' as <-.
  destruct (Hg r0 (nth_error_In _ _ E0)) as [H|(o & Ho & Hto & Hn)]; [left; auto|right].
  exists o. repeat split; auto. congruence.
Qed.

Lemma G_same_len s s' items :
  refs_mono (refs s) (refs s') -> List.length (refs s') = List.length (refs s) -> G s items -> G s' items.
Proof.
  intros Hm Hl Hg. apply (G_step s s' items Hm Hg). intros i r Hi Hle. exfalso.
  assert (i < List.length (refs s')) by (apply nth_error_Some; congruence). lia.
Qed.

(** ** quiet segments: reads / writes of available or just-defined names, defines, hoists *)
Fixpoint covered (ts : list tok) (dn : list string) (evs : list ev) : Prop :=
  match evs with
  | [] => True
  | EvRead t :: r => (In t ts \/ In (t_name t) dn) /\ covered ts dn r
  | EvWrite t _ :: r => (In t ts \/ In (t_name t) dn) /\ covered ts dn r
  | EvDefine t _ :: r => covered ts (t_name t :: dn) r
  | EvHoist :: r => covered ts dn r
  | _ => False
  end.

Lemma covered_app ts : forall a b dn, covered ts dn a -> (forall dn', incl dn dn' -> covered ts dn' b) -> covered ts dn (a ++ b).
Proof.
  induction a as [|e r IH]; intros b dn Ha Hb; cbn [app]; [apply Hb; intros x Hx; exact Hx|].
  destruct e; cbn [covered] in *; try contradiction.
  - destruct Ha as [H1 H2]. split; [exact H1|apply IH; auto].
  - destruct Ha as [H1 H2]. split; [exact H1|apply IH; auto].
  - apply IH; [exact Ha|]. intros dn' Hi. apply Hb. intros x Hx. apply Hi. right. exact Hx.
  - apply IH; auto.
Qed.

Lemma covered_weaken ts ts' : forall evs dn dn', incl ts ts' -> incl dn dn' -> covered ts dn evs -> covered ts' dn' evs.
Proof.
  induction evs as [|e r IH]; intros dn dn' Ht Hd H; cbn [covered] in *; [exact I|].
  destruct e; try contradiction.
  - destruct H as [[H|H] H2]; (split; [|eapply IH; eauto]); [left; auto|right; auto].
  - destruct H as [[H|H] H2]; (split; [|eapply IH; eauto]); [left; auto|right; auto].
  - eapply IH; [exact Ht| |exact H]. intros x [<-|Hx]; [left; reflexivity|right; auto].
  - eapply IH; eauto.
Qed.

Lemma covered_reads ts dn ws : incl ws ts -> covered ts dn (map EvRead ws).
Proof.
  induction ws as [|t r IH]; intros Hi; cbn [map covered]; [exact I|]. split; [left; apply Hi; left; reflexivity|].
  apply IH. intros x Hx. apply Hi. right. exact Hx.
Qed.

Lemma quiet_ok evs : forall ts dn items E s s',
  covered ts dn evs -> avail items E ts -> Rel s E -> (forall n, In n dn -> fv s n <> None) ->
  G s items -> stack s <> [] -> run s evs = Some s' ->
  Rel s' E /\ G s' items /\ stack s' <> [] /\ (forall name, fv s name <> None -> fv s' name <> None).
Proof.
  induction evs as [|e r IH]; intros ts dn items E s s' Hc Ha Hrel Hdn Hg Hne; cbn [run].
  - intros [= <-]. auto.
  - destruct (step s e) as [s1|] eqn:Es; [|discriminate]. intros Hrun.
    destruct (stack s) as [|sc rest] eqn:Est; [congruence|].
    assert (Hrw : forall t, (e = EvRead t \/ exists k, e = EvWrite t k) -> (In t ts \/ In (t_name t) dn) -> covered ts dn r ->
              Rel s' E /\ G s' items /\ stack s' <> [] /\ (forall name, fv s name <> None -> fv s' name <> None)).
    { intros t He Hcov Hcr.
      assert (He' : (exists t, e = EvRead t) \/ (exists t k, e = EvWrite t k))
        by (destruct He as [->|[k ->]]; [left; eauto|right; eauto]).
      destruct (step_rw _ _ _ Es He') as (Heq & _ & Hm & Hk & _ & Hnew).
      assert (Hne1 : stack s1 <> []).
      { rewrite Est in Hk. unfold head_kept in Hk. destruct (stack s1); [contradiction|discriminate]. }
      assert (Hg1 : G s1 items).
      { apply (G_step s s1 items Hm Hg). intros i r0 Hi Hle. destruct (Hnew i r0 t Hi Hle He) as [Ht Hres].
        destruct (fv s (t_name t)) eqn:Ef; [left; congruence|].
        destruct Hcov as [Hin|Hin]; [|exfalso; apply (Hdn _ Hin); exact Ef].
        destruct (Ha t Hin) as (o & Ho & Hto & Hb). right. exists o. split; [exact Ho|]. split; [congruence|].
        destruct Hb as [Hb|Hb]; [|exact Hb]. unfold nonlocal. rewrite Hb. unfold bind_in.
        destruct (lookup_name (t_name t) E) eqn:El; [|exact I]. exfalso. apply (Hrel (t_name t)); [congruence|exact Ef]. }
      assert (Hrel1 : Rel s1 E) by (intros name Hn; rewrite Heq; apply Hrel; exact Hn).
      assert (Hdn1 : forall n, In n dn -> fv s1 n <> None) by (intros n Hn; rewrite Heq; apply Hdn; exact Hn).
      destruct (IH ts dn items E s1 s' Hcr Ha Hrel1 Hdn1 Hg1 Hne1 Hrun) as (A & B & C & D).
      repeat split; auto. intros name Hn. apply D. rewrite Heq. exact Hn. }
    destruct e; cbn [covered] in Hc; try contradiction.
    + destruct Hc as [H1 H2]. apply (Hrw t); auto.
    + destruct Hc as [H1 H2]. apply (Hrw t); eauto.
    + destruct (step_define _ _ _ _ _ _ Es Est) as (Hself & Hmono & Hrefs).
      assert (Hne1 : stack s1 <> []).
      { pose proof (step_depth _ _ _ Es) as Hd. rewrite Est in Hd. cbn in Hd. injection Hd as Hd. destruct (stack s1); discriminate. }
      destruct (step_mono _ _ _ Es) as [_ Hm].
      assert (Hg1 : G s1 items) by (apply (G_same_len s s1 items Hm); [rewrite Hrefs; reflexivity|exact Hg]).
      assert (Hrel1 : Rel s1 E) by (intros name Hn; apply Hmono; apply Hrel; exact Hn).
      assert (Hdn1 : forall n, In n (t_name t :: dn) -> fv s1 n <> None)
        by (intros n [<-|Hn]; [exact Hself|apply Hmono; apply Hdn; exact Hn]).
      destruct (IH ts (t_name t :: dn) items E s1 s' Hc Ha Hrel1 Hdn1 Hg1 Hne1 Hrun) as (A & B & C & D).
      repeat split; auto.
    + destruct (step_hoist _ _ Es) as [Hmono Hlen].
      assert (Hne1 : stack s1 <> []).
      { pose proof (step_depth _ _ _ Es) as Hd. rewrite Est in Hd. cbn in Hd. injection Hd as Hd. destruct (stack s1); discriminate. }
      destruct (step_mono _ _ _ Es) as [_ Hm].
      assert (Hg1 : G s1 items) by (apply (G_same_len s s1 items Hm Hlen Hg)).
      assert (Hrel1 : Rel s1 E) by (intros name Hn; apply Hmono; apply Hrel; exact Hn).
      assert (Hdn1 : forall n, In n dn -> fv s1 n <> None) by (intros n Hn; apply Hmono; apply Hdn; exact Hn).
      destruct (IH ts dn items E s1 s' Hc Ha Hrel1 Hdn1 Hg1 Hne1 Hrun) as (A & B & C & D).
      repeat split; auto.
Qed.

Lemma quiet_defs evs : quiet evs -> forall s s', stack s <> [] -> run s evs = Some s' ->
  forall t b, In (EvDefine t b) evs -> fv s' (t_name t) <> None.
Proof.
  induction 1 as [|e r He Hq IH]; intros s s' Hne; cbn [run]; [intros _ t b []|].
  destruct (step s e) as [s1|] eqn:Es; [|discriminate]. intros Hrun t b [->|Hin].
  - destruct (stack s) as [|sc rest] eqn:Est; [congruence|].
    destruct (step_define _ _ _ _ _ _ Es Est) as (Hself & _ & _).
    assert (Hne1 : stack s1 <> []).
    { pose proof (step_depth _ _ _ Es) as Hd. rewrite Est in Hd. cbn in Hd. injection Hd as Hd. destruct (stack s1); discriminate. }
    destruct (run_quiet_env r Hq s1 s' Hne1 Hrun) as [Hm _]. apply Hm. exact Hself.
  - assert (Hq1 : quiet [e]) by (constructor; [exact He|constructor]).
    assert (Hr1 : run s [e] = Some s1) by (cbn [run]; rewrite Es; reflexivity).
    destruct (run_quiet_env [e] Hq1 s s1 Hne Hr1) as [_ Hne1]. apply (IH s1 s' Hne1 Hrun t b Hin).
Qed.

(** ** environments with a prefix of plain variables *)
Lemma lookup_app_vars name bs E : only_vars bs ->
  lookup_name name (bs ++ E) <> None -> (exists d, In (BVar name d) bs) \/ lookup_name name E <> None.
Proof.
  induction 1 as [|b r Hb _ IH]; cbn [app lookup_name]; [auto|]. destruct b; try contradiction.
  destruct (str_eqb name0 name) eqn:En.
  - intros _. left. apply str_eqb_eq in En. subst. eexists. left. reflexivity.
  - intros H. destruct (IH H) as [[d' Hd]|H']; [left; exists d'; right; exact Hd|right; exact H'].
Qed.

Lemma lookup_app_vars_none name bs E : only_vars bs -> (forall d, ~ In (BVar name d) bs) ->
  lookup_name name (bs ++ E) = lookup_name name E.
Proof.
  induction 1 as [|b r Hb _ IH]; cbn [app lookup_name]; [auto|]. destruct b; try contradiction. intros Hn.
  destruct (str_eqb name0 name) eqn:En.
  - apply str_eqb_eq in En. subst. exfalso. apply (Hn d). left. reflexivity.
  - apply IH. intros d' Hd. apply (Hn d'). right. exact Hd.
Qed.

(** ** opening and closing *)
Lemma open_inv s l b s1 : Inv s l -> step s (EvOpen b) = Some s1 -> Inv s1 (lstep l LBlockOpen).
Proof.
  intros [Hr Hnd Hg Hne] Hs. destruct (step_open _ _ _ Hs) as (Hle & Hrefs & _ & Hst).
  constructor; cbn [lstep l_env l_items].
  - intros name Hn. cbn [lookup_name] in Hn. apply Hle; [|apply Hr; exact Hn].
    intros ->. apply Hn. exact Hnd.
  - exact Hnd.
  - intros r Hin. rewrite Hrefs in Hin. apply Hg. exact Hin.
  - rewrite Hst. discriminate.
Qed.

(** closing: back to the stack the matching open started from *)
Lemma close_inv s0 s2 s3 E items top :
  Rel s0 E -> stack s0 <> [] -> stack s2 = top :: stack s0 -> names_prefix (mvars s0) (mvars s2) ->
  G s2 items -> step s2 EvClose = Some s3 ->
  Rel s3 E /\ G s3 items /\ stack s3 = stack s0 /\ mvars s3 = mvars s2.
Proof.
  intros Hr Hne Hst Hp Hg Hs. cbn [step] in Hs. rewrite Hst in Hs.
  destruct (stack s0) as [|sc rest] eqn:E0; [congruence|]. injection Hs as <-. cbn [stack refs Interp.vars].
  split; [|split; [exact Hg|split; reflexivity]].
  intros name Hn. unfold fv. cbn [stack Interp.vars]. rewrite <- E0.
  apply (find_variable_mono (mvars s0)); [exact Hp|]. apply Hr. exact Hn.
Qed.
