(** The fragment the agreement theorem covers: no function *expressions* (function statements and
    local functions are in), and no declared name is literally "...". *)
From Selene Require Export Scope.Tokens.

Definition nd (t : tok) : bool := negb (str_eqb (t_name t) "...").
Definition ok_param (p : param) : bool := match p with PrmName t => nd t | PrmEllipsis _ => true end.

Fixpoint ok_funcbody (b : funcbody) : bool :=
  match b with FBody ps blk => forallb ok_param ps && ok_block blk end
with ok_block (b : block) : bool :=
  match b with Block ss last _ => ok_stmts ss && ok_olast last end
with ok_stmts (ss : stmts) : bool :=
  match ss with StNil => true | StCons s r => ok_stmt s && ok_stmts r end
with ok_stmt (s : stmt) : bool :=
  match s with
  | SAssign vs es => ok_vars vs && ff_exprs es
  | SDo b => ok_block b
  | SCallStmt c => ff_fcall c
  | SFunction _ _ body => ok_funcbody body
  | SGenericFor names es b => forallb nd names && ff_exprs es && ok_block b
  | SIf c b eis els => ff_expr c && ok_block b && ok_elseifs eis && ok_oblock els
  | SLocal names es => forallb nd names && ff_exprs es
  | SLocalFunction name body => nd name && ok_funcbody body
  | SNumericFor v a b st blk => nd v && ff_expr a && ff_expr b && ok_oexpr st && ok_block blk
  | SRepeat b c => ok_block b && ff_expr c
  | SWhile c b => ff_expr c && ok_block b
  end
with ok_vars (vs : vars) : bool :=
  match vs with VsNil => true | VsCons v r => ff_var v && ok_vars r end
with ok_elseifs (e : elseifs) : bool :=
  match e with EiNil => true | EiCons c b r => ff_expr c && ok_block b && ok_elseifs r end
with ok_olast (l : olast) : bool :=
  match l with LReturn es => ff_exprs es | _ => true end
with ok_oblock (o : oblock) : bool :=
  match o with OBNone => true | OBSome b => ok_block b end
with ok_oexpr (o : oexpr) : bool :=
  match o with OENone => true | OESome e => ff_expr e end.

Section StmtInd.
  Context (Pfb : funcbody -> Prop) (Pb : block -> Prop) (Pss : stmts -> Prop) (Ps : stmt -> Prop) (Pvs : vars -> Prop)
          (Pei : elseifs -> Prop) (Pol : olast -> Prop) (Pob : oblock -> Prop) (Poe : oexpr -> Prop).
  Context
    (HFBody : forall ps b, Pb b -> Pfb (FBody ps b))
    (HBlock : forall ss l r, Pss ss -> Pol l -> Pb (Block ss l r))
    (HStNil : Pss StNil) (HStCons : forall s r, Ps s -> Pss r -> Pss (StCons s r))
    (HAssign : forall vs es, Pvs vs -> Ps (SAssign vs es))
    (HDo : forall b, Pb b -> Ps (SDo b))
    (HCallS : forall c, Ps (SCallStmt c))
    (HFunc : forall ns m b, Pfb b -> Ps (SFunction ns m b))
    (HGFor : forall ns es b, Pb b -> Ps (SGenericFor ns es b))
    (HIf : forall c b eis els, Pb b -> Pei eis -> Pob els -> Ps (SIf c b eis els))
    (HLocal : forall ns es, Ps (SLocal ns es))
    (HLocalF : forall n b, Pfb b -> Ps (SLocalFunction n b))
    (HNFor : forall v a b st blk, Poe st -> Pb blk -> Ps (SNumericFor v a b st blk))
    (HRepeat : forall b c, Pb b -> Ps (SRepeat b c))
    (HWhile : forall c b, Pb b -> Ps (SWhile c b))
    (HVsNil : Pvs VsNil) (HVsCons : forall v r, Pvs r -> Pvs (VsCons v r))
    (HEiNil : Pei EiNil) (HEiCons : forall c b r, Pb b -> Pei r -> Pei (EiCons c b r))
    (HLNone : Pol LNone) (HLBreak : Pol LBreak) (HLRet : forall es, Pol (LReturn es))
    (HOBNone : Pob OBNone) (HOBSome : forall b, Pb b -> Pob (OBSome b))
    (HOENone : Poe OENone) (HOESome : forall e, Poe (OESome e)).

  Lemma stmt_family_ind :
    (forall b, Pfb b) /\ (forall b, Pb b) /\ (forall ss, Pss ss) /\ (forall s, Ps s) /\ (forall vs, Pvs vs) /\
    (forall e, Pei e) /\ (forall l, Pol l) /\ (forall o, Pob o) /\ (forall o, Poe o).
  Proof.
    pose proof (ast_mutind (fun _ => True) (fun _ => True) (fun _ => True) (fun _ => True) (fun _ => True)
                  (fun _ => True) (fun _ => True) (fun _ => True) (fun _ => True) (fun _ => True) (fun _ => True) (fun _ => True)
                  Pfb Pb Pss Ps Pvs Pei Pol Pob Poe) as H.
    assert (X : (forall e : expr, True) /\ (forall v : var, True) /\ (forall p : prefix, True) /\ (forall s : suffix, True) /\
                (forall ss : suffixes, True) /\ (forall c : call, True) /\ (forall a : args, True) /\ (forall i : index, True) /\
                (forall fs : fields, True) /\ (forall f : field, True) /\ (forall es : exprs, True) /\ (forall c : fcall, True) /\
                (forall b, Pfb b) /\ (forall b, Pb b) /\ (forall ss, Pss ss) /\ (forall s, Ps s) /\ (forall vs, Pvs vs) /\
                (forall e, Pei e) /\ (forall l, Pol l) /\ (forall o, Pob o) /\ (forall o, Poe o)).
    { apply H; auto. }
    decompose [and] X. repeat split; assumption.
  Qed.
End StmtInd.
