(** Agreement, part 2: the Lua resolver's state along the Lua-order trace of a fragment statement. *)
From Selene Require Export Scope.Fragment.
From Coq Require Import Lia.

Notation lrun := (fold_left lstep).

Lemma lrun_app a b l : lrun (a ++ b) l = lrun b (lrun a l).
Proof. apply fold_left_app. Qed.

(** items only grow *)
Lemma emit_decl_items st t k b : exists more, l_items (emit_decl st t k b) = l_items st ++ more.
Proof. unfold emit_decl. cbn [l_items]. eexists; reflexivity. Qed.

Lemma params_items ps : forall st, exists more,
  l_items (fold_left (fun st p => match p with PrmName t => emit_decl st t DParam false | PrmEllipsis _ => st end) ps st) = l_items st ++ more.
Proof.
  induction ps as [|p ps IH]; intros st; cbn [fold_left]; [exists []; rewrite app_nil_r; reflexivity|].
  destruct p; [|apply IH]. destruct (emit_decl_items st t DParam false) as [m1 H1].
  destruct (IH (emit_decl st t DParam false)) as [m2 H2]. exists (m1 ++ m2). rewrite H2, H1, app_assoc. reflexivity.
Qed.

Lemma lstep_items l e : exists more, l_items (lstep l e) = l_items l ++ more.
Proof.
  destruct e.
  - cbn [lstep l_items]. eexists; reflexivity.
  - cbn [lstep]. apply emit_decl_items.
  - exists []. rewrite app_nil_r. reflexivity.
  - exists []. rewrite app_nil_r. reflexivity.
  - cbn [lstep].
    set (s1 := {| l_env := BBarrier (vararg_of ps) :: l_env l; l_ctx := _; l_items := l_items l |}).
    set (s2 := match self with Some m => emit_decl s1 {| t_name := "self"; t_lo := t_lo m; t_hi := t_hi m |} DSelf false | None => s1 end).
    assert (Hs2 : exists more, l_items s2 = l_items l ++ more).
    { unfold s2. destruct self; [apply (emit_decl_items s1)|exists []; rewrite app_nil_r; reflexivity]. }
    destruct Hs2 as [m0 Hs2]. destruct (params_items ps s2) as [m1 H1]. exists (m0 ++ m1). rewrite H1, Hs2, app_assoc. reflexivity.
  - exists []. rewrite app_nil_r. reflexivity.
  - exists []. rewrite app_nil_r. reflexivity.
  - exists []. rewrite app_nil_r. reflexivity.
Qed.

Lemma lrun_items evs : forall l, exists more, l_items (lrun evs l) = l_items l ++ more.
Proof.
  induction evs as [|e r IH]; intros l; cbn [fold_left]; [exists []; rewrite app_nil_r; reflexivity|].
  destruct (lstep_items l e) as [m1 H1]. destruct (IH (lstep l e)) as [m2 H2]. exists (m1 ++ m2). rewrite H2, H1, app_assoc. reflexivity.
Qed.

Lemma lrun_items_in evs l x : In x (l_items l) -> In x (l_items (lrun evs l)).
Proof. intros H. destruct (lrun_items evs l) as [m ->]. apply in_or_app. left. exact H. Qed.

(** ** a list of plain uses: environment and context untouched, one item per token, bound in that environment *)
Definition bind_in (E : list benv) (t : tok) : obind :=
  match lookup_name (t_name t) E with Some d => OLocal d | None => OGlobal end.

Definition nonlocal (o : occ) : Prop := match o_bind o with OLocal _ => False | _ => True end.

(** every token of [ts] has an occurrence item that was bound in environment [E] (or is not a local at all) *)
Definition avail (items : list item) (E : list benv) (ts : list tok) : Prop :=
  forall t, In t ts -> exists o, In (IOcc o) items /\ o_tok o = t /\ (o_bind o = bind_in E t \/ nonlocal o).

Lemma avail_mono items items' E ts : (forall x, In x items -> In x items') -> avail items E ts -> avail items' E ts.
Proof. intros H Ha x Hx. destruct (Ha x Hx) as (o & Ho & H1 & H2). exists o. auto. Qed.

Lemma avail_app items E a b : avail items E a -> avail items E b -> avail items E (a ++ b).
Proof. intros Ha Hb x Hx. apply in_app_iff in Hx. destruct Hx; auto. Qed.

Lemma avail_incl items E a b : incl a b -> avail items E b -> avail items E a.
Proof. intros Hi H x Hx. apply H. apply Hi. exact Hx. Qed.

Lemma avail_nil items E : avail items E [].
Proof. intros t []. Qed.

Lemma lookup_vararg_nonlocal E : match lookup_vararg E with OLocal _ => False | _ => True end.
Proof. induction E as [|b r IH]; cbn; [exact I|]. destruct b; try exact IH. destruct vararg; exact I. Qed.

Lemma lstep_occ l t k va :
  l_env (lstep l (LOcc t k va)) = l_env l /\ l_ctx (lstep l (LOcc t k va)) = l_ctx l /\
  exists o, l_items (lstep l (LOcc t k va)) = l_items l ++ [IOcc o] /\ o_tok o = t /\ o_kind o = k /\
            (o_bind o = bind_in (l_env l) t \/ nonlocal o).
Proof.
  cbn [lstep l_env l_ctx l_items]. split; [reflexivity|]. split; [reflexivity|].
  eexists. split; [reflexivity|]. destruct va; cbn [o_tok o_kind o_bind]; repeat split.
  - right. unfold nonlocal. cbn [o_bind]. apply lookup_vararg_nonlocal.
  - left. reflexivity.
Qed.

(** any list of occurrence events: environment and context untouched, every token available *)
Definition occ_tok (e : lev) : list tok := match e with LOcc t _ _ => [t] | _ => [] end.

Lemma lrun_occs evs : Forall (fun e => match e with LOcc _ _ _ => True | _ => False end) evs -> forall l,
  let l' := lrun evs l in
  l_env l' = l_env l /\ l_ctx l' = l_ctx l /\ avail (l_items l') (l_env l) (flat_map occ_tok evs).
Proof.
  induction 1 as [|e r He _ IH]; intros l; cbn [fold_left flat_map].
  - split; [reflexivity|]. split; [reflexivity|]. apply avail_nil.
  - destruct e; try contradiction. destruct (lstep_occ l t k is_vararg) as (He1 & Hc & o & Hi & Ht & _ & Hb).
    destruct (IH (lstep l (LOcc t k is_vararg))) as (He' & Hc' & Ha'). cbv zeta in *.
    split; [congruence|]. split; [congruence|]. cbn [occ_tok app]. intros x [<-|Hx].
    + exists o. split; [apply lrun_items_in; rewrite Hi; apply in_or_app; right; left; reflexivity|]. auto.
    + rewrite He1 in Ha'. apply Ha'. exact Hx.
Qed.

Lemma flat_map_occ_locc ts : flat_map occ_tok (map locc ts) = map fst ts.
Proof. induction ts as [|[t va] r IH]; cbn; [reflexivity|]. f_equal. exact IH. Qed.

(** ** frames: what a balanced piece of the Lua trace does to the environment *)
Definition only_vars (bs : list benv) : Prop := Forall (fun b => match b with BVar _ _ => True | _ => False end) bs.

Lemma pop_to_mark_vars bs E : only_vars bs -> pop_to_mark (bs ++ BMark :: E) = E.
Proof. induction 1 as [|b r Hb _ IH]; cbn; [reflexivity|]. destruct b; try contradiction. exact IH. Qed.
Lemma pop_to_barrier_vars bs v E : only_vars bs -> pop_to_barrier (bs ++ BBarrier v :: E) = E.
Proof. induction 1 as [|b r Hb _ IH]; cbn; [reflexivity|]. destruct b; try contradiction. exact IH. Qed.

Definition LF (l l' : lstate) : Prop := l_ctx l' = l_ctx l /\ exists bs, only_vars bs /\ l_env l' = bs ++ l_env l.
Definition LSame (l l' : lstate) : Prop := l_ctx l' = l_ctx l /\ l_env l' = l_env l.

Lemma LSame_LF l l' : LSame l l' -> LF l l'.
Proof. intros [H1 H2]. split; [exact H1|]. exists []. split; [constructor|exact H2]. Qed.
Lemma LF_refl l : LF l l.
Proof. apply LSame_LF. split; reflexivity. Qed.
Lemma LSame_refl l : LSame l l.
Proof. split; reflexivity. Qed.
Lemma LSame_trans a b c : LSame a b -> LSame b c -> LSame a c.
Proof. intros [H1 H2] [H3 H4]. split; congruence. Qed.
Lemma LF_trans a b c : LF a b -> LF b c -> LF a c.
Proof.
  intros [H1 (b1 & V1 & E1)] [H2 (b2 & V2 & E2)]. split; [congruence|]. exists (b2 ++ b1). split; [apply Forall_app; auto|].
  rewrite E2, E1, app_assoc. reflexivity.
Qed.

Definition all_occ (evs : list lev) : Prop := Forall (fun e => match e with LOcc _ _ _ => True | _ => False end) evs.

Lemma all_occ_same evs : all_occ evs -> forall l, LSame l (lrun evs l).
Proof.
  induction 1 as [|e r He _ IH]; intros l; cbn [fold_left]; [apply LSame_refl|].
  destruct e; try contradiction. eapply LSame_trans; [|apply IH].
  destruct (lstep_occ l t k is_vararg) as (H1 & H2 & _). split; assumption.
Qed.

Lemma all_occ_map_locc ts : all_occ (map locc ts).
Proof. induction ts; constructor; [exact I|assumption]. Qed.
Lemma all_occ_app a b : all_occ a -> all_occ b -> all_occ (a ++ b).
Proof. intros. apply Forall_app. split; assumption. Qed.

Lemma L_expr_occ e : ff_expr e = true -> all_occ (L_expr e).
Proof. intros H. rewrite (proj1 L_toks e H). apply all_occ_map_locc. Qed.
Lemma L_exprs_occ es : ff_exprs es = true -> all_occ (L_exprs es).
Proof. intros H. destruct L_toks as (_&_&_&_&_&_&_&_&_&_&He&_). rewrite (He es H). apply all_occ_map_locc. Qed.
Lemma L_fcall_occ c : ff_fcall c = true -> all_occ (L_fcall c).
Proof. intros H. destruct L_toks as (_&_&_&_&_&_&_&_&_&_&_&Hc). rewrite (Hc c H). apply all_occ_map_locc. Qed.
Lemma L_suffixes_occ ss : ff_suffixes ss = true -> all_occ (L_suffixes ss).
Proof. intros H. destruct L_toks as (_&_&_&_&Hs&_). rewrite (Hs ss H). apply all_occ_map_locc. Qed.

Lemma L_var_target_occ v : ff_var v = true -> all_occ (L_var v OTarget).
Proof.
  destruct v as [t|p ss r]; cbn [ff_var L_var]; intros H.
  - constructor; [exact I|constructor].
  - apply andb_true_iff in H as [Hp Hs]. apply all_occ_app; [|apply L_suffixes_occ; exact Hs].
    destruct p; cbn [L_prefix ff_prefix] in *; [constructor; [exact I|constructor]|apply L_expr_occ; exact Hp].
Qed.

Lemma ctx_bracket_same eo ei sp ne evs l : all_occ evs -> LSame l (lrun ([LCtxPush eo ei sp ne] ++ evs ++ [LCtxPop]) l).
Proof.
  intros H. rewrite !lrun_app. cbn [fold_left].
  set (l1 := lstep l (LCtxPush eo ei sp ne)).
  destruct (all_occ_same evs H l1) as [Hc He]. split.
  - cbn [lstep l_ctx]. rewrite Hc. reflexivity.
  - cbn [lstep l_env]. rewrite He. reflexivity.
Qed.

Lemma L_assign_exprs_same es : forall n k l, ff_exprs es = true -> LSame l (lrun (L_assign_exprs es n k) l).
Proof.
  induction es as [|e r IH]; intros n k l H; cbn [L_assign_exprs]; [apply LSame_refl|].
  cbn [ff_exprs] in H. apply andb_true_iff in H as [He Hr].
  replace ([LCtxPush [] [] (Nat.leb n k) false] ++ L_expr e ++ [LCtxPop] ++ L_assign_exprs r n (S k))
    with (([LCtxPush [] [] (Nat.leb n k) false] ++ L_expr e ++ [LCtxPop]) ++ L_assign_exprs r n (S k))
    by (rewrite <- !app_assoc; reflexivity).
  rewrite lrun_app. eapply LSame_trans; [|apply IH; exact Hr].
  apply ctx_bracket_same. apply L_expr_occ. exact He.
Qed.

Lemma L_local_exprs_same names es : forall k l, ff_exprs es = true -> LSame l (lrun (L_local_exprs names es k) l).
Proof.
  induction es as [|e r IH]; intros k l H; cbn [L_local_exprs]; [apply LSame_refl|].
  cbn [ff_exprs] in H. apply andb_true_iff in H as [He Hr].
  match goal with |- LSame _ (lrun ([?x] ++ L_expr e ++ [LCtxPop] ++ ?rest) _) =>
    replace ([x] ++ L_expr e ++ [LCtxPop] ++ rest) with (([x] ++ L_expr e ++ [LCtxPop]) ++ rest) by (rewrite <- !app_assoc; reflexivity) end.
  rewrite lrun_app. eapply LSame_trans; [|apply IH; exact Hr].
  apply ctx_bracket_same. apply L_expr_occ. exact He.
Qed.

Lemma L_vars_same vs : ok_vars vs = true -> forall l, LSame l (lrun (L_vars vs) l).
Proof.
  induction vs as [|v r IH]; cbn [ok_vars L_vars]; intros H l; [apply LSame_refl|].
  apply andb_true_iff in H as [Hv Hr]. rewrite lrun_app. eapply LSame_trans; [|apply IH; exact Hr].
  apply all_occ_same. apply L_var_target_occ. exact Hv.
Qed.

Lemma lstep_decl_LF l t k b : LF l (lstep l (LDecl t k b)).
Proof. split; [reflexivity|]. exists [BVar (t_name t) (t_range t)]. split; [constructor; [exact I|constructor]|reflexivity]. Qed.

Lemma L_local_decls_LF names : forall es l, LF l (lrun (L_local_decls names es) l).
Proof.
  induction names as [|n r IH]; intros es l; cbn [L_local_decls fold_left]; [apply LF_refl|].
  destruct es; cbn [fold_left]; (eapply LF_trans; [apply lstep_decl_LF|apply IH]).
Qed.

Lemma decls_LF {A} (f : A -> lev) (xs : list A) : (forall x, exists t k b, f x = LDecl t k b) -> forall l, LF l (lrun (map f xs) l).
Proof.
  intros Hf. induction xs as [|x r IH]; intros l; cbn [map fold_left]; [apply LF_refl|].
  destruct (Hf x) as (t & k & b & ->). eapply LF_trans; [apply lstep_decl_LF|apply IH].
Qed.

Lemma block_bracket body l :
  (forall l1, LF l1 (lrun body l1)) -> LSame l (lrun ([LBlockOpen] ++ body ++ [LBlockClose]) l).
Proof.
  intros H. rewrite !lrun_app. cbn [fold_left].
  set (l1 := lstep l LBlockOpen). destruct (H l1) as [Hc (bs & Hv & He)]. split.
  - cbn [lstep l_ctx]. rewrite Hc. reflexivity.
  - cbn [lstep l_env]. rewrite He. unfold l1. cbn [lstep l_env]. apply pop_to_mark_vars. exact Hv.
Qed.

Lemma params_env ps : forall st, exists bs, only_vars bs /\
  l_env (fold_left (fun st p => match p with PrmName t => emit_decl st t DParam false | PrmEllipsis _ => st end) ps st) = bs ++ l_env st /\
  l_ctx (fold_left (fun st p => match p with PrmName t => emit_decl st t DParam false | PrmEllipsis _ => st end) ps st) = l_ctx st.
Proof.
  induction ps as [|p ps IH]; intros st; cbn [fold_left]; [exists []; repeat split; constructor|].
  destruct p; [|apply IH]. destruct (IH (emit_decl st t DParam false)) as (bs & Hv & He & Hc).
  exists (bs ++ [BVar (t_name t) (t_range t)]). split; [apply Forall_app; split; [exact Hv|constructor; [exact I|constructor]]|].
  split; [rewrite He; cbn [emit_decl l_env]; rewrite <- app_assoc; reflexivity|rewrite Hc; reflexivity].
Qed.

Lemma fn_open_env l self ps : exists bs, only_vars bs /\
  l_env (lstep l (LFnOpen self ps)) = bs ++ BBarrier (vararg_of ps) :: l_env l /\
  tl (l_ctx (lstep l (LFnOpen self ps))) = l_ctx l /\ l_ctx (lstep l (LFnOpen self ps)) <> [].
Proof.
  cbn [lstep].
  set (s1 := {| l_env := BBarrier (vararg_of ps) :: l_env l; l_ctx := _ :: l_ctx l; l_items := l_items l |}).
  set (s2 := match self with Some m => emit_decl s1 {| t_name := "self"; t_lo := t_lo m; t_hi := t_hi m |} DSelf false | None => s1 end).
  assert (H2 : exists bs, only_vars bs /\ l_env s2 = bs ++ BBarrier (vararg_of ps) :: l_env l /\ l_ctx s2 = l_ctx s1).
  { unfold s2. destruct self as [m|].
    - exists [BVar "self" (t_lo m, t_hi m)]. split; [constructor; [exact I|constructor]|]. split; reflexivity.
    - exists []. split; [constructor|]. split; reflexivity. }
  destruct H2 as (b2 & V2 & E2 & C2). destruct (params_env ps s2) as (b1 & V1 & E1 & C1).
  exists (b1 ++ b2). split; [apply Forall_app; auto|]. split; [rewrite E1, E2, <- app_assoc; reflexivity|].
  rewrite C1, C2. unfold s1. cbn [l_ctx tl]. split; [reflexivity|discriminate].
Qed.

Lemma fn_bracket self ps body l :
  (forall l1, LF l1 (lrun body l1)) -> LSame l (lrun ([LFnOpen self ps] ++ body ++ [LFnClose]) l).
Proof.
  intros H. rewrite !lrun_app. cbn [fold_left].
  destruct (fn_open_env l self ps) as (b0 & V0 & E0 & C0 & _).
  set (l1 := lstep l (LFnOpen self ps)) in *. destruct (H l1) as [Hc (bs & Hv & He)]. split.
  - cbn [lstep l_ctx]. rewrite Hc. exact C0.
  - cbn [lstep l_env]. rewrite He, E0, app_assoc. apply pop_to_barrier_vars. apply Forall_app. auto.
Qed.

Ltac ltrans :=
  match goal with
  | |- LSame ?l (lrun _ (lrun ?a ?l)) =>
      apply (LSame_trans l (lrun a l)); [|let l1 := fresh "l" in generalize (lrun a l); intro l1]
  | |- LF ?l (lrun _ (lrun ?a ?l)) =>
      apply (LF_trans l (lrun a l)); [|let l1 := fresh "l" in generalize (lrun a l); intro l1]
  end.

Theorem lua_frames :
  (forall body, ok_funcbody body = true -> forall self l, LSame l (lrun (L_funcbody self body) l)) /\
  (forall b, ok_block b = true -> forall l, LF l (lrun (L_inner b) l)) /\
  (forall ss, ok_stmts ss = true -> forall l, LF l (lrun (L_stmts ss) l)) /\
  (forall s, ok_stmt s = true -> forall l, LF l (lrun (L_stmt s) l)) /\
  (forall vs : vars, True) /\
  (forall ei, ok_elseifs ei = true -> forall l, LSame l (lrun (L_elseifs ei) l)) /\
  (forall ol, ok_olast ol = true -> forall l, LSame l (lrun (L_olast ol) l)) /\
  (forall o, ok_oblock o = true -> forall l,
     LSame l (lrun (match o with OBNone => [] | OBSome eb => [LBlockOpen] ++ L_inner eb ++ [LBlockClose] end) l)) /\
  (forall o, ok_oexpr o = true -> forall l, LSame l (lrun (L_oexpr o) l)).
Proof.
  apply stmt_family_ind; intros;
    cbn [ok_funcbody ok_block ok_stmts ok_stmt ok_elseifs ok_olast ok_oblock ok_oexpr] in *;
    repeat match goal with H : _ && _ = true |- _ => apply andb_true_iff in H; destruct H end;
    repeat match goal with H : ?c = true -> _, H' : ?c = true |- _ => specialize (H H') end;
    try exact I.
  - (* funcbody *) cbn [L_funcbody]. apply fn_bracket. exact H.
  - (* block *) cbn [L_inner]. rewrite lrun_app. ltrans; [apply H|]. apply LSame_LF. apply H0.
  - apply LF_refl.
  - cbn [L_stmts]. rewrite lrun_app. ltrans; [apply H|apply H0].
  - (* assign *) cbn [L_stmt]. rewrite lrun_app. apply LSame_LF. ltrans; [apply L_assign_exprs_same; exact H1|].
    apply L_vars_same. exact H0.
  - (* do *) cbn [L_stmt]. apply LSame_LF. apply block_bracket. exact H.
  - (* call *) cbn [L_stmt]. apply LSame_LF. apply all_occ_same. apply L_fcall_occ. assumption.
  - (* function *) cbn [L_stmt]. destruct ns as [|base rest]; [apply LF_refl|]. rewrite lrun_app. apply LSame_LF.
    ltrans; [|apply H]. apply all_occ_same. constructor; [exact I|constructor].
  - (* generic for *) cbn [L_stmt]. apply LSame_LF.
    match goal with |- LSame _ (lrun ([?x] ++ L_exprs es ++ [LCtxPop] ++ ?rest) _) =>
      replace ([x] ++ L_exprs es ++ [LCtxPop] ++ rest) with (([x] ++ L_exprs es ++ [LCtxPop]) ++ rest) by (rewrite <- !app_assoc; reflexivity) end.
    rewrite lrun_app. ltrans; [apply ctx_bracket_same; apply L_exprs_occ; assumption|].
    match goal with |- LSame _ (lrun ([LBlockOpen] ++ ?d ++ L_inner b ++ [LBlockClose]) _) =>
      replace ([LBlockOpen] ++ d ++ L_inner b ++ [LBlockClose]) with ([LBlockOpen] ++ (d ++ L_inner b) ++ [LBlockClose])
        by (rewrite <- !app_assoc; reflexivity) end.
    apply block_bracket. intros l1. rewrite lrun_app. ltrans; [apply decls_LF; intros n; eauto|apply H].
  - (* if *) cbn [L_stmt]. apply LSame_LF. rewrite lrun_app. ltrans; [apply all_occ_same; apply L_expr_occ; assumption|].
    replace ([LBlockOpen] ++ L_inner b ++ [LBlockClose] ++ L_elseifs eis ++
             match els with OBNone => [] | OBSome eb => [LBlockOpen] ++ L_inner eb ++ [LBlockClose] end)
      with (([LBlockOpen] ++ L_inner b ++ [LBlockClose]) ++ L_elseifs eis ++
             match els with OBNone => [] | OBSome eb => [LBlockOpen] ++ L_inner eb ++ [LBlockClose] end)
      by (rewrite <- !app_assoc; reflexivity).
    rewrite lrun_app. ltrans; [apply block_bracket; exact H|].
    rewrite lrun_app. ltrans; [apply H0|apply H1].
  - (* local *) cbn [L_stmt]. rewrite lrun_app. ltrans; [apply LSame_LF; apply L_local_exprs_same; assumption|].
    apply L_local_decls_LF.
  - (* local function *) cbn [L_stmt]. rewrite lrun_app. ltrans; [apply lstep_decl_LF|]. apply LSame_LF. apply H.
  - (* numeric for *) cbn [L_stmt]. apply LSame_LF.
    match goal with |- LSame _ (lrun ([?x] ++ L_expr a ++ L_expr b ++ L_oexpr st ++ [LCtxPop] ++ ?rest) _) =>
      replace ([x] ++ L_expr a ++ L_expr b ++ L_oexpr st ++ [LCtxPop] ++ rest)
        with (([x] ++ (L_expr a ++ L_expr b ++ L_oexpr st) ++ [LCtxPop]) ++ rest) by (rewrite <- !app_assoc; reflexivity) end.
    rewrite lrun_app. ltrans.
    + apply ctx_bracket_same. apply all_occ_app; [apply L_expr_occ; assumption|]. apply all_occ_app; [apply L_expr_occ; assumption|].
      destruct st; cbn [L_oexpr ok_oexpr] in *; [constructor|apply L_expr_occ; assumption].
    + change ([LBlockOpen; LDecl v DLoop false] ++ L_inner blk ++ [LBlockClose])
        with ([LBlockOpen] ++ ([LDecl v DLoop false] ++ L_inner blk) ++ [LBlockClose]).
      apply block_bracket. intros l1. rewrite lrun_app. ltrans; [apply lstep_decl_LF|apply H0].
  - (* repeat *) cbn [L_stmt]. apply LSame_LF.
    replace ([LBlockOpen] ++ L_inner b ++ L_expr c ++ [LBlockClose]) with ([LBlockOpen] ++ (L_inner b ++ L_expr c) ++ [LBlockClose])
      by (rewrite <- !app_assoc; reflexivity).
    apply block_bracket.
    intros l1. rewrite lrun_app. ltrans; [apply H|]. apply LSame_LF. apply all_occ_same. apply L_expr_occ. assumption.
  - (* while *) cbn [L_stmt]. apply LSame_LF. rewrite lrun_app. ltrans; [apply all_occ_same; apply L_expr_occ; assumption|].
    apply block_bracket. exact H.
  - apply LSame_refl.
  - (* elseifs cons *) cbn [L_elseifs]. rewrite lrun_app. ltrans; [apply all_occ_same; apply L_expr_occ; assumption|].
    replace ([LBlockOpen] ++ L_inner b ++ [LBlockClose] ++ L_elseifs r)
      with (([LBlockOpen] ++ L_inner b ++ [LBlockClose]) ++ L_elseifs r) by (rewrite <- !app_assoc; reflexivity).
    rewrite lrun_app. ltrans; [apply block_bracket; exact H|apply H0].
  - apply LSame_refl.
  - apply LSame_refl.
  - cbn [L_olast]. apply all_occ_same. apply L_exprs_occ. assumption.
  - apply LSame_refl.
  - apply block_bracket. exact H.
  - apply LSame_refl.
  - cbn [L_oexpr]. apply all_occ_same. apply L_expr_occ. assumption.
Qed.
