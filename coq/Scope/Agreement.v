(** Agreement, part 6: the whole walk, and the theorem about undefined_variable. *)
From Selene Require Export Scope.SimStmts Lints.ScopeLints Lints.ScopeLintsFacts.
From Coq Require Import Lia.
Open Scope nat_scope.

Definition SimEi (ei : elseifs) : Prop := forall s0 E0 s l s', Arm s0 E0 s l -> run s (W_elseifs ei) = Some s' ->
  exists s0', Arm s0' E0 s' (lrun (L_elseifs ei) l).

Lemma lfb b : ok_block b = true -> LFb b.
Proof. intros H l. destruct lua_frames as (_ & Hb & _). apply Hb. exact H. Qed.

Theorem sim_all :
  (forall body, ok_funcbody body = true -> match body with FBody _ b => SimB b end) /\
  (forall b, ok_block b = true -> SimB b) /\
  (forall ss, ok_stmts ss = true -> forall s l s', Inv s l -> run s (W_stmts ss) = Some s' -> Inv s' (lrun (L_stmts ss) l)) /\
  (forall st, ok_stmt st = true -> forall s l s', Inv s l -> run s (W_stmt st) = Some s' -> Inv s' (lrun (L_stmt st) l)) /\
  (forall vs : Syntax.vars, True) /\
  (forall ei, ok_elseifs ei = true -> SimEi ei) /\
  (forall ol, ok_olast ol = true -> forall s l s', Inv s l -> run s (W_olast ol) = Some s' -> Inv s' (lrun (L_olast ol) l)) /\
  (forall o, ok_oblock o = true -> forall eb, o = OBSome eb -> SimB eb) /\
  (forall o : oexpr, True).
Proof.
  apply stmt_family_ind.
  - (* funcbody *) intros ps b Hb Hok. cbn [ok_funcbody] in Hok. apply andb_true_iff in Hok as [_ Hok]. auto.
  - (* block *) intros ss ol r Hss Hol Hok s l s' Hi Hrun. cbn [ok_block] in Hok. apply andb_true_iff in Hok as [H1 H2].
    cbn [core L_inner] in *. apply run_app in Hrun as (s1 & R1 & R2). rewrite lrun_app.
    apply (Hol H2 s1 _ s'); [|exact R2]. apply (Hss H1 s l s1 Hi R1).
  - intros _ s l s' Hi [= <-]. exact Hi.
  - intros st r Hst Hr Hok s l s' Hi Hrun. cbn [ok_stmts] in Hok. apply andb_true_iff in Hok as [H1 H2].
    cbn [W_stmts L_stmts] in *. apply run_app in Hrun as (s1 & R1 & R2). rewrite lrun_app.
    apply (Hr H2 s1 _ s'); [|exact R2]. apply (Hst H1 s l s1 Hi R1).
  - (* assign *) intros vs es _ Hok s l s' Hi Hrun. cbn [ok_stmt] in Hok. apply andb_true_iff in Hok as [H1 H2].
    cbn [W_stmt L_stmt] in *. apply (sim_assign vs es s l s'); auto.
  - (* do *) intros b Hb Hok s l s' Hi Hrun. cbn [ok_stmt] in Hok. cbn [W_stmt L_stmt] in *. rewrite W_block_false in Hrun.
    apply (sim_do b s l s'); auto. apply lfb; exact Hok.
  - (* call *) intros c Hok s l s' Hi Hrun. cbn [ok_stmt] in Hok. cbn [W_stmt L_stmt] in *. apply (sim_call c s l s'); auto.
  - (* function *) intros ns m b Hb Hok s l s' Hi Hrun. cbn [ok_stmt] in Hok. destruct b as [ps blk]. specialize (Hb Hok).
    cbn [ok_funcbody] in Hok. apply andb_true_iff in Hok as [Hps Hblk].
    apply (sim_function ns m ps blk s l s'); auto. apply lfb; exact Hblk.
  - (* generic for *) intros ns es b Hb Hok s l s' Hi Hrun. cbn [ok_stmt] in Hok.
    apply andb_true_iff in Hok as [Hok H3]. apply andb_true_iff in Hok as [H1 H2].
    apply (sim_gfor ns es b s l s'); auto. apply lfb; exact H3.
  - (* if *) intros c b eis els Hb Hei Hob Hok s l s' Hi Hrun. cbn [ok_stmt] in Hok.
    apply andb_true_iff in Hok as [Hok H4]. apply andb_true_iff in Hok as [Hok H3]. apply andb_true_iff in Hok as [H1 H2].
    cbn [W_stmt L_stmt] in *. rewrite W_block_false in Hrun.
    assert (Hsplit : run s ((R_expr c ++ [EvOpen false] ++ W_expr c ++ core b) ++ W_elseifs eis ++ else_events els) = Some s').
    { rewrite <- !app_assoc. exact Hrun. }
    apply run_app in Hsplit as (s2 & R1 & R2). apply run_app in R2 as (s3 & R2 & R3).
    assert (Hlua : L_expr c ++ [LBlockOpen] ++ L_inner b ++ [LBlockClose] ++ L_elseifs eis ++
                   match els with OBNone => [] | OBSome eb => [LBlockOpen] ++ L_inner eb ++ [LBlockClose] end
                   = (L_expr c ++ [LBlockOpen] ++ L_inner b ++ [LBlockClose]) ++ L_elseifs eis ++ else_lua els).
    { rewrite <- !app_assoc. reflexivity. }
    rewrite Hlua. set (A := L_expr c ++ [LBlockOpen] ++ L_inner b ++ [LBlockClose]) in *. rewrite 2 lrun_app.
    destruct (arm_run c b s l s2 H1 (Hb H2) (lfb b H2) Hi R1) as [s0 Harm]. fold A in Harm.
    destruct (Hei H3 s0 (l_env l) s2 _ s3 Harm R2) as [s0' Harm'].
    apply (else_part els s0' (l_env l) s3 _ s'); [|exact Harm'|exact R3].
    intros eb ->. cbn [ok_oblock] in H4. split; [apply (Hob H4 eb eq_refl)|apply lfb; exact H4].
  - (* local *) intros ns es Hok s l s' Hi Hrun. cbn [ok_stmt] in Hok. apply andb_true_iff in Hok as [H1 H2].
    cbn [W_stmt L_stmt] in *. apply (sim_local ns es s l s'); auto.
  - (* local function *) intros n b Hb Hok s l s' Hi Hrun. cbn [ok_stmt] in Hok. apply andb_true_iff in Hok as [H1 H2].
    destruct b as [ps blk]. specialize (Hb H2). cbn [ok_funcbody] in H2. apply andb_true_iff in H2 as [Hps Hblk].
    cbn [W_stmt L_stmt] in *. apply (sim_localfn n ps blk s l s'); auto. apply lfb; exact Hblk.
  - (* numeric for *) intros v a b st blk _ Hblk Hok s l s' Hi Hrun. cbn [ok_stmt] in Hok.
    apply andb_true_iff in Hok as [Hok H5]. apply andb_true_iff in Hok as [Hok H4]. apply andb_true_iff in Hok as [Hok H3].
    apply andb_true_iff in Hok as [H1 H2].
    apply (sim_nfor v a b st blk s l s'); auto. apply lfb; exact H5.
  - (* repeat *) intros b c Hb Hok s l s' Hi Hrun. cbn [ok_stmt] in Hok. apply andb_true_iff in Hok as [H1 H2].
    cbn [W_stmt L_stmt] in *. rewrite W_block_false in Hrun. apply (sim_repeat c b s l s'); auto. apply lfb; exact H1.
  - (* while *) intros c b Hb Hok s l s' Hi Hrun. cbn [ok_stmt] in Hok. apply andb_true_iff in Hok as [H1 H2].
    cbn [W_stmt L_stmt] in *. rewrite W_block_false in Hrun. apply (sim_while c b s l s'); auto. apply lfb; exact H2.
  - exact I.
  - intros; exact I.
  - (* elseifs nil *) intros _ s0 E0 s l s' Harm [= <-]. exists s0. exact Harm.
  - (* elseifs cons *) intros c b r Hb Hr Hok s0 E0 s l s' Harm Hrun. cbn [ok_elseifs] in Hok.
    apply andb_true_iff in Hok as [Hok H3]. apply andb_true_iff in Hok as [H1 H2].
    cbn [W_elseifs L_elseifs] in *. rewrite W_block_false in Hrun.
    apply run_app in Hrun as (s1 & Hc & Hrun). cbn [run] in Hc.
    destruct (step s EvClose) as [s1'|] eqn:Ec; [|discriminate]. injection Hc as ->.
    destruct (arm_close _ _ _ _ _ Harm Ec) as [Hi1 _].
    assert (Hsplit : run s1 ((R_expr c ++ [EvOpen false] ++ W_expr c ++ core b) ++ W_elseifs r) = Some s').
    { rewrite <- !app_assoc. exact Hrun. }
    apply run_app in Hsplit as (s2 & R1 & R2).
    replace (L_expr c ++ [LBlockOpen] ++ L_inner b ++ [LBlockClose] ++ L_elseifs r)
      with ((L_expr c ++ [LBlockOpen] ++ L_inner b ++ [LBlockClose]) ++ L_elseifs r) by (rewrite <- !app_assoc; reflexivity).
    set (A := L_expr c ++ [LBlockOpen] ++ L_inner b ++ [LBlockClose]) in *. rewrite lrun_app.
    destruct (arm_run c b s1 l s2 H1 (Hb H2) (lfb b H2) Hi1 R1) as [s0' Harm']. fold A in Harm'.
    destruct Harm as (_ & _ & _ & _ & _ & _ & He). rewrite He in Harm'.
    apply (Hr H3 s0' E0 s2 _ s' Harm' R2).
  - intros _ s l s' Hi [= <-]. exact Hi.
  - intros _ s l s' Hi [= <-]. exact Hi.
  - (* return *) intros es Hok s l s' Hi Hrun. cbn [ok_olast] in Hok. cbn [W_olast L_olast] in *. apply (sim_return es s l s'); auto.
  - intros _ eb H. discriminate.
  - intros b Hb Hok eb [= <-]. cbn [ok_oblock] in Hok. auto.
  - exact I.
  - intros; exact I.
Qed.

(** ** the theorem *)
Definition l0 : lstate := {| l_env := []; l_ctx := []; l_items := [] |}.

Lemma inv_init : Inv init_st l0.
Proof.
  constructor; cbn.
  - intros name H. exfalso. apply H. reflexivity.
  - reflexivity.
  - intros r [].
  - discriminate.
Qed.

Lemma occs_items chunk o : In o (occs chunk) <-> In (IOcc o) (resolve chunk).
Proof.
  unfold occs. rewrite in_flat_map. split.
  - intros (i & Hi & Ho). destruct i; [|contradiction]. destruct Ho as [->|[]]. exact Hi.
  - intros H. exists (IOcc o). split; [exact H|left; reflexivity].
Qed.

Lemma NoDup_map_eq {A B} (f : A -> B) l x y : NoDup (map f l) -> In x l -> In y l -> f x = f y -> x = y.
Proof.
  induction l as [|a r IH]; cbn [map]; intros Hnd Hx Hy Hf; [contradiction|]. inversion Hnd as [|? ? Hn Hr]; subst.
  destruct Hx as [->|Hx], Hy as [->|Hy]; auto.
  - exfalso. apply Hn. rewrite Hf. apply in_map. exact Hy.
  - exfalso. apply Hn. rewrite <- Hf. apply in_map. exact Hx.
Qed.

(** For every program of the fragment (no function expressions; function statements, local functions,
    methods, every block and loop form are in): whenever the scope analysis completes, an identifier
    that Lua's scoping rules bind to a local variable, parameter, loop variable or `self` is never
    reported by undefined_variable - whatever the standard library is. *)
Theorem undefined_never_on_locals chunk roots s :
  ok_block chunk = true ->
  NoDup (map (fun o => t_range (o_tok o)) (occs chunk)) ->
  scope_manager chunk = Some s ->
  forall o d, In o (occs chunk) -> o_bind o = OLocal d -> ~ In (t_range (o_tok o)) (undefined_report s roots).
Proof.
  intros Hok Hnd Hsm o d Ho Hb Hrep.
  unfold scope_manager in Hsm. destruct (run init_st (events_of_chunk chunk)) as [sf|] eqn:Hrun; [|discriminate].
  assert (sf = s) by (destruct (stack sf) as [|x [|y r]]; congruence). subst sf.
  unfold events_of_chunk in Hrun. rewrite W_block_false in Hrun.
  destruct sim_all as (_ & Hblock & _).
  pose proof (Hblock chunk Hok init_st l0 s inv_init Hrun) as [_ _ Hg _].
  change (l_items (lrun (L_inner chunk) l0)) with (resolve chunk) in Hg.
  destruct (undefined_report_exact s roots) as [_ Hex]. apply Hex in Hrep as (r & Hr & Hq & Hrange).
  unfold qualifies in Hq. repeat (apply andb_true_iff in Hq as [Hq ?]).
  destruct (Hg r Hr) as [Hres|(o' & Ho' & Htok & Hnl)].
  - destruct (r_resolved r); [discriminate|congruence].
  - apply occs_items in Ho'.
    assert (o' = o).
    { apply (NoDup_map_eq (fun o => t_range (o_tok o)) (occs chunk)); auto. cbn. rewrite Htok. exact Hrange. }
    subst o'. unfold nonlocal in Hnl. rewrite Hb in Hnl. exact Hnl.
Qed.
