(** Agreement of the scope model with Lua scoping, part 1: what every step of the state machine
    preserves. *)
From Selene Require Export Scope.Tokens Scope.Balanced.
From Coq Require Import Lia.

Notation mvars := Interp.vars.

Lemma run_app evs1 : forall evs2 s s',
  run s (evs1 ++ evs2) = Some s' <-> exists m, run s evs1 = Some m /\ run m evs2 = Some s'.
Proof.
  induction evs1 as [|e r IH]; intros evs2 s s'; cbn [app run].
  - split; [intros H; exists s; auto|intros (m & [= <-] & H); exact H].
  - destruct (step s e) as [s1|]; [apply IH|]. split; [discriminate|intros (m & H & _); discriminate].
Qed.

(** ** names of the variable arena only grow *)
Definition vnames (vs : list rvar) : list string := map (fun v => t_name (v_tok v)) vs.
Definition names_prefix (a b : list rvar) : Prop := exists more, vnames b = vnames a ++ more.

Lemma names_prefix_refl a : names_prefix a a.
Proof. exists []. rewrite app_nil_r. reflexivity. Qed.
Lemma names_prefix_trans a b c : names_prefix a b -> names_prefix b c -> names_prefix a c.
Proof. intros [m1 H1] [m2 H2]. exists (m1 ++ m2). rewrite H2, H1, app_assoc. reflexivity. Qed.

Lemma vnames_set_nth n f vs :
  (forall v, t_name (v_tok (f v)) = t_name (v_tok v)) -> vnames (set_nth n f vs) = vnames vs.
Proof.
  intros Hf. unfold set_nth, vnames. revert n. induction vs as [|x r IH]; intros [|n]; cbn [map]; try reflexivity.
  - rewrite Hf. reflexivity.
  - f_equal. apply IH.
Qed.

Lemma var_name_is_prefix a b name id :
  names_prefix a b -> var_name_is a name id = true -> var_name_is b name id = true.
Proof.
  intros [more H]. unfold var_name_is.
  destruct (nth_error a (N.to_nat id)) as [v|] eqn:Ea; [|discriminate]. intros Hn.
  assert (Hb : nth_error (vnames b) (N.to_nat id) = Some (t_name (v_tok v))).
  { rewrite H. rewrite nth_error_app1; [|unfold vnames; rewrite map_length; apply nth_error_Some; congruence].
    unfold vnames. rewrite nth_error_map, Ea. reflexivity. }
  unfold vnames in Hb. rewrite nth_error_map in Hb. destruct (nth_error b (N.to_nat id)) as [w|]; [|discriminate].
  cbn in Hb. injection Hb as Hb. rewrite Hb. exact Hn.
Qed.

(** what find_variable sees, as a proposition: monotone in the arena *)
Lemma find_some_mono {A} (p q : A -> bool) l : (forall x, p x = true -> q x = true) -> find p l <> None -> find q l <> None.
Proof.
  intros H. induction l as [|x r IH]; cbn; [auto|]. destruct (p x) eqn:Ep.
  - rewrite (H _ Ep). discriminate.
  - destruct (q x); [discriminate|exact IH].
Qed.

Lemma find_variable_mono a b stk name :
  names_prefix a b -> find_variable a stk name <> None -> find_variable b stk name <> None.
Proof.
  intros Hp. induction stk as [|sc rest IH]; cbn [find_variable]; [auto|].
  unfold in_scope.
  destruct (find (var_name_is a name) (s_vars sc)) eqn:Fa.
  - intros _. assert (Hb : find (var_name_is b name) (s_vars sc) <> None).
    { apply (find_some_mono (var_name_is a name)); [intros x; apply var_name_is_prefix; exact Hp|congruence]. }
    destruct (find (var_name_is b name) (s_vars sc)); [discriminate|congruence].
  - destruct (s_blocked sc && str_eqb name "..."); [congruence|].
    intros H. destruct (find (var_name_is b name) (s_vars sc)); [discriminate|]. apply IH. exact H.
Qed.

(** ** one step: the arena's names grow, resolved references stay resolved *)
Definition refs_mono (a b : list rref) : Prop :=
  List.length a <= List.length b /\
  forall i r, nth_error a i = Some r -> exists r', nth_error b i = Some r' /\ r_tok r' = r_tok r /\
     (r_resolved r <> None -> r_resolved r' <> None).

Lemma refs_mono_refl a : refs_mono a a.
Proof. split; [lia|]. intros i r H. exists r. auto. Qed.
Lemma refs_mono_trans a b c : refs_mono a b -> refs_mono b c -> refs_mono a c.
Proof.
  intros [L1 H1] [L2 H2]. split; [lia|]. intros i r Hr. destruct (H1 i r Hr) as (r' & Hr' & Ht & Hres).
  destruct (H2 i r' Hr') as (r'' & Hr'' & Ht' & Hres'). exists r''. repeat split; auto; congruence.
Qed.

Lemma nth_error_set_nth_eq {A} (f : A -> A) l : forall n x, nth_error l n = Some x -> nth_error (set_nth n f l) n = Some (f x).
Proof. unfold set_nth. induction l as [|y r IH]; intros [|n] x; cbn; try discriminate; [congruence|apply IH]. Qed.
Lemma nth_error_set_nth_neq {A} (f : A -> A) l : forall n m, n <> m -> nth_error (set_nth n f l) m = nth_error l m.
Proof. unfold set_nth. induction l as [|y r IH]; intros [|n] [|m] H; cbn; try reflexivity; try lia. apply IH. lia. Qed.
Lemma set_nth_length {A} (f : A -> A) l : forall n, List.length (set_nth n f l) = List.length l.
Proof. unfold set_nth. induction l as [|y r IH]; intros [|n]; cbn; auto. Qed.

Lemma refs_mono_set_nth i f rs :
  (forall r, r_tok (f r) = r_tok r /\ (r_resolved r <> None -> r_resolved (f r) <> None)) -> refs_mono rs (set_nth i f rs).
Proof.
  intros Hf. split; [rewrite set_nth_length; lia|]. intros j r Hr. destruct (Nat.eq_dec i j) as [->|Hne].
  - exists (f r). rewrite (nth_error_set_nth_eq f rs j r Hr). destruct (Hf r). auto.
  - exists r. rewrite nth_error_set_nth_neq by exact Hne. auto.
Qed.
Lemma refs_mono_app rs more : refs_mono rs (rs ++ more).
Proof.
  split; [rewrite app_length; lia|]. intros i r Hr. exists r. rewrite nth_error_app1; [auto|apply nth_error_Some; congruence].
Qed.
Lemma refs_mono_map f rs :
  (forall r, r_tok (f r) = r_tok r /\ (r_resolved r <> None -> r_resolved (f r) <> None)) -> refs_mono rs (map f rs).
Proof.
  intros Hf. split; [rewrite map_length; lia|]. intros i r Hr. exists (f r). rewrite nth_error_map, Hr. destruct (Hf r). auto.
Qed.


Definition fv (s : st) (name : string) : option N := find_variable (mvars s) (stack s) name.

(** scopes seen through find_variable *)
Definition scope_env_eq (x y : scope) : Prop := s_vars x = s_vars y /\ s_blocked x = s_blocked y.

Lemma var_name_is_names a b name id : vnames a = vnames b -> var_name_is a name id = var_name_is b name id.
Proof.
  intros H. unfold var_name_is.
  assert (E : nth_error (vnames a) (N.to_nat id) = nth_error (vnames b) (N.to_nat id)) by (rewrite H; reflexivity).
  unfold vnames in E. rewrite !nth_error_map in E.
  destruct (nth_error a (N.to_nat id)), (nth_error b (N.to_nat id)); cbn in E; try discriminate; [|reflexivity].
  injection E as E. rewrite E. reflexivity.
Qed.

Lemma find_ext {A} (p q : A -> bool) l : (forall x, p x = q x) -> find p l = find q l.
Proof. intros H. induction l as [|x r IH]; cbn; [reflexivity|]. rewrite H, IH. reflexivity. Qed.

Lemma find_variable_ext a b stk stk' name :
  vnames a = vnames b -> Forall2 scope_env_eq stk stk' -> find_variable a stk name = find_variable b stk' name.
Proof.
  intros Hn H. induction H as [|x y r r' [Hv Hb] _ IH]; cbn [find_variable]; [reflexivity|].
  unfold in_scope. rewrite <- Hv, <- Hb.
  rewrite (find_ext (var_name_is a name) (var_name_is b name)) by (intros; apply var_name_is_names; exact Hn).
  destruct (find _ _); [reflexivity|]. destruct (s_blocked x && _); [reflexivity|exact IH].
Qed.

Lemma Forall2_scope_refl stk : Forall2 scope_env_eq stk stk.
Proof. induction stk; constructor; [split; reflexivity|assumption]. Qed.

Lemma push_ref_env id stk : Forall2 scope_env_eq stk (push_ref_to_scope id stk).
Proof. destruct stk as [|sc r]; cbn; constructor; [split; reflexivity|apply Forall2_scope_refl]. Qed.

(** ** reference_variable: the environment is untouched, at most one reference is appended *)
Definition head_kept (a b : list scope) : Prop :=
  match a, b with
  | sc :: rest, sc' :: rest' => rest' = rest /\ s_id sc' = s_id sc
  | [], [] => True
  | _, _ => False
  end.

Lemma head_kept_refl a : head_kept a a.
Proof. destruct a; cbn; auto. Qed.

Lemma reference_variable_facts s new s' :
  reference_variable s new = Some s' ->
  vnames (mvars s') = vnames (mvars s) /\ Forall2 scope_env_eq (stack s) (stack s') /\
  refs_mono (refs s) (refs s') /\ captured s' = captured s /\ next_scope s' = next_scope s /\
  (forall i r, nth_error (refs s') i = Some r -> List.length (refs s) <= i ->
     r_tok r = r_tok new /\ r_resolved r = find_variable (mvars s) (stack s) (t_name (r_tok new))) /\
  head_kept (stack s) (stack s').
Proof.
  unfold reference_variable.
  destruct (find_index _ (refs s) 0) as [i|] eqn:Ef.
  - destruct (nth_error (refs s) i) as [old|] eqn:Eo; [|discriminate].
    set (merged := {| r_tok := r_tok old; r_read := r_read old || r_read new;
                      r_write := match r_write new with Some w => Some w | None => r_write old end;
                      r_resolved := r_resolved old; r_scope := r_scope old |}).
    assert (Hres : forall st', st' = {| refs := set_nth i (fun _ => merged) (refs s); Interp.vars := mvars s; stack := stack s;
                                         next_scope := next_scope s; captured := captured s |} ->
              vnames (mvars st') = vnames (mvars s) /\ Forall2 scope_env_eq (stack s) (stack st') /\
              refs_mono (refs s) (refs st') /\ captured st' = captured s /\ next_scope st' = next_scope s /\
              (forall j r, nth_error (refs st') j = Some r -> List.length (refs s) <= j ->
                 r_tok r = r_tok new /\ r_resolved r = find_variable (mvars s) (stack s) (t_name (r_tok new))) /\
              head_kept (stack s) (stack st')).
    { intros st' ->. cbn [Interp.vars stack refs captured next_scope].
      split; [reflexivity|]. split; [apply Forall2_scope_refl|]. split.
      - split; [rewrite set_nth_length; lia|]. intros j r Hr. destruct (Nat.eq_dec i j) as [->|Hne].
        + exists merged. rewrite (nth_error_set_nth_eq _ _ _ _ Hr). rewrite Hr in Eo. injection Eo as ->. cbn. auto.
        + exists r. rewrite nth_error_set_nth_neq by exact Hne. auto.
      - split; [reflexivity|]. split; [reflexivity|]. split; [|apply head_kept_refl].
        intros j r Hj Hle. exfalso.
        assert (j < List.length (set_nth i (fun _ => merged) (refs s))) by (apply nth_error_Some; congruence).
        rewrite set_nth_length in H. lia. }
    destruct (r_write new), (r_write old); try discriminate; intros [= <-]; apply Hres; reflexivity.
  - intros [= <-]. cbn [Interp.vars stack refs captured next_scope]. split.
    + destruct (find_variable (mvars s) (stack s) (t_name (r_tok new))); [|reflexivity].
      apply vnames_set_nth. intros v. reflexivity.
    + split; [apply push_ref_env|]. split; [apply refs_mono_app|]. split; [reflexivity|]. split; [reflexivity|]. split.
      * intros i r Hi Hle. destruct (Nat.eq_dec i (List.length (refs s))) as [->|Hne].
        -- rewrite nth_error_app2 in Hi by lia. rewrite Nat.sub_diag in Hi. cbn in Hi. injection Hi as <-. cbn. auto.
        -- exfalso. assert (H : i < List.length (refs s ++ [{| r_tok := r_tok new; r_read := r_read new; r_write := r_write new;
              r_resolved := find_variable (mvars s) (stack s) (t_name (r_tok new)); r_scope := r_scope new |}])) by (apply nth_error_Some; congruence).
           rewrite app_length in H. cbn in H. lia.
      * destruct (stack s) as [|sc rest]; cbn; auto.
Qed.

Definition env_eq (s s' : st) : Prop := forall name, fv s' name = fv s name.
Definition env_le (s s' : st) : Prop := forall name, name <> "..." -> fv s name <> None -> fv s' name <> None.

Lemma env_eq_le s s' : env_eq s s' -> env_le s s'.
Proof. intros H name _ Hn. rewrite H. exact Hn. Qed.
Lemma env_le_refl s : env_le s s.
Proof. intros name _ H. exact H. Qed.
Lemma env_le_trans a b c : env_le a b -> env_le b c -> env_le a c.
Proof. intros H1 H2 name Hn H. apply H2; auto. Qed.

(** ** reads and writes *)
Lemma step_rw s e s' :
  step s e = Some s' -> (exists t, e = EvRead t) \/ (exists t k, e = EvWrite t k) ->
  env_eq s s' /\ names_prefix (mvars s) (mvars s') /\ refs_mono (refs s) (refs s') /\ head_kept (stack s) (stack s') /\
  next_scope s' = next_scope s /\
  forall i r t, nth_error (refs s') i = Some r -> List.length (refs s) <= i ->
    (e = EvRead t \/ exists k, e = EvWrite t k) -> r_tok r = t /\ r_resolved r = fv s (t_name t).
Proof.
  intros Hs He.
  assert (Hcore : forall s0 new, reference_variable s0 new = Some s' ->
            mvars s0 = mvars s -> stack s0 = stack s -> refs s0 = refs s -> next_scope s0 = next_scope s ->
            env_eq s s' /\ names_prefix (mvars s) (mvars s') /\ refs_mono (refs s) (refs s') /\ head_kept (stack s) (stack s') /\
            next_scope s' = next_scope s /\
            forall i r, nth_error (refs s') i = Some r -> List.length (refs s) <= i ->
              r_tok r = r_tok new /\ r_resolved r = fv s (t_name (r_tok new))).
  { intros s0 new H Ev Est Er En. destruct (reference_variable_facts _ _ _ H) as (Hn & Hsc & Hm & _ & Hnx & Hnew & Hk).
    rewrite Ev, Est, Er in *. split.
    - intros name. unfold fv. symmetry. apply find_variable_ext; auto.
    - split; [exists []; rewrite app_nil_r; exact Hn|]. split; [exact Hm|]. split; [exact Hk|]. split; [congruence|].
      intros i r Hi Hle. destruct (Hnew i r Hi Hle) as [H1 H2]. split; [exact H1|]. unfold fv. exact H2. }
  destruct He as [[t ->]|(t & k & ->)]; cbn [step] in Hs.
  - destruct (existsb _ (captured s)) eqn:Ec.
    + injection Hs as <-. split; [intros name; reflexivity|]. split; [apply names_prefix_refl|]. split; [apply refs_mono_refl|].
      split; [apply head_kept_refl|]. split; [reflexivity|]. intros i r t' Hi Hle _. exfalso.
      assert (i < List.length (refs s)) by (apply nth_error_Some; congruence). lia.
    + destruct (Hcore _ _ Hs eq_refl eq_refl eq_refl eq_refl) as (H1 & H2 & H3 & H4 & H5 & H6).
      repeat (split; [assumption|]). intros i r t' Hi Hle [[= <-]|[k Hk]]; [|discriminate]. apply (H6 i r Hi Hle).
  - destruct (Hcore _ _ Hs eq_refl eq_refl eq_refl eq_refl) as (H1 & H2 & H3 & H4 & H5 & H6).
    repeat (split; [assumption|]). intros i r t' Hi Hle [Hk|[k' [= <- _]]]; [discriminate|]. apply (H6 i r Hi Hle).
Qed.

(** ** define *)
Lemma define_facts s t b sc rest :
  stack s = sc :: rest ->
  let s' := fst (define s t b) in
  names_prefix (mvars s) (mvars s') /\ refs s' = refs s /\ next_scope s' = next_scope s /\ captured s' = captured s /\
  fv s' (t_name t) <> None /\ (forall name, fv s name <> None -> fv s' name <> None) /\
  exists sc', stack s' = sc' :: rest /\ s_id sc' = s_id sc /\ s_blocked sc' = s_blocked sc.
Proof.
  intros Es. unfold define. cbn [fst Interp.vars refs next_scope captured stack].
  set (v := {| v_tok := t; v_shadowed := find_variable (mvars s) (stack s) (t_name t); v_self := b; v_refs := [] |}).
  assert (Hpre : names_prefix (mvars s) (mvars s ++ [v])) by (exists [t_name t]; unfold vnames; rewrite map_app; reflexivity).
  split; [exact Hpre|]. split; [reflexivity|]. split; [reflexivity|]. split; [reflexivity|].
  assert (Hnew : forall name, var_name_is (mvars s ++ [v]) name (N.of_nat (List.length (mvars s))) = str_eqb (t_name t) name).
  { intros name. unfold var_name_is. rewrite Nnat.Nat2N.id, nth_error_app2 by lia. rewrite Nat.sub_diag. reflexivity. }
  rewrite Es. cbn [push_var_to_scope]. unfold fv. cbn [stack Interp.vars]. rewrite Es. split; [|split].
  - cbn [find_variable]. unfold in_scope. cbn [s_vars find]. rewrite Hnew.
    replace (str_eqb (t_name t) (t_name t)) with true by (symmetry; apply str_eqb_eq; reflexivity). discriminate.
  - intros name. cbn [find_variable]. unfold in_scope. cbn [s_vars s_blocked find]. rewrite Hnew.
    destruct (str_eqb (t_name t) name); [discriminate|].
    destruct (find (var_name_is (mvars s) name) (s_vars sc)) eqn:Fa.
    + intros _. assert (Hb : find (var_name_is (mvars s ++ [v]) name) (s_vars sc) <> None).
      { apply (find_some_mono (var_name_is (mvars s) name)); [intros x; apply var_name_is_prefix; exact Hpre|congruence]. }
      destruct (find (var_name_is (mvars s ++ [v]) name) (s_vars sc)); [discriminate|congruence].
    + destruct (s_blocked sc && str_eqb name "..."); [congruence|].
      intros H. destruct (find (var_name_is (mvars s ++ [v]) name) (s_vars sc)); [discriminate|].
      apply (find_variable_mono (mvars s)); [exact Hpre|exact H].
  - eexists. repeat split.
Qed.

(** ** every step: arena names grow, references are kept *)
Lemma step_mono s e s' :
  step s e = Some s' -> names_prefix (mvars s) (mvars s') /\ refs_mono (refs s) (refs s').
Proof.
  destruct e; cbn [step].
  - intros [= <-]. split; [apply names_prefix_refl|apply refs_mono_refl].
  - destruct (stack s) as [|x [|y r]]; try discriminate. intros [= <-]. split; [apply names_prefix_refl|apply refs_mono_refl].
  - intros H. destruct (step_rw s (EvRead t) s' H) as (_ & H1 & H2 & _); [left; eauto|]. auto.
  - intros H. destruct (step_rw s (EvWrite t k) s' H) as (_ & H1 & H2 & _); [right; eauto|]. auto.
  - intros [= <-]. unfold define. cbn. split; [exists [t_name t]; unfold vnames; rewrite map_app; reflexivity|apply refs_mono_refl].
  - destruct (stack s) as [|sc rest] eqn:Es; [discriminate|].
    destruct (s_refs sc) as [|rid rr]; [discriminate|].
    destruct (nth_error (refs s) (N.to_nat rid)) as [r|]; [|discriminate].
    destruct (find_variable (mvars s) (sc :: rest) (t_name (r_tok r))).
    + intros [= <-]. split; [apply names_prefix_refl|apply refs_mono_refl].
    + unfold define. cbn [fst snd Interp.vars refs]. intros [= <-]. cbn [Interp.vars refs]. split.
      * exists [t_name (r_tok r)]. unfold vnames. rewrite map_app. reflexivity.
      * apply refs_mono_map. intros r0. destruct (_ && _ && _); cbn; split; auto; discriminate.
Qed.

Lemma run_mono evs : forall s s', run s evs = Some s' -> names_prefix (mvars s) (mvars s') /\ refs_mono (refs s) (refs s').
Proof.
  induction evs as [|e r IH]; intros s s'; cbn [run].
  - intros [= <-]. split; [apply names_prefix_refl|apply refs_mono_refl].
  - destruct (step s e) as [s1|] eqn:E; [|discriminate]. intros H. destruct (step_mono _ _ _ E) as [A B].
    destruct (IH _ _ H) as [C D]. split; [eapply names_prefix_trans; eauto|eapply refs_mono_trans; eauto].
Qed.

(** ** the part of the stack below where a balanced segment starts is untouched *)
Lemma run_tail evs : forall s s' pre rest k,
  stack s = pre ++ rest -> pre <> [] -> depth_after (List.length pre) evs = Some k ->
  run s evs = Some s' -> exists pre', stack s' = pre' ++ rest /\ List.length pre' = k /\ pre' <> [].
Proof.
  induction evs as [|e r IH]; intros s s' pre rest k Hst Hne Hd Hrun; cbn [run depth_after] in *.
  - injection Hrun as <-. injection Hd as <-. exists pre. auto.
  - destruct (step s e) as [s1|] eqn:Es; [|discriminate].
    destruct pre as [|p0 pre0]; [congruence|].
    assert (Hquiet : forall pre1, stack s1 = pre1 ++ rest -> List.length pre1 = List.length (p0 :: pre0) -> pre1 <> [] ->
                     depth_after (List.length (p0 :: pre0)) r = Some k -> exists pre', stack s' = pre' ++ rest /\ List.length pre' = k /\ pre' <> []).
    { intros pre1 H1 H2 H3 H4. apply (IH s1 s' pre1 rest k H1 H3); [rewrite H2; exact H4|exact Hrun]. }
    destruct e; cbn [step] in Es.
    + injection Es as <-. refine (IH _ s' ({| s_id := next_scope s; s_vars := []; s_refs := []; s_blocked := barrier |} :: p0 :: pre0) rest k _ _ Hd Hrun);
        [cbn [stack]; rewrite Hst; reflexivity|discriminate].
    + cbn [List.length] in Hd. destruct pre0 as [|p1 pre1]; [discriminate|].
      rewrite Hst in Es. cbn [app] in Es. injection Es as <-.
      refine (IH _ s' (p1 :: pre1) rest k _ _ Hd Hrun); [reflexivity|discriminate].
    + destruct (step_rw s (EvRead t) s1) as (_ & _ & _ & Hk & _); [cbn [step]; exact Es|left; eauto|].
      rewrite Hst in Hk. cbn [app] in Hk. unfold head_kept in Hk. destruct (stack s1) as [|q qs] eqn:E1; [contradiction|].
      destruct Hk as [-> _]. apply (Hquiet (q :: pre0)); [reflexivity|reflexivity|discriminate|exact Hd].
    + destruct (step_rw s (EvWrite t k0) s1) as (_ & _ & _ & Hk & _); [cbn [step]; exact Es|right; eauto|].
      rewrite Hst in Hk. cbn [app] in Hk. unfold head_kept in Hk. destruct (stack s1) as [|q qs] eqn:E1; [contradiction|].
      destruct Hk as [-> _]. apply (Hquiet (q :: pre0)); [reflexivity|reflexivity|discriminate|exact Hd].
    + injection Es as <-.
      destruct (define_facts s t is_self p0 (pre0 ++ rest) Hst) as (_ & _ & _ & _ & _ & _ & sc' & Hs1 & _).
      apply (Hquiet (sc' :: pre0)); [exact Hs1|reflexivity|discriminate|exact Hd].
    + rewrite Hst in Es. cbn [app] in Es.
      destruct (s_refs p0) as [|rid rr]; [discriminate|].
      destruct (nth_error (refs s) (N.to_nat rid)) as [rf|]; [|discriminate].
      destruct (find_variable (mvars s) (p0 :: pre0 ++ rest) (t_name (r_tok rf))).
      * injection Es as <-. apply (Hquiet (p0 :: pre0)); [exact Hst|reflexivity|discriminate|exact Hd].
      * destruct (define_facts s (r_tok rf) false p0 (pre0 ++ rest) Hst) as (_ & _ & _ & _ & _ & _ & sc' & Hs1 & _).
        destruct (define s (r_tok rf) false) as [sd vid] eqn:Ed. cbn [fst] in Hs1. injection Es as <-.
        cbn [stack]. apply (Hquiet (sc' :: pre0)); [exact Hs1|reflexivity|discriminate|exact Hd].
Qed.

(** ** the remaining events *)
Lemma step_open s b s' : step s (EvOpen b) = Some s' ->
  env_le s s' /\ refs s' = refs s /\ mvars s' = mvars s /\ stack s' = {| s_id := next_scope s; s_vars := []; s_refs := []; s_blocked := b |} :: stack s.
Proof.
  cbn [step]. intros [= <-]. cbn [refs Interp.vars stack]. repeat split.
  intros name Hn H. unfold fv in *. cbn [stack Interp.vars find_variable]. unfold in_scope. cbn [s_vars find s_blocked].
  destruct b; cbn [andb]; [|exact H].
  destruct (str_eqb name "...") eqn:E; [apply str_eqb_eq in E; congruence|exact H].
Qed.

Lemma step_define s t b s' sc rest : step s (EvDefine t b) = Some s' -> stack s = sc :: rest ->
  fv s' (t_name t) <> None /\ (forall name, fv s name <> None -> fv s' name <> None) /\ refs s' = refs s.
Proof.
  cbn [step]. intros [= <-] Hst. destruct (define_facts s t b sc rest Hst) as (_ & Hr & _ & _ & H1 & H2 & _). auto.
Qed.

Lemma step_hoist s s' : step s EvHoist = Some s' ->
  (forall name, fv s name <> None -> fv s' name <> None) /\ List.length (refs s') = List.length (refs s).
Proof.
  cbn [step]. destruct (stack s) as [|sc rest] eqn:Es; [discriminate|].
  destruct (s_refs sc) as [|rid rr]; [discriminate|].
  destruct (nth_error (refs s) (N.to_nat rid)) as [r|]; [|discriminate].
  destruct (find_variable (mvars s) (sc :: rest) (t_name (r_tok r))).
  - intros [= <-]. auto.
  - destruct (define_facts s (r_tok r) false sc rest Es) as (_ & Hr & _ & _ & _ & H2 & _).
    destruct (define s (r_tok r) false) as [sd vid] eqn:Ed. cbn [fst] in *. intros [= <-].
    split; [|cbn [refs]; rewrite map_length, Hr; reflexivity].
    intros name H. specialize (H2 name H). unfold fv in *. cbn [Interp.vars stack]. exact H2.
Qed.

(** quiet traces (no open / close) never lose a visible name *)
Lemma run_quiet_env evs : quiet evs -> forall s s', stack s <> [] -> run s evs = Some s' ->
  (forall name, fv s name <> None -> fv s' name <> None) /\ stack s' <> [].
Proof.
  induction 1 as [|e r He _ IH]; intros s s' Hne; cbn [run].
  - intros [= <-]. auto.
  - destruct (step s e) as [s1|] eqn:Es; [|discriminate]. intros Hrun.
    destruct (stack s) as [|sc rest] eqn:Est; [congruence|].
    assert (H1 : (forall name, fv s name <> None -> fv s1 name <> None) /\ stack s1 <> []).
    { destruct e; try contradiction.
      - destruct (step_rw _ _ _ Es) as (He1 & _ & _ & Hk & _); [left; eauto|]. split; [intros name H; rewrite He1; exact H|].
        rewrite Est in Hk. unfold head_kept in Hk. destruct (stack s1); [contradiction|discriminate].
      - destruct (step_rw _ _ _ Es) as (He1 & _ & _ & Hk & _); [right; eauto|]. split; [intros name H; rewrite He1; exact H|].
        rewrite Est in Hk. unfold head_kept in Hk. destruct (stack s1); [contradiction|discriminate].
      - destruct (step_define _ _ _ _ _ _ Es Est) as (_ & H2 & _). split; [exact H2|].
        pose proof (step_depth _ _ _ Es) as Hd. rewrite Est in Hd. cbn in Hd. injection Hd as Hd.
        destruct (stack s1); [discriminate|discriminate].
      - destruct (step_hoist _ _ Es) as [H2 _]. split; [exact H2|].
        pose proof (step_depth _ _ _ Es) as Hd. rewrite Est in Hd. cbn in Hd. injection Hd as Hd.
        destruct (stack s1); [discriminate|discriminate]. }
    destruct H1 as [H1 Hne1]. destruct (IH s1 s' Hne1 Hrun) as [H2 H3]. split; [intros name H; auto|exact H3].
Qed.
