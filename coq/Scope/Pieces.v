(** Lifting the function-expression restriction, part 1: an expression seen as a sequence of pieces -
    identifier tokens and function bodies - in Lua's order (L) and in the order selene's generic
    traversal meets them (W). *)
From Selene Require Export Scope.Tokens.

Inductive piece := PTok (t : tok) (va : bool) | PFn (b : funcbody).

Definition piece_lev (p : piece) : list lev := match p with PTok t va => [LOcc t OUse va] | PFn b => L_funcbody None b end.
Definition piece_ev (p : piece) : list ev := match p with PTok t _ => [EvRead t] | PFn b => W_funcbody b end.
Definition tokp (x : tok * bool) : piece := PTok (fst x) (snd x).

(** Lua order *)
Fixpoint lp_expr (e : expr) : list piece :=
  match e with
  | EParen e' => lp_expr e'
  | EUnop _ e' => lp_expr e'
  | EBinop _ l r => lp_expr l ++ lp_expr r
  | EFunction b => [PFn b]
  | ECall c => lp_fcall c
  | ETable fs => lp_fields fs
  | EVararg t => [PTok t true]
  | EVar v => lp_var v
  | _ => []
  end
with lp_var (v : var) : list piece :=
  match v with VName t => [PTok t false] | VExpr p ss _ => lp_prefix p ++ lp_suffixes ss end
with lp_prefix (p : prefix) : list piece :=
  match p with PName t => [PTok t false] | PExpr e => lp_expr e end
with lp_suffixes (ss : suffixes) : list piece :=
  match ss with SsNil => [] | SsCons s r => lp_suffix s ++ lp_suffixes r end
with lp_suffix (s : suffix) : list piece :=
  match s with SfxCall c => lp_call c | SfxIndex i => lp_index i end
with lp_call (c : call) : list piece :=
  match c with CAnon a => lp_args a | CMethod _ a => lp_args a end
with lp_args (a : args) : list piece :=
  match a with AParens es => lp_exprs es | AString _ => [] | ATable fs => lp_fields fs end
with lp_index (i : index) : list piece :=
  match i with IBrackets e => lp_expr e | IDot _ => [] end
with lp_fields (fs : fields) : list piece :=
  match fs with FsNil => [] | FsCons f r => lp_field f ++ lp_fields r end
with lp_field (f : field) : list piece :=
  match f with
  | FExprKey k v => lp_expr k ++ lp_expr v
  | FNameKey _ v => lp_expr v
  | FNoKey v => lp_expr v
  end
with lp_exprs (es : exprs) : list piece :=
  match es with EsNil => [] | EsCons e r => lp_expr e ++ lp_exprs r end
with lp_fcall (c : fcall) : list piece :=
  match c with FCall p ss _ => lp_prefix p ++ lp_suffixes ss end.

(** W order: re-reads of tokens and the function bodies *)
Definition lp_function_args (a : args) : list piece :=
  match a with AParens es => map tokp (toks_exprs es) | _ => [] end.

Fixpoint wp_expr (e : expr) : list piece :=
  match e with
  | EParen e' => wp_expr e'
  | EUnop _ e' => wp_expr e'
  | EBinop _ l r => wp_expr l ++ wp_expr r
  | EFunction b => [PFn b]
  | ECall c => wp_fcall c
  | ETable fs => wp_fields fs
  | EVar v => wp_var v
  | _ => []
  end
with wp_var (v : var) : list piece :=
  match v with VName _ => [] | VExpr p ss _ => wp_prefix p ++ wp_suffixes ss end
with wp_prefix (p : prefix) : list piece :=
  match p with PName _ => [] | PExpr e => wp_expr e end
with wp_suffixes (ss : suffixes) : list piece :=
  match ss with SsNil => [] | SsCons s r => wp_suffix s ++ wp_suffixes r end
with wp_suffix (s : suffix) : list piece :=
  match s with
  | SfxCall c => map tokp (toks_call c) ++ wp_call c
  | SfxIndex i => map tokp (toks_index i) ++ wp_index i
  end
with wp_call (c : call) : list piece :=
  match c with CAnon a => lp_function_args a ++ wp_args a | CMethod _ a => lp_function_args a ++ wp_args a end
with wp_args (a : args) : list piece :=
  match a with AParens es => wp_exprs es | AString _ => [] | ATable fs => wp_fields fs end
with wp_index (i : index) : list piece :=
  match i with IBrackets e => wp_expr e | IDot _ => [] end
with wp_fields (fs : fields) : list piece :=
  match fs with FsNil => [] | FsCons f r => wp_field f ++ wp_fields r end
with wp_field (f : field) : list piece :=
  match f with
  | FExprKey k v => wp_expr k ++ wp_expr v
  | FNameKey _ v => wp_expr v
  | FNoKey v => wp_expr v
  end
with wp_exprs (es : exprs) : list piece :=
  match es with EsNil => [] | EsCons e r => wp_expr e ++ wp_exprs r end
with wp_fcall (c : fcall) : list piece :=
  match c with FCall p ss _ => map tokp (toks_prefix p) ++ wp_prefix p ++ wp_suffixes ss end.

Lemma flat_map_tokp_ev ts : flat_map piece_ev (map tokp ts) = map rd ts.
Proof. induction ts as [|x r IH]; cbn; [reflexivity|]. f_equal. exact IH. Qed.

Ltac fam_simpl :=
  cbn [L_expr L_var L_prefix L_suffix L_suffixes L_call L_args L_index L_fields L_field L_exprs L_fcall
       W_expr W_var W_prefix W_suffix W_suffixes W_call W_args W_index W_fields W_field W_exprs W_fcall R_function_args
       lp_expr lp_var lp_prefix lp_suffix lp_suffixes lp_call lp_args lp_index lp_fields lp_field lp_exprs lp_fcall
       wp_expr wp_var wp_prefix wp_suffix wp_suffixes wp_call wp_args wp_index wp_fields wp_field wp_exprs wp_fcall
       toks_expr toks_var toks_prefix toks_suffix toks_suffixes toks_call toks_args toks_index toks_fields toks_field
       toks_exprs toks_fcall lp_function_args flat_map piece_lev piece_ev map app].

Lemma L_pieces :
  (forall e, L_expr e = flat_map piece_lev (lp_expr e)) /\ (forall v, L_var v OUse = flat_map piece_lev (lp_var v)) /\
  (forall p, L_prefix p OUse = flat_map piece_lev (lp_prefix p)) /\ (forall s, L_suffix s = flat_map piece_lev (lp_suffix s)) /\
  (forall ss, L_suffixes ss = flat_map piece_lev (lp_suffixes ss)) /\ (forall c, L_call c = flat_map piece_lev (lp_call c)) /\
  (forall a, L_args a = flat_map piece_lev (lp_args a)) /\ (forall i, L_index i = flat_map piece_lev (lp_index i)) /\
  (forall fs, L_fields fs = flat_map piece_lev (lp_fields fs)) /\ (forall f, L_field f = flat_map piece_lev (lp_field f)) /\
  (forall es, L_exprs es = flat_map piece_lev (lp_exprs es)) /\ (forall c, L_fcall c = flat_map piece_lev (lp_fcall c)).
Proof.
  apply expr_family_ind; intros; fam_simpl; rewrite ?flat_map_app, ?app_nil_r; try congruence; reflexivity.
Qed.

Lemma W_pieces :
  (forall e, W_expr e = flat_map piece_ev (wp_expr e)) /\ (forall v, W_var v = flat_map piece_ev (wp_var v)) /\
  (forall p, W_prefix p = flat_map piece_ev (wp_prefix p)) /\ (forall s, W_suffix s = flat_map piece_ev (wp_suffix s)) /\
  (forall ss, W_suffixes ss = flat_map piece_ev (wp_suffixes ss)) /\ (forall c, W_call c = flat_map piece_ev (wp_call c)) /\
  (forall a, W_args a = flat_map piece_ev (wp_args a)) /\ (forall i, W_index i = flat_map piece_ev (wp_index i)) /\
  (forall fs, W_fields fs = flat_map piece_ev (wp_fields fs)) /\ (forall f, W_field f = flat_map piece_ev (wp_field f)) /\
  (forall es, W_exprs es = flat_map piece_ev (wp_exprs es)) /\ (forall c, W_fcall c = flat_map piece_ev (wp_fcall c)).
Proof.
  destruct R_toks as (Re & Rv & Rp & Rsx & Rss & Rc & Ra & Ri & Rfs & Rf & Res & Rfc).
  apply expr_family_ind; intros; fam_simpl; rewrite ?flat_map_app, ?flat_map_tokp_ev, ?app_nil_r; try congruence; try reflexivity.
  all: try (rewrite ?Rc, ?Ri, ?Rp; congruence).
  all: destruct a; cbn [R_function_args lp_function_args flat_map app]; rewrite ?flat_map_tokp_ev, ?Res; fam_simpl.
  all: try congruence.
  all: cbn [W_args wp_args] in H; congruence.
Qed.

(** every token R reads is a token piece of the Lua order *)
Definition tsub (ts : list (tok * bool)) (lp : list piece) : Prop := forall x, In x ts -> In (tokp x) lp.

Lemma tsub_app a b la lb : tsub a la -> tsub b lb -> tsub (a ++ b) (la ++ lb).
Proof. intros Ha Hb x Hx. apply in_app_iff in Hx. apply in_app_iff. destruct Hx; [left; auto|right; auto]. Qed.
Lemma tsub_nil lp : tsub [] lp. Proof. intros x []. Qed.

Lemma toks_in_lp :
  (forall e, tsub (toks_expr e) (lp_expr e)) /\ (forall v, tsub (toks_var v) (lp_var v)) /\
  (forall p, tsub (toks_prefix p) (lp_prefix p)) /\ (forall s, tsub (toks_suffix s) (lp_suffix s)) /\
  (forall ss, tsub (toks_suffixes ss) (lp_suffixes ss)) /\ (forall c, tsub (toks_call c) (lp_call c)) /\
  (forall a, tsub (toks_args a) (lp_args a)) /\ (forall i, tsub (toks_index i) (lp_index i)) /\
  (forall fs, tsub (toks_fields fs) (lp_fields fs)) /\ (forall f, tsub (toks_field f) (lp_field f)) /\
  (forall es, tsub (toks_exprs es) (lp_exprs es)) /\ (forall c, tsub (toks_fcall c) (lp_fcall c)).
Proof.
  apply expr_family_ind; intros; fam_simpl; try apply tsub_nil; try assumption; try (apply tsub_app; assumption).
  all: intros x [<-|[]]; left; reflexivity.
Qed.

(** what W meets is a token R reads or a function body of the Lua order *)
Definition psub (wp : list piece) (ts : list (tok * bool)) (lp : list piece) : Prop :=
  forall p, In p wp -> match p with PTok t va => In (t, va) ts | PFn b => In (PFn b) lp end.

Lemma psub_nil ts lp : psub [] ts lp. Proof. intros p []. Qed.
Lemma psub_app a b ta tb la lb : psub a ta la -> psub b tb lb -> psub (a ++ b) (ta ++ tb) (la ++ lb).
Proof.
  intros Ha Hb p Hp. apply in_app_iff in Hp. destruct Hp as [Hp|Hp]; [specialize (Ha p Hp)|specialize (Hb p Hp)];
    destruct p; apply in_app_iff; auto.
Qed.
Lemma psub_toks ts lp : psub (map tokp ts) ts lp.
Proof. intros p Hp. apply in_map_iff in Hp as ([t va] & <- & Hx). exact Hx. Qed.
Lemma psub_dup a b ts lp : psub a ts lp -> psub b ts lp -> psub (a ++ b) ts lp.
Proof. intros Ha Hb p Hp. apply in_app_iff in Hp. destruct Hp as [Hp|Hp]; [apply (Ha p Hp)|apply (Hb p Hp)]. Qed.

Lemma wp_in :
  (forall e, psub (wp_expr e) (toks_expr e) (lp_expr e)) /\ (forall v, psub (wp_var v) (toks_var v) (lp_var v)) /\
  (forall p, psub (wp_prefix p) (toks_prefix p) (lp_prefix p)) /\ (forall s, psub (wp_suffix s) (toks_suffix s) (lp_suffix s)) /\
  (forall ss, psub (wp_suffixes ss) (toks_suffixes ss) (lp_suffixes ss)) /\ (forall c, psub (wp_call c) (toks_call c) (lp_call c)) /\
  (forall a, psub (wp_args a) (toks_args a) (lp_args a)) /\ (forall i, psub (wp_index i) (toks_index i) (lp_index i)) /\
  (forall fs, psub (wp_fields fs) (toks_fields fs) (lp_fields fs)) /\ (forall f, psub (wp_field f) (toks_field f) (lp_field f)) /\
  (forall es, psub (wp_exprs es) (toks_exprs es) (lp_exprs es)) /\ (forall c, psub (wp_fcall c) (toks_fcall c) (lp_fcall c)).
Proof.
  apply expr_family_ind; intros; fam_simpl; try apply psub_nil; try assumption; try (apply psub_app; assumption).
  - (* function *) intros p [<-|[]]. left. reflexivity.
  - (* call suffix *) apply psub_dup; [apply psub_toks|assumption].
  - apply psub_dup; [apply psub_toks|assumption].
  - destruct a; cbn [lp_function_args toks_args lp_args wp_args] in *; try assumption. apply psub_dup; [apply psub_toks|assumption].
  - destruct a; cbn [lp_function_args toks_args lp_args wp_args] in *; try assumption. apply psub_dup; [apply psub_toks|assumption].
  - (* fcall *) rewrite app_assoc. apply psub_app; [|assumption]. apply psub_dup; [apply psub_toks|assumption].
Qed.
