(** The state machine behind ScopeVisitor: scope stack, reference and variable arenas,
    captured_references.  [None] = one of the visitor's asserts / unwraps fires. *)
From Selene Require Export Scope.Events.
Open Scope N_scope.

Record rref := { r_tok : tok; r_read : bool; r_write : option wkind; r_resolved : option N; r_scope : N }.
Record rvar := { v_tok : tok; v_shadowed : option N; v_self : bool; v_refs : list N }.
Record scope := { s_id : N; s_vars : list N; s_refs : list N; s_blocked : bool }.   (* newest first *)
Record st := { refs : list rref; vars : list rvar; stack : list scope; next_scope : N; captured : list range }.

Definition init_st : st :=
  {| refs := []; vars := []; stack := [{| s_id := 0; s_vars := []; s_refs := []; s_blocked := false |}];
     next_scope := 1; captured := [] |}.

Definition range_eq (a b : range) : bool := (fst a =? fst b) && (snd a =? snd b).
Definition tok_range_eq (a b : tok) : bool := range_eq (t_range a) (t_range b).

Definition var_name_is (vs : list rvar) (name : string) (id : N) : bool :=
  match nth_error vs (N.to_nat id) with Some v => str_eqb (t_name (v_tok v)) name | None => false end.

(** variable_in_scope + find_variable *)
Inductive lookup_res := LFound (id : N) | LBlocked | LNotFound.

Definition in_scope (vs : list rvar) (sc : scope) (name : string) : lookup_res :=
  match find (var_name_is vs name) (s_vars sc) with
  | Some id => LFound id
  | None => if s_blocked sc && str_eqb name "..." then LBlocked else LNotFound
  end.

Fixpoint find_variable (vs : list rvar) (stk : list scope) (name : string) : option N :=
  match stk with
  | [] => None
  | sc :: rest =>
      match in_scope vs sc name with
      | LFound id => Some id
      | LBlocked => None
      | LNotFound => find_variable vs rest name
      end
  end.

Definition set_nth {A} (n : nat) (f : A -> A) (l : list A) : list A :=
  (fix go (n : nat) (l : list A) :=
     match l with
     | [] => []
     | x :: r => match n with O => f x :: r | S n' => x :: go n' r end
     end) n l.

Definition push_var_to_scope (id : N) (stk : list scope) : list scope :=
  match stk with
  | [] => []
  | sc :: rest => {| s_id := s_id sc; s_vars := id :: s_vars sc; s_refs := s_refs sc; s_blocked := s_blocked sc |} :: rest
  end.
Definition push_ref_to_scope (id : N) (stk : list scope) : list scope :=
  match stk with
  | [] => []
  | sc :: rest => {| s_id := s_id sc; s_vars := s_vars sc; s_refs := id :: s_refs sc; s_blocked := s_blocked sc |} :: rest
  end.

(** define_name_full_with_variable *)
Definition define (s : st) (t : tok) (is_self : bool) : st * N :=
  let id := N.of_nat (List.length (vars s)) in
  let v := {| v_tok := t; v_shadowed := find_variable (vars s) (stack s) (t_name t); v_self := is_self; v_refs := [] |} in
  ({| refs := refs s; vars := vars s ++ [v]; stack := push_var_to_scope id (stack s);
      next_scope := next_scope s; captured := captured s |}, id).

Definition cur_scope_id (s : st) : N := match stack s with sc :: _ => s_id sc | [] => 0 end.

Fixpoint find_index {A} (p : A -> bool) (l : list A) (i : nat) : option nat :=
  match l with [] => None | x :: r => if p x then Some i else find_index p r (S i) end.

(** reference_variable *)
Definition reference_variable (s : st) (new : rref) : option st :=
  let name := t_name (r_tok new) in
  match find_index (fun r => str_eqb (t_name (r_tok r)) name && tok_range_eq (r_tok r) (r_tok new)
                             && (r_scope r =? r_scope new)) (refs s) O with
  | Some i =>
      (* Reference::merge *)
      match nth_error (refs s) i with
      | None => None
      | Some old =>
          match r_write new, r_write old with
          | Some _, Some _ => None                       (* assert!(self.write.is_none()) *)
          | _, _ =>
              let merged := {| r_tok := r_tok old; r_read := r_read old || r_read new;
                               r_write := match r_write new with Some w => Some w | None => r_write old end;
                               r_resolved := r_resolved old; r_scope := r_scope old |} in
              Some {| refs := set_nth i (fun _ => merged) (refs s); vars := vars s; stack := stack s;
                      next_scope := next_scope s; captured := captured s |}
          end
      end
  | None =>
      let rid := N.of_nat (List.length (refs s)) in
      let resolved := find_variable (vars s) (stack s) name in
      let r := {| r_tok := r_tok new; r_read := r_read new; r_write := r_write new;
                  r_resolved := resolved; r_scope := r_scope new |} in
      let vars' := match resolved with
                   | Some vid => set_nth (N.to_nat vid)
                                   (fun v => {| v_tok := v_tok v; v_shadowed := v_shadowed v; v_self := v_self v;
                                                v_refs := v_refs v ++ [rid] |}) (vars s)
                   | None => vars s end in
      Some {| refs := refs s ++ [r]; vars := vars'; stack := push_ref_to_scope rid (stack s);
              next_scope := next_scope s; captured := captured s |}
  end.

Definition step (s : st) (e : ev) : option st :=
  match e with
  | EvOpen b =>
      Some {| refs := refs s; vars := vars s;
              stack := {| s_id := next_scope s; s_vars := []; s_refs := []; s_blocked := b |} :: stack s;
              next_scope := next_scope s + 1; captured := captured s |}
  | EvClose =>
      match stack s with
      | _ :: (sc :: rest) => Some {| refs := refs s; vars := vars s; stack := sc :: rest;
                                     next_scope := next_scope s; captured := captured s |}
      | _ => None                                        (* "close_scope popped off the last of the stack" *)
      end
  | EvRead t =>
      if existsb (range_eq (t_range t)) (captured s) then Some s
      else reference_variable
             {| refs := refs s; vars := vars s; stack := stack s; next_scope := next_scope s;
                captured := t_range t :: captured s |}
             {| r_tok := t; r_read := true; r_write := None; r_resolved := None; r_scope := cur_scope_id s |}
  | EvWrite t k =>
      reference_variable s {| r_tok := t; r_read := false; r_write := Some k; r_resolved := None;
                              r_scope := cur_scope_id s |}
  | EvDefine t is_self => Some (fst (define s t is_self))
  | EvHoist =>
      match stack s with
      | sc :: _ =>
          match s_refs sc with
          | [] => None                                   (* references.last().unwrap() *)
          | rid :: _ =>
              match nth_error (refs s) (N.to_nat rid) with
              | None => None
              | Some r =>
                  let name := t_name (r_tok r) in
                  match find_variable (vars s) (stack s) name with
                  | Some _ => Some s
                  | None =>
                      let '(s', vid) := define s (r_tok r) false in
                      Some {| refs := map (fun r' => if r_read r' && str_eqb (t_name (r_tok r')) name
                                                        && match r_resolved r' with None => true | Some _ => false end
                                                     then {| r_tok := r_tok r'; r_read := r_read r'; r_write := r_write r';
                                                             r_resolved := Some vid; r_scope := r_scope r' |}
                                                     else r') (refs s');
                              vars := vars s'; stack := stack s'; next_scope := next_scope s'; captured := captured s' |}
                  end
              end
          end
      | [] => None
      end
  end.

Fixpoint run (s : st) (evs : list ev) : option st :=
  match evs with
  | [] => Some s
  | e :: r => match step s e with Some s' => run s' r | None => None end
  end.

(** ScopeManager::new: the walk must end with exactly the initial scope on the stack *)
Definition scope_manager (chunk : block) : option st :=
  match run init_st (events_of_chunk chunk) with
  | Some s => match stack s with [_] => Some s | _ => None end      (* "scopes not all popped" *)
  | None => None
  end.
