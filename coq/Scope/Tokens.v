(** Towards the agreement theorem of the scope family: on expressions without function bodies both
    selene's shallow read (R), its generic traversal (W) and Lua's evaluation order (L) are lists of
    token reads; these lemmas expose the lists. *)
From Selene Require Export Scope.Interp Scope.Spec.

(** tokens in the order R reads them; the flag says "this is a `...`" *)
Fixpoint toks_expr (e : expr) : list (tok * bool) :=
  match e with
  | EParen e' => toks_expr e'
  | EUnop _ e' => toks_expr e'
  | EBinop _ l r => toks_expr l ++ toks_expr r
  | ECall c => toks_fcall c
  | ETable fs => toks_fields fs
  | EVararg t => [(t, true)]
  | EVar v => toks_var v
  | _ => []
  end
with toks_var (v : var) : list (tok * bool) :=
  match v with VName t => [(t, false)] | VExpr p ss _ => toks_prefix p ++ toks_suffixes ss end
with toks_prefix (p : prefix) : list (tok * bool) :=
  match p with PName t => [(t, false)] | PExpr e => toks_expr e end
with toks_suffixes (ss : suffixes) : list (tok * bool) :=
  match ss with SsNil => [] | SsCons s r => toks_suffix s ++ toks_suffixes r end
with toks_suffix (s : suffix) : list (tok * bool) :=
  match s with SfxCall c => toks_call c | SfxIndex i => toks_index i end
with toks_call (c : call) : list (tok * bool) :=
  match c with CAnon a => toks_args a | CMethod _ a => toks_args a end
with toks_args (a : args) : list (tok * bool) :=
  match a with AParens es => toks_exprs es | AString _ => [] | ATable fs => toks_fields fs end
with toks_index (i : index) : list (tok * bool) :=
  match i with IBrackets e => toks_expr e | IDot _ => [] end
with toks_fields (fs : fields) : list (tok * bool) :=
  match fs with FsNil => [] | FsCons f r => toks_field f ++ toks_fields r end
with toks_field (f : field) : list (tok * bool) :=
  match f with
  | FExprKey k v => toks_expr k ++ toks_expr v
  | FNameKey _ v => toks_expr v
  | FNoKey v => toks_expr v
  end
with toks_exprs (es : exprs) : list (tok * bool) :=
  match es with EsNil => [] | EsCons e r => toks_expr e ++ toks_exprs r end
with toks_fcall (c : fcall) : list (tok * bool) :=
  match c with FCall p ss _ => toks_prefix p ++ toks_suffixes ss end.

(** no function body inside *)
Fixpoint ff_expr (e : expr) : bool :=
  match e with
  | EFunction _ => false
  | EParen e' => ff_expr e'
  | EUnop _ e' => ff_expr e'
  | EBinop _ l r => ff_expr l && ff_expr r
  | ECall c => ff_fcall c
  | ETable fs => ff_fields fs
  | EVar v => ff_var v
  | _ => true
  end
with ff_var (v : var) : bool :=
  match v with VName _ => true | VExpr p ss _ => ff_prefix p && ff_suffixes ss end
with ff_prefix (p : prefix) : bool :=
  match p with PName _ => true | PExpr e => ff_expr e end
with ff_suffixes (ss : suffixes) : bool :=
  match ss with SsNil => true | SsCons s r => ff_suffix s && ff_suffixes r end
with ff_suffix (s : suffix) : bool :=
  match s with SfxCall c => ff_call c | SfxIndex i => ff_index i end
with ff_call (c : call) : bool :=
  match c with CAnon a => ff_args a | CMethod _ a => ff_args a end
with ff_args (a : args) : bool :=
  match a with AParens es => ff_exprs es | AString _ => true | ATable fs => ff_fields fs end
with ff_index (i : index) : bool :=
  match i with IBrackets e => ff_expr e | IDot _ => true end
with ff_fields (fs : fields) : bool :=
  match fs with FsNil => true | FsCons f r => ff_field f && ff_fields r end
with ff_field (f : field) : bool :=
  match f with
  | FExprKey k v => ff_expr k && ff_expr v
  | FNameKey _ v => ff_expr v
  | FNoKey v => ff_expr v
  end
with ff_exprs (es : exprs) : bool :=
  match es with EsNil => true | EsCons e r => ff_expr e && ff_exprs r end
with ff_fcall (c : fcall) : bool :=
  match c with FCall p ss _ => ff_prefix p && ff_suffixes ss end.

Definition rd (x : tok * bool) : ev := EvRead (fst x).
Definition locc (x : tok * bool) : lev := LOcc (fst x) OUse (snd x).

(** the expression family of the combined induction principle, the other members trivial *)
Section ExprInd.
  Context (Pe : expr -> Prop) (Pv : var -> Prop) (Pp : prefix -> Prop) (Psx : suffix -> Prop)
          (Pss : suffixes -> Prop) (Pc : call -> Prop) (Pa : args -> Prop) (Pi : index -> Prop)
          (Pfs : fields -> Prop) (Pf : field -> Prop) (Pes : exprs -> Prop) (Pfc : fcall -> Prop).
  Context
    (HNil : Pe ENil) (HTrue : Pe ETrue) (HFalse : Pe EFalse) (HNum : forall r, Pe (ENumber r)) (HStr : forall r, Pe (EString r))
    (HVa : forall t, Pe (EVararg t)) (HFun : forall b, Pe (EFunction b))
    (HPar : forall e, Pe e -> Pe (EParen e)) (HUn : forall o e, Pe e -> Pe (EUnop o e))
    (HBin : forall o l r, Pe l -> Pe r -> Pe (EBinop o l r)) (HTab : forall fs, Pfs fs -> Pe (ETable fs))
    (HVar : forall v, Pv v -> Pe (EVar v)) (HCall : forall c, Pfc c -> Pe (ECall c))
    (HVName : forall t, Pv (VName t)) (HVExpr : forall p ss r, Pp p -> Pss ss -> Pv (VExpr p ss r))
    (HPName : forall t, Pp (PName t)) (HPExpr : forall e, Pe e -> Pp (PExpr e))
    (HSfxCall : forall c, Pc c -> Psx (SfxCall c)) (HSfxIndex : forall i, Pi i -> Psx (SfxIndex i))
    (HSsNil : Pss SsNil) (HSsCons : forall s r, Psx s -> Pss r -> Pss (SsCons s r))
    (HCAnon : forall a, Pa a -> Pc (CAnon a)) (HCMethod : forall n a, Pa a -> Pc (CMethod n a))
    (HAParens : forall es, Pes es -> Pa (AParens es)) (HAString : forall r, Pa (AString r)) (HATable : forall fs, Pfs fs -> Pa (ATable fs))
    (HIBr : forall e, Pe e -> Pi (IBrackets e)) (HIDot : forall n, Pi (IDot n))
    (HFsNil : Pfs FsNil) (HFsCons : forall f r, Pf f -> Pfs r -> Pfs (FsCons f r))
    (HFEK : forall k v, Pe k -> Pe v -> Pf (FExprKey k v)) (HFNK : forall n v, Pe v -> Pf (FNameKey n v)) (HFNo : forall v, Pe v -> Pf (FNoKey v))
    (HEsNil : Pes EsNil) (HEsCons : forall e r, Pe e -> Pes r -> Pes (EsCons e r))
    (HFCall : forall p ss r, Pp p -> Pss ss -> Pfc (FCall p ss r)).

  Lemma expr_family_ind :
    (forall e, Pe e) /\ (forall v, Pv v) /\ (forall p, Pp p) /\ (forall s, Psx s) /\ (forall ss, Pss ss) /\
    (forall c, Pc c) /\ (forall a, Pa a) /\ (forall i, Pi i) /\ (forall fs, Pfs fs) /\ (forall f, Pf f) /\
    (forall es, Pes es) /\ (forall c, Pfc c).
  Proof.
    pose proof (ast_mutind Pe Pv Pp Psx Pss Pc Pa Pi Pfs Pf Pes Pfc
                  (fun _ => True) (fun _ => True) (fun _ => True) (fun _ => True) (fun _ => True)
                  (fun _ => True) (fun _ => True) (fun _ => True) (fun _ => True)) as H.
    assert (X : (forall e, Pe e) /\ (forall v, Pv v) /\ (forall p, Pp p) /\ (forall s, Psx s) /\ (forall ss, Pss ss) /\
                (forall c, Pc c) /\ (forall a, Pa a) /\ (forall i, Pi i) /\ (forall fs, Pfs fs) /\ (forall f, Pf f) /\
                (forall es, Pes es) /\ (forall c, Pfc c) /\
                (forall f : funcbody, True) /\ (forall b : block, True) /\ (forall s : stmts, True) /\ (forall s : stmt, True) /\
                (forall v : vars, True) /\ (forall e : elseifs, True) /\ (forall o : olast, True) /\ (forall o : oblock, True) /\
                (forall o : oexpr, True)).
    { apply H; auto. }
    decompose [and] X. repeat split; assumption.
  Qed.
End ExprInd.

Lemma R_toks :
  (forall e, R_expr e = map rd (toks_expr e)) /\ (forall v, R_var v = map rd (toks_var v)) /\
  (forall p, R_prefix p = map rd (toks_prefix p)) /\ (forall s, R_suffix s = map rd (toks_suffix s)) /\
  (forall ss, R_suffixes ss = map rd (toks_suffixes ss)) /\ (forall c, R_call c = map rd (toks_call c)) /\
  (forall a, R_args a = map rd (toks_args a)) /\ (forall i, R_index i = map rd (toks_index i)) /\
  (forall fs, R_fields fs = map rd (toks_fields fs)) /\ (forall f, R_field f = map rd (toks_field f)) /\
  (forall es, R_exprs es = map rd (toks_exprs es)) /\ (forall c, R_fcall c = map rd (toks_fcall c)).
Proof.
  apply expr_family_ind; intros; cbn [R_expr R_var R_prefix R_suffix R_suffixes R_call R_args R_index R_fields R_field
    R_exprs R_fcall toks_expr toks_var toks_prefix toks_suffix toks_suffixes toks_call toks_args toks_index toks_fields
    toks_field toks_exprs toks_fcall map]; rewrite ?map_app; try congruence; reflexivity.
Qed.

Lemma L_toks :
  (forall e, ff_expr e = true -> L_expr e = map locc (toks_expr e)) /\
  (forall v, ff_var v = true -> L_var v OUse = map locc (toks_var v)) /\
  (forall p, ff_prefix p = true -> L_prefix p OUse = map locc (toks_prefix p)) /\
  (forall s, ff_suffix s = true -> L_suffix s = map locc (toks_suffix s)) /\
  (forall ss, ff_suffixes ss = true -> L_suffixes ss = map locc (toks_suffixes ss)) /\
  (forall c, ff_call c = true -> L_call c = map locc (toks_call c)) /\
  (forall a, ff_args a = true -> L_args a = map locc (toks_args a)) /\
  (forall i, ff_index i = true -> L_index i = map locc (toks_index i)) /\
  (forall fs, ff_fields fs = true -> L_fields fs = map locc (toks_fields fs)) /\
  (forall f, ff_field f = true -> L_field f = map locc (toks_field f)) /\
  (forall es, ff_exprs es = true -> L_exprs es = map locc (toks_exprs es)) /\
  (forall c, ff_fcall c = true -> L_fcall c = map locc (toks_fcall c)).
Proof.
  apply expr_family_ind; intros;
    cbn [ff_expr ff_var ff_prefix ff_suffix ff_suffixes ff_call ff_args ff_index ff_fields ff_field ff_exprs ff_fcall] in *;
    try discriminate;
    repeat match goal with H : _ && _ = true |- _ => apply andb_true_iff in H; destruct H end;
    cbn [L_expr L_var L_prefix L_suffix L_suffixes L_call L_args L_index L_fields L_field L_exprs L_fcall
         toks_expr toks_var toks_prefix toks_suffix toks_suffixes toks_call toks_args toks_index toks_fields
         toks_field toks_exprs toks_fcall map]; rewrite ?map_app;
    repeat match goal with H : ?c = true -> _, H' : ?c = true |- _ => specialize (H H') end;
    try congruence; try reflexivity.
Qed.

(** W on function-free expressions re-reads a sub-multiset of what R reads *)
Definition wsub (evs : list ev) (ts : list (tok * bool)) : Prop :=
  exists ws, evs = map rd ws /\ incl ws ts.

Lemma wsub_nil ts : wsub [] ts.
Proof. exists []. split; [reflexivity|intros x []]. Qed.
Lemma wsub_app a b ta tb : wsub a ta -> wsub b tb -> wsub (a ++ b) (ta ++ tb).
Proof.
  intros (wa & -> & Ha) (wb & -> & Hb). exists (wa ++ wb). split; [rewrite map_app; reflexivity|].
  intros x Hx. apply in_app_iff in Hx. apply in_app_iff. destruct Hx; [left; auto|right; auto].
Qed.
Lemma wsub_self ts : wsub (map rd ts) ts.
Proof. exists ts. split; [reflexivity|intros x Hx; exact Hx]. Qed.
Lemma wsub_weaken evs ta tb : wsub evs ta -> incl ta tb -> wsub evs tb.
Proof. intros (w & -> & H) Hi. exists w. split; [reflexivity|intros x Hx; auto]. Qed.
Lemma wsub_dup a b t : wsub a t -> wsub b t -> wsub (a ++ b) t.
Proof.
  intros (wa & -> & Ha) (wb & -> & Hb). exists (wa ++ wb). split; [rewrite map_app; reflexivity|].
  intros x Hx. apply in_app_iff in Hx. destruct Hx; auto.
Qed.

Lemma W_toks :
  (forall e, ff_expr e = true -> wsub (W_expr e) (toks_expr e)) /\
  (forall v, ff_var v = true -> wsub (W_var v) (toks_var v)) /\
  (forall p, ff_prefix p = true -> wsub (W_prefix p) (toks_prefix p)) /\
  (forall s, ff_suffix s = true -> wsub (W_suffix s) (toks_suffix s)) /\
  (forall ss, ff_suffixes ss = true -> wsub (W_suffixes ss) (toks_suffixes ss)) /\
  (forall c, ff_call c = true -> wsub (W_call c) (toks_call c)) /\
  (forall a, ff_args a = true -> wsub (W_args a) (toks_args a)) /\
  (forall i, ff_index i = true -> wsub (W_index i) (toks_index i)) /\
  (forall fs, ff_fields fs = true -> wsub (W_fields fs) (toks_fields fs)) /\
  (forall f, ff_field f = true -> wsub (W_field f) (toks_field f)) /\
  (forall es, ff_exprs es = true -> wsub (W_exprs es) (toks_exprs es)) /\
  (forall c, ff_fcall c = true -> wsub (W_fcall c) (toks_fcall c)).
Proof.
  destruct R_toks as (Re & Rv & Rp & Rsx & Rss & Rc & Ra & Ri & Rfs & Rf & Res & Rfc).
  apply expr_family_ind; intros;
    cbn [ff_expr ff_var ff_prefix ff_suffix ff_suffixes ff_call ff_args ff_index ff_fields ff_field ff_exprs ff_fcall] in *;
    try discriminate;
    repeat match goal with H : _ && _ = true |- _ => apply andb_true_iff in H; destruct H end;
    repeat match goal with H : ?c = true -> _, H' : ?c = true |- _ => specialize (H H') end;
    cbn [W_expr W_var W_prefix W_suffix W_suffixes W_call W_args W_index W_fields W_field W_exprs W_fcall R_function_args
         toks_expr toks_var toks_prefix toks_suffix toks_suffixes toks_call toks_args toks_index toks_fields
         toks_field toks_exprs toks_fcall];
    try apply wsub_nil; try assumption; try (apply wsub_app; assumption).
  - (* SfxCall: R_call c ++ W_call c *) rewrite Rc. apply wsub_dup; [apply wsub_self|assumption].
  - (* SfxIndex *) rewrite Ri. apply wsub_dup; [apply wsub_self|assumption].
  - (* CAnon *) destruct a; cbn [R_function_args toks_args] in *; try assumption.
    rewrite Res. apply wsub_dup; [apply wsub_self|assumption].
  - destruct a; cbn [R_function_args toks_args] in *; try assumption.
    rewrite Res. apply wsub_dup; [apply wsub_self|assumption].
  - (* FCall: R_prefix p ++ W_prefix p ++ W_suffixes ss *)
    rewrite Rp. rewrite app_assoc. apply wsub_app; [|assumption]. apply wsub_dup; [apply wsub_self|assumption].
Qed.
