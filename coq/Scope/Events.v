(** The scope walk of selene (selene-lib/src/ast_util/scopes.rs) as a function from the syntax tree
    to the sequence of primitive operations ScopeVisitor performs, in the order full_moon's Visitor
    drives its hooks.  Two traversals interleave (DESIGN Appendix B):
      R  - the "shallow read" the statement hooks perform (read_expression and friends): it reads
           names through parentheses, operators, table fields, call prefixes/arguments and bracket
           indices, and never enters a function body;
      W  - the generic child traversal, which re-fires visit_function_call / visit_call /
           visit_function_args / visit_index (their reads are de-duplicated by captured_references)
           and is the only thing that walks function bodies and nested statements. *)
From Selene Require Export Lua.Syntax.

Inductive wkind := WAssign | WExtend.

Inductive ev :=
| EvOpen (barrier : bool)               (* open_scope; barrier: `...` is blocked (function body) *)
| EvClose
| EvRead (t : tok)                      (* read_name *)
| EvWrite (t : tok) (k : wkind)         (* write_name_with *)
| EvDefine (t : tok) (is_self : bool)   (* define_name_full_with_variable *)
| EvHoist.                              (* try_hoist *)

(** ---------------- R: shallow reads ---------------- *)
Fixpoint R_expr (e : expr) : list ev :=
  match e with
  | EParen e' => R_expr e'
  | EUnop _ e' => R_expr e'
  | EBinop _ l r => R_expr l ++ R_expr r
  | EFunction _ => []                   (* read_name on the `function` keyword: not an identifier *)
  | ECall c => R_fcall c
  | ETable fs => R_fields fs
  | EVararg t => [EvRead t]
  | EVar v => R_var v
  | _ => []
  end
with R_var (v : var) : list ev :=
  match v with
  | VName t => [EvRead t]
  | VExpr p ss _ => R_prefix p ++ R_suffixes ss       (* adjust_indexing touches no scope state *)
  end
with R_prefix (p : prefix) : list ev :=
  match p with PName t => [EvRead t] | PExpr e => R_expr e end
with R_suffixes (ss : suffixes) : list ev :=
  match ss with SsNil => [] | SsCons s r => R_suffix s ++ R_suffixes r end
with R_suffix (s : suffix) : list ev :=
  match s with
  | SfxCall c => R_call c                (* visit_call *)
  | SfxIndex i => R_index i              (* visit_index *)
  end
with R_call (c : call) : list ev :=
  match c with CAnon a => R_args a | CMethod _ a => R_args a end
with R_args (a : args) : list ev :=
  match a with
  | AParens es => R_exprs es
  | AString _ => []
  | ATable fs => R_fields fs
  end
with R_index (i : index) : list ev :=
  match i with IBrackets e => R_expr e | IDot _ => [] end
with R_fields (fs : fields) : list ev :=
  match fs with FsNil => [] | FsCons f r => R_field f ++ R_fields r end
with R_field (f : field) : list ev :=
  match f with
  | FExprKey k v => R_expr k ++ R_expr v
  | FNameKey _ v => R_expr v
  | FNoKey v => R_expr v
  end
with R_exprs (es : exprs) : list ev :=
  match es with EsNil => [] | EsCons e r => R_expr e ++ R_exprs r end
with R_fcall (c : fcall) : list ev :=
  match c with FCall p ss _ => R_prefix p ++ R_suffixes ss end.

(** visit_function_args: only the parenthesised form reads *)
Definition R_function_args (a : args) : list ev :=
  match a with AParens es => R_exprs es | _ => [] end.

Definition define_params (ps : list param) : list ev :=
  map (fun p => match p with PrmName t => EvDefine t false | PrmEllipsis t => EvDefine t false end) ps.

(** visit_assignment: what is done for one target (after its expression, if any, was read) *)
Definition assign_target (v : var) : list ev :=
  match v with
  | VExpr (PExpr _) _ _ => R_var v
  | VExpr (PName name) ss _ =>
      (match ss with SsNil => [] | SsCons _ _ => R_var v ++ [EvRead name] end) ++ [EvWrite name WAssign]
  | VName name => [EvWrite name WAssign; EvHoist]
  end.

(** visit_assignment: pair the i-th target with the i-th expression *)
Fixpoint assign_hook (vs : vars) (es : exprs) : list ev :=
  match vs with
  | VsNil => []
  | VsCons v vs' =>
      match es with
      | EsNil => assign_target v ++ assign_hook vs' EsNil
      | EsCons e r => R_expr e ++ assign_target v ++ assign_hook vs' r
      end
  end.

(** visit_local_assignment *)
Fixpoint local_hook (names : list tok) (es : exprs) : list ev :=
  match names with
  | [] => []
  | n :: names' =>
      match es with
      | EsNil => EvDefine n false :: local_hook names' EsNil
      | EsCons e r => R_expr e ++ [EvDefine n false; EvWrite n WAssign] ++ local_hook names' r
      end
  end.

Definition oexpr_R (o : oexpr) : list ev := match o with OENone => [] | OESome e => R_expr e end.

(** ---------------- W: the generic traversal with its hooks ---------------- *)
Fixpoint W_expr (e : expr) : list ev :=
  match e with
  | EParen e' => W_expr e'
  | EUnop _ e' => W_expr e'
  | EBinop _ l r => W_expr l ++ W_expr r
  | EFunction b => W_funcbody b
  | ECall c => W_fcall c
  | ETable fs => W_fields fs
  | EVar v => W_var v
  | _ => []
  end
with W_var (v : var) : list ev :=
  match v with
  | VName _ => []
  | VExpr p ss _ => W_prefix p ++ W_suffixes ss
  end
with W_prefix (p : prefix) : list ev :=
  match p with PName _ => [] | PExpr e => W_expr e end
with W_suffixes (ss : suffixes) : list ev :=
  match ss with SsNil => [] | SsCons s r => W_suffix s ++ W_suffixes r end
with W_suffix (s : suffix) : list ev :=
  match s with
  | SfxCall c => R_call c ++ W_call c            (* visit_call, then its children *)
  | SfxIndex i => R_index i ++ W_index i         (* visit_index, then its children *)
  end
with W_call (c : call) : list ev :=
  match c with
  | CAnon a => R_function_args a ++ W_args a     (* visit_function_args, then the arguments *)
  | CMethod _ a => R_function_args a ++ W_args a
  end
with W_args (a : args) : list ev :=
  match a with
  | AParens es => W_exprs es
  | AString _ => []
  | ATable fs => W_fields fs
  end
with W_index (i : index) : list ev :=
  match i with IBrackets e => W_expr e | IDot _ => [] end
with W_fields (fs : fields) : list ev :=
  match fs with FsNil => [] | FsCons f r => W_field f ++ W_fields r end
with W_field (f : field) : list ev :=
  match f with
  | FExprKey k v => W_expr k ++ W_expr v
  | FNameKey _ v => W_expr v
  | FNoKey v => W_expr v
  end
with W_exprs (es : exprs) : list ev :=
  match es with EsNil => [] | EsCons e r => W_expr e ++ W_exprs r end
with W_fcall (c : fcall) : list ev :=
  match c with FCall p ss _ => R_prefix p ++ W_prefix p ++ W_suffixes ss end   (* visit_function_call *)
with W_funcbody (b : funcbody) : list ev :=
  match b with
  | FBody ps blk => [EvOpen true] ++ define_params ps ++ W_block false blk ++ [EvClose]
  end
with W_block (is_else : bool) (b : block) : list ev :=
  match b with
  | Block ss last rng =>
      (* visit_block / visit_block_end: a registered (non-empty) else block closes the previous
         arm's scope, opens its own, and closes it at its end *)
      let juggle := match rng with Some _ => is_else | None => false end in
      (if juggle then [EvClose; EvOpen false] else []) ++
      W_stmts ss ++ W_olast last ++
      (if juggle then [EvClose] else [])
  end
with W_stmts (ss : stmts) : list ev :=
  match ss with StNil => [] | StCons s r => W_stmt s ++ W_stmts r end
with W_stmt (s : stmt) : list ev :=
  match s with
  | SAssign vs es => assign_hook vs es ++ W_vars vs ++ W_exprs es
  | SDo b => [EvOpen false] ++ W_block false b ++ [EvClose]
  | SCallStmt c => W_fcall c
  | SFunction names method body =>
      match names with
      | [] => []
      | base :: rest =>
          let longer := match rest, method with [], None => false | _, _ => true end in
          (if longer then [EvWrite base WExtend] else []) ++ [EvRead base] ++
          (if longer then [] else [EvHoist]) ++
          (match method with
           | Some m => [EvOpen false; EvDefine {| t_name := "self"; t_lo := t_lo m; t_hi := t_hi m |} true]
           | None => [] end) ++
          W_funcbody body ++
          (match method with Some _ => [EvClose] | None => [] end)
      end
  | SGenericFor names es b =>
      R_exprs es ++ [EvOpen false] ++
      flat_map (fun n => [EvDefine n false; EvWrite n WAssign]) names ++
      W_exprs es ++ W_block false b ++ [EvClose]
  | SIf c b elifs els =>
      R_expr c ++ [EvOpen false] ++ W_expr c ++ W_block false b ++
      W_elseifs elifs ++
      (match els with
       | OBNone => [EvClose]
       | OBSome eb => W_block true eb ++
                      (match eb with Block _ _ (Some _) => [] | Block _ _ None => [EvClose] end)
       end)
  | SLocal names es => local_hook names es ++ W_exprs es
  | SLocalFunction name body => [EvDefine name false; EvOpen false] ++ W_funcbody body ++ [EvClose]
  | SNumericFor v start stop step b =>
      [EvOpen false; EvDefine v false; EvWrite v WAssign] ++ R_expr start ++ R_expr stop ++ oexpr_R step ++
      [EvOpen false] ++ W_expr start ++ W_expr stop ++ W_oexpr step ++ W_block false b ++ [EvClose; EvClose]
  | SRepeat b c => [EvOpen false] ++ W_block false b ++ W_expr c ++ R_expr c ++ [EvClose]
  | SWhile c b => R_expr c ++ [EvOpen false] ++ W_expr c ++ W_block false b ++ [EvClose]
  end
with W_vars (vs : vars) : list ev :=
  match vs with VsNil => [] | VsCons v r => W_var v ++ W_vars r end
with W_elseifs (ei : elseifs) : list ev :=
  match ei with
  | EiNil => []
  | EiCons c b r => [EvClose] ++ R_expr c ++ [EvOpen false] ++ W_expr c ++ W_block false b ++ W_elseifs r
  end
with W_olast (l : olast) : list ev :=
  match l with
  | LNone => []
  | LBreak => []
  | LReturn es => R_exprs es ++ W_exprs es
  end
with W_oexpr (o : oexpr) : list ev :=
  match o with OENone => [] | OESome e => W_expr e end.

Definition events_of_chunk (b : block) : list ev := W_block false b.
