(** Lifting the function-expression restriction, part 5: the statement lemmas again, for expressions
    that may contain function bodies. *)
From Selene Require Export Scope.PieceSim.
From Coq Require Import Lia.
Open Scope nat_scope.

(** a Lua trace that consists of the given pieces, occurrence kinds and ctx brackets left free *)
Inductive lmatch : list lev -> list piece -> Prop :=
| lm_nil : lmatch [] []
| lm_tok t k va r ps : lmatch r ps -> lmatch (LOcc t k va :: r) (PTok t va :: ps)
| lm_fn b r ps : lmatch r ps -> lmatch (L_funcbody None b ++ r) (PFn b :: ps)
| lm_push eo ei sp ne r ps : lmatch r ps -> lmatch (LCtxPush eo ei sp ne :: r) ps
| lm_pop r ps : lmatch r ps -> lmatch (LCtxPop :: r) ps.

Lemma lmatch_app a pa b pb : lmatch a pa -> lmatch b pb -> lmatch (a ++ b) (pa ++ pb).
Proof.
  induction 1; intros Hb; cbn [app]; try (constructor; auto); [exact Hb|].
  rewrite <- app_assoc. constructor. auto.
Qed.

Lemma lmatch_pieces ps : lmatch (flat_map piece_lev ps) ps.
Proof.
  induction ps as [|p r IH]; cbn [flat_map]; [constructor|]. destruct p; cbn [piece_lev app]; constructor; exact IH.
Qed.

Lemma lmatch_bracket eo ei sp ne a pa : lmatch a pa -> lmatch ([LCtxPush eo ei sp ne] ++ a ++ [LCtxPop]) pa.
Proof.
  intros H. cbn [app]. constructor. rewrite <- (app_nil_r pa). apply lmatch_app; [exact H|]. constructor. constructor.
Qed.

Definition FnFr (ps : list piece) : Prop := forall b, In (PFn b) ps -> FrE (L_funcbody None b).
Definition FnSim (ps : list piece) : Prop := forall b, In (PFn b) ps -> SimFnV b.

Record LFacts (items : list item) (E : list benv) (ps : list piece) : Prop := {
  lf_avail : avail items E (toks_of ps);
  lf_replay : forall b, In (PFn b) ps -> Replay items E (L_funcbody None b) }.

Lemma LFacts_mono items items' E ps : (forall x, In x items -> In x items') -> LFacts items E ps -> LFacts items' E ps.
Proof. intros Hm [A R]. constructor; [eapply avail_mono; eauto|intros b Hb; eapply replay_mono; eauto]. Qed.

Lemma LFacts_app items E a b : LFacts items E a -> LFacts items E b -> LFacts items E (a ++ b).
Proof.
  intros [A1 R1] [A2 R2]. constructor; [rewrite toks_of_app; apply avail_app; assumption|].
  intros f Hf. apply in_app_iff in Hf. destruct Hf; auto.
Qed.

Lemma lua_match levs ps : lmatch levs ps -> FnFr ps -> forall l,
  let l' := lrun levs l in
  l_env l' = l_env l /\ LFacts (l_items l') (l_env l) ps /\ (forall x, In x (l_items l) -> In x (l_items l')).
Proof.
  induction 1 as [|t k va r ps Hm IH|b r ps Hm IH|eo ei sp ne r ps Hm IH|r ps Hm IH]; intros Hfr l; cbv zeta.
  - split; [reflexivity|]. split; [constructor; [apply avail_nil|intros b []]|auto].
  - cbn [fold_left]. destruct (lstep_occ l t k va) as (He & _ & o & Hi & Ht & _ & Hb).
    destruct (IH (fun b Hb => Hfr b (or_intror Hb)) (lstep l (LOcc t k va))) as (E2 & [A2 R2] & M2). cbv zeta in *.
    rewrite He in *. split; [exact E2|]. split; [|intros x Hx; apply M2; rewrite Hi; apply in_or_app; left; exact Hx].
    constructor.
    + change (toks_of (PTok t va :: ps)) with ([t] ++ toks_of ps). apply avail_app; [|exact A2].
      intros t' [<-|[]]. exists o. split; [apply M2; rewrite Hi; apply in_or_app; right; left; reflexivity|auto].
    + intros b [Hb'|Hb']; [discriminate|apply R2; exact Hb'].
  - rewrite lrun_app. set (l1 := lrun (L_funcbody None b) l).
    destruct (Hfr b (or_introl eq_refl) l) as [_ E1]. fold l1 in E1.
    destruct (IH (fun b' Hb' => Hfr b' (or_intror Hb')) l1) as (E2 & [A2 R2] & M2). cbv zeta in *. rewrite E1 in *.
    split; [exact E2|]. split; [|intros x Hx; apply M2; unfold l1; apply lrun_items_in; exact Hx].
    constructor; [exact A2|]. intros b' [[= <-]|Hb']; [|apply R2; exact Hb'].
    eapply replay_mono; [exact M2|]. unfold l1. apply replay_actual.
  - cbn [fold_left]. destruct (IH Hfr (lstep l (LCtxPush eo ei sp ne))) as (E2 & F2 & M2). cbv zeta in *. cbn [lstep l_env l_items] in *. auto.
  - cbn [fold_left]. destruct (IH Hfr (lstep l LCtxPop)) as (E2 & F2 & M2). cbv zeta in *. cbn [lstep l_env l_items] in *. auto.
Qed.

(** model side: reads of tokens of [ps] (quiet), and W-pieces drawn from [ps] *)
Lemma tk_tsub ts lp : tsub ts lp -> incl (tk ts) (toks_of lp).
Proof.
  intros H t Ht. apply in_map_iff in Ht as ([t0 va] & <- & Hx). apply (toks_of_in t0 va). apply (H (t0, va) Hx).
Qed.

Lemma w_part wp ts lp s l E s' :
  psub wp ts lp -> tsub ts lp -> Inv s l -> Rel s E -> NoDots E -> LFacts (l_items l) E lp -> FnSim lp ->
  run s (flat_map piece_ev wp) = Some s' ->
  Inv s' l /\ Rel s' E /\ (forall name, fv s name <> None -> fv s' name <> None).
Proof.
  intros Hps Hts Hi Hr Hnd [Ha Hrep] Hsim Hrun.
  apply (model_pieces wp s l E s'); auto.
  - intros t Ht. unfold toks_of in Ht. apply in_flat_map in Ht as (p & Hp & Hin). destruct p as [t0 va|b]; [|contradiction].
    destruct Hin as [<-|[]]. apply Ha. apply (toks_of_in t0 va). apply (Hts (t0, va)). apply (Hps _ Hp).
  - intros b Hb. pose proof (Hps _ Hb) as Hin. cbn in Hin. split; [apply Hrep; exact Hin|apply Hsim; exact Hin].
Qed.

(** Inv survives advancing the Lua side through environment-preserving events *)
Lemma inv_advance s l l' : Inv s l -> l_env l' = l_env l -> (forall x, In x (l_items l) -> In x (l_items l')) -> Inv s l'.
Proof. intros [Hr Hn Hg Hne] He Hm. constructor; rewrite ?He; auto. apply (G_items s (l_items l)); auto. Qed.

Lemma inv_rel s l : Inv s l -> Rel s (l_env l). Proof. intros [H _ _ _]. exact H. Qed.
Lemma inv_nd s l : Inv s l -> NoDots (l_env l). Proof. intros [_ H _ _]. exact H. Qed.

(** ** how the Lua traces of the syntactic forms match their pieces *)
Lemma lm_expr e : lmatch (L_expr e) (lp_expr e).
Proof. rewrite (proj1 L_pieces e). apply lmatch_pieces. Qed.
Lemma lm_exprs es : lmatch (L_exprs es) (lp_exprs es).
Proof. destruct L_pieces as (_&_&_&_&_&_&_&_&_&_&H&_). rewrite (H es). apply lmatch_pieces. Qed.
Lemma lm_fcall c : lmatch (L_fcall c) (lp_fcall c).
Proof. destruct L_pieces as (_&_&_&_&_&_&_&_&_&_&_&H). rewrite (H c). apply lmatch_pieces. Qed.
Lemma lm_suffixes ss : lmatch (L_suffixes ss) (lp_suffixes ss).
Proof. destruct L_pieces as (_&_&_&_&H&_). rewrite (H ss). apply lmatch_pieces. Qed.

Lemma lm_var_target v : lmatch (L_var v OTarget) (lp_var v).
Proof.
  destruct v as [t|p ss r]; cbn [L_var lp_var]; [constructor; constructor|].
  apply lmatch_app; [|apply lm_suffixes]. destruct p; cbn [L_prefix lp_prefix]; [constructor; constructor|apply lm_expr].
Qed.

Fixpoint lp_vars (vs : vars) : list piece := match vs with VsNil => [] | VsCons v r => lp_var v ++ lp_vars r end.
Fixpoint wp_vars (vs : vars) : list piece := match vs with VsNil => [] | VsCons v r => wp_var v ++ wp_vars r end.

Lemma lm_vars vs : lmatch (L_vars vs) (lp_vars vs).
Proof. induction vs as [|v r IH]; cbn [L_vars lp_vars]; [constructor|apply lmatch_app; [apply lm_var_target|exact IH]]. Qed.

Lemma lm_assign_exprs es : forall n k, lmatch (L_assign_exprs es n k) (lp_exprs es).
Proof.
  induction es as [|e r IH]; intros n k; cbn [L_assign_exprs lp_exprs]; [constructor|].
  replace ([LCtxPush [] [] (Nat.leb n k) false] ++ L_expr e ++ [LCtxPop] ++ L_assign_exprs r n (S k))
    with (([LCtxPush [] [] (Nat.leb n k) false] ++ L_expr e ++ [LCtxPop]) ++ L_assign_exprs r n (S k)) by (rewrite <- !app_assoc; reflexivity).
  apply lmatch_app; [apply lmatch_bracket; apply lm_expr|apply IH].
Qed.

Lemma lm_local_exprs names es : forall k, lmatch (L_local_exprs names es k) (lp_exprs es).
Proof.
  induction es as [|e r IH]; intros k; cbn [L_local_exprs lp_exprs]; [constructor|].
  match goal with |- lmatch ([?x] ++ L_expr e ++ [LCtxPop] ++ ?rest) _ =>
    replace ([x] ++ L_expr e ++ [LCtxPop] ++ rest) with (([x] ++ L_expr e ++ [LCtxPop]) ++ rest) by (rewrite <- !app_assoc; reflexivity) end.
  apply lmatch_app; [apply lmatch_bracket; apply lm_expr|apply IH].
Qed.

(** facts about pieces, by name *)
Lemma tsub_expr e : tsub (toks_expr e) (lp_expr e). Proof. apply (proj1 toks_in_lp). Qed.
Lemma tsub_exprs es : tsub (toks_exprs es) (lp_exprs es). Proof. destruct toks_in_lp as (_&_&_&_&_&_&_&_&_&_&H&_). apply H. Qed.
Lemma tsub_fcall c : tsub (toks_fcall c) (lp_fcall c). Proof. destruct toks_in_lp as (_&_&_&_&_&_&_&_&_&_&_&H). apply H. Qed.
Lemma tsub_var v : tsub (toks_var v) (lp_var v). Proof. destruct toks_in_lp as (_&H&_). apply H. Qed.
Lemma psub_expr e : psub (wp_expr e) (toks_expr e) (lp_expr e). Proof. apply (proj1 wp_in). Qed.
Lemma psub_exprs es : psub (wp_exprs es) (toks_exprs es) (lp_exprs es). Proof. destruct wp_in as (_&_&_&_&_&_&_&_&_&_&H&_). apply H. Qed.
Lemma psub_fcall c : psub (wp_fcall c) (toks_fcall c) (lp_fcall c). Proof. destruct wp_in as (_&_&_&_&_&_&_&_&_&_&_&H). apply H. Qed.
Lemma psub_var v : psub (wp_var v) (toks_var v) (lp_var v). Proof. destruct wp_in as (_&H&_). apply H. Qed.
Lemma Wpe e : W_expr e = flat_map piece_ev (wp_expr e). Proof. apply (proj1 W_pieces). Qed.
Lemma Wpes es : W_exprs es = flat_map piece_ev (wp_exprs es). Proof. destruct W_pieces as (_&_&_&_&_&_&_&_&_&_&H&_). apply H. Qed.
Lemma Wpfc c : W_fcall c = flat_map piece_ev (wp_fcall c). Proof. destruct W_pieces as (_&_&_&_&_&_&_&_&_&_&_&H). apply H. Qed.
Lemma Wpv v : W_var v = flat_map piece_ev (wp_var v). Proof. destruct W_pieces as (_&H&_). apply H. Qed.

Lemma tsub_vars vs : tsub (toks_vars vs) (lp_vars vs).
Proof. induction vs as [|v r IH]; cbn [toks_vars lp_vars]; [apply tsub_nil|apply tsub_app; [apply tsub_var|exact IH]]. Qed.
Lemma psub_vars vs : psub (wp_vars vs) (toks_vars vs) (lp_vars vs).
Proof. induction vs as [|v r IH]; cbn [wp_vars toks_vars lp_vars]; [apply psub_nil|apply psub_app; [apply psub_var|exact IH]]. Qed.
Lemma Wpvs vs : W_vars vs = flat_map piece_ev (wp_vars vs).
Proof. induction vs as [|v r IH]; cbn [W_vars wp_vars flat_map]; [reflexivity|]. rewrite flat_map_app, Wpv, IH. reflexivity. Qed.

Lemma psub_weaken wp ts ts' lp lp' : psub wp ts lp -> incl ts ts' -> incl lp lp' -> psub wp ts' lp'.
Proof. intros H Ht Hl p Hp. specialize (H p Hp). destruct p; auto. Qed.
Lemma tsub_weaken ts lp lp' : tsub ts lp -> incl lp lp' -> tsub ts lp'.
Proof. intros H Hl x Hx. apply Hl. apply H. exact Hx. Qed.

Lemma FnFr_app a b : FnFr (a ++ b) -> FnFr a /\ FnFr b.
Proof. intros H. split; intros f Hf; apply H; apply in_or_app; auto. Qed.

(** ** statements *)
Lemma seg_quiet s l s' ts evs : Inv s l -> avail (l_items l) (l_env l) ts -> covered ts [] evs -> run s evs = Some s' ->
  Inv s' l /\ (forall name, fv s name <> None -> fv s' name <> None).
Proof. intros Hi Ha Hc Hrun. apply (seg_same s l l s' ts evs); auto. apply LSame_refl. Qed.

Lemma gsim_call c s l s' : FnFr (lp_fcall c) -> FnSim (lp_fcall c) -> Inv s l ->
  run s (W_fcall c) = Some s' -> Inv s' (lrun (L_fcall c) l).
Proof.
  intros Hfr Hsim Hi Hrun. destruct (lua_match _ _ (lm_fcall c) Hfr l) as (He & Hf & Hm). cbv zeta in *.
  pose proof (inv_advance s l _ Hi He Hm) as Hi'. rewrite Wpfc in Hrun.
  destruct (w_part (wp_fcall c) (toks_fcall c) (lp_fcall c) s _ (l_env l) s' (psub_fcall c) (tsub_fcall c) Hi') as [H _]; auto.
  - rewrite <- He. apply inv_rel. exact Hi'.
  - apply (inv_nd s l Hi).
Qed.

Lemma gsim_return es s l s' : FnFr (lp_exprs es) -> FnSim (lp_exprs es) -> Inv s l ->
  run s (R_exprs es ++ W_exprs es) = Some s' -> Inv s' (lrun (L_exprs es) l).
Proof.
  intros Hfr Hsim Hi Hrun. destruct (lua_match _ _ (lm_exprs es) Hfr l) as (He & Hf & Hm). cbv zeta in *.
  pose proof (inv_advance s l _ Hi He Hm) as Hi'. apply run_app in Hrun as (s1 & H1 & H2). rewrite Res in H1. rewrite Wpes in H2.
  destruct (seg_quiet s _ s1 (toks_of (lp_exprs es)) (map rd (toks_exprs es)) Hi') as [Hi1 _]; auto.
  { rewrite He. apply Hf. } { apply covered_R. apply tk_tsub. apply tsub_exprs. }
  destruct (w_part (wp_exprs es) (toks_exprs es) (lp_exprs es) s1 _ (l_env l) s' (psub_exprs es) (tsub_exprs es) Hi1) as [H _]; auto.
  - rewrite <- He. apply inv_rel. exact Hi1.
  - apply (inv_nd s l Hi).
Qed.

Lemma gsim_assign vs es s l s' :
  FnFr (lp_exprs es ++ lp_vars vs) -> FnSim (lp_exprs es ++ lp_vars vs) -> Inv s l ->
  run s (assign_hook vs es ++ W_vars vs ++ W_exprs es) = Some s' ->
  Inv s' (lrun (L_assign_exprs es (L_vars_length vs) 0 ++ L_vars vs) l).
Proof.
  intros Hfr Hsim Hi Hrun.
  assert (Hlm : lmatch (L_assign_exprs es (L_vars_length vs) 0 ++ L_vars vs) (lp_exprs es ++ lp_vars vs))
    by (apply lmatch_app; [apply lm_assign_exprs|apply lm_vars]).
  destruct (lua_match _ _ Hlm Hfr l) as (He & Hf & Hm). cbv zeta in *.
  pose proof (inv_advance s l _ Hi He Hm) as Hi'. apply run_app in Hrun as (s1 & H1 & H2).
  set (P := lp_exprs es ++ lp_vars vs) in *.
  assert (Te : incl (tk (toks_exprs es)) (toks_of P)).
  { apply tk_tsub. apply (tsub_weaken _ (lp_exprs es)); [apply tsub_exprs|apply incl_app_l]. }
  assert (Tv : incl (tk (toks_vars vs)) (toks_of P)).
  { apply tk_tsub. apply (tsub_weaken _ (lp_vars vs)); [apply tsub_vars|apply incl_app_r]. }
  destruct (seg_quiet s _ s1 (toks_of P) (assign_hook vs es) Hi') as [Hi1 _]; auto.
  { rewrite He. apply Hf. } { apply assign_hook_covered; assumption. }
  assert (Hw : W_vars vs ++ W_exprs es = flat_map piece_ev (wp_vars vs ++ wp_exprs es)) by (rewrite flat_map_app, Wpvs, Wpes; reflexivity).
  rewrite Hw in H2.
  assert (Hps : psub (wp_vars vs ++ wp_exprs es) (toks_vars vs ++ toks_exprs es) P).
  { apply psub_dup.
    - apply (psub_weaken _ (toks_vars vs) _ (lp_vars vs)); [apply psub_vars|apply incl_app_l|apply incl_app_r].
    - apply (psub_weaken _ (toks_exprs es) _ (lp_exprs es)); [apply psub_exprs|apply incl_app_r|apply incl_app_l]. }
  assert (Hts : tsub (toks_vars vs ++ toks_exprs es) P).
  { intros x Hx. apply in_app_iff in Hx as [Hx|Hx]; apply in_or_app; [right; apply tsub_vars|left; apply tsub_exprs]; exact Hx. }
  destruct (w_part _ _ P s1 _ (l_env l) s' Hps Hts Hi1) as [H _]; auto.
  - rewrite <- He. apply inv_rel. exact Hi1.
  - apply (inv_nd s l Hi).
Qed.

Lemma lookup_app_keep name bs E : lookup_name name E <> None -> lookup_name name (bs ++ E) <> None.
Proof.
  intros H. induction bs as [|b r IH]; cbn [app lookup_name]; [exact H|]. destruct b; try exact IH.
  destruct (str_eqb name0 name); [discriminate|exact IH].
Qed.

Lemma rel_drop s bs E : Rel s (bs ++ E) -> Rel s E.
Proof. intros H name Hn. apply H. apply lookup_app_keep. exact Hn. Qed.

Lemma gsim_local names es s l s' : forallb nd names = true -> FnFr (lp_exprs es) -> FnSim (lp_exprs es) -> Inv s l ->
  run s (local_hook names es ++ W_exprs es) = Some s' ->
  Inv s' (lrun (L_local_exprs names es 0 ++ L_local_decls names es) l).
Proof.
  intros Hnd Hfr Hsim Hi Hrun. rewrite lrun_app.
  destruct (lua_match _ _ (lm_local_exprs names es 0) Hfr l) as (He & Hf & Hm). cbv zeta in *.
  set (l1 := lrun (L_local_exprs names es 0) l) in *.
  pose proof (inv_advance s l l1 Hi He Hm) as Hi1.
  apply run_app in Hrun as (s1 & H1 & H2).
  destruct (L_local_decls_names names es l1) as (bs & Hv & Hev & Hn).
  set (l2 := lrun (L_local_decls names es) l1) in *.
  assert (Hi2 : Inv s1 l2).
  { apply (seg_decls s l1 l2 s1 (toks_of (lp_exprs es)) (local_hook names es) names); auto.
    - rewrite He. apply Hf.
    - apply (covered_weaken (tk (toks_exprs es)) _ _ [] []); [apply tk_tsub; apply tsub_exprs|apply incl_refl'|apply local_hook_covered].
    - apply local_hook_quiet.
    - intros n Hin. exists false. apply local_hook_defs. exact Hin.
    - exists bs. auto.
    - intros x Hx. apply lrun_items_in. exact Hx. }
  rewrite Wpes in H2.
  destruct (w_part _ _ (lp_exprs es) s1 l2 (l_env l) s' (psub_exprs es) (tsub_exprs es) Hi2) as [H _]; auto.
  - apply (rel_drop s1 bs). rewrite <- He, <- Hev. apply inv_rel. exact Hi2.
  - apply (inv_nd s l Hi).
  - apply (LFacts_mono (l_items l1)); [intros x Hx; apply lrun_items_in; exact Hx|exact Hf].
Qed.

(** the W-part of a condition, inside the scope just opened for the block *)
Lemma w_in_scope c s1 l1 sa sm :
  FnSim (lp_expr c) -> Inv s1 l1 -> LFacts (l_items l1) (l_env l1) (lp_expr c) ->
  Inv sa (lstep l1 LBlockOpen) -> run sa (W_expr c) = Some sm -> Inv sm (lstep l1 LBlockOpen).
Proof.
  intros Hsim Hi1 Hf Hia Hw. rewrite Wpe in Hw.
  destruct (w_part _ _ (lp_expr c) sa (lstep l1 LBlockOpen) (l_env l1) sm (psub_expr c) (tsub_expr c) Hia) as [H _]; auto.
  - intros name Hn. apply (inv_rel _ _ Hia). cbn [lstep l_env lookup_name]. exact Hn.
  - apply (inv_nd _ _ Hi1).
Qed.

Lemma gsim_while c b s l s' : FnFr (lp_expr c) -> FnSim (lp_expr c) -> SimB b -> LFb b -> Inv s l ->
  run s (R_expr c ++ [EvOpen false] ++ W_expr c ++ core b ++ [EvClose]) = Some s' ->
  Inv s' (lrun (L_expr c ++ [LBlockOpen] ++ L_inner b ++ [LBlockClose]) l).
Proof.
  intros Hfr Hsim Hb Hlf Hi Hrun. apply run_app in Hrun as (s1 & H1 & Hrun). rewrite lrun_app.
  destruct (lua_match _ _ (lm_expr c) Hfr l) as (He & Hf & Hm). cbv zeta in *.
  set (l1 := lrun (L_expr c) l) in *.
  pose proof (inv_advance s l l1 Hi He Hm) as Hi0. rewrite Re in H1.
  destruct (seg_quiet s l1 s1 (toks_of (lp_expr c)) (map rd (toks_expr c)) Hi0) as [Hi1 _]; auto.
  { rewrite He. apply Hf. } { apply covered_R. apply tk_tsub. apply tsub_expr. }
  replace ([EvOpen false] ++ W_expr c ++ core b ++ [EvClose]) with ([EvOpen false] ++ (W_expr c ++ core b) ++ [EvClose]) in Hrun
    by (rewrite <- !app_assoc; reflexivity).
  apply (scoped_block s1 l1 s' false (W_expr c ++ core b) (L_inner b)); auto.
  - apply neutral_app; [apply W_expr_neutral|apply core_neutral].
  - intros sa sb Hia Hr. apply run_app in Hr as (sm & Hr1 & Hr2).
    apply (Hb sm _ sb); [|exact Hr2]. apply (w_in_scope c s1 l1 sa sm); auto. rewrite He. exact Hf.
Qed.

Lemma gsim_repeat c b s l s' : FrE (L_expr c) -> FnFr (lp_expr c) -> FnSim (lp_expr c) -> SimB b -> LFb b -> Inv s l ->
  run s ([EvOpen false] ++ core b ++ W_expr c ++ R_expr c ++ [EvClose]) = Some s' ->
  Inv s' (lrun ([LBlockOpen] ++ L_inner b ++ L_expr c ++ [LBlockClose]) l).
Proof.
  intros Hfe Hfr Hsim Hb Hlf Hi Hrun.
  replace ([EvOpen false] ++ core b ++ W_expr c ++ R_expr c ++ [EvClose])
    with ([EvOpen false] ++ (core b ++ W_expr c ++ R_expr c) ++ [EvClose]) in Hrun by (rewrite <- !app_assoc; reflexivity).
  replace ([LBlockOpen] ++ L_inner b ++ L_expr c ++ [LBlockClose])
    with ([LBlockOpen] ++ (L_inner b ++ L_expr c) ++ [LBlockClose]) by (rewrite <- !app_assoc; reflexivity).
  apply (scoped_block s l s' false (core b ++ W_expr c ++ R_expr c) (L_inner b ++ L_expr c)); auto.
  - apply neutral_app; [apply core_neutral|]. apply neutral_app; [apply W_expr_neutral|apply quiet_neutral; apply R_expr_quiet].
  - intros l1. rewrite lrun_app. eapply LF_trans; [apply Hlf|]. apply LSame_LF. apply Hfe.
  - intros sa sb Hia Hr. apply run_app in Hr as (sm & Hr1 & Hr2). rewrite lrun_app.
    pose proof (Hb _ _ _ Hia Hr1) as Him.
    set (l2 := lrun (L_inner b) (lstep l LBlockOpen)) in *.
    destruct (lua_match _ _ (lm_expr c) Hfr l2) as (He & Hf & Hm). cbv zeta in *.
    set (l3 := lrun (L_expr c) l2) in *.
    pose proof (inv_advance sm l2 l3 Him He Hm) as Hi3.
    apply run_app in Hr2 as (sw & Hw & Hrd). rewrite Wpe in Hw.
    destruct (w_part _ _ (lp_expr c) sm l3 (l_env l2) sw (psub_expr c) (tsub_expr c) Hi3) as (Hiw & _ & _); auto.
    { rewrite <- He. apply inv_rel. exact Hi3. } { apply (inv_nd _ _ Him). }
    rewrite Re in Hrd.
    destruct (seg_quiet sw l3 sb (toks_of (lp_expr c)) (map rd (toks_expr c)) Hiw) as [H _]; auto.
    { rewrite He. apply Hf. } { apply covered_R. apply tk_tsub. apply tsub_expr. }
Qed.

Lemma garm_run c b s l s2 : FnFr (lp_expr c) -> FnSim (lp_expr c) -> SimB b -> LFb b -> Inv s l ->
  run s (R_expr c ++ [EvOpen false] ++ W_expr c ++ core b) = Some s2 ->
  exists s0, Arm s0 (l_env l) s2 (lrun (L_expr c ++ [LBlockOpen] ++ L_inner b ++ [LBlockClose]) l).
Proof.
  intros Hfr Hsim Hb Hlf Hi Hrun. apply run_app in Hrun as (s1 & H1 & Hrun). rewrite lrun_app.
  destruct (lua_match _ _ (lm_expr c) Hfr l) as (He & Hf & Hm). cbv zeta in *.
  set (l1 := lrun (L_expr c) l) in *.
  pose proof (inv_advance s l l1 Hi He Hm) as Hi0. rewrite Re in H1.
  destruct (seg_quiet s l1 s1 (toks_of (lp_expr c)) (map rd (toks_expr c)) Hi0) as [Hi1 _]; auto.
  { rewrite He. apply Hf. } { apply covered_R. apply tk_tsub. apply tsub_expr. }
  apply run_app in Hrun as (sa & Ho & Hrun). cbn [run] in Ho.
  destruct (step s1 (EvOpen false)) as [sa'|] eqn:Eo; [|discriminate]. injection Ho as ->.
  pose proof (open_inv _ _ _ _ Hi1 Eo) as Hia.
  apply run_app in Hrun as (sm & Hw & Hc).
  assert (Him : Inv sm (lstep l1 LBlockOpen)) by (apply (w_in_scope c s1 l1 sa sm); auto; rewrite He; exact Hf).
  pose proof (Hb _ _ _ Him Hc) as [_ _ Hg2 _].
  destruct (step_open _ _ _ Eo) as (_ & _ & Hv & Hst).
  destruct (run_tail (W_expr c ++ core b) sa s2 [{| s_id := next_scope s1; s_vars := []; s_refs := []; s_blocked := false |}] (stack s1) 1)
    as (pre' & Hst2 & Hl & _).
  { rewrite Hst. reflexivity. } { discriminate. }
  { apply (neutral_app 1); [apply W_expr_neutral|apply core_neutral|]. lia. }
  { apply run_app. exists sm. auto. }
  destruct pre' as [|top [|x y]]; cbn in Hl; try lia. cbn [app] in Hst2.
  destruct Hi1 as [Hr1 Hnd1 Hg1 Hne1].
  exists s1. unfold Arm. rewrite <- He.
  split; [exact Hr1|]. split; [exact Hnd1|]. split; [exact Hne1|]. split; [exists top; exact Hst2|]. split.
  - assert (Hp : names_prefix (mvars sa) (mvars s2)) by (apply (run_mono (W_expr c ++ core b)); apply run_app; exists sm; auto).
    rewrite Hv in Hp. exact Hp.
  - split.
    + rewrite !lrun_app. cbn [fold_left]. exact Hg2.
    + destruct (block_bracket (L_inner b) l1 Hlf) as [_ E]. exact E.
Qed.

Lemma gsim_gfor names es b s l s' : forallb nd names = true -> FnFr (lp_exprs es) -> FnSim (lp_exprs es) -> SimB b -> LFb b -> Inv s l ->
  run s (W_stmt (SGenericFor names es b)) = Some s' -> Inv s' (lrun (L_stmt (SGenericFor names es b)) l).
Proof.
  intros Hnd Hfr Hsim Hb Hlf Hi Hrun. cbn [W_stmt L_stmt] in *. rewrite W_block_false in Hrun.
  apply run_app in Hrun as (s1 & H1 & Hrun).
  match goal with |- Inv _ (lrun ([?x] ++ L_exprs es ++ [LCtxPop] ++ ?rest) l) =>
    replace ([x] ++ L_exprs es ++ [LCtxPop] ++ rest) with (([x] ++ L_exprs es ++ [LCtxPop]) ++ rest) by (rewrite <- !app_assoc; reflexivity)
  end.
  rewrite lrun_app.
  assert (Hlm : lmatch ([LCtxPush [] (map (fun n => (t_name n, K3)) names) false false] ++ L_exprs es ++ [LCtxPop]) (lp_exprs es))
    by (apply lmatch_bracket; apply lm_exprs).
  destruct (lua_match _ _ Hlm Hfr l) as (He & Hf & Hm). cbv zeta in *.
  set (l1 := lrun ([LCtxPush [] (map (fun n => (t_name n, K3)) names) false false] ++ L_exprs es ++ [LCtxPop]) l) in *.
  pose proof (inv_advance s l l1 Hi He Hm) as Hi0. rewrite Res in H1.
  destruct (seg_quiet s l1 s1 (toks_of (lp_exprs es)) (map rd (toks_exprs es)) Hi0) as [Hi1 _]; auto.
  { rewrite He. apply Hf. } { apply covered_R. apply tk_tsub. apply tsub_exprs. }
  set (defs := flat_map (fun n => [EvDefine n false; EvWrite n WAssign]) names) in *.
  replace ([EvOpen false] ++ defs ++ W_exprs es ++ core b ++ [EvClose])
    with ([EvOpen false] ++ (defs ++ W_exprs es ++ core b) ++ [EvClose]) in Hrun by (rewrite <- !app_assoc; reflexivity).
  replace ([LBlockOpen] ++ map (fun n => LDecl n DLoop false) names ++ L_inner b ++ [LBlockClose])
    with ([LBlockOpen] ++ (map (fun n => LDecl n DLoop false) names ++ L_inner b) ++ [LBlockClose]) by (rewrite <- !app_assoc; reflexivity).
  apply (scoped_block s1 l1 s' false (defs ++ W_exprs es ++ core b) (map (fun n => LDecl n DLoop false) names ++ L_inner b)); auto.
  - apply neutral_app; [apply quiet_neutral; apply flat_define_quiet|]. apply neutral_app; [apply W_exprs_neutral|apply core_neutral].
  - intros lx. rewrite lrun_app. apply (LF_trans lx (lrun (map (fun n => LDecl n DLoop false) names) lx)); [apply decls_LF; intros n; eauto|apply Hlf].
  - intros sa sb Hia Hr. apply run_app in Hr as (sd & Hd & Hr). apply run_app in Hr as (sm & Hw & Hc). rewrite lrun_app.
    set (lx := lstep l1 LBlockOpen) in *.
    destruct (decls_names DLoop names lx) as (bs & Hv & Hev & Hn).
    set (ld := lrun (map (fun n => LDecl n DLoop false) names) lx) in *.
    assert (Hid : Inv sd ld).
    { apply (seg_decls sa lx ld sd [] defs names); auto.
      - apply avail_nil.
      - apply flat_defs_covered.
      - apply flat_define_quiet.
      - intros n Hin. exists false. apply flat_defs_in. exact Hin.
      - exists bs. auto.
      - intros x Hx. apply lrun_items_in. exact Hx. }
    apply (Hb sm ld sb); [|exact Hc]. rewrite Wpes in Hw.
    destruct (w_part _ _ (lp_exprs es) sd ld (l_env l) sm (psub_exprs es) (tsub_exprs es) Hid) as [H _]; auto.
    + apply (rel_drop sd (bs ++ [BMark])). rewrite <- app_assoc. cbn [app]. rewrite <- He.
      change (BMark :: l_env l1) with (l_env lx). rewrite <- Hev. apply inv_rel. exact Hid.
    + apply (inv_nd s l Hi).
    + apply (LFacts_mono (l_items l1)); [intros x Hx; apply lrun_items_in; exact Hx|exact Hf].
Qed.

Definition lp_oexpr (o : oexpr) : list piece := match o with OENone => [] | OESome e => lp_expr e end.
Definition wp_oexpr (o : oexpr) : list piece := match o with OENone => [] | OESome e => wp_expr e end.

Lemma gsim_nfor v a b st blk s l s' :
  nd v = true -> FnFr (lp_expr a ++ lp_expr b ++ lp_oexpr st) -> FnSim (lp_expr a ++ lp_expr b ++ lp_oexpr st) ->
  SimB blk -> LFb blk -> Inv s l ->
  run s (W_stmt (SNumericFor v a b st blk)) = Some s' -> Inv s' (lrun (L_stmt (SNumericFor v a b st blk)) l).
Proof.
  intros Hnd Hfr Hsim Hblk Hlf Hi Hrun. cbn [W_stmt L_stmt] in *. rewrite W_block_false in Hrun.
  set (P := lp_expr a ++ lp_expr b ++ lp_oexpr st) in *.
  set (T := toks_expr a ++ toks_expr b ++ toks_oexpr st).
  assert (HlmP : lmatch (L_expr a ++ L_expr b ++ L_oexpr st) P).
  { unfold P. apply lmatch_app; [apply lm_expr|]. apply lmatch_app; [apply lm_expr|].
    destruct st; cbn [L_oexpr lp_oexpr]; [constructor|apply lm_expr]. }
  assert (HtsP : tsub T P).
  { unfold T, P. apply tsub_app; [apply tsub_expr|]. apply tsub_app; [apply tsub_expr|].
    destruct st; cbn [toks_oexpr lp_oexpr]; [apply tsub_nil|apply tsub_expr]. }
  assert (HpsP : psub (wp_expr a ++ wp_expr b ++ wp_oexpr st) T P).
  { unfold T, P. apply psub_app; [apply psub_expr|]. apply psub_app; [apply psub_expr|].
    destruct st; cbn [wp_oexpr toks_oexpr lp_oexpr]; [apply psub_nil|apply psub_expr]. }
  match goal with |- Inv _ (lrun ([?x] ++ L_expr a ++ L_expr b ++ L_oexpr st ++ [LCtxPop] ++ ?rest) l) =>
    replace ([x] ++ L_expr a ++ L_expr b ++ L_oexpr st ++ [LCtxPop] ++ rest)
      with (([x] ++ (L_expr a ++ L_expr b ++ L_oexpr st) ++ [LCtxPop]) ++ rest) by (rewrite <- !app_assoc; reflexivity)
  end.
  rewrite lrun_app.
  assert (Hlm : lmatch ([LCtxPush [(t_name v, K1)] [(t_name v, K3)] false true] ++ (L_expr a ++ L_expr b ++ L_oexpr st) ++ [LCtxPop]) P)
    by (apply lmatch_bracket; exact HlmP).
  destruct (lua_match _ _ Hlm Hfr l) as (He & Hf & Hm). cbv zeta in *.
  set (l1 := lrun ([LCtxPush [(t_name v, K1)] [(t_name v, K3)] false true] ++ (L_expr a ++ L_expr b ++ L_oexpr st) ++ [LCtxPop]) l) in *.
  pose proof (inv_advance s l l1 Hi He Hm) as Hi1.
  change ([LBlockOpen; LDecl v DLoop false] ++ L_inner blk ++ [LBlockClose])
    with ([LBlockOpen] ++ ([LDecl v DLoop false] ++ L_inner blk) ++ [LBlockClose]).
  set (l3 := lrun ([LBlockOpen] ++ ([LDecl v DLoop false] ++ L_inner blk) ++ [LBlockClose]) l1).
  assert (Hl3 : LSame l1 l3).
  { unfold l3. apply block_bracket. intros lx. rewrite lrun_app.
    apply (LF_trans lx (lrun [LDecl v DLoop false] lx)); [cbn [fold_left]; apply lstep_decl_LF|apply Hlf]. }
  set (hd := [EvDefine v false; EvWrite v WAssign] ++ R_expr a ++ R_expr b ++ oexpr_R st).
  set (wpart := W_expr a ++ W_expr b ++ W_oexpr st).
  assert (Hshape : [EvOpen false; EvDefine v false; EvWrite v WAssign] ++ R_expr a ++ R_expr b ++ oexpr_R st ++
                   [EvOpen false] ++ W_expr a ++ W_expr b ++ W_oexpr st ++ core blk ++ [EvClose; EvClose]
                   = [EvOpen false] ++ (hd ++ [EvOpen false] ++ (wpart ++ core blk) ++ [EvClose]) ++ [EvClose]).
  { unfold hd, wpart. cbn [app]. rewrite <- !app_assoc. cbn [app]. rewrite <- !app_assoc. cbn [app]. reflexivity. }
  rewrite Hshape in Hrun. clear Hshape.
  assert (Hhdq : quiet hd).
  { unfold hd. apply quiet_app; [constructor; [exact I|constructor; [exact I|constructor]]|].
    apply quiet_app; [apply R_expr_quiet|]. apply quiet_app; [apply R_expr_quiet|apply oexpr_R_quiet]. }
  assert (Hhdc : covered (toks_of P) [] hd).
  { unfold hd. cbn [app covered]. split; [right; left; reflexivity|].
    assert (HT : incl (tk T) (toks_of P)) by (apply tk_tsub; exact HtsP).
    unfold T in HT. rewrite !map_app in HT. rewrite !Re.
    apply covered_app; [apply covered_R; intros x Hx; apply HT; apply in_or_app; left; exact Hx|]. intros dn' _.
    apply covered_app; [apply covered_R; intros x Hx; apply HT; apply in_or_app; right; apply in_or_app; left; exact Hx|]. intros dn'' _.
    destruct st as [|e]; cbn [oexpr_R toks_oexpr] in *; [exact I|]. rewrite Re. apply covered_R.
    intros x Hx. apply HT. apply in_or_app; right; apply in_or_app; right; exact Hx. }
  assert (Hwp : wpart = flat_map piece_ev (wp_expr a ++ wp_expr b ++ wp_oexpr st)).
  { unfold wpart. rewrite !flat_map_app. destruct st; cbn [W_oexpr wp_oexpr flat_map]; rewrite <- ?Wpe; reflexivity. }
  assert (Hwn : neutral 1 wpart).
  { unfold wpart. apply neutral_app; [apply W_expr_neutral|]. apply neutral_app; [apply W_expr_neutral|apply W_oexpr_neutral]. }
  destruct (scoped_gen s l1 l3 s' false (hd ++ [EvOpen false] ++ (wpart ++ core blk) ++ [EvClose])) as [H _]; auto.
  - apply neutral_app; [apply quiet_neutral; exact Hhdq|]. apply neutral_bracket. apply neutral_app; [exact Hwn|apply core_neutral].
  - destruct Hl3 as [_ E]. exact E.
  - intros x Hx. unfold l3. apply lrun_items_in. exact Hx.
  - intros s1 s2 Eo H2. pose proof (open_noLua _ _ _ _ Hi1 Eo) as Hio.
    apply run_app in H2 as (sr & Hr1 & H2).
    destruct (seg_quiet s1 l1 sr (toks_of P) hd Hio) as [Hir _]; auto.
    { rewrite He. apply Hf. }
    assert (Hvis : fv sr (t_name v) <> None).
    { destruct Hio as [_ _ _ Hne1]. apply (quiet_defs hd Hhdq s1 sr Hne1 Hr1 v false). unfold hd. left. reflexivity. }
    apply run_app in H2 as (sa & Hoa & H2). apply run_app in H2 as (sb & Hb2 & Hc2).
    cbn [run] in Hoa. destruct (step sr (EvOpen false)) as [sa'|] eqn:Eoa; [|discriminate]. injection Hoa as ->.
    pose proof (open_inv _ _ _ _ Hir Eoa) as Hia.
    assert (Hvisa : fv sa (t_name v) <> None).
    { destruct (step_open _ _ _ Eoa) as (Hle & _). apply Hle; [|exact Hvis]. unfold nd in Hnd. intros E. rewrite E in Hnd. cbn in Hnd. discriminate. }
    apply run_app in Hb2 as (sm & Hw & Hcore).
    set (lx := lstep l1 LBlockOpen) in *. rewrite Hwp in Hw.
    destruct (w_part _ _ P sa lx (l_env l) sm HpsP HtsP Hia) as (Him & _ & Hmono); auto.
    { intros name Hn. apply (inv_rel _ _ Hia). unfold lx. cbn [lstep l_env lookup_name]. rewrite He. exact Hn. }
    { apply (inv_nd s l Hi). }
    assert (Hid : Inv sm (lstep lx (LDecl v DLoop false))).
    { destruct Him as [Hr Hn Hg Hne]. constructor; cbn [lstep emit_decl l_env l_items].
      - intros name Hl. cbn [lookup_name] in Hl. destruct (str_eqb (t_name v) name) eqn:En.
        + apply str_eqb_eq in En. subst name. apply Hmono. exact Hvisa.
        + apply Hr. exact Hl.
      - unfold NoDots. cbn [lookup_name]. unfold nd in Hnd. apply negb_true_iff in Hnd. rewrite Hnd. exact Hn.
      - apply (G_items sm (l_items lx)); [intros x Hx; apply in_or_app; left; exact Hx|exact Hg].
      - exact Hne. }
    pose proof (Hblk _ _ _ Hid Hcore) as [_ _ Hgb _].
    cbn [run] in Hc2. destruct (step sb EvClose) as [sc|] eqn:Ec; [|discriminate]. injection Hc2 as <-.
    apply (close_keeps_G _ _ _ Ec).
    unfold l3. rewrite !lrun_app. cbn [fold_left]. exact Hgb.
Qed.
