(** The scope walk commutes with renaming identifiers injectively and with moving tokens to other
    positions injectively (C14, C13): the model only ever compares names with names and ranges with
    ranges. *)
From Selene Require Import Lua.Map Scope.Events Scope.Interp.
Open Scope N_scope.

Section Equivariance.
  Context (rho : string -> string) (phi : range -> range).

  Definition map_ev (e : ev) : ev :=
    match e with
    | EvRead t => EvRead (map_tok rho phi t)
    | EvWrite t k => EvWrite (map_tok rho phi t) k
    | EvDefine t s => EvDefine (map_tok rho phi t) s
    | other => other
    end.

  Notation mt := (map_tok rho phi).
  Notation mevs := (map map_ev).

  Ltac m := cbn; rewrite ?map_app; cbn [map map_ev]; repeat f_equal; auto.

  Lemma R_expr_map e : R_expr (map_expr rho phi e) = mevs (R_expr e)
  with R_var_map v : R_var (map_var rho phi v) = mevs (R_var v)
  with R_prefix_map p : R_prefix (map_prefix rho phi p) = mevs (R_prefix p)
  with R_suffixes_map ss : R_suffixes (map_suffixes rho phi ss) = mevs (R_suffixes ss)
  with R_suffix_map s : R_suffix (map_suffix rho phi s) = mevs (R_suffix s)
  with R_call_map c : R_call (map_call rho phi c) = mevs (R_call c)
  with R_args_map a : R_args (map_args rho phi a) = mevs (R_args a)
  with R_index_map i : R_index (map_index rho phi i) = mevs (R_index i)
  with R_fields_map fs : R_fields (map_fields rho phi fs) = mevs (R_fields fs)
  with R_field_map f : R_field (map_field rho phi f) = mevs (R_field f)
  with R_exprs_map es : R_exprs (map_exprs rho phi es) = mevs (R_exprs es)
  with R_fcall_map c : R_fcall (map_fcall rho phi c) = mevs (R_fcall c).
  Proof.
    - destruct e; m.
    - destruct v; m.
    - destruct p; m.
    - destruct ss; m.
    - destruct s; m.
    - destruct c; m.
    - destruct a; m.
    - destruct i; m.
    - destruct fs; m.
    - destruct f; m.
    - destruct es; m.
    - destruct c; m.
  Qed.

  Lemma R_function_args_map a : R_function_args (map_args rho phi a) = mevs (R_function_args a).
  Proof. destruct a; cbn; auto using R_exprs_map. Qed.

  Lemma define_params_map ps : define_params (map (map_param rho phi) ps) = mevs (define_params ps).
  Proof. unfold define_params. rewrite !map_map. apply map_ext. intros [t|t]; reflexivity. Qed.

  Lemma assign_target_map v : assign_target (map_var rho phi v) = mevs (assign_target v).
  Proof.
    destruct v as [t|p ss rng]; [reflexivity|].
    pose proof (R_var_map (VExpr p ss rng)) as H. cbn [map_var] in H.
    destruct p as [t|e]; cbn [map_var map_prefix assign_target].
    - destruct ss as [|s ss]; [reflexivity|]. cbn [map_suffixes]. cbn [map_suffixes map_prefix] in H.
      rewrite !map_app. cbn [map map_ev]. rewrite <- H. reflexivity.
    - exact H.
  Qed.

  Lemma assign_hook_map vs : forall es,
    assign_hook (map_vars rho phi vs) (map_exprs rho phi es) = mevs (assign_hook vs es).
  Proof.
    induction vs as [|v vs IH]; intros es; [reflexivity|].
    destruct es as [|e es]; cbn [map_vars map_exprs assign_hook]; rewrite !map_app.
    - rewrite assign_target_map. f_equal. apply (IH EsNil).
    - rewrite R_expr_map, assign_target_map. do 2 f_equal. apply IH.
  Qed.

  Lemma local_hook_map names : forall es,
    local_hook (map mt names) (map_exprs rho phi es) = mevs (local_hook names es).
  Proof.
    induction names as [|n names IH]; intros es; [reflexivity|].
    destruct es as [|e es]; cbn [map map_exprs local_hook].
    - f_equal. apply (IH EsNil).
    - rewrite !map_app. cbn [map map_ev]. rewrite R_expr_map. do 3 f_equal. apply IH.
  Qed.

  Lemma oexpr_R_map o : oexpr_R (map_oexpr rho phi o) = mevs (oexpr_R o).
  Proof. destruct o; cbn; auto using R_expr_map. Qed.

  Context (rho_self : rho "self" = "self").

  Lemma self_tok_map m :
    {| t_name := "self"; t_lo := t_lo (mt m); t_hi := t_hi (mt m) |}
    = mt {| t_name := "self"; t_lo := t_lo m; t_hi := t_hi m |}.
  Proof. unfold map_tok. cbn [t_name t_lo t_hi t_range]. rewrite rho_self. reflexivity. Qed.

  Lemma flat_define_map names :
    flat_map (fun n => [EvDefine n false; EvWrite n WAssign]) (map mt names)
    = mevs (flat_map (fun n => [EvDefine n false; EvWrite n WAssign]) names).
  Proof. induction names as [|n names IH]; cbn [map flat_map app map_ev]; [reflexivity|]. do 2 f_equal. exact IH. Qed.

  Ltac w := cbn; rewrite ?map_app; cbn [map map_ev];
            rewrite ?R_expr_map, ?R_exprs_map, ?R_call_map, ?R_index_map, ?R_prefix_map, ?R_function_args_map,
                    ?assign_hook_map, ?local_hook_map, ?oexpr_R_map, ?define_params_map, ?flat_define_map;
            repeat f_equal; auto.

  Lemma W_expr_map e : W_expr (map_expr rho phi e) = mevs (W_expr e)
  with W_var_map v : W_var (map_var rho phi v) = mevs (W_var v)
  with W_prefix_map p : W_prefix (map_prefix rho phi p) = mevs (W_prefix p)
  with W_suffixes_map ss : W_suffixes (map_suffixes rho phi ss) = mevs (W_suffixes ss)
  with W_suffix_map s : W_suffix (map_suffix rho phi s) = mevs (W_suffix s)
  with W_call_map c : W_call (map_call rho phi c) = mevs (W_call c)
  with W_args_map a : W_args (map_args rho phi a) = mevs (W_args a)
  with W_index_map i : W_index (map_index rho phi i) = mevs (W_index i)
  with W_fields_map fs : W_fields (map_fields rho phi fs) = mevs (W_fields fs)
  with W_field_map f : W_field (map_field rho phi f) = mevs (W_field f)
  with W_exprs_map es : W_exprs (map_exprs rho phi es) = mevs (W_exprs es)
  with W_fcall_map c : W_fcall (map_fcall rho phi c) = mevs (W_fcall c)
  with W_funcbody_map b : W_funcbody (map_funcbody rho phi b) = mevs (W_funcbody b)
  with W_block_map b : forall ie, W_block ie (map_block rho phi b) = mevs (W_block ie b)
  with W_stmts_map ss : W_stmts (map_stmts rho phi ss) = mevs (W_stmts ss)
  with W_stmt_map s : W_stmt (map_stmt rho phi s) = mevs (W_stmt s)
  with W_vars_map vs : W_vars (map_vars rho phi vs) = mevs (W_vars vs)
  with W_elseifs_map ei : W_elseifs (map_elseifs rho phi ei) = mevs (W_elseifs ei)
  with W_olast_map l : W_olast (map_olast rho phi l) = mevs (W_olast l)
  with W_oexpr_map o : W_oexpr (map_oexpr rho phi o) = mevs (W_oexpr o).
  Proof.
    - destruct e; w.
    - destruct v; w.
    - destruct p; w.
    - destruct ss; w.
    - destruct s; w.
    - destruct c; w.
    - destruct a; w.
    - destruct i; w.
    - destruct fs; w.
    - destruct f; w.
    - destruct es; w.
    - destruct c; w.
    - destruct b as [ps blk]. cbn [map_funcbody W_funcbody]. rewrite !map_app. cbn [map map_ev].
      rewrite define_params_map, W_block_map. reflexivity.
    - destruct b as [ss last rng]. intros ie. cbn [map_block W_block].
      rewrite W_stmts_map, W_olast_map.
      destruct rng as [r|]; cbn [option_map]; destruct ie; cbn [app];
        repeat (rewrite map_app || cbn [map map_ev app]); reflexivity.
    - destruct ss; w.
    - destruct s; cbn [map_stmt W_stmt].
      + rewrite !map_app, assign_hook_map, W_vars_map, W_exprs_map. reflexivity.
      + rewrite !map_app, W_block_map. reflexivity.
      + apply W_fcall_map.
      + destruct names as [|base rest]; [reflexivity|]. cbn [map].
        rewrite !map_app, W_funcbody_map.
        destruct rest, method as [mtok|]; cbn [map option_map app map_ev]; rewrite ?self_tok_map; reflexivity.
      + rewrite !map_app, R_exprs_map, flat_define_map, W_exprs_map, W_block_map. reflexivity.
      + rewrite !map_app, R_expr_map, W_expr_map, W_block_map, W_elseifs_map.
        destruct els as [|eb]; cbn [map_oblock]; [reflexivity|].
        rewrite map_app, W_block_map. destruct eb as [ss last [r|]]; reflexivity.
      + rewrite !map_app, local_hook_map, W_exprs_map. reflexivity.
      + rewrite !map_app, W_funcbody_map. reflexivity.
      + rewrite !map_app, !R_expr_map, oexpr_R_map, !W_expr_map, W_oexpr_map, W_block_map. reflexivity.
      + rewrite !map_app, W_block_map, W_expr_map, R_expr_map. reflexivity.
      + rewrite !map_app, R_expr_map, W_expr_map, W_block_map. reflexivity.
    - destruct vs; w.
    - destruct ei; cbn [map_elseifs W_elseifs]; [reflexivity|].
      rewrite !map_app, R_expr_map, W_expr_map, W_block_map, W_elseifs_map. reflexivity.
    - destruct l; w.
    - destruct o; w.
  Qed.

  Theorem events_map chunk : events_of_chunk (map_block rho phi chunk) = mevs (events_of_chunk chunk).
  Proof. apply W_block_map. Qed.
End Equivariance.
