(** Agreement, part 4: statement by statement, the model walk keeps the invariant with the Lua resolver. *)
From Selene Require Export Scope.SimCore.
From Coq Require Import Lia.
Open Scope nat_scope.

(** a quiet model segment against a Lua segment that leaves the environment alone *)
Lemma seg_same s l l' s' ts evs :
  Inv s l -> LSame l l' -> (forall x, In x (l_items l) -> In x (l_items l')) ->
  avail (l_items l') (l_env l) ts -> covered ts [] evs -> run s evs = Some s' ->
  Inv s' l' /\ (forall name, fv s name <> None -> fv s' name <> None).
Proof.
  intros [Hr Hnd Hg Hne] [Hc He] Hmono Ha Hcov Hrun.
  assert (Hdn : forall n, In n (@nil string) -> fv s n <> None) by (intros n []).
  assert (Hg' : G s (l_items l')) by (apply (G_items s (l_items l)); assumption).
  destruct (quiet_ok evs ts [] (l_items l') (l_env l) s s' Hcov Ha Hr Hdn Hg' Hne Hrun) as (A & B & C & D).
  split; [|exact D]. constructor; rewrite ?He; auto.
Qed.

(** occurrence-only Lua segments *)
Lemma seg_occ s l s' levs evs :
  Inv s l -> all_occ levs -> covered (flat_map occ_tok levs) [] evs -> run s evs = Some s' ->
  Inv s' (lrun levs l) /\ (forall name, fv s name <> None -> fv s' name <> None).
Proof.
  intros Hi Ho Hc Hrun. destruct (lrun_occs levs Ho l) as (He & Hx & Ha). cbv zeta in *.
  apply (seg_same s l (lrun levs l) s' (flat_map occ_tok levs) evs); auto.
  - split; assumption.
  - intros x Hx'. apply lrun_items_in. exact Hx'.
Qed.

(** tokens *)
Notation tk := (map (@fst tok bool)).

Lemma rd_map ts : map rd ts = map EvRead (tk ts).
Proof. rewrite map_map. reflexivity. Qed.

Lemma covered_R ts ws dn : incl (tk ws) ts -> covered ts dn (map rd ws).
Proof. intros H. rewrite rd_map. apply covered_reads. exact H. Qed.

Lemma covered_wsub evs toks ts dn : wsub evs toks -> incl (tk toks) ts -> covered ts dn evs.
Proof.
  intros (ws & -> & Hi) Ht. apply covered_R. intros x Hx. apply Ht. apply in_map_iff in Hx as (y & <- & Hy).
  apply in_map. apply Hi. exact Hy.
Qed.

Lemma incl_app_l {A} (a b : list A) : incl a (a ++ b).
Proof. intros x Hx. apply in_or_app. left. exact Hx. Qed.
Lemma incl_app_r {A} (a b : list A) : incl b (a ++ b).
Proof. intros x Hx. apply in_or_app. right. exact Hx. Qed.

(** ** scoped blocks *)
Lemma scoped_block s l s' b0 mb lb :
  neutral 1 mb -> (forall l1, LF l1 (lrun lb l1)) ->
  (forall s1 s2, Inv s1 (lstep l LBlockOpen) -> run s1 mb = Some s2 -> Inv s2 (lrun lb (lstep l LBlockOpen))) ->
  Inv s l -> run s ([EvOpen b0] ++ mb ++ [EvClose]) = Some s' ->
  Inv s' (lrun ([LBlockOpen] ++ lb ++ [LBlockClose]) l) /\ stack s' = stack s /\ names_prefix (mvars s) (mvars s').
Proof.
  intros Hn Hlf Hbody Hi Hrun.
  apply run_app in Hrun as (s1 & H1 & Hrun). apply run_app in Hrun as (s2 & H2 & H3).
  cbn [run] in H1. destruct (step s (EvOpen b0)) as [s1'|] eqn:E1; [|discriminate]. injection H1 as ->.
  pose proof (open_inv _ _ _ _ Hi E1) as Hi1.
  pose proof (Hbody _ _ Hi1 H2) as Hi2.
  destruct (step_open _ _ _ E1) as (_ & _ & Hv1 & Hst1).
  destruct (run_tail mb s1 s2 [{| s_id := next_scope s; s_vars := []; s_refs := []; s_blocked := b0 |}] (stack s) 1) as (pre' & Hst2 & Hl & _);
    [rewrite Hst1; reflexivity|discriminate|apply Hn; lia|exact H2|].
  destruct pre' as [|top [|x y]]; cbn in Hl; try lia. cbn [app] in Hst2.
  cbn [run] in H3. destruct (step s2 EvClose) as [s3|] eqn:E3; [|discriminate]. injection H3 as ->.
  destruct Hi as [Hr Hnd Hg Hne]. destruct Hi2 as [Hr2 Hnd2 Hg2 Hne2].
  assert (Hp : names_prefix (mvars s) (mvars s2)).
  { destruct (run_mono mb s1 s2 H2) as [Hp _]. rewrite Hv1 in Hp. exact Hp. }
  destruct (close_inv s s2 s' (l_env l) (l_items (lrun lb (lstep l LBlockOpen))) top Hr Hne Hst2 Hp Hg2 E3) as (A & B & C & D).
  rewrite !lrun_app. cbn [fold_left].
  destruct (Hlf (lstep l LBlockOpen)) as [Hc (bs & Hv & He)].
  set (l2 := lrun lb (lstep l LBlockOpen)) in *.
  assert (Eenv : l_env (lstep l2 LBlockClose) = l_env l).
  { change (l_env (lstep l2 LBlockClose)) with (pop_to_mark (l_env l2)). rewrite He.
    change (l_env (lstep l LBlockOpen)) with (BMark :: l_env l). apply pop_to_mark_vars. exact Hv. }
  assert (Eitems : l_items (lstep l2 LBlockClose) = l_items l2) by reflexivity.
  split; [|split; [exact C|rewrite D; exact Hp]].
  constructor; rewrite ?Eenv, ?Eitems; auto. rewrite C. exact Hne.
Qed.

(** the general form: whatever happens inside an opened scope, after the matching close the model is
    back in the environment it started from; only G has to be carried through *)
Lemma scoped_gen s l l3 s' b0 mb :
  neutral 1 mb -> Inv s l -> l_env l3 = l_env l -> (forall x, In x (l_items l) -> In x (l_items l3)) ->
  (forall s1 s2, step s (EvOpen b0) = Some s1 -> run s1 mb = Some s2 -> G s2 (l_items l3)) ->
  run s ([EvOpen b0] ++ mb ++ [EvClose]) = Some s' ->
  Inv s' l3 /\ stack s' = stack s /\ names_prefix (mvars s) (mvars s').
Proof.
  intros Hn [Hr Hnd Hg Hne] He Hmono Hbody Hrun.
  apply run_app in Hrun as (s1 & H1 & Hrun). apply run_app in Hrun as (s2 & H2 & H3).
  cbn [run] in H1. destruct (step s (EvOpen b0)) as [s1'|] eqn:E1; [|discriminate]. injection H1 as ->.
  destruct (step_open _ _ _ E1) as (_ & _ & Hv1 & Hst1).
  destruct (run_tail mb s1 s2 [{| s_id := next_scope s; s_vars := []; s_refs := []; s_blocked := b0 |}] (stack s) 1) as (pre' & Hst2 & Hl & _);
    [rewrite Hst1; reflexivity|discriminate|apply Hn; lia|exact H2|].
  destruct pre' as [|top [|x y]]; cbn in Hl; try lia. cbn [app] in Hst2.
  cbn [run] in H3. destruct (step s2 EvClose) as [s3|] eqn:E3; [|discriminate]. injection H3 as ->.
  assert (Hp : names_prefix (mvars s) (mvars s2)).
  { destruct (run_mono mb s1 s2 H2) as [Hp _]. rewrite Hv1 in Hp. exact Hp. }
  pose proof (Hbody s1 s2 eq_refl H2) as Hg2.
  destruct (close_inv s s2 s' (l_env l) (l_items l3) top Hr Hne Hst2 Hp Hg2 E3) as (A & B & C & D).
  split; [|split; [exact C|rewrite D; exact Hp]].
  constructor; rewrite ?He; auto. rewrite C. exact Hne.
Qed.

(** ** parameters *)
Lemma define_params_defs ps t : In (PrmName t) ps -> In (EvDefine t false) (define_params ps).
Proof. intros H. unfold define_params. apply in_map_iff. exists (PrmName t). auto. Qed.

Lemma covered_defines ts : forall evs dn, Forall (fun e => match e with EvDefine _ _ => True | _ => False end) evs -> covered ts dn evs.
Proof.
  induction evs as [|e r IH]; intros dn H; cbn [covered]; [exact I|]. inversion H as [|? ? He Hr]; subst.
  destruct e; try contradiction. apply IH. exact Hr.
Qed.

Lemma define_params_all ps : Forall (fun e => match e with EvDefine _ _ => True | _ => False end) (define_params ps).
Proof. unfold define_params. induction ps as [|p r IH]; cbn; constructor; [destruct p; exact I|exact IH]. Qed.

(** names the Lua side declares when entering a function *)
Lemma params_env_names ps : forall st, exists bs, only_vars bs /\
  l_env (fold_left (fun st p => match p with PrmName t => emit_decl st t DParam false | PrmEllipsis _ => st end) ps st) = bs ++ l_env st /\
  (forall n d, In (BVar n d) bs -> exists t, In (PrmName t) ps /\ t_name t = n).
Proof.
  induction ps as [|p ps IH]; intros st; cbn [fold_left]; [exists []; repeat split; [constructor|intros n d []]|].
  destruct p.
  - destruct (IH (emit_decl st t DParam false)) as (bs & Hv & He & Hn).
    exists (bs ++ [BVar (t_name t) (t_range t)]). split; [apply Forall_app; split; [exact Hv|constructor; [exact I|constructor]]|].
    split; [rewrite He; cbn [emit_decl l_env]; rewrite <- app_assoc; reflexivity|].
    intros n d Hin. apply in_app_iff in Hin as [Hin|[Hin|[]]].
    + destruct (Hn n d Hin) as (t' & Ht' & Hnm). exists t'. split; [right; exact Ht'|exact Hnm].
    + injection Hin as <- _. exists t. split; [left; reflexivity|reflexivity].
  - destruct (IH st) as (bs & Hv & He & Hn). exists bs. split; [exact Hv|]. split; [exact He|].
    intros n d Hin. destruct (Hn n d Hin) as (t' & Ht' & Hnm). exists t'. split; [right; exact Ht'|exact Hnm].
Qed.

Lemma fn_open_names l self ps : exists bs, only_vars bs /\
  l_env (lstep l (LFnOpen self ps)) = bs ++ BBarrier (vararg_of ps) :: l_env l /\
  (forall n d, In (BVar n d) bs -> (n = "self" /\ self <> None) \/ exists t, In (PrmName t) ps /\ t_name t = n) /\
  (forall x, In x (l_items l) -> In x (l_items (lstep l (LFnOpen self ps)))).
Proof.
  cbn [lstep].
  set (s1 := {| l_env := BBarrier (vararg_of ps) :: l_env l; l_ctx := _ :: l_ctx l; l_items := l_items l |}).
  set (s2 := match self with Some m => emit_decl s1 {| t_name := "self"; t_lo := t_lo m; t_hi := t_hi m |} DSelf false | None => s1 end).
  assert (H2 : exists bs, only_vars bs /\ l_env s2 = bs ++ BBarrier (vararg_of ps) :: l_env l /\
               (forall n d, In (BVar n d) bs -> n = "self" /\ self <> None) /\ (forall x, In x (l_items l) -> In x (l_items s2))).
  { unfold s2. destruct self as [m|].
    - exists [BVar "self" (t_lo m, t_hi m)]. split; [constructor; [exact I|constructor]|]. split; [reflexivity|]. split.
      + intros n d [[= <- _]|[]]. split; [reflexivity|discriminate].
      + intros x Hx. cbn [emit_decl l_items s1]. apply in_or_app. left. exact Hx.
    - exists []. split; [constructor|]. split; [reflexivity|]. split; [intros n d []|intros x Hx; exact Hx]. }
  destruct H2 as (b2 & V2 & E2 & N2 & I2). destruct (params_env_names ps s2) as (b1 & V1 & E1 & N1).
  exists (b1 ++ b2). split; [apply Forall_app; auto|]. split; [rewrite E1, E2, <- app_assoc; reflexivity|]. split.
  - intros n d Hin. apply in_app_iff in Hin as [Hin|Hin]; [right; apply (N1 n d Hin)|left; apply (N2 n d Hin)].
  - intros x Hx. destruct (params_items ps s2) as [more ->]. apply in_or_app. left. apply I2. exact Hx.
Qed.

(** opens and defines only: nothing visible is lost (except `...` behind a function boundary),
    no reference is touched, what was defined is visible *)
Definition open_or_define (e : ev) : Prop := match e with EvOpen _ | EvDefine _ _ => True | _ => False end.

Lemma prelude_facts evs : Forall open_or_define evs -> forall s s', stack s <> [] -> run s evs = Some s' ->
  (forall name, name <> "..." -> fv s name <> None -> fv s' name <> None) /\ refs s' = refs s /\
  (forall t b, In (EvDefine t b) evs -> t_name t <> "..." -> fv s' (t_name t) <> None) /\ stack s' <> [].
Proof.
  induction 1 as [|e r He _ IH]; intros s s' Hne; cbn [run].
  - intros [= <-]. repeat split; auto; try (intros t b []).
  - destruct (step s e) as [s1|] eqn:Es; [|discriminate]. intros Hrun.
    destruct (stack s) as [|sc rest] eqn:Est; [congruence|].
    assert (Hne1 : stack s1 <> []).
    { pose proof (step_depth _ _ _ Es) as Hd. rewrite Est in Hd. destruct e; try contradiction; cbn in Hd; injection Hd as Hd;
        destruct (stack s1); discriminate. }
    destruct (IH s1 s' Hne1 Hrun) as (A & B & C & D).
    destruct e; try contradiction.
    + destruct (step_open _ _ _ Es) as (Hle & Hrefs & _ & _).
      split; [intros name Hn H; apply A; [exact Hn|]; apply Hle; assumption|].
      split; [congruence|]. split; [|exact D].
      intros t b [Heq|Hin] Hn; [discriminate|]. apply (C t b Hin Hn).
    + destruct (step_define _ _ _ _ _ _ Es Est) as (Hself & Hmono & Hrefs).
      split; [intros name Hn H; apply A; [exact Hn|]; apply Hmono; exact H|].
      split; [congruence|]. split; [|exact D].
      intros t0 b [Heq|Hin] Hn; [|apply (C t0 b Hin Hn)]. injection Heq as <- <-. apply A; [exact Hn|exact Hself].
Qed.

Definition selftok (m : tok) : tok := {| t_name := "self"; t_lo := t_lo m; t_hi := t_hi m |}.

Definition fn_prelude (self : option tok) (ps : list param) : list ev :=
  match self with
  | None => [EvOpen true] ++ define_params ps
  | Some m => [EvOpen false; EvDefine (selftok m) true; EvOpen true] ++ define_params ps
  end.

Lemma fn_prelude_shape self ps : Forall open_or_define (fn_prelude self ps).
Proof.
  assert (H : Forall open_or_define (define_params ps)).
  { unfold define_params. induction ps as [|p r IH]; cbn; constructor; [destruct p; exact I|exact IH]. }
  destruct self; cbn [fn_prelude app]; repeat (constructor; [exact I|]); exact H.
Qed.

Lemma ok_param_name ps t : forallb ok_param ps = true -> In (PrmName t) ps -> t_name t <> "...".
Proof.
  intros H Hin. rewrite forallb_forall in H. specialize (H _ Hin). cbn in H. unfold nd in H.
  apply negb_true_iff in H. intros E. rewrite E in H. cbn in H. discriminate.
Qed.

Lemma enter_fn s l self ps s_in :
  forallb ok_param ps = true -> Inv s l -> run s (fn_prelude self ps) = Some s_in ->
  Inv s_in (lstep l (LFnOpen self ps)).
Proof.
  intros Hok [Hr Hnd Hg Hne] Hrun.
  destruct (prelude_facts _ (fn_prelude_shape self ps) s s_in Hne Hrun) as (A & B & C & D).
  destruct (fn_open_names l self ps) as (bs & Hv & He & Hn & Hi).
  assert (Hdots : forall d, ~ In (BVar "..." d) bs).
  { intros d Hin. destruct (Hn _ _ Hin) as [[E _]|(t & Ht & E)]; [discriminate|]. apply (ok_param_name ps t Hok Ht). exact E. }
  constructor.
  - rewrite He. intros name Hl. apply lookup_app_vars in Hl; [|exact Hv].
    destruct Hl as [[d Hd]|Hl].
    + destruct (Hn _ _ Hd) as [[-> Hs]|(t & Ht & <-)].
      * destruct self as [m|]; [|congruence]. apply (C (selftok m) true); [cbn; auto|cbn; discriminate].
      * apply (C t false); [|apply (ok_param_name ps t Hok Ht)].
        destruct self; cbn [fn_prelude]; apply in_or_app; right; apply define_params_defs; exact Ht.
    + cbn [lookup_name] in Hl. apply A; [|apply Hr; exact Hl]. intros ->. apply Hl. exact Hnd.
  - unfold NoDots. rewrite He. rewrite lookup_app_vars_none; [cbn [lookup_name]; exact Hnd|exact Hv|exact Hdots].
  - intros r Hin. rewrite B in Hin. destruct (Hg r Hin) as [?|(o & Ho & ? & ?)]; [left; auto|right; exists o; auto].
  - exact D.
Qed.

Lemma define_params_quiet' ps : quiet (define_params ps).
Proof. apply define_params_quiet. Qed.

Lemma close_keeps_G s s' items : step s EvClose = Some s' -> G s items -> G s' items.
Proof.
  cbn [step]. destruct (stack s) as [|x [|y r]]; try discriminate. intros [= <-] Hg. exact Hg.
Qed.

Lemma fn_sim s l s' self ps core lb :
  neutral 1 core -> (forall l1, LF l1 (lrun lb l1)) ->
  (forall s1 l1 s2, Inv s1 l1 -> run s1 core = Some s2 -> Inv s2 (lrun lb l1)) ->
  forallb ok_param ps = true -> Inv s l ->
  run s (match self with
         | None => [EvOpen true] ++ (define_params ps ++ core) ++ [EvClose]
         | Some m => [EvOpen false] ++ ([EvDefine (selftok m) true] ++ [EvOpen true] ++ (define_params ps ++ core) ++ [EvClose]) ++ [EvClose]
         end) = Some s' ->
  Inv s' (lrun ([LFnOpen self ps] ++ lb ++ [LFnClose]) l) /\ stack s' = stack s /\ names_prefix (mvars s) (mvars s').
Proof.
  intros Hn Hlf Hbody Hok Hi Hrun.
  set (l3 := lrun ([LFnOpen self ps] ++ lb ++ [LFnClose]) l).
  destruct (fn_bracket self ps lb l Hlf) as [_ He3]. fold l3 in He3.
  assert (Hm3 : forall x, In x (l_items l) -> In x (l_items l3)) by (intros x Hx; apply lrun_items_in; exact Hx).
  assert (Hitems : l_items l3 = l_items (lrun lb (lstep l (LFnOpen self ps)))).
  { unfold l3. rewrite !lrun_app. reflexivity. }
  assert (Hnpc : neutral 1 (define_params ps ++ core)) by (apply neutral_app; [apply quiet_neutral; apply define_params_quiet|exact Hn]).
  destruct self as [m|].
  - apply (scoped_gen s l l3 s' false ([EvDefine (selftok m) true] ++ [EvOpen true] ++ (define_params ps ++ core) ++ [EvClose])); auto.
    + apply neutral_app; [apply quiet_neutral; constructor; [exact I|constructor]|]. apply neutral_bracket. exact Hnpc.
    + intros s1 s2 E1 H2. rewrite Hitems.
      apply run_app in H2 as (s1a & Ha & H2). apply run_app in H2 as (s1b & Hb & H2).
      apply run_app in H2 as (s2' & Hc & H2). apply run_app in Hc as (s1c & Hp & Hc).
      assert (Hpre : run s (fn_prelude (Some m) ps) = Some s1c).
      { cbn [fn_prelude]. change ([EvOpen false; EvDefine (selftok m) true; EvOpen true] ++ define_params ps)
          with ([EvOpen false] ++ [EvDefine (selftok m) true] ++ [EvOpen true] ++ define_params ps).
        apply run_app. exists s1. split; [cbn [run]; rewrite E1; reflexivity|].
        apply run_app. exists s1a. split; [exact Ha|]. apply run_app. exists s1b. split; [exact Hb|exact Hp]. }
      pose proof (enter_fn s l (Some m) ps s1c Hok Hi Hpre) as Hin.
      pose proof (Hbody _ _ _ Hin Hc) as [_ _ Hg2 _].
      cbn [run] in H2. destruct (step s2' EvClose) as [sx|] eqn:Ex; [|discriminate]. injection H2 as <-.
      apply (close_keeps_G _ _ _ Ex Hg2).
  - apply (scoped_gen s l l3 s' true (define_params ps ++ core)); auto.
    intros s1 s2 E1 H2. rewrite Hitems. apply run_app in H2 as (s1c & Hp & Hc).
    assert (Hpre : run s (fn_prelude None ps) = Some s1c).
    { cbn [fn_prelude]. apply run_app. exists s1. split; [cbn [run]; rewrite E1; reflexivity|exact Hp]. }
    pose proof (enter_fn s l None ps s1c Hok Hi Hpre) as Hin.
    pose proof (Hbody _ _ _ Hin Hc) as [_ _ Hg2 _]. exact Hg2.
Qed.

(** ** small facts used by the statement cases *)
Definition core (b : block) : list ev := match b with Block ss last _ => W_stmts ss ++ W_olast last end.

Lemma W_block_false b : W_block false b = core b.
Proof. destruct b as [ss last [r|]]; cbn [W_block core]; rewrite ?app_nil_r; reflexivity. Qed.

Lemma core_neutral b : neutral 1 (core b).
Proof. destruct b. cbn [core]. apply neutral_app; [apply W_stmts_neutral|apply W_olast_neutral]. Qed.

Lemma open_noLua s l b s1 : Inv s l -> step s (EvOpen b) = Some s1 -> Inv s1 l.
Proof.
  intros [Hr Hnd Hg Hne] Hs. destruct (step_open _ _ _ Hs) as (Hle & Hrefs & _ & Hst). constructor; auto.
  - intros name Hn. apply Hle; [|apply Hr; exact Hn]. intros ->. apply Hn. exact Hnd.
  - intros r Hin. rewrite Hrefs in Hin. apply Hg. exact Hin.
  - rewrite Hst. discriminate.
Qed.

Lemma bind_in_mark E t : bind_in (BMark :: E) t = bind_in E t.
Proof. reflexivity. Qed.

Lemma avail_mark items E ts : avail items E ts -> avail items (BMark :: E) ts.
Proof. intros H t Ht. destruct (H t Ht) as (o & Ho & H1 & H2). exists o. rewrite bind_in_mark. auto. Qed.

Lemma bind_in_vars bs E t : only_vars bs -> (forall d, ~ In (BVar (t_name t) d) bs) -> bind_in (bs ++ E) t = bind_in E t.
Proof. intros Hv Hn. unfold bind_in. rewrite lookup_app_vars_none by assumption. reflexivity. Qed.

(** a ctx bracket around occurrence events *)
Lemma bracket_avail eo ei sp ne levs l :
  all_occ levs ->
  let l' := lrun ([LCtxPush eo ei sp ne] ++ levs ++ [LCtxPop]) l in
  LSame l l' /\ avail (l_items l') (l_env l) (flat_map occ_tok levs) /\ (forall x, In x (l_items l) -> In x (l_items l')).
Proof.
  intros Ho. cbv zeta. split; [apply ctx_bracket_same; exact Ho|]. split; [|intros x Hx; apply lrun_items_in; exact Hx].
  rewrite !lrun_app. cbn [fold_left].
  set (l1 := lstep l (LCtxPush eo ei sp ne)).
  destruct (lrun_occs levs Ho l1) as (_ & _ & Ha). cbv zeta in Ha.
  change (l_items (lstep (lrun levs l1) LCtxPop)) with (l_items (lrun levs l1)). exact Ha.
Qed.

(** a model segment that defines [names], against a Lua segment that declares them *)
Lemma seg_decls s l l' s' ts evs names :
  Inv s l -> avail (l_items l) (l_env l) ts -> covered ts [] evs -> quiet evs ->
  (forall n, In n names -> exists b, In (EvDefine n b) evs) -> forallb nd names = true ->
  (exists bs, only_vars bs /\ l_env l' = bs ++ l_env l /\ forall n d, In (BVar n d) bs -> exists t, In t names /\ t_name t = n) ->
  (forall x, In x (l_items l) -> In x (l_items l')) ->
  run s evs = Some s' -> Inv s' l'.
Proof.
  intros [Hr Hnd Hg Hne] Ha Hc Hq Hdef Hnd' (bs & Hv & He & Hn) Hmono Hrun.
  assert (Hdn : forall n, In n (@nil string) -> fv s n <> None) by (intros n []).
  destruct (quiet_ok evs ts [] (l_items l) (l_env l) s s' Hc Ha Hr Hdn Hg Hne Hrun) as (A & B & C & D).
  constructor.
  - rewrite He. intros name Hl. apply lookup_app_vars in Hl; [|exact Hv]. destruct Hl as [[d Hd]|Hl]; [|apply A; exact Hl].
    destruct (Hn _ _ Hd) as (t & Ht & <-). destruct (Hdef t Ht) as [b Hb]. apply (quiet_defs evs Hq s s' Hne Hrun t b Hb).
  - unfold NoDots. rewrite He. rewrite lookup_app_vars_none; [exact Hnd|exact Hv|].
    intros d Hd. destruct (Hn _ _ Hd) as (t & Ht & E). rewrite forallb_forall in Hnd'. specialize (Hnd' t Ht).
    unfold nd in Hnd'. rewrite E in Hnd'. cbn in Hnd'. discriminate.
  - apply (G_items s' (l_items l)); assumption.
  - exact C.
Qed.
