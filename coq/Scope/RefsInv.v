(** What every run of the scope state machine keeps true of the two arenas (all event traces, hence all
    programs):
    - a reference reads or writes (never neither);
    - a reference that reads was created or merged from a read event of its name;
    - the references listed under a variable exist and carry the variable's name. *)
From Selene Require Export Scope.Interp.
From Coq Require Import Lia.
Open Scope nat_scope.

Definition ref_rw (r : rref) : Prop := r_read r = true \/ r_write r <> None.

Definition reads_from (evs : list ev) (s : st) : Prop :=
  forall r, In r (refs s) -> r_read r = true -> exists t, In (EvRead t) evs /\ t_name t = t_name (r_tok r).

Definition vars_named (s : st) : Prop :=
  forall v id, In v (vars s) -> In id (v_refs v) ->
    exists r, nth_error (refs s) (N.to_nat id) = Some r /\ t_name (r_tok r) = t_name (v_tok v).

Record arenas_ok (evs : list ev) (s : st) : Prop := {
  ok_rw : forall r, In r (refs s) -> ref_rw r;
  ok_reads : reads_from evs s;
  ok_named : vars_named s }.

Lemma in_set_nth {A} (f : A -> A) l : forall n x, In x (set_nth n f l) -> In x l \/ exists y, nth_error l n = Some y /\ x = f y.
Proof.
  unfold set_nth. induction l as [|y r IH]; intros [|n] x; cbn; try tauto.
  - intros [<-|H]; [right; exists y; auto|left; auto].
  - intros [<-|H]; [left; auto|]. destruct (IH n x H) as [H1|(z & Hz & ->)]; [left; auto|right; exists z; auto].
Qed.

Lemma nth_error_set_nth_same {A} (f : A -> A) l : forall n m, nth_error (set_nth n f l) m =
  if Nat.eqb n m then option_map f (nth_error l m) else nth_error l m.
Proof.
  unfold set_nth. induction l as [|y r IH]; intros [|n] [|m]; cbn; try reflexivity.
  - destruct (Nat.eqb _ _); reflexivity.
  - apply IH.
Qed.

Lemma find_variable_name vs stk name : forall id, find_variable vs stk name = Some id -> var_name_is vs name id = true.
Proof.
  induction stk as [|sc rest IH]; intros id; cbn [find_variable]; [discriminate|].
  unfold in_scope. destruct (find (var_name_is vs name) (s_vars sc)) as [i|] eqn:Ef.
  - intros [= <-]. apply find_some in Ef. apply Ef.
  - destruct (s_blocked sc && str_eqb name "..."); [discriminate|apply IH].
Qed.

Lemma find_index_some {A} (p : A -> bool) l : forall k i, find_index p l k = Some i ->
  exists x, nth_error l (i - k) = Some x /\ p x = true /\ k <= i.
Proof.
  induction l as [|y r IH]; intros k i; cbn [find_index]; [discriminate|].
  destruct (p y) eqn:Ep.
  - intros [= <-]. exists y. rewrite Nat.sub_diag. auto.
  - intros H. destruct (IH _ _ H) as (x & Hx & Hp & Hk). exists x. split; [|split; [exact Hp|lia]].
    replace (i - k) with (S (i - S k)) by lia. exact Hx.
Qed.

(** reference_variable keeps the three facts, given that the new reference reads or writes and that a
    reading one comes with its read event *)
Lemma reference_variable_ok evs s new s' :
  arenas_ok evs s -> ref_rw new ->
  (r_read new = true -> exists t, In (EvRead t) evs /\ t_name t = t_name (r_tok new)) ->
  reference_variable s new = Some s' -> arenas_ok evs s'.
Proof.
  intros [Hrw Hrd Hnm] Hnew Hnewrd. unfold reference_variable.
  destruct (find_index _ (refs s) 0) as [i|] eqn:Ef.
  - destruct (nth_error (refs s) i) as [old|] eqn:Eo; [|discriminate].
    destruct (find_index_some _ _ _ _ Ef) as (x & Hx & Hp & _). rewrite Nat.sub_0_r, Eo in Hx. injection Hx as <-.
    apply andb_true_iff in Hp as [Hp _]. apply andb_true_iff in Hp as [Hname _]. apply str_eqb_eq in Hname.
    set (merged := {| r_tok := r_tok old; r_read := r_read old || r_read new;
                      r_write := match r_write new with Some w => Some w | None => r_write old end;
                      r_resolved := r_resolved old; r_scope := r_scope old |}).
    assert (Hold : In old (refs s)) by (apply nth_error_In with i; exact Eo).
    assert (Hres : forall st', st' = {| refs := set_nth i (fun _ => merged) (refs s); vars := vars s; stack := stack s;
                                         next_scope := next_scope s; captured := captured s |} -> arenas_ok evs st').
    { intros st' ->. constructor; cbn [refs vars].
      - intros r Hr. apply in_set_nth in Hr as [Hr|(y & _ & ->)]; [apply Hrw; exact Hr|].
        unfold ref_rw, merged. cbn [r_read r_write]. destruct (Hrw old Hold) as [H|H]; [left; rewrite H; reflexivity|].
        right. destruct (r_write new); [discriminate|exact H].
      - intros r Hr Hread. apply in_set_nth in Hr as [Hr|(y & _ & ->)]; [apply Hrd; assumption|].
        unfold merged in Hread |- *. cbn [r_read r_tok] in *. apply orb_true_iff in Hread as [H|H].
        + apply (Hrd old Hold H).
        + destruct (Hnewrd H) as (t & Ht & En). exists t. split; [exact Ht|]. congruence.
      - unfold vars_named. cbn [refs vars]. intros v id Hv Hid. destruct (Hnm v id Hv Hid) as (r & Hr & Hn).
        pose proof (nth_error_set_nth_same (fun _ => merged) (refs s) i (N.to_nat id)) as E.
        destruct (Nat.eqb i (N.to_nat id)) eqn:Ei.
        + apply Nat.eqb_eq in Ei. subst i. rewrite Hr in E. cbn [option_map] in E. exists merged. split; [exact E|].
          rewrite Eo in Hr. injection Hr as <-. exact Hn.
        + exists r. rewrite E. auto. }
    destruct (r_write new), (r_write old); try discriminate; intros [= <-]; apply Hres; reflexivity.
  - intros [= <-].
    set (name := t_name (r_tok new)).
    set (r := {| r_tok := r_tok new; r_read := r_read new; r_write := r_write new;
                 r_resolved := find_variable (vars s) (stack s) name; r_scope := r_scope new |}).
    constructor; cbn [refs vars].
    + intros x Hx. apply in_app_iff in Hx as [Hx|[<-|[]]]; [apply Hrw; exact Hx|exact Hnew].
    + intros x Hx Hread. apply in_app_iff in Hx as [Hx|[<-|[]]]; [apply Hrd; assumption|]. apply Hnewrd. exact Hread.
    + unfold vars_named. cbn [refs vars]. intros v id Hv Hid.
      assert (Hkeep : forall v0 id0, In v0 (vars s) -> In id0 (v_refs v0) ->
                exists r0, nth_error (refs s ++ [r]) (N.to_nat id0) = Some r0 /\ t_name (r_tok r0) = t_name (v_tok v0)).
      { intros v0 id0 H0 H1. destruct (Hnm v0 id0 H0 H1) as (r0 & Hr0 & Hn0). exists r0. split; [|exact Hn0].
        rewrite nth_error_app1; [exact Hr0|apply nth_error_Some; congruence]. }
      destruct (find_variable (vars s) (stack s) name) as [vid|] eqn:Efv; [|apply Hkeep; assumption].
      apply in_set_nth in Hv as [Hv|(v0 & Hv0 & ->)]; [apply Hkeep; assumption|].
      pose proof (nth_error_In _ _ Hv0) as Hin0.
      cbn [v_refs v_tok] in *. apply in_app_iff in Hid as [Hid|[<-|[]]]; [apply Hkeep; assumption|].
      (* the new reference, listed under the variable find_variable returned: is v0 that variable? *)
      exists r. split.
      * rewrite Nnat.Nat2N.id, nth_error_app2 by lia. rewrite Nat.sub_diag. reflexivity.
      * cbn [r_tok]. fold name.
        apply find_variable_name in Efv. unfold var_name_is in Efv. rewrite Hv0 in Efv. apply str_eqb_eq in Efv. symmetry. exact Efv.
Qed.

Lemma ref_rw_read t sc : ref_rw {| r_tok := t; r_read := true; r_write := None; r_resolved := None; r_scope := sc |}.
Proof. left. reflexivity. Qed.
Lemma ref_rw_write t k sc : ref_rw {| r_tok := t; r_read := false; r_write := Some k; r_resolved := None; r_scope := sc |}.
Proof. right. discriminate. Qed.

Lemma arenas_ok_more evs e s : arenas_ok evs s -> arenas_ok (evs ++ [e]) s.
Proof.
  intros [A B C]. constructor; auto. intros r Hr Hd. destruct (B r Hr Hd) as (t & Ht & E). exists t. split; [apply in_app_iff; left; exact Ht|exact E].
Qed.

Lemma step_ok evs s e s' : arenas_ok evs s -> step s e = Some s' -> arenas_ok (evs ++ [e]) s'.
Proof.
  intros Hok. pose proof (arenas_ok_more evs e s Hok) as Hok'. destruct e; cbn [step].
  - intros [= <-]. destruct Hok' as [A B C]. constructor; auto.
  - destruct (stack s) as [|x [|y r]]; try discriminate. intros [= <-]. destruct Hok' as [A B C]. constructor; auto.
  - destruct (existsb _ (captured s)); [intros [= <-]; exact Hok'|]. intros H.
    refine (reference_variable_ok (evs ++ [EvRead t]) _ _ s' _ (ref_rw_read t _) _ H).
    + destruct Hok' as [A B C]. constructor; auto.
    + intros _. exists t. split; [apply in_app_iff; right; left; reflexivity|reflexivity].
  - intros H. refine (reference_variable_ok (evs ++ [EvWrite t k]) s _ s' Hok' (ref_rw_write t k _) _ H). cbn. discriminate.
  - intros [= <-]. unfold define. cbn [fst]. destruct Hok' as [A B C]. constructor; cbn [refs vars]; auto.
    unfold vars_named. cbn [refs vars]. intros v id Hv Hid. apply in_app_iff in Hv as [Hv|[<-|[]]]; [apply C; assumption|destruct Hid].
  - destruct (stack s) as [|sc rest]; [discriminate|]. destruct (s_refs sc) as [|rid rr]; [discriminate|].
    destruct (nth_error (refs s) (N.to_nat rid)) as [r|]; [|discriminate].
    destruct (find_variable (vars s) (sc :: rest) (t_name (r_tok r))); [intros [= <-]; exact Hok'|].
    unfold define. cbn [fst snd refs vars]. intros [= <-]. destruct Hok' as [A B C]. constructor; cbn [refs vars].
    + intros x Hx. apply in_map_iff in Hx as (y & <- & Hy). specialize (A y Hy). destruct (_ && _ && _); exact A.
    + intros x Hx Hd. apply in_map_iff in Hx as (y & <- & Hy).
      assert (Hy' : r_read y = true) by (destruct (_ && _ && _); exact Hd).
      destruct (B y Hy Hy') as (t & Ht & E). exists t. split; [exact Ht|]. destruct (_ && _ && _); exact E.
    + unfold vars_named. cbn [refs vars]. intros v id Hv Hid. apply in_app_iff in Hv as [Hv|[<-|[]]]; [|destruct Hid].
      destruct (C v id Hv Hid) as (r0 & Hr0 & Hn0). rewrite nth_error_map, Hr0. cbn [option_map].
      eexists. split; [reflexivity|]. destruct (_ && _ && _); exact Hn0.
Qed.

Lemma run_ok evs : forall pre s s', arenas_ok pre s -> run s evs = Some s' -> arenas_ok (pre ++ evs) s'.
Proof.
  induction evs as [|e r IH]; intros pre s s' Hok; cbn [run].
  - intros [= <-]. rewrite app_nil_r. exact Hok.
  - destruct (step s e) as [s1|] eqn:Es; [|discriminate]. intros H.
    replace (pre ++ e :: r) with ((pre ++ [e]) ++ r) by (rewrite <- app_assoc; reflexivity).
    apply (IH _ s1 s'); [apply (step_ok pre s e s1); assumption|exact H].
Qed.

Lemma init_ok : arenas_ok [] init_st.
Proof. constructor; cbn; [intros r []|intros r []|intros v id []]. Qed.

Theorem scope_manager_ok chunk s : scope_manager chunk = Some s -> arenas_ok (events_of_chunk chunk) s.
Proof.
  unfold scope_manager. destruct (run init_st (events_of_chunk chunk)) as [s0|] eqn:E; [|discriminate].
  destruct (stack s0) as [|x [|y r]]; try discriminate. intros [= <-]. apply (run_ok _ [] init_st s0 init_ok E).
Qed.
