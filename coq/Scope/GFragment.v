(** Lifting the function-expression restriction, part 3: the well-formedness predicate for whole
    programs (the only requirement left: no declared name is literally "..."), and the Lua frames for
    all syntactic categories. *)
From Selene Require Export Scope.Replay Scope.Fragment.

Fixpoint gok_expr (e : expr) : bool :=
  match e with
  | EFunction b => gok_funcbody b
  | EParen e' => gok_expr e'
  | EUnop _ e' => gok_expr e'
  | EBinop _ l r => gok_expr l && gok_expr r
  | ECall c => gok_fcall c
  | ETable fs => gok_fields fs
  | EVar v => gok_var v
  | _ => true
  end
with gok_var (v : var) : bool :=
  match v with VName _ => true | VExpr p ss _ => gok_prefix p && gok_suffixes ss end
with gok_prefix (p : prefix) : bool :=
  match p with PName _ => true | PExpr e => gok_expr e end
with gok_suffixes (ss : suffixes) : bool :=
  match ss with SsNil => true | SsCons s r => gok_suffix s && gok_suffixes r end
with gok_suffix (s : suffix) : bool :=
  match s with SfxCall c => gok_call c | SfxIndex i => gok_index i end
with gok_call (c : call) : bool :=
  match c with CAnon a => gok_args a | CMethod _ a => gok_args a end
with gok_args (a : args) : bool :=
  match a with AParens es => gok_exprs es | AString _ => true | ATable fs => gok_fields fs end
with gok_index (i : index) : bool :=
  match i with IBrackets e => gok_expr e | IDot _ => true end
with gok_fields (fs : fields) : bool :=
  match fs with FsNil => true | FsCons f r => gok_field f && gok_fields r end
with gok_field (f : field) : bool :=
  match f with
  | FExprKey k v => gok_expr k && gok_expr v
  | FNameKey _ v => gok_expr v
  | FNoKey v => gok_expr v
  end
with gok_exprs (es : exprs) : bool :=
  match es with EsNil => true | EsCons e r => gok_expr e && gok_exprs r end
with gok_fcall (c : fcall) : bool :=
  match c with FCall p ss _ => gok_prefix p && gok_suffixes ss end
with gok_funcbody (b : funcbody) : bool :=
  match b with FBody ps blk => forallb ok_param ps && gok_block blk end
with gok_block (b : block) : bool :=
  match b with Block ss last _ => gok_stmts ss && gok_olast last end
with gok_stmts (ss : stmts) : bool :=
  match ss with StNil => true | StCons s r => gok_stmt s && gok_stmts r end
with gok_stmt (s : stmt) : bool :=
  match s with
  | SAssign vs es => gok_vars vs && gok_exprs es
  | SDo b => gok_block b
  | SCallStmt c => gok_fcall c
  | SFunction _ _ body => gok_funcbody body
  | SGenericFor names es b => forallb nd names && gok_exprs es && gok_block b
  | SIf c b eis els => gok_expr c && gok_block b && gok_elseifs eis && gok_oblock els
  | SLocal names es => forallb nd names && gok_exprs es
  | SLocalFunction name body => nd name && gok_funcbody body
  | SNumericFor v a b st blk => nd v && gok_expr a && gok_expr b && gok_oexpr st && gok_block blk
  | SRepeat b c => gok_block b && gok_expr c
  | SWhile c b => gok_expr c && gok_block b
  end
with gok_vars (vs : vars) : bool :=
  match vs with VsNil => true | VsCons v r => gok_var v && gok_vars r end
with gok_elseifs (e : elseifs) : bool :=
  match e with EiNil => true | EiCons c b r => gok_expr c && gok_block b && gok_elseifs r end
with gok_olast (l : olast) : bool :=
  match l with LReturn es => gok_exprs es | _ => true end
with gok_oblock (o : oblock) : bool :=
  match o with OBNone => true | OBSome b => gok_block b end
with gok_oexpr (o : oexpr) : bool :=
  match o with OENone => true | OESome e => gok_expr e end.

Lemma ctx_bracket_gen eo ei sp ne evs l :
  (forall l1, LSame l1 (lrun evs l1)) -> LSame l (lrun ([LCtxPush eo ei sp ne] ++ evs ++ [LCtxPop]) l).
Proof.
  intros H. rewrite !lrun_app. cbn [fold_left].
  set (l1 := lstep l (LCtxPush eo ei sp ne)). destruct (H l1) as [Hc He]. split.
  - cbn [lstep l_ctx]. rewrite Hc. reflexivity.
  - cbn [lstep l_env]. rewrite He. reflexivity.
Qed.

Lemma LSame_app a b l : (forall l1, LSame l1 (lrun a l1)) -> (forall l1, LSame l1 (lrun b l1)) -> LSame l (lrun (a ++ b) l).
Proof. intros Ha Hb. rewrite lrun_app. eapply LSame_trans; [apply Ha|apply Hb]. Qed.

Lemma LF_app a b l : (forall l1, LF l1 (lrun a l1)) -> (forall l1, LF l1 (lrun b l1)) -> LF l (lrun (a ++ b) l).
Proof. intros Ha Hb. rewrite lrun_app. eapply LF_trans; [apply Ha|apply Hb]. Qed.

Lemma occ1_same t k va l : LSame l (lrun [LOcc t k va] l).
Proof. apply all_occ_same. constructor; [exact I|constructor]. Qed.

Definition FrE (evs : list lev) : Prop := forall l, LSame l (lrun evs l).
Definition FrF (evs : list lev) : Prop := forall l, LF l (lrun evs l).

Lemma FrE_nil : FrE []. Proof. intros l. apply LSame_refl. Qed.
Lemma FrE_app a b : FrE a -> FrE b -> FrE (a ++ b). Proof. intros Ha Hb l. apply LSame_app; assumption. Qed.
Lemma FrE_F evs : FrE evs -> FrF evs. Proof. intros H l. apply LSame_LF. apply H. Qed.
Lemma FrF_app a b : FrF a -> FrF b -> FrF (a ++ b). Proof. intros Ha Hb l. apply LF_app; assumption. Qed.
Lemma FrE_block body : FrF body -> FrE ([LBlockOpen] ++ body ++ [LBlockClose]).
Proof. intros H l. apply block_bracket. exact H. Qed.
Lemma FrE_fn self ps body : FrF body -> FrE ([LFnOpen self ps] ++ body ++ [LFnClose]).
Proof. intros H l. apply fn_bracket. exact H. Qed.
Lemma FrE_ctx eo ei sp ne evs : FrE evs -> FrE ([LCtxPush eo ei sp ne] ++ evs ++ [LCtxPop]).
Proof. intros H l. apply ctx_bracket_gen. exact H. Qed.
Lemma FrE_occ t k va : FrE [LOcc t k va]. Proof. intros l. apply occ1_same. Qed.
Lemma FrF_decl t k b : FrF [LDecl t k b]. Proof. intros l. apply lstep_decl_LF. Qed.

Theorem gframes :
  (forall e, gok_expr e = true -> FrE (L_expr e)) /\
  (forall v, gok_var v = true -> forall k, FrE (L_var v k)) /\
  (forall p, gok_prefix p = true -> forall k, FrE (L_prefix p k)) /\
  (forall s, gok_suffix s = true -> FrE (L_suffix s)) /\
  (forall ss, gok_suffixes ss = true -> FrE (L_suffixes ss)) /\
  (forall c, gok_call c = true -> FrE (L_call c)) /\
  (forall a, gok_args a = true -> FrE (L_args a)) /\
  (forall i, gok_index i = true -> FrE (L_index i)) /\
  (forall fs, gok_fields fs = true -> FrE (L_fields fs)) /\
  (forall f, gok_field f = true -> FrE (L_field f)) /\
  (forall es, gok_exprs es = true -> FrE (L_exprs es) /\ (forall n k, FrE (L_assign_exprs es n k)) /\ (forall names k, FrE (L_local_exprs names es k))) /\
  (forall c, gok_fcall c = true -> FrE (L_fcall c)) /\
  (forall b, gok_funcbody b = true -> forall self, FrE (L_funcbody self b)) /\
  (forall b, gok_block b = true -> FrF (L_inner b)) /\
  (forall ss, gok_stmts ss = true -> FrF (L_stmts ss)) /\
  (forall s, gok_stmt s = true -> FrF (L_stmt s)) /\
  (forall vs, gok_vars vs = true -> FrE (L_vars vs)) /\
  (forall ei, gok_elseifs ei = true -> FrE (L_elseifs ei)) /\
  (forall ol, gok_olast ol = true -> FrE (L_olast ol)) /\
  (forall o, gok_oblock o = true -> FrE (match o with OBNone => [] | OBSome eb => [LBlockOpen] ++ L_inner eb ++ [LBlockClose] end)) /\
  (forall o, gok_oexpr o = true -> FrE (L_oexpr o)).
Proof.
  apply ast_mutind; intros;
    cbn [gok_expr gok_var gok_prefix gok_suffix gok_suffixes gok_call gok_args gok_index gok_fields gok_field gok_exprs gok_fcall
         gok_funcbody gok_block gok_stmts gok_stmt gok_vars gok_elseifs gok_olast gok_oblock gok_oexpr] in *;
    repeat match goal with H : _ && _ = true |- _ => apply andb_true_iff in H; destruct H end;
    repeat match goal with H : ?c = true -> _, H' : ?c = true |- _ => specialize (H H') end;
    cbn [L_expr L_var L_prefix L_suffix L_suffixes L_call L_args L_index L_fields L_field L_exprs L_fcall L_funcbody L_inner
         L_stmts L_stmt L_vars L_elseifs L_olast L_oexpr L_assign_exprs L_local_exprs];
    try apply FrE_nil; try assumption; try (apply FrE_occ); try (apply FrE_app; solve [auto]).
  all: try (apply H).
  - (* exprs nil *) repeat split; intros; apply FrE_nil.
  - (* exprs cons *) destruct H0 as (A & B & C). split; [apply FrE_app; assumption|]. split.
    + intros n k.
      replace ([LCtxPush [] [] (Nat.leb n k) false] ++ L_expr e ++ [LCtxPop] ++ L_assign_exprs es n (S k))
        with (([LCtxPush [] [] (Nat.leb n k) false] ++ L_expr e ++ [LCtxPop]) ++ L_assign_exprs es n (S k)) by (rewrite <- !app_assoc; reflexivity).
      apply FrE_app; [apply FrE_ctx; assumption|apply B].
    + intros names k.
      match goal with |- FrE ([?x] ++ L_expr e ++ [LCtxPop] ++ ?rest) =>
        replace ([x] ++ L_expr e ++ [LCtxPop] ++ rest) with (([x] ++ L_expr e ++ [LCtxPop]) ++ rest) by (rewrite <- !app_assoc; reflexivity) end.
      apply FrE_app; [apply FrE_ctx; assumption|apply C].
  - (* funcbody *) apply FrE_fn. assumption.
  - (* block *) apply FrF_app; [assumption|apply FrE_F; assumption].
  - (* stmts nil *) apply FrE_F. apply FrE_nil.
  - (* stmts cons *) apply FrF_app; assumption.
  - (* assign *) destruct H0 as (_ & B & _). apply FrE_F. apply FrE_app; [apply B|assumption].
  - (* do *) apply FrE_F. apply FrE_block. assumption.
  - (* call *) apply FrE_F. assumption.
  - (* function *) destruct names as [|base rest]; [apply FrE_F; apply FrE_nil|]. apply FrE_F. apply FrE_app; [apply FrE_occ|apply H].
  - (* generic for *) destruct H as (A & _ & _). apply FrE_F.
    match goal with |- FrE ([?x] ++ L_exprs es ++ [LCtxPop] ++ ?rest) =>
      replace ([x] ++ L_exprs es ++ [LCtxPop] ++ rest) with (([x] ++ L_exprs es ++ [LCtxPop]) ++ rest) by (rewrite <- !app_assoc; reflexivity) end.
    apply FrE_app; [apply FrE_ctx; exact A|].
    match goal with |- FrE ([LBlockOpen] ++ ?d ++ L_inner b ++ [LBlockClose]) =>
      replace ([LBlockOpen] ++ d ++ L_inner b ++ [LBlockClose]) with ([LBlockOpen] ++ (d ++ L_inner b) ++ [LBlockClose]) by (rewrite <- !app_assoc; reflexivity) end.
    apply FrE_block. apply FrF_app; [|assumption]. intros l. apply decls_LF. intros n. eauto.
  - (* if *) apply FrE_F. apply FrE_app; [assumption|].
    replace ([LBlockOpen] ++ L_inner b ++ [LBlockClose] ++ L_elseifs elifs ++
             match els with OBNone => [] | OBSome eb => [LBlockOpen] ++ L_inner eb ++ [LBlockClose] end)
      with (([LBlockOpen] ++ L_inner b ++ [LBlockClose]) ++ L_elseifs elifs ++
             match els with OBNone => [] | OBSome eb => [LBlockOpen] ++ L_inner eb ++ [LBlockClose] end) by (rewrite <- !app_assoc; reflexivity).
    apply FrE_app; [apply FrE_block; assumption|]. apply FrE_app; assumption.
  - (* local *) destruct H as (_ & _ & C). apply FrF_app; [apply FrE_F; apply C|]. intros l. apply L_local_decls_LF.
  - (* local function *) apply FrF_app; [apply FrF_decl|apply FrE_F; apply H].
  - (* numeric for *) apply FrE_F.
    match goal with |- FrE ([?x] ++ L_expr start ++ L_expr stop ++ L_oexpr step ++ [LCtxPop] ++ ?rest) =>
      replace ([x] ++ L_expr start ++ L_expr stop ++ L_oexpr step ++ [LCtxPop] ++ rest)
        with (([x] ++ (L_expr start ++ L_expr stop ++ L_oexpr step) ++ [LCtxPop]) ++ rest) by (rewrite <- !app_assoc; reflexivity) end.
    apply FrE_app; [apply FrE_ctx; apply FrE_app; [assumption|apply FrE_app; assumption]|].
    change ([LBlockOpen; LDecl v DLoop false] ++ L_inner b ++ [LBlockClose])
      with ([LBlockOpen] ++ ([LDecl v DLoop false] ++ L_inner b) ++ [LBlockClose]).
    apply FrE_block. apply FrF_app; [apply FrF_decl|assumption].
  - (* repeat *) apply FrE_F.
    replace ([LBlockOpen] ++ L_inner b ++ L_expr c ++ [LBlockClose]) with ([LBlockOpen] ++ (L_inner b ++ L_expr c) ++ [LBlockClose])
      by (rewrite <- !app_assoc; reflexivity).
    apply FrE_block. apply FrF_app; [assumption|apply FrE_F; assumption].
  - (* while *) apply FrE_F. apply FrE_app; [assumption|apply FrE_block; assumption].
  - (* elseifs cons *) apply FrE_app; [assumption|].
    match goal with |- FrE ([LBlockOpen] ++ L_inner b ++ [LBlockClose] ++ ?rest) =>
      replace ([LBlockOpen] ++ L_inner b ++ [LBlockClose] ++ rest) with (([LBlockOpen] ++ L_inner b ++ [LBlockClose]) ++ rest)
        by (rewrite <- !app_assoc; reflexivity) end.
    apply FrE_app; [apply FrE_block; assumption|assumption].
  - (* oblock some *) apply FrE_block. assumption.
Qed.
