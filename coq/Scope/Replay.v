(** Lifting the function-expression restriction, part 2: what the Lua resolver appends for a piece of
    trace depends only on the environment it starts from, so a function body can be replayed later from a
    virtual state with the old environment and its items found among the ones produced originally. *)
From Selene Require Export Scope.SimCore Scope.Pieces.
From Coq Require Import Lia.
Open Scope nat_scope.

Definition okey (o : occ) : tok * obind := (o_tok o, o_bind o).
Definition occ_keys (items : list item) : list (tok * obind) :=
  flat_map (fun i => match i with IOcc o => [okey o] | IDecl _ => [] end) items.

Lemma occ_keys_app a b : occ_keys (a ++ b) = occ_keys a ++ occ_keys b.
Proof. unfold occ_keys. apply flat_map_app. Qed.

Lemma occ_keys_in items o : In (IOcc o) items -> In (okey o) (occ_keys items).
Proof. intros H. unfold occ_keys. apply in_flat_map. exists (IOcc o). split; [exact H|left; reflexivity]. Qed.

Lemma occ_keys_inv items k : In k (occ_keys items) -> exists o, In (IOcc o) items /\ okey o = k.
Proof.
  unfold occ_keys. intros H. apply in_flat_map in H as (i & Hi & Hk). destruct i as [o|d]; [|contradiction].
  destruct Hk as [<-|[]]. exists o. auto.
Qed.

(** the environment-only shadow of [lstep] *)
Definition env_params (ps : list param) (E : list benv) : list benv :=
  fold_left (fun E p => match p with PrmName t => BVar (t_name t) (t_range t) :: E | PrmEllipsis _ => E end) ps E.

Definition estep (E : list benv) (e : lev) : list benv * list (tok * obind) :=
  match e with
  | LOcc t _ va =>
      (E, [(t, if va then lookup_vararg E else match lookup_name (t_name t) E with Some d => OLocal d | None => OGlobal end)])
  | LDecl t _ _ => (BVar (t_name t) (t_range t) :: E, [])
  | LBlockOpen => (BMark :: E, [])
  | LBlockClose => (pop_to_mark E, [])
  | LFnOpen self ps =>
      let E1 := BBarrier (vararg_of ps) :: E in
      let E2 := match self with Some m => BVar "self" (t_lo m, t_hi m) :: E1 | None => E1 end in
      (env_params ps E2, [])
  | LFnClose => (pop_to_barrier E, [])
  | LCtxPush _ _ _ _ | LCtxPop => (E, [])
  end.

Fixpoint erun (E : list benv) (evs : list lev) : list benv * list (tok * obind) :=
  match evs with
  | [] => (E, [])
  | e :: r => let '(E1, k1) := estep E e in let '(E2, k2) := erun E1 r in (E2, k1 ++ k2)
  end.

Lemma params_shadow ps : forall st,
  l_env (fold_left (fun st p => match p with PrmName t => emit_decl st t DParam false | PrmEllipsis _ => st end) ps st) = env_params ps (l_env st) /\
  occ_keys (l_items (fold_left (fun st p => match p with PrmName t => emit_decl st t DParam false | PrmEllipsis _ => st end) ps st)) = occ_keys (l_items st).
Proof.
  unfold env_params. induction ps as [|p r IH]; intros st; cbn [fold_left]; [split; reflexivity|].
  destruct p; [|apply IH]. destruct (IH (emit_decl st t DParam false)) as [A B]. split; [exact A|].
  rewrite B. cbn [emit_decl l_items]. rewrite occ_keys_app. cbn. apply app_nil_r.
Qed.

Lemma lstep_shadow l e :
  l_env (lstep l e) = fst (estep (l_env l) e) /\ occ_keys (l_items (lstep l e)) = occ_keys (l_items l) ++ snd (estep (l_env l) e).
Proof.
  destruct e; cbn [lstep estep fst snd l_env l_items]; rewrite ?app_nil_r; try (split; reflexivity).
  - split; [reflexivity|]. rewrite occ_keys_app. f_equal. destruct is_vararg; reflexivity.
  - split; [reflexivity|]. cbn [emit_decl l_items]. rewrite occ_keys_app. cbn. apply app_nil_r.
  - set (s1 := {| l_env := BBarrier (vararg_of ps) :: l_env l; l_ctx := _ :: l_ctx l; l_items := l_items l |}).
    set (s2 := match self with Some m => emit_decl s1 {| t_name := "self"; t_lo := t_lo m; t_hi := t_hi m |} DSelf false | None => s1 end).
    destruct (params_shadow ps s2) as [A B]. rewrite A, B. unfold s2. destruct self as [m|]; cbn [emit_decl l_env l_items s1].
    + split; [reflexivity|]. rewrite occ_keys_app. cbn. apply app_nil_r.
    + split; reflexivity.
Qed.

Lemma lrun_shadow evs : forall l,
  l_env (lrun evs l) = fst (erun (l_env l) evs) /\ occ_keys (l_items (lrun evs l)) = occ_keys (l_items l) ++ snd (erun (l_env l) evs).
Proof.
  induction evs as [|e r IH]; intros l; cbn [fold_left erun]; [rewrite app_nil_r; split; reflexivity|].
  destruct (lstep_shadow l e) as [A B]. destruct (IH (lstep l e)) as [C D]. rewrite A in C, D.
  destruct (estep (l_env l) e) as [E1 k1]. cbn [fst snd] in *. destruct (erun E1 r) as [E2 k2]. cbn [fst snd] in *.
  split; [exact C|]. rewrite D, B, app_assoc. reflexivity.
Qed.

(** [items] contain what replaying [levs] from environment [E] would produce *)
Definition Replay (items : list item) (E : list benv) (levs : list lev) : Prop :=
  incl (snd (erun E levs)) (occ_keys items).

Lemma replay_mono items items' E levs : (forall x, In x items -> In x items') -> Replay items E levs -> Replay items' E levs.
Proof.
  intros Hm Hr k Hk. destruct (occ_keys_inv _ _ (Hr k Hk)) as (o & Ho & <-). apply occ_keys_in. apply Hm. exact Ho.
Qed.

Lemma replay_actual levs l : Replay (l_items (lrun levs l)) (l_env l) levs.
Proof. intros k Hk. destruct (lrun_shadow levs l) as [_ H]. rewrite H. apply in_or_app. right. exact Hk. Qed.

(** G survives replacing the item list by one with (at least) the same keys *)
Lemma G_embed s items items' : incl (occ_keys items) (occ_keys items') -> G s items -> G s items'.
Proof.
  intros Hk Hg r Hr. destruct (Hg r Hr) as [H|(o & Ho & Ht & Hn)]; [left; exact H|right].
  destruct (occ_keys_inv _ _ (Hk _ (occ_keys_in _ _ Ho))) as (o' & Ho' & Hkey).
  exists o'. split; [exact Ho'|]. unfold okey in Hkey. injection Hkey as H1 H2. split; [congruence|].
  unfold nonlocal in *. rewrite H2. exact Hn.
Qed.

(** a virtual Lua state: the items so far, another environment *)
Definition virt (l : lstate) (E : list benv) : lstate := {| l_env := E; l_ctx := l_ctx l; l_items := l_items l |}.

Lemma virt_replay_keys l E levs :
  Replay (l_items l) E levs -> incl (occ_keys (l_items (lrun levs (virt l E)))) (occ_keys (l_items l)).
Proof.
  intros Hr k Hk. destruct (lrun_shadow levs (virt l E)) as [_ H]. rewrite H in Hk. cbn [virt l_env l_items] in Hk.
  apply in_app_iff in Hk as [Hk|Hk]; [exact Hk|apply Hr; exact Hk].
Qed.
