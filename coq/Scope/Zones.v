(** The three properties of the scope family as decidable zones over the specification's output,
    evaluated on the diagnostics the implementation produced.  A violation at an occurrence or
    declaration that carries a known-class flag is attributed to that class. *)
From Selene Require Export Scope.Spec.
Open Scope N_scope.

Definition range_eq (a b : range) : bool := (fst a =? fst b) && (snd a =? snd b).
Definition count_range (r : range) (l : list range) : nat := List.length (List.filter (range_eq r) l).

Definition K7 : N := 64.    (* the "shadowed" declaration is an implicit global created by an assignment *)
Definition KA : N := 128.   (* an affected occurrence is captured by the variable (so it counts as read) *)
Definition K8 : N := 256.   (* the variable's name is a root of the standard library *)

Definition is_read_position (o : occ) : bool :=
  match o_kind o with OUse | OIndexTarget => true | OTarget => false end.

Definition global_target (name : string) (top_only : bool) (os : list occ) : bool :=
  existsb (fun o => match o_kind o, o_bind o with
                    | OTarget, OGlobal => str_eqb (t_name (o_tok o)) name && (negb top_only || o_top o)
                    | _, _ => false end) os.

Definition in_roots (name : string) (roots : list string) : bool := existsb (str_eqb name) roots.

Definition must_not_report (os : list occ) (roots : list string) (o : occ) : bool :=
  match o_bind o with
  | OLocal _ | OVarargFn _ | OVarargMain => true
  | OGlobal => in_roots (t_name (o_tok o)) roots || global_target (t_name (o_tok o)) true os
  | OVarargNone => false
  end.

Definition must_report (os : list occ) (roots : list string) (o : occ) : bool :=
  is_read_position o &&
  match o_bind o with
  | OGlobal => negb (in_roots (t_name (o_tok o)) roots) && negb (global_target (t_name (o_tok o)) false os)
  | OVarargNone => true     (* `...` inside a function that has no vararg parameter: nothing binds it *)
  | _ => false
  end.

(** C01: (violation bits, known-class mask). bit 4: reported although Lua binds it / library / assigned
    at top level / main-chunk `...`; bit 8: an undefined read not reported exactly once. *)
Definition c01_zone (os : list occ) (roots : list string) (reported : list range) : N * N :=
  let stray := existsb (fun r => negb (existsb (fun o => range_eq (t_range (o_tok o)) r) os)) reported in
  fold_left (fun acc o =>
    let n := count_range (t_range (o_tok o)) reported in
    let fp := must_not_report os roots o && negb (Nat.eqb n 0) in
    let fn := must_report os roots o && negb (Nat.eqb n 1) in
    let known := negb (o_flags o =? 0) in
    (N.lor (fst acc) (N.lor (if fp && negb known then 4 else 0) (if fn && negb known then 8 else 0)),
     N.lor (snd acc) (if (fp || fn) && known then o_flags o else 0)))
    os ((if stray then 4 else 0), 0).

Definition ignored_name (name : string) : bool :=
  match name with String a _ => (N_of_ascii a =? 95) | EmptyString => false end.

(** C03. bit 16: a report whose secondary label is not the innermost visible same-name declaration;
    bit 32: a declaration re-using a visible name that is not reported. *)
Definition c03_zone_with (ignored : string -> bool) (os : list occ) (ds : list declinfo) (reported : list (range * range)) : N * N :=
  let sound :=
    fold_left (fun acc rp =>
      let '(dr, sr) := rp in
      match find (fun d => range_eq (t_range (d_tok d)) dr) ds with
      | None =>
          (* the "declaration" may itself be an implicit global (x = 1 after `local x`?): not a declaration *)
          (N.lor (fst acc) 16, snd acc)
      | Some d =>
          match d_visible d with
          | Some v => if range_eq v sr then acc
                      else if negb (d_flags d =? 0) then (fst acc, N.lor (snd acc) (d_flags d))
                      else (N.lor (fst acc) 16, snd acc)
          | None =>
              if negb (d_flags d =? 0) then (fst acc, N.lor (snd acc) (d_flags d))
              else if existsb (fun o => range_eq (t_range (o_tok o)) sr
                                        && match o_kind o, o_bind o with OTarget, OGlobal => true | _, _ => false end) os
                   then (fst acc, N.lor (snd acc) K7)
                   else (N.lor (fst acc) 16, snd acc)
          end
      end) reported (0, 0) in
  fold_left (fun acc d =>
    match d_visible d, d_kind d with
    | Some _, DSelf => acc
    | Some _, _ =>
        let name := t_name (d_tok d) in
        if ignored name || str_eqb name "..." then acc
        else if existsb (fun rp => range_eq (fst rp) (t_range (d_tok d))) reported then acc
        else if negb (d_flags d =? 0) then (fst acc, N.lor (snd acc) (d_flags d))
        else (N.lor (fst acc) 32, snd acc)
    | None, _ => acc
    end) ds sound.

Definition c03_zone := c03_zone_with ignored_name.

(** C02. bit 64: a variable with an (unaffected) use is flagged; bit 128: a variable never mentioned
    again is not flagged. [captured r] tells whether the implementation resolved any reference to r. *)
Definition c02_zone (os : list occ) (ds : list declinfo) (roots : list string)
           (flagged : list range) (captured : range -> bool) (ignored : string -> bool) (allow_self : bool) : N * N :=
  fold_left (fun acc d =>
    match d_kind d, allow_self with
    | DSelf, true => acc
    | _, _ =>
        let r := t_range (d_tok d) in
        let bound := fun o => match o_bind o with OLocal x => range_eq x r | _ => false end in
        let used := existsb (fun o => bound o && match o_kind o with OUse => true | _ => false end
                                      && (o_flags o =? 0)) os in
        let mentioned := existsb bound os in
        let is_flagged := existsb (range_eq r) flagged in
        let name := t_name (d_tok d) in
        if used && negb (d_table d) && is_flagged then
          (* an unaffected use exists, yet flagged.  The declaration itself may sit in an affected
             position (a closure walked late): then its uses were resolved elsewhere *)
          if negb (d_flags d =? 0) then (fst acc, N.lor (snd acc) (d_flags d)) else (N.lor (fst acc) 64, snd acc)
        else if negb mentioned && negb (ignored name) && negb is_flagged then
          if in_roots name roots then (fst acc, N.lor (snd acc) K8)
          else if captured r then (fst acc, N.lor (snd acc) KA)
          else (N.lor (fst acc) 128, snd acc)
        else acc
    end) ds (0, 0).
