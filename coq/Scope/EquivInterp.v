(** The scope state machine is equivariant under injective renamings of names and injective maps
    of ranges. *)
From Selene Require Import Lua.Map Scope.Events Scope.Interp Scope.Equivariance.
Open Scope N_scope.

Section EquivInterp.
  Context (rho : string -> string) (phi : range -> range).
  Context (rho_inj : forall a b, rho a = rho b -> a = b).
  Context (rho_vararg : rho "..." = "...").
  Context (phi_inj : forall a b, phi a = phi b -> a = b).

  Notation mt := (map_tok rho phi).

  Definition map_ref (r : rref) : rref :=
    {| r_tok := mt (r_tok r); r_read := r_read r; r_write := r_write r; r_resolved := r_resolved r; r_scope := r_scope r |}.
  Definition map_rvar (v : rvar) : rvar :=
    {| v_tok := mt (v_tok v); v_shadowed := v_shadowed v; v_self := v_self v; v_refs := v_refs v |}.
  Definition map_st (s : st) : st :=
    {| refs := map map_ref (refs s); vars := map map_rvar (vars s); stack := stack s;
       next_scope := next_scope s; captured := map phi (captured s) |}.

  Lemma str_eqb_rho a b : str_eqb (rho a) (rho b) = str_eqb a b.
  Proof.
    destruct (str_eqb a b) eqn:E.
    - apply str_eqb_eq in E. subst. apply str_eqb_eq. reflexivity.
    - destruct (str_eqb (rho a) (rho b)) eqn:E2; [|reflexivity].
      apply str_eqb_eq in E2. apply rho_inj in E2. subst. rewrite (proj2 (str_eqb_eq b b) eq_refl) in E. discriminate.
  Qed.

  Lemma range_eq_phi a b : range_eq (phi a) (phi b) = range_eq a b.
  Proof.
    assert (Hspec : forall x y, range_eq x y = true <-> x = y).
    { intros [x1 x2] [y1 y2]. unfold range_eq. cbn. rewrite andb_true_iff, !N.eqb_eq.
      split; [intros [-> ->]; reflexivity|intros [= -> ->]; auto]. }
    destruct (range_eq a b) eqn:E.
    - apply Hspec in E. subst. apply Hspec. reflexivity.
    - destruct (range_eq (phi a) (phi b)) eqn:E2; [|reflexivity].
      apply Hspec in E2. apply phi_inj in E2. subst.
      assert (range_eq b b = true) by (apply Hspec; reflexivity). congruence.
  Qed.

  Lemma t_range_mt t : t_range (mt t) = phi (t_range t).
  Proof. unfold map_tok, t_range. cbn. destruct (phi (t_lo t, t_hi t)); reflexivity. Qed.

  Lemma var_name_is_map vs name id : var_name_is (map map_rvar vs) (rho name) id = var_name_is vs name id.
  Proof.
    unfold var_name_is. rewrite nth_error_map. destruct (nth_error vs (N.to_nat id)); cbn; [apply str_eqb_rho|reflexivity].
  Qed.

  Lemma find_ext' {A} (p q : A -> bool) l : (forall x, p x = q x) -> find p l = find q l.
  Proof. intros H. induction l as [|x l IH]; cbn; [reflexivity|]. rewrite H, IH. reflexivity. Qed.

  Lemma in_scope_map vs sc name : in_scope (map map_rvar vs) sc (rho name) = in_scope vs sc name.
  Proof.
    unfold in_scope.
    rewrite (find_ext' (var_name_is (map map_rvar vs) (rho name)) (var_name_is vs name)) by (intros id; apply var_name_is_map).
    assert (H : str_eqb (rho name) "..." = str_eqb name "...") by (pose proof (str_eqb_rho name "...") as X; rewrite rho_vararg in X; exact X).
    rewrite H. reflexivity.
  Qed.

  Lemma find_variable_map vs stk name :
    find_variable (map map_rvar vs) stk (rho name) = find_variable vs stk name.
  Proof. induction stk as [|sc rest IH]; cbn [find_variable]; [reflexivity|]. rewrite in_scope_map, IH. reflexivity. Qed.

  Lemma set_nth_map {A B} (f : A -> B) n (g : A -> A) (g' : B -> B) l :
    (forall x, f (g x) = g' (f x)) -> map f (set_nth n g l) = set_nth n g' (map f l).
  Proof.
    intros H. revert n. induction l as [|x l IH]; intros n; cbn; [destruct n; reflexivity|].
    destruct n; cbn; [rewrite H; reflexivity|]. f_equal. apply IH.
  Qed.

  Lemma find_index_map {A B} (f : A -> B) (p : A -> bool) (q : B -> bool) l i :
    (forall x, q (f x) = p x) -> find_index q (map f l) i = find_index p l i.
  Proof. intros H. revert i. induction l as [|x l IH]; intros i; cbn; [reflexivity|]. rewrite H. destruct (p x); auto. Qed.

  Lemma define_map s t is_self :
    define (map_st s) (mt t) is_self = (map_st (fst (define s t is_self)), snd (define s t is_self)).
  Proof.
    unfold define, map_st. cbn [refs vars stack next_scope captured fst snd].
    rewrite map_length, map_app. cbn [map map_rvar v_tok v_shadowed v_self v_refs].
    change (t_name (mt t)) with (rho (t_name t)). rewrite find_variable_map. reflexivity.
  Qed.

  Lemma reference_variable_map s r :
    reference_variable (map_st s) (map_ref r) = option_map map_st (reference_variable s r).
  Proof.
    unfold reference_variable. cbn [map_st refs vars stack next_scope captured map_ref r_tok r_read r_write r_scope].
    rewrite (find_index_map map_ref
               (fun r0 => str_eqb (t_name (r_tok r0)) (t_name (r_tok r)) && tok_range_eq (r_tok r0) (r_tok r) && (r_scope r0 =? r_scope r))).
    2: { intros x. cbn [map_ref r_tok r_scope]. change (t_name (mt (r_tok x))) with (rho (t_name (r_tok x))).
         change (t_name (mt (r_tok r))) with (rho (t_name (r_tok r))). rewrite str_eqb_rho.
         unfold tok_range_eq. rewrite !t_range_mt, range_eq_phi. reflexivity. }
    destruct (find_index _ (refs s) 0) as [i|].
    - rewrite nth_error_map. destruct (nth_error (refs s) i) as [old|]; cbn [option_map]; [|reflexivity].
      cbn [map_ref r_write]. destruct (r_write r), (r_write old); cbn [option_map]; try reflexivity;
        unfold map_st; cbn [refs vars stack next_scope captured]; f_equal; f_equal;
        symmetry; apply set_nth_map; intros x; reflexivity.
    - cbn [option_map]. change (t_name (mt (r_tok r))) with (rho (t_name (r_tok r))). rewrite find_variable_map.
      unfold map_st. cbn [refs vars stack next_scope captured]. f_equal. rewrite !map_length. f_equal.
      + rewrite map_app. reflexivity.
      + destruct (find_variable (vars s) (stack s) (t_name (r_tok r))) as [vid|]; [|reflexivity].
        symmetry. apply set_nth_map. intros x. reflexivity.
  Qed.

  Lemma existsb_captured r cs : existsb (range_eq (phi r)) (map phi cs) = existsb (range_eq r) cs.
  Proof. induction cs as [|c cs IH]; cbn; [reflexivity|]. rewrite range_eq_phi, IH. reflexivity. Qed.

  Lemma cur_scope_id_map s : cur_scope_id (map_st s) = cur_scope_id s.
  Proof. reflexivity. Qed.

  Theorem step_map s e : step (map_st s) (map_ev rho phi e) = option_map map_st (step s e).
  Proof.
    destruct e; cbn [map_ev step].
    - reflexivity.
    - cbn [map_st stack]. destruct (stack s) as [|x [|y rest]]; reflexivity.
    - cbn [map_st captured]. rewrite t_range_mt, existsb_captured.
      destruct (existsb (range_eq (t_range t)) (captured s)); [reflexivity|].
      rewrite <- (reference_variable_map
                    {| refs := refs s; vars := vars s; stack := stack s; next_scope := next_scope s;
                       captured := t_range t :: captured s |}
                    {| r_tok := t; r_read := true; r_write := None; r_resolved := None; r_scope := cur_scope_id s |}).
      reflexivity.
    - rewrite <- (reference_variable_map s {| r_tok := t; r_read := false; r_write := Some k; r_resolved := None;
                                            r_scope := cur_scope_id s |}). reflexivity.
    - cbn [option_map]. rewrite define_map. reflexivity.
    - change (stack (map_st s)) with (stack s). change (refs (map_st s)) with (map map_ref (refs s)).
      change (vars (map_st s)) with (map map_rvar (vars s)).
      destruct (stack s) as [|sc rest] eqn:Es; [reflexivity|].
      destruct (s_refs sc) as [|rid rr]; [reflexivity|].
      rewrite nth_error_map. destruct (nth_error (refs s) (N.to_nat rid)) as [r|]; cbn [option_map]; [|reflexivity].
      cbn [map_ref r_tok]. change (t_name (mt (r_tok r))) with (rho (t_name (r_tok r))).
      rewrite (find_variable_map (vars s) (sc :: rest) (t_name (r_tok r))).
      destruct (find_variable (vars s) (sc :: rest) (t_name (r_tok r))); cbn [option_map]; [reflexivity|].
      rewrite (define_map s (r_tok r) false).
      destruct (define s (r_tok r) false) as [s' vid] eqn:Edef. cbn [fst snd].
      f_equal. unfold map_st. cbn [refs vars stack next_scope captured].
      assert (Hrefs : forall (l : list rref),
                map (fun r' => if r_read r' && str_eqb (t_name (r_tok r')) (rho (t_name (r_tok r)))
                                  && match r_resolved r' with None => true | Some _ => false end
                               then {| r_tok := r_tok r'; r_read := r_read r'; r_write := r_write r';
                                       r_resolved := Some vid; r_scope := r_scope r' |} else r') (map map_ref l)
                = map map_ref (map (fun r' => if r_read r' && str_eqb (t_name (r_tok r')) (t_name (r_tok r))
                                  && match r_resolved r' with None => true | Some _ => false end
                               then {| r_tok := r_tok r'; r_read := r_read r'; r_write := r_write r';
                                       r_resolved := Some vid; r_scope := r_scope r' |} else r') l)); [|rewrite Hrefs; reflexivity].
      intros l. rewrite !map_map. apply map_ext. intros r'. cbn [map_ref r_read r_tok r_resolved].
      change (t_name (mt (r_tok r'))) with (rho (t_name (r_tok r'))). rewrite str_eqb_rho.
      destruct (r_read r' && str_eqb (t_name (r_tok r')) (t_name (r_tok r)) && match r_resolved r' with None => true | Some _ => false end);
        reflexivity.
  Qed.

  Theorem run_map evs : forall s,
    run (map_st s) (map (map_ev rho phi) evs) = option_map map_st (run s evs).
  Proof.
    induction evs as [|e evs IH]; intros s; cbn [map run]; [reflexivity|].
    rewrite step_map. destruct (step s e) as [s1|]; cbn [option_map]; [apply IH|reflexivity].
  Qed.

  Context (rho_self : rho "self" = "self").

  (** C13 / C14 for the scope analysis: renaming / repositioning the program renames / repositions
      every reference and variable and changes nothing else (resolution, flags, shadowing, order). *)
  Theorem scope_manager_equivariant chunk :
    scope_manager (map_block rho phi chunk) = option_map map_st (scope_manager chunk).
  Proof.
    unfold scope_manager. rewrite (events_map rho phi rho_self).
    change init_st with (map_st init_st) at 1. rewrite run_map.
    destruct (run init_st (events_of_chunk chunk)) as [s|]; cbn [option_map]; [|reflexivity].
    cbn [map_st stack]. destruct (stack s) as [|x [|y r]]; reflexivity.
  Qed.
End EquivInterp.
