(** C08 main theorem, part 4: all runs; from the flat filter list to runs. *)
From Selene Require Import Filter.Machine Filter.Spec Filter.Correct1 Filter.Correct2 Filter.Correct3.
Open Scope N_scope.

Lemma asc_app_intro a b :
  asc a -> asc b -> (forall x y, In x a -> In y b -> ibytes x <= ibytes y) -> asc (a ++ b).
Proof.
  intros Ha Hb Hab. induction Ha as [|i l Hle Ha IH]; cbn [app]; [exact Hb|].
  constructor.
  - apply Forall_app. split; [exact Hle|]. apply Forall_forall. intros y Hy. apply Hab; [left; reflexivity|exact Hy].
  - apply IH. intros x y Hx Hy. apply Hab; [right; exact Hx|exact Hy].
Qed.

Lemma asc_filter p E : asc E -> asc (List.filter p E).
Proof.
  induction 1 as [|i l Hle Ha IH]; cbn [List.filter]; [constructor|].
  destruct (p i); [|exact IH]. constructor; [|exact IH].
  apply Forall_forall. intros j Hj. apply filter_In in Hj as [Hj _]. rewrite Forall_forall in Hle. exact (Hle j Hj).
Qed.

Lemma asc_single i : asc [i].
Proof. constructor; constructor. Qed.

Lemma asc_add1 E lo hi c : asc E -> lo <= hi -> asc (add1 E lo hi c).
Proof.
  intros Ha Hle. unfold add1.
  repeat (apply asc_app_intro; try apply asc_filter; try apply asc_single; try exact Ha);
    intros x y Hx Hy;
    repeat match goal with
    | H : In _ (_ ++ _) |- _ => apply in_app_iff in H; destruct H as [H|H]
    | H : In _ (List.filter _ _) |- _ => apply filter_In in H; destruct H as [_ H]
    | H : In _ [_] |- _ => destruct H as [H|[]]; subst
    | H : ltb_f _ _ = true |- _ => unfold ltb_f in H; apply N.ltb_lt in H
    | H : geb_f _ _ = true |- _ => unfold geb_f in H; apply N.leb_le in H
    | H : mid_f _ _ _ = true |- _ => unfold mid_f in H; apply andb_true_iff in H; destruct H as [H H']; apply N.leb_le in H; apply N.ltb_lt in H'
    end; cbn [ibytes] in *; lia.
Qed.

Lemma in_add1 E lo hi c i : In i (add1 E lo hi c) -> In i E \/ ibytes i = lo \/ ibytes i = hi.
Proof.
  unfold add1. rewrite !in_app_iff. cbn [In].
  intros [H|[[H|[]]|[H|[[H|[]]|H]]]]; try (apply filter_In in H as [H _]; left; exact H); subst; cbn; auto.
Qed.

Lemma asc_add_run E r : asc E -> r_lo r <= r_hi r -> asc (add_run E r).
Proof.
  intros Ha Hle. unfold add_run. revert E Ha. induction (r_confs r) as [|c cs IH]; intros E Ha; cbn [fold_left]; [exact Ha|].
  apply IH. apply asc_add1; assumption.
Qed.

Lemma in_add_run E r i : In i (add_run E r) -> In i E \/ ibytes i = r_lo r \/ ibytes i = r_hi r.
Proof.
  unfold add_run. revert E. induction (r_confs r) as [|c cs IH]; intros E; cbn [fold_left]; [auto|].
  intros H. apply IH in H. destruct H as [H|H]; [|auto]. apply in_add1 in H. tauto.
Qed.

(** e earlier, r later: none of e's end points falls inside r *)
Definition clear_pair (e r : run) : Prop :=
  (r_lo e < r_lo r \/ r_hi r <= r_lo e) /\ (r_hi e < r_lo r \/ r_hi r <= r_hi e).
Definition clear_pair_b (e r : run) : bool :=
  ((r_lo e <? r_lo r) || (r_hi r <=? r_lo e)) && ((r_hi e <? r_lo r) || (r_hi r <=? r_hi e)).

Lemma clear_pair_b_spec e r : clear_pair_b e r = true -> clear_pair e r.
Proof.
  unfold clear_pair_b, clear_pair. rewrite andb_true_iff, !orb_true_iff, !N.ltb_lt, !N.leb_le. tauto.
Qed.

Inductive wf_runs : list run -> Prop :=
| wf_runs_nil : wf_runs []
| wf_runs_snoc rs r : wf_runs rs -> r_lo r <= r_hi r -> Forall (fun e => clear_pair e r) rs -> wf_runs (rs ++ [r]).

Definition ref_stack (rs : list run) (s : N) : list fconf :=
  flat_map (fun r => if r_covers r s then r_confs r else []) (rev rs).

Lemma E_runs_snoc rs r : E_runs (rs ++ [r]) = add_run (E_runs rs) r.
Proof. unfold E_runs. rewrite fold_left_app. reflexivity. Qed.

Theorem runs_invariant rs :
  wf_runs rs ->
  asc (E_runs rs) /\
  (forall i, In i (E_runs rs) -> exists e, In e rs /\ (ibytes i = r_lo e \/ ibytes i = r_hi e)) /\
  (forall s, stack_at (E_runs rs) s = Some (ref_stack rs s)).
Proof.
  induction 1 as [|rs r Hwf IH Hle Hclear].
  - split; [constructor|]. split; [intros i []|]. intros s. reflexivity.
  - destruct IH as (Hasc & Hin & Hst). rewrite E_runs_snoc.
    assert (Hcl : clear_of (E_runs rs) (r_lo r) (r_hi r)).
    { apply Forall_forall. intros i Hi. destruct (Hin i Hi) as (e & He & Hb).
      rewrite Forall_forall in Hclear. destruct (Hclear e He) as [H1 H2]. destruct Hb as [-> | ->]; tauto. }
    split; [apply asc_add_run; assumption|]. split.
    + intros i Hi. apply in_add_run in Hi. destruct Hi as [Hi|Hi].
      * destruct (Hin i Hi) as (e & He & Hb). exists e. split; [apply in_app_iff; left; exact He|exact Hb].
      * exists r. split; [apply in_app_iff; right; left; reflexivity|exact Hi].
    + intros s. rewrite (stack_at_add_run _ _ _ Hasc Hle Hcl), Hst.
      unfold ref_stack. rewrite rev_app_distr. cbn [rev app flat_map].
      destruct (r_covers r s); reflexivity.
Qed.

(** ---- from the flat list of inline filters to runs ---- *)
Fixpoint runs_of (F : list lfilter) : list run :=
  match F with
  | [] => []
  | f :: rest =>
      match runs_of rest with
      | r :: rs => if range_eqb (fl_range f) (fst r)
                   then (fst r, fl_conf f :: snd r) :: rs
                   else (fl_range f, [fl_conf f]) :: r :: rs
      | [] => [(fl_range f, [fl_conf f])]
      end
  end.

Definition add1f (E : list instr) (f : lfilter) : list instr :=
  add1 E (fst (fl_range f)) (snd (fl_range f)) (fl_conf f).

Lemma range_eqb_eq a b : range_eqb a b = true -> a = b.
Proof.
  unfold range_eqb. destruct a, b. cbn. rewrite andb_true_iff, !N.eqb_eq. intros [-> ->]. reflexivity.
Qed.

Lemma fold_runs_of F E0 : fold_left add1f F E0 = fold_left add_run (runs_of F) E0.
Proof.
  revert E0. induction F as [|f rest IH]; intros E0; cbn [fold_left runs_of]; [reflexivity|].
  rewrite IH. destruct (runs_of rest) as [|r rs].
  - cbn [fold_left]. unfold add_run, r_lo, r_hi, r_confs. cbn [fst snd fold_left]. reflexivity.
  - destruct (range_eqb (fl_range f) (fst r)) eqn:E.
    + apply range_eqb_eq in E. cbn [fold_left]. f_equal.
      unfold add_run, r_lo, r_hi, r_confs. cbn [fst snd fold_left]. unfold add1f. rewrite E. reflexivity.
    + cbn [fold_left]. reflexivity.
Qed.

Definition ranges_ok (F : list lfilter) : Prop := Forall (fun f => fst (fl_range f) <= snd (fl_range f)) F.

Lemma model_instrs F :
  ranges_ok F ->
  desc (fold_left ins2 F []) /\ rev (fold_left ins2 F []) = fold_left add1f F [].
Proof.
  intros Hok.
  assert (H : forall L, desc L -> desc (fold_left ins2 F L) /\ rev (fold_left ins2 F L) = fold_left add1f F (rev L)).
  { induction Hok as [|f F Hf _ IH]; intros L Hd; cbn [fold_left]; [auto|].
    assert (Hd' : desc (ins2 L f)) by (apply add1_desc; exact Hd).
    destruct (IH _ Hd') as [H1 H2]. split; [exact H1|]. rewrite H2. f_equal.
    unfold ins2, add1f. apply add1_correct; assumption. }
  apply (H [] desc_nil).
Qed.
