(** Model of parse_comment (selene-lib/src/lint_filtering.rs:43-91) over Unicode code points, and of
    FilterVisitor::visit_node (:93-158) as a fold over the visit events of the real traversal. *)
From Selene Require Export Filter.Machine.
Open Scope N_scope.

(** char::is_whitespace = Unicode White_Space *)
Definition is_whitespace (c : N) : bool :=
  ((9 <=? c) && (c <=? 13)) || (c =? 32) || (c =? 133) || (c =? 160) || (c =? 5760)
  || ((8192 <=? c) && (c <=? 8202)) || (c =? 8232) || (c =? 8233) || (c =? 8239) || (c =? 8287)
  || (c =? 12288).

Definition utf8 (c : N) : list N :=
  if c <? 128 then [c]
  else if c <? 2048 then [192 + c / 64; 128 + c mod 64]
  else if c <? 65536 then [224 + c / 4096; 128 + (c / 64) mod 64; 128 + c mod 64]
  else [240 + c / 262144; 128 + (c / 4096) mod 64; 128 + (c / 64) mod 64; 128 + c mod 64].

Definition str_of_cps (l : list N) : string := s_of (flat_map utf8 l).

Fixpoint cps_of_string (s : string) : list N :=
  match s with EmptyString => [] | String a r => N_of_ascii a :: cps_of_string r end.

Fixpoint strip_prefix (p l : list N) : option (list N) :=
  match p, l with
  | [], _ => Some l
  | a :: p', b :: l' => if a =? b then strip_prefix p' l' else None
  | _ :: _, [] => None
  end.

(** the character loop: (variation, lint, check_lint, finished) *)
Fixpoint scan (l : list N) (variation lint : list N) (check_lint : bool)
  : list N * list N * bool :=
  match l with
  | [] => (variation, lint, false)
  | c :: r =>
      if c =? 40 then scan r variation lint true                 (* '(' *)
      else if c =? 41 then (variation, lint, true)               (* ')' *)
      else if check_lint then scan r variation (lint ++ [c]) check_lint
      else scan r (variation ++ [c]) lint check_lint
  end.

Fixpoint split_on (sep : N) (l : list N) (cur : list N) : list (list N) :=
  match l with
  | [] => [cur]
  | c :: r => if c =? sep then cur :: split_on sep r [] else split_on sep r (cur ++ [c])
  end.

Definition cps_eqb (a b : list N) : bool := if list_eq_dec N.eq_dec a b then true else false.

Definition parse_comment (comment : list N) : option (list fconf) :=
  let squeezed := List.filter (fun c => negb (is_whitespace c)) comment in
  let '(global, rest) :=
    match strip_prefix [35] squeezed with Some r => (true, r) | None => (false, squeezed) end in
  match strip_prefix (cps_of_string "selene:") rest with
  | None => None
  | Some config =>
      let '(variation, lint, finished) := scan config [] [] false in
      if negb finished || match variation with [] => true | _ => false end
         || match lint with [] => true | _ => false end
      then None
      else
        let v := if cps_eqb variation (cps_of_string "allow") then Some VAllow
                 else if cps_eqb variation (cps_of_string "deny") then Some VDeny
                 else if cps_eqb variation (cps_of_string "warn") then Some VWarn else None in
        match v with
        | None => None
        | Some v => Some (map (fun l => {| fc_global := global; fc_lint := str_of_cps l; fc_var := v |})
                              (split_on 44 lint []))
        end
  end.

(** One visit_node call. Comments: (start, end, lines). *)
Record event := {
  ev_block : bool;                                   (* VisitorType::VisitBlock is ignored *)
  ev_range : option (N * N);
  ev_comments : list (N * N * list (list N)) }.

Definition mem_range (r : N * N) (l : list (N * N)) : bool := existsb (range_eqb r) l.

Definition visit_comment (lints : list string) (range : option (N * N))
           (c : N * N * list (list N)) : option (list fentry) :=
  let '(s, e, lines) := c in
  fold_left (fun acc line =>
    match acc with
    | None => None
    | Some entries =>
        match parse_comment line with
        | None => Some entries
        | Some confs =>
            match range with
            | None => None                       (* node.range().unwrap_or_else(panic) *)
            | Some r =>
                Some (entries ++ map (fun conf =>
                        if existsb (str_eqb (fc_lint conf)) lints
                        then FOk {| fl_conf := conf; fl_comment := (s, e); fl_range := r |}
                        else FErr (fc_lint conf) (s, e)) confs)
            end
        end
    end) lines (Some []).

Definition visit_event (lints : list string) (st : option (list (N * N) * list fentry)) (ev : event)
  : option (list (N * N) * list fentry) :=
  match st with
  | None => None
  | Some (checked, entries) =>
      if ev_block ev then Some (checked, entries)
      else
        fold_left (fun acc c =>
          match acc with
          | None => None
          | Some (checked, entries) =>
              let key := (fst (fst c), snd (fst c)) in
              if mem_range key checked then Some (checked, entries)
              else match visit_comment lints (ev_range ev) c with
                   | None => None
                   | Some new => Some (key :: checked, entries ++ new)
                   end
          end) (ev_comments ev) (Some (checked, entries))
  end.

Definition collect (lints : list string) (evs : list event) : option (list fentry) :=
  match fold_left (visit_event lints) evs (Some ([], [])) with
  | Some (_, entries) => Some entries
  | None => None
  end.
