(** C08 main theorem, part 2: the shape of the instruction list.
    E = rev instrs is the execution order (ascending bytes).  Adding one filter [lo,hi) gives
      E' = (E with bytes < lo) ++ [Push] ++ (E with lo <= bytes < hi) ++ [Pop] ++ (E with hi <= bytes). *)
From Selene Require Import Filter.Machine Filter.Spec Filter.Correct1.
Open Scope N_scope.

Inductive desc : list instr -> Prop :=
| desc_nil : desc []
| desc_cons i l : Forall (fun j => ibytes j <= ibytes i) l -> desc l -> desc (i :: l).

Definition ltb_f (x : N) (i : instr) : bool := ibytes i <? x.
Definition geb_f (x : N) (i : instr) : bool := x <=? ibytes i.
Definition mid_f (lo hi : N) (i : instr) : bool := (lo <=? ibytes i) && (ibytes i <? hi).

Lemma filter_all {A} (p : A -> bool) l : Forall (fun x => p x = true) l -> List.filter p l = l.
Proof. induction 1 as [|x l Hx _ IH]; cbn [List.filter]; [reflexivity|]. rewrite Hx. f_equal. exact IH. Qed.
Lemma filter_none {A} (p : A -> bool) l : Forall (fun x => p x = false) l -> List.filter p l = [].
Proof. induction 1 as [|x l Hx _ IH]; cbn [List.filter]; [reflexivity|]. rewrite Hx. exact IH. Qed.

Lemma insert_split x new L :
  desc L -> insert_instr x new L = List.filter (geb_f x) L ++ [new] ++ List.filter (ltb_f x) L.
Proof.
  induction 1 as [|i l Hle Hd IH]; cbn [insert_instr List.filter app]; [reflexivity|].
  unfold geb_f at 1, ltb_f at 1. destruct (ibytes i <? x) eqn:E.
  - apply N.ltb_lt in E. assert (Hge : (x <=? ibytes i) = false) by (apply N.leb_gt; lia). rewrite Hge.
    assert (H1 : List.filter (geb_f x) l = []).
    { apply filter_none. eapply Forall_impl; [|exact Hle]. cbn. intros j Hj. unfold geb_f. apply N.leb_gt. lia. }
    assert (H2 : List.filter (ltb_f x) l = l).
    { apply filter_all. eapply Forall_impl; [|exact Hle]. cbn. intros j Hj. unfold ltb_f. apply N.ltb_lt. lia. }
    rewrite H1, H2. reflexivity.
  - apply N.ltb_ge in E. assert (Hge : (x <=? ibytes i) = true) by (apply N.leb_le; lia). rewrite Hge.
    cbn [app]. f_equal. exact IH.
Qed.

Lemma insert_desc x new L : ibytes new = x -> desc L -> desc (insert_instr x new L).
Proof.
  intros Hn. induction 1 as [|i l Hle Hd IH]; cbn [insert_instr].
  - constructor; constructor.
  - destruct (ibytes i <? x) eqn:E.
    + apply N.ltb_lt in E. constructor; [|constructor; assumption].
      constructor; [lia|]. eapply Forall_impl; [|exact Hle]. cbn. intros j Hj. lia.
    + apply N.ltb_ge in E. constructor; [|exact IH].
      assert (Hin : forall j, In j (insert_instr x new l) -> j = new \/ In j l).
      { clear. induction l as [|z l IHl]; cbn [insert_instr]; intros j.
        - intros [<-|[]]. left. reflexivity.
        - destruct (ibytes z <? x); cbn [In]; [intuition|].
          intros [<-|H]; [right; left; reflexivity|]. destruct (IHl j H); [left|right; right]; assumption. }
      apply Forall_forall. intros j Hj. destruct (Hin j Hj) as [->|Hj']; [lia|].
      rewrite Forall_forall in Hle. exact (Hle j Hj').
Qed.

Lemma desc_asc_rev L : desc L -> asc (rev L).
Proof.
  induction 1 as [|i l Hle Hd IH]; cbn [rev]; [constructor|].
  assert (Hsnoc : forall l' x, asc l' -> Forall (fun j => ibytes j <= ibytes x) l' -> asc (l' ++ [x])).
  { clear. induction l' as [|y l' IHl]; intros x Ha Hf; cbn [app].
    - constructor; constructor.
    - inversion Ha as [|? ? Hy Ha']; subst. inversion Hf as [|? ? Hyx Hf']; subst.
      constructor; [|apply IHl; assumption].
      apply Forall_app. split; [exact Hy|constructor; [exact Hyx|constructor]]. }
  apply Hsnoc; [exact IH|]. apply Forall_rev. exact Hle.
Qed.

Lemma filter_rev {A} (p : A -> bool) l : List.filter p (rev l) = rev (List.filter p l).
Proof.
  induction l as [|x l IH]; cbn [rev List.filter]; [reflexivity|].
  rewrite filter_app, IH. cbn [List.filter]. destruct (p x); cbn [rev]; [reflexivity|apply app_nil_r].
Qed.

(** the closed form *)
Definition add1 (E : list instr) (lo hi : N) (c : fconf) : list instr :=
  List.filter (ltb_f lo) E ++ [Push c lo] ++ List.filter (mid_f lo hi) E ++ [Pop hi] ++ List.filter (geb_f hi) E.

Lemma filter_filter {A} (p q : A -> bool) l :
  List.filter p (List.filter q l) = List.filter (fun x => p x && q x) l.
Proof.
  induction l as [|x l IH]; cbn [List.filter]; [reflexivity|].
  destruct (q x); cbn [List.filter]; rewrite ?andb_true_r, ?andb_false_r; [destruct (p x)|]; rewrite IH; reflexivity.
Qed.

Lemma filter_ext_in' {A} (p q : A -> bool) l : (forall x, p x = q x) -> List.filter p l = List.filter q l.
Proof. intros H. apply filter_ext. exact H. Qed.

Lemma add1_correct L lo hi c :
  desc L -> lo <= hi ->
  rev (insert_instr lo (Push c lo) (insert_instr hi (Pop hi) L)) = add1 (rev L) lo hi c.
Proof.
  intros Hd Hle.
  pose proof (insert_desc hi (Pop hi) L eq_refl Hd) as Hd1.
  rewrite (insert_split lo (Push c lo) _ Hd1), (insert_split hi (Pop hi) L Hd).
  rewrite !filter_app. cbn [List.filter].
  assert (E1 : geb_f lo (Pop hi) = true) by (unfold geb_f; cbn [ibytes]; apply N.leb_le; lia).
  assert (E2 : ltb_f lo (Pop hi) = false) by (unfold ltb_f; cbn [ibytes]; apply N.ltb_ge; lia).
  rewrite E1, E2.
  rewrite !filter_filter.
  rewrite !rev_app_distr. cbn [rev app]. rewrite <- !app_assoc. cbn [app].
  unfold add1. rewrite !filter_rev.
  assert (F1 : List.filter (fun x => ltb_f lo x && geb_f hi x) L = []).
  { apply filter_none. apply Forall_forall. intros i _. unfold ltb_f, geb_f.
    destruct (ibytes i <? lo) eqn:A; [|reflexivity]. apply N.ltb_lt in A. cbn. apply N.leb_gt. lia. }
  assert (F2 : List.filter (fun x => ltb_f lo x && ltb_f hi x) L = List.filter (ltb_f lo) L).
  { apply filter_ext. intros i. unfold ltb_f. destruct (ibytes i <? lo) eqn:A; [|reflexivity].
    apply N.ltb_lt in A. cbn. apply N.ltb_lt. lia. }
  assert (F3 : List.filter (fun x => geb_f lo x && geb_f hi x) L = List.filter (geb_f hi) L).
  { apply filter_ext. intros i. unfold geb_f. destruct (hi <=? ibytes i) eqn:A; [|apply andb_false_r].
    apply N.leb_le in A. rewrite andb_true_r. apply N.leb_le. lia. }
  assert (F4 : List.filter (fun x => geb_f lo x && ltb_f hi x) L = List.filter (mid_f lo hi) L).
  { apply filter_ext. intros i. reflexivity. }
  rewrite F1, F2, F3, F4. cbn [rev app]. reflexivity.
Qed.

Lemma add1_desc L lo hi c :
  desc L -> desc (insert_instr lo (Push c lo) (insert_instr hi (Pop hi) L)).
Proof. intros Hd. apply insert_desc; [reflexivity|]. apply insert_desc; [reflexivity|exact Hd]. Qed.

(** Projection of the builder onto its instruction list: only inline filters matter. *)
Definition ins2 (L : list instr) (f : lfilter) : list instr :=
  insert_instr (fst (fl_range f)) (Push (fl_conf f) (fst (fl_range f)))
    (insert_instr (snd (fl_range f)) (Pop (snd (fl_range f))) L).

Definition inline (fs : list lfilter) : list lfilter := List.filter (fun f => negb (is_global f)) fs.
Definition live_globals (fc : option (N * N)) (fs : list lfilter) : list lfilter :=
  List.filter (fun f => is_global f && negb (rejected_global fc f)) fs.

Lemma add_filter_instrs fc st f :
  b_instrs (add_filter fc st f) = if is_global f then b_instrs st else ins2 (b_instrs st) f.
Proof.
  unfold add_filter, is_global, ins2. destruct (fc_global (fl_conf f)) eqn:G; cbn [andb].
  - destruct (match fc with Some fc0 => _ | None => false end); [reflexivity|].
    destruct (b_conflicting st) as [[r fs]|]; [destruct (range_eqb r (fl_range f))|]; reflexivity.
  - destruct (b_conflicting st) as [[r fs]|]; [destruct (range_eqb r (fl_range f))|]; reflexivity.
Qed.

Lemma add_filter_globals' fc st f :
  b_globals (add_filter fc st f) =
    if is_global f && negb (rejected_global fc f) then b_globals st ++ [f] else b_globals st.
Proof.
  unfold add_filter, rejected_global, is_global. destruct (fc_global (fl_conf f)) eqn:G; cbn [andb].
  - destruct (match fc with Some fc0 => _ | None => false end); cbn [negb]; [reflexivity|].
    destruct (b_conflicting st) as [[r fs]|]; [destruct (range_eqb r (fl_range f))|]; reflexivity.
  - destruct (b_conflicting st) as [[r fs]|]; [destruct (range_eqb r (fl_range f))|]; reflexivity.
Qed.

Lemma fold_instrs fc fs st :
  b_instrs (fold_left (add_filter fc) fs st) = fold_left ins2 (inline fs) (b_instrs st).
Proof.
  revert st. induction fs as [|f fs IH]; intros st; cbn [fold_left inline List.filter]; [reflexivity|].
  rewrite IH, add_filter_instrs. destruct (is_global f); cbn [negb fold_left]; reflexivity.
Qed.

Lemma fold_globals fc fs st :
  b_globals (fold_left (add_filter fc) fs st) = b_globals st ++ live_globals fc fs.
Proof.
  revert st. induction fs as [|f fs IH]; intros st; cbn [fold_left live_globals List.filter].
  - symmetry. apply app_nil_r.
  - rewrite IH, add_filter_globals'. fold (live_globals fc fs).
    destruct (is_global f && negb (rejected_global fc f)); [rewrite <- app_assoc|]; reflexivity.
Qed.
