(** What C08/C09 demand, written without reference to the stack machine.

    - a global filter that comes after code is rejected;
    - a filter is rejected as conflicting when the same piece of code (same node range, same
      kind: inline / whole-file) already carries an accepted-or-rejected filter for the same lint;
    - a diagnostic of lint L starting at byte s is governed by the accepted inline filter for L with
      the smallest range containing s (lo <= s < hi), else by the accepted global filter for L,
      else it is unchanged;  `allow` removes, `warn`/`deny` set the severity;
    - rejected filters, malformed comments and filters for other lints change nothing. *)
From Selene Require Export Filter.Machine.

Definition is_global (f : lfilter) : bool := fc_global (fl_conf f).
Definition lint_of (f : lfilter) : string := fc_lint (fl_conf f).

Definition rejected_global (first_code : option (N * N)) (f : lfilter) : bool :=
  is_global f &&
  match first_code with Some fc => (fst fc <=? fst (fl_comment f))%N | None => false end.

Definition live (first_code : option (N * N)) (fs : list lfilter) : list lfilter :=
  List.filter (fun f => negb (rejected_global first_code f)) fs.

Definition same_piece (e f : lfilter) : bool :=
  range_eqb (fl_range e) (fl_range f) && Bool.eqb (is_global e) (is_global f).

Definition conflicting_with (seen : list lfilter) (f : lfilter) : list lfilter :=
  List.filter (fun e => same_piece e f && str_eqb (lint_of e) (lint_of f)) seen.

Fixpoint accepted_from (seen : list lfilter) (fs : list lfilter) : list lfilter :=
  match fs with
  | [] => []
  | f :: r => (match conflicting_with seen f with [] => [f] | _ => [] end)
              ++ accepted_from (seen ++ [f]) r
  end.

Definition accepted (first_code : option (N * N)) (fs : list lfilter) : list lfilter :=
  accepted_from [] (live first_code fs).

Definition covers (f : lfilter) (s : N) : bool :=
  (fst (fl_range f) <=? s)%N && (s <? snd (fl_range f))%N.

Definition width (f : lfilter) : N := (snd (fl_range f) - fst (fl_range f))%N.

(** the candidate with the smallest range; among equal ranges the first listed *)
Definition narrower (best : option lfilter) (f : lfilter) : option lfilter :=
  match best with
  | None => Some f
  | Some b => if (width f <? width b)%N then Some f else Some b
  end.

Definition governing (acc : list lfilter) (code : string) (s : N) : option lfilter :=
  match fold_left narrower
          (List.filter (fun f => negb (is_global f) && covers f s && str_eqb (lint_of f) code) acc) None with
  | Some f => Some f
  | None => find (fun f => is_global f && str_eqb (lint_of f) code) acc
  end.

Definition apply_verdict (acc : list lfilter) (d : diag) : list diag :=
  match governing acc (d_code d) (d_start d) with
  | Some f => match fc_var (fl_conf f) with
              | VAllow => []
              | v => [with_sev d (to_severity v)]
              end
  | None => [d]
  end.

Definition spec_diags (fs : list lfilter) (first_code : option (N * N)) (ds : list diag) : list diag :=
  match fs with
  | [] => ds
  | _ => flat_map (apply_verdict (accepted first_code fs)) (sort_diags ds)
  end.

(** The comments at which an invalid_lint_filter must be reported. *)
Fixpoint spec_failures_from (first_code : option (N * N)) (seen : list lfilter) (fs : list lfilter)
  : list failure :=
  match fs with
  | [] => []
  | f :: r =>
      if rejected_global first_code f then
        GlobalAfterCode (fl_comment f) (match first_code with Some fc => fc | None => (0, 0)%N end)
        :: spec_failures_from first_code seen r
      else
        map (fun e => Conflict (fl_comment f) (fl_comment e)) (conflicting_with seen f)
        ++ spec_failures_from first_code (seen ++ [f]) r
  end.

Definition spec_failures (es : list fentry) (first_code : option (N * N)) : list failure :=
  errs es ++ match oks es with [] => [] | fs => spec_failures_from first_code [] fs end.

(** Well-formedness of what a traversal produces (checked on every dump; see DESIGN C08). *)
Definition lam2 (a b : N * N) : bool :=       (* nested or disjoint *)
  let '(a0, a1) := a in let '(b0, b1) := b in
  ((a1 <=? b0) || (b1 <=? a0) || ((a0 <=? b0) && (b1 <=? a1)) || ((b0 <=? a0) && (a1 <=? b1)))%N.

Fixpoint all_pairs {A} (p : A -> A -> bool) (l : list A) : bool :=
  match l with
  | [] => true
  | x :: r => forallb (p x) r && all_pairs p r
  end.

Definition wf_pair (a b : lfilter) : bool :=     (* a listed before b *)
  let ra := fl_range a in let rb := fl_range b in
  lam2 ra rb
  && ((fst ra <=? snd ra) && (fst rb <=? snd rb))%N
  (* (ii) same start => same range *)
  && (negb (fst ra =? fst rb)%N || range_eqb ra rb)
  (* (iii) no non-empty range starts where another one ends *)
  && (negb ((snd ra =? fst rb) && (fst rb <? snd rb))%N || range_eqb ra rb || (fst ra =? snd ra)%N)
  && (negb ((snd rb =? fst ra) && (fst ra <? snd ra))%N || range_eqb ra rb || (fst rb =? snd rb)%N)
  (* pre-order: a later filter is never a strict ancestor of an earlier one *)
  && (range_eqb ra rb || negb ((fst rb <=? fst ra) && (snd ra <=? snd rb))%N).

(** (iv) filters of one range are contiguous *)
Fixpoint contiguous (fs : list lfilter) : bool :=
  match fs with
  | [] => true
  | f :: r =>
      let same := fun g => range_eqb (fl_range g) (fl_range f) in
      let fix skip (l : list lfilter) := match l with
                                         | g :: l' => if same g then skip l' else l
                                         | [] => [] end in
      forallb (fun g => negb (same g)) (skip r) && contiguous r
  end.

Definition wf_filters (fs : list lfilter) : bool :=
  let inl := List.filter (fun f => negb (is_global f)) fs in
  all_pairs wf_pair inl && contiguous fs.
