(** C08 main theorem, part 1: the lazy replay loop = evaluating, for every diagnostic on its own,
    the stack obtained by running all instructions with bytes <= its start. *)
From Selene Require Import Filter.Machine Filter.Spec.
Open Scope N_scope.

Fixpoint exec (is : list instr) (st : list fconf) : option (list fconf) :=
  match is with
  | [] => Some st
  | Push c _ :: r => exec r (c :: st)
  | Pop _ :: r => match st with [] => None | _ :: s => exec r s end
  end.

Lemma exec_app a b st :
  exec (a ++ b) st = match exec a st with Some st' => exec b st' | None => None end.
Proof.
  revert st. induction a as [|i a IH]; intros st; cbn [app exec]; [reflexivity|].
  destruct i as [c x|x]; [apply IH|]. destruct st; [reflexivity|apply IH].
Qed.

(** ascending by bytes *)
Inductive asc : list instr -> Prop :=
| asc_nil : asc []
| asc_cons i l : Forall (fun j => ibytes i <= ibytes j) l -> asc l -> asc (i :: l).

Fixpoint span_le (s : N) (l : list instr) : list instr * list instr :=
  match l with
  | [] => ([], [])
  | i :: r => if ibytes i <=? s then let '(a, b) := span_le s r in (i :: a, b) else ([], l)
  end.

Lemma span_le_app s l : fst (span_le s l) ++ snd (span_le s l) = l.
Proof.
  induction l as [|i r IH]; cbn [span_le]; [reflexivity|].
  destruct (ibytes i <=? s); [|reflexivity].
  destruct (span_le s r) as [a b]. cbn [fst snd app] in *. f_equal. exact IH.
Qed.

Lemma span_le_fst_le s l : Forall (fun i => ibytes i <= s) (fst (span_le s l)).
Proof.
  induction l as [|i r IH]; cbn [span_le]; [constructor|].
  destruct (ibytes i <=? s) eqn:E; [|constructor].
  destruct (span_le s r) as [a b]. cbn [fst] in *. constructor; [apply N.leb_le; exact E|exact IH].
Qed.

Lemma span_le_snd_gt s l : asc l -> Forall (fun i => s < ibytes i) (snd (span_le s l)).
Proof.
  induction 1 as [|i r Hle Hasc IH]; cbn [span_le]; [constructor|].
  destruct (ibytes i <=? s) eqn:E.
  - destruct (span_le s r) as [a b]. cbn [snd] in *. exact IH.
  - cbn [snd]. apply N.leb_gt in E. constructor; [exact E|].
    eapply Forall_impl; [|exact Hle]. cbn. intros j Hj. lia.
Qed.

Lemma run_instrs_spec fuel s pending stack :
  (List.length pending < fuel)%nat ->
  run_instrs fuel s pending stack =
    match exec (fst (span_le s pending)) stack with
    | Some st' => Some (snd (span_le s pending), st')
    | None => None
    end.
Proof.
  revert pending stack. induction fuel as [|fuel IH]; intros pending stack Hlen; [lia|].
  cbn [run_instrs]. destruct pending as [|i rest]; [reflexivity|].
  cbn [span_le]. destruct (ibytes i <=? s) eqn:E; [|reflexivity].
  cbn [List.length] in Hlen.
  destruct (span_le s rest) as [a b] eqn:Es. cbn [fst snd exec].
  destruct i as [c x|x].
  - rewrite IH by lia. rewrite Es. reflexivity.
  - destruct stack as [|y st]; [reflexivity|]. rewrite IH by lia. rewrite Es. reflexivity.
Qed.

Definition le_filter (s : N) (E : list instr) : list instr := List.filter (fun i => ibytes i <=? s) E.
Definition stack_at (E : list instr) (s : N) : option (list fconf) := exec (le_filter s E) [].

Lemma le_filter_app s a b : le_filter s (a ++ b) = le_filter s a ++ le_filter s b.
Proof. apply filter_app. Qed.

Lemma le_filter_all s l : Forall (fun i => ibytes i <= s) l -> le_filter s l = l.
Proof.
  induction 1 as [|i l Hi _ IH]; cbn [le_filter List.filter]; [reflexivity|].
  apply N.leb_le in Hi. rewrite Hi. f_equal. exact IH.
Qed.

Lemma le_filter_none s l : Forall (fun i => s < ibytes i) l -> le_filter s l = [].
Proof.
  induction 1 as [|i l Hi _ IH]; cbn [le_filter List.filter]; [reflexivity|].
  apply N.leb_gt in Hi. rewrite Hi. exact IH.
Qed.

Lemma asc_app_r a b : asc (a ++ b) -> asc b.
Proof. induction a as [|i a IH]; cbn [app]; [auto|]. intros H. inversion H; auto. Qed.

Inductive sorted_diags : list diag -> Prop :=
| sd_nil : sorted_diags []
| sd_cons d l : Forall (fun x => d_start d <= d_start x) l -> sorted_diags l -> sorted_diags (d :: l).

(** what the loop emits for one diagnostic given the stack at its start *)
Definition emit (stack : list fconf) (d : diag) : list diag :=
  match find_conf (d_code d) stack with
  | Some c => if severity_eqb (to_severity (fc_var c)) SAllow then [] else [with_sev d (to_severity (fc_var c))]
  | None => [d]
  end.

Lemma replay_spec E ds :
  asc E -> sorted_diags ds ->
  forall pre pending stack,
    E = pre ++ pending -> exec pre [] = Some stack ->
    (forall d, In d ds -> Forall (fun i => ibytes i <= d_start d) pre) ->
    (forall d, In d ds -> exists st, stack_at E (d_start d) = Some st) ->
    replay ds pending stack =
      Some (flat_map (fun d => match stack_at E (d_start d) with Some st => emit st d | None => [] end) ds).
Proof.
  intros Hasc Hsd. induction Hsd as [|d ds Hle Hsd IH]; intros pre pending stack HE Hex Hpre Hok.
  - reflexivity.
  - cbn [replay flat_map]. rewrite run_instrs_spec by lia.
    pose proof (span_le_app (d_start d) pending) as Hsplit.
    pose proof (span_le_fst_le (d_start d) pending) as Hmid.
    assert (Hpend : asc pending) by (apply (asc_app_r pre); rewrite <- HE; exact Hasc).
    pose proof (span_le_snd_gt (d_start d) pending Hpend) as Hpost.
    destruct (span_le (d_start d) pending) as [mid post]. cbn [fst snd] in *.
    assert (Hfilter : le_filter (d_start d) E = pre ++ mid).
    { rewrite HE, <- Hsplit, !le_filter_app.
      rewrite (le_filter_all _ pre) by (apply Hpre; left; reflexivity).
      rewrite (le_filter_all _ mid) by exact Hmid.
      rewrite (le_filter_none _ post) by exact Hpost. rewrite app_nil_r. reflexivity. }
    destruct (Hok d (or_introl eq_refl)) as [st Hhead].
    rewrite Hhead.
    assert (Hst : exec mid stack = Some st).
    { unfold stack_at in Hhead. rewrite Hfilter, exec_app, Hex in Hhead. exact Hhead. }
    rewrite Hst.
    rewrite (IH (pre ++ mid) post st).
    + unfold emit.
      destruct (find_conf (d_code d) st) as [c|]; [destruct (severity_eqb _ _)|]; reflexivity.
    + rewrite <- app_assoc, Hsplit. exact HE.
    + rewrite exec_app, Hex. exact Hst.
    + intros d' Hin. apply Forall_app. split.
      * eapply Forall_impl; [|apply Hpre; left; reflexivity]. cbn. intros i Hi.
        rewrite Forall_forall in Hle. specialize (Hle d' Hin). lia.
      * eapply Forall_impl; [|exact Hmid]. cbn. intros i Hi.
        rewrite Forall_forall in Hle. specialize (Hle d' Hin). lia.
    + intros d' Hin. apply Hok. right. exact Hin.
Qed.

(** sort_diags sorts, is a permutation, and is stable (it is the insertion sort) *)
Lemma insert_diag_sorted d l : sorted_diags l -> sorted_diags (insert_diag d l).
Proof.
  induction 1 as [|x l Hle Hs IH]; cbn [insert_diag].
  - constructor; constructor.
  - destruct (d_start d <=? d_start x) eqn:E.
    + apply N.leb_le in E. constructor; [|constructor; assumption].
      constructor; [exact E|]. eapply Forall_impl; [|exact Hle]. cbn. intros y Hy. lia.
    + apply N.leb_gt in E. constructor; [|exact IH].
      assert (Hin : forall y, In y (insert_diag d l) -> y = d \/ In y l).
      { clear. induction l as [|z l IHl]; cbn [insert_diag]; intros y.
        - intros [<-|[]]. left. reflexivity.
        - destruct (d_start d <=? d_start z); cbn [In]; [intuition|].
          intros [<-|H]; [right; left; reflexivity|]. destruct (IHl y H); [left|right; right]; assumption. }
      apply Forall_forall. intros y Hy. destruct (Hin y Hy) as [->|Hy']; [lia|].
      rewrite Forall_forall in Hle. exact (Hle y Hy').
Qed.

Lemma sort_diags_sorted ds : sorted_diags (sort_diags ds).
Proof.
  induction ds as [|d ds IH]; cbn [sort_diags fold_right]; [constructor|].
  apply insert_diag_sorted. exact IH.
Qed.
