(** C08 main theorem, part 3: runs of same-range filters and the stack they produce. *)
From Selene Require Import Filter.Machine Filter.Spec Filter.Correct1 Filter.Correct2.
Open Scope N_scope.

Definition run := (N * N * list fconf)%type.
Definition r_lo (r : run) : N := fst (fst r).
Definition r_hi (r : run) : N := snd (fst r).
Definition r_confs (r : run) : list fconf := snd r.

Definition add_run (E : list instr) (r : run) : list instr :=
  fold_left (fun E c => add1 E (r_lo r) (r_hi r) c) (r_confs r) E.
Definition E_runs (rs : list run) : list instr := fold_left add_run rs [].

Definition pushes (cs : list fconf) (lo : N) : list instr := map (fun c => Push c lo) cs.
Definition pops (k : nat) (hi : N) : list instr := repeat (Pop hi) k.
Definition pairs (cs : list fconf) (x : N) : list instr := flat_map (fun c => [Push c x; Pop x]) cs.

(** the instructions a run contributes *)
Definition run_instrs_of (r : run) : list instr :=
  if r_lo r <? r_hi r then pushes (rev (r_confs r)) (r_lo r) ++ pops (List.length (r_confs r)) (r_hi r)
  else pairs (rev (r_confs r)) (r_lo r).

Lemma filter_app3 {A} (p : A -> bool) a b c :
  List.filter p (a ++ b ++ c) = List.filter p a ++ List.filter p b ++ List.filter p c.
Proof. rewrite !filter_app. reflexivity. Qed.

Lemma Forall_filter_all {A} (p : A -> bool) l : Forall (fun x => p x = true) l -> List.filter p l = l.
Proof. apply filter_all. Qed.

Lemma pushes_bytes cs lo : Forall (fun i => ibytes i = lo) (pushes cs lo).
Proof. unfold pushes. apply Forall_forall. intros i Hi. apply in_map_iff in Hi as [c [<- _]]. reflexivity. Qed.
Lemma pops_bytes k hi : Forall (fun i => ibytes i = hi) (pops k hi).
Proof. unfold pops. apply Forall_forall. intros i Hi. apply repeat_spec in Hi. subst. reflexivity. Qed.
Lemma pairs_bytes cs x : Forall (fun i => ibytes i = x) (pairs cs x).
Proof.
  unfold pairs. apply Forall_forall. intros i Hi. apply in_flat_map in Hi as [c [_ Hc]].
  destruct Hc as [<-|[<-|[]]]; reflexivity.
Qed.

Lemma filter_by_bytes (p : instr -> bool) (b : bool) x l :
  (forall i, ibytes i = x -> p i = b) -> Forall (fun i => ibytes i = x) l ->
  List.filter p l = if b then l else [].
Proof.
  intros Hp Hl. destruct b.
  - apply filter_all. eapply Forall_impl; [|exact Hl]. cbn. intros i Hi. apply Hp. exact Hi.
  - apply filter_none. eapply Forall_impl; [|exact Hl]. cbn. intros i Hi. apply Hp. exact Hi.
Qed.

(** closed form of adding a non-empty run to A ++ B (A below lo, B from hi on) *)
Lemma add_run_nonempty_gen A B lo hi cs P :
  lo < hi ->
  Forall (fun i => ibytes i < lo) A -> Forall (fun i => hi <= ibytes i) B ->
  fold_left (fun E c => add1 E lo hi c) cs (A ++ pushes P lo ++ pops (List.length P) hi ++ B)
  = A ++ pushes (rev cs ++ P) lo ++ pops (List.length cs + List.length P) hi ++ B.
Proof.
  intros Hlt HA HB. revert P. induction cs as [|c cs IH]; intros P; cbn [fold_left rev app List.length plus].
  - reflexivity.
  - assert (Hstep : add1 (A ++ pushes P lo ++ pops (List.length P) hi ++ B) lo hi c
                    = A ++ pushes (c :: P) lo ++ pops (List.length (c :: P)) hi ++ B).
    { unfold add1. rewrite !filter_app.
      assert (A1 : List.filter (ltb_f lo) A = A).
      { apply filter_all. eapply Forall_impl; [|exact HA]. cbn. intros i Hi. apply N.ltb_lt. exact Hi. }
      assert (A2 : List.filter (mid_f lo hi) A = []).
      { apply filter_none. eapply Forall_impl; [|exact HA]. cbn. intros i Hi. unfold mid_f.
        assert (E : (lo <=? ibytes i) = false) by (apply N.leb_gt; exact Hi). rewrite E. reflexivity. }
      assert (A3 : List.filter (geb_f hi) A = []).
      { apply filter_none. eapply Forall_impl; [|exact HA]. cbn. intros i Hi. apply N.leb_gt. lia. }
      assert (B1 : List.filter (ltb_f lo) B = []).
      { apply filter_none. eapply Forall_impl; [|exact HB]. cbn. intros i Hi. apply N.ltb_ge. lia. }
      assert (B2 : List.filter (mid_f lo hi) B = []).
      { apply filter_none. eapply Forall_impl; [|exact HB]. cbn. intros i Hi. unfold mid_f.
        assert (E : (ibytes i <? hi) = false) by (apply N.ltb_ge; exact Hi). rewrite E. apply andb_false_r. }
      assert (B3 : List.filter (geb_f hi) B = B).
      { apply filter_all. eapply Forall_impl; [|exact HB]. cbn. intros i Hi. apply N.leb_le. exact Hi. }
      rewrite (filter_by_bytes (ltb_f lo) false lo (pushes P lo)); [|intros i Hi; unfold ltb_f; apply N.ltb_ge; lia|apply pushes_bytes].
      rewrite (filter_by_bytes (mid_f lo hi) true lo (pushes P lo)); [|intros i Hi; unfold mid_f; rewrite Hi;
        rewrite N.leb_refl; apply N.ltb_lt; exact Hlt|apply pushes_bytes].
      rewrite (filter_by_bytes (geb_f hi) false lo (pushes P lo)); [|intros i Hi; unfold geb_f; apply N.leb_gt; lia|apply pushes_bytes].
      rewrite (filter_by_bytes (ltb_f lo) false hi (pops _ hi)); [|intros i Hi; unfold ltb_f; apply N.ltb_ge; lia|apply pops_bytes].
      rewrite (filter_by_bytes (mid_f lo hi) false hi (pops _ hi)); [|intros i Hi; unfold mid_f; rewrite Hi;
        rewrite N.ltb_irrefl; apply andb_false_r|apply pops_bytes].
      rewrite (filter_by_bytes (geb_f hi) true hi (pops _ hi)); [|intros i Hi; unfold geb_f; apply N.leb_le; lia|apply pops_bytes].
      rewrite A1, A2, A3, B1, B2, B3. cbn [app pushes map pops repeat List.length].
      rewrite ?app_nil_r. rewrite <- ?app_assoc. cbn [app]. reflexivity. }
    rewrite Hstep, IH. rewrite <- app_assoc. cbn [app List.length]. rewrite Nat.add_succ_r. reflexivity.
Qed.

Lemma add_run_empty_gen A B x cs Z :
  Forall (fun i => ibytes i < x) A -> Forall (fun i => x <= ibytes i) B ->
  Forall (fun i => ibytes i = x) Z ->
  fold_left (fun E c => add1 E x x c) cs (A ++ Z ++ B) = A ++ pairs (rev cs) x ++ Z ++ B.
Proof.
  intros HA HB. revert Z. induction cs as [|c cs IH]; intros Z HZ; cbn [fold_left rev pairs flat_map app]; [reflexivity|].
  assert (Hstep : add1 (A ++ Z ++ B) x x c = A ++ ([Push c x; Pop x] ++ Z) ++ B).
  { unfold add1. rewrite !filter_app.
    assert (A1 : List.filter (ltb_f x) A = A).
    { apply filter_all. eapply Forall_impl; [|exact HA]. cbn. intros i Hi. apply N.ltb_lt. exact Hi. }
    assert (A3 : List.filter (geb_f x) A = []).
    { apply filter_none. eapply Forall_impl; [|exact HA]. cbn. intros i Hi. apply N.leb_gt. lia. }
    assert (B1 : List.filter (ltb_f x) B = []).
    { apply filter_none. eapply Forall_impl; [|exact HB]. cbn. intros i Hi. apply N.ltb_ge. lia. }
    assert (B3 : List.filter (geb_f x) B = B).
    { apply filter_all. eapply Forall_impl; [|exact HB]. cbn. intros i Hi. apply N.leb_le. exact Hi. }
    assert (M : forall l, List.filter (mid_f x x) l = []).
    { intros l. apply filter_none. apply Forall_forall. intros i _. unfold mid_f.
      destruct (x <=? ibytes i) eqn:E1; [|reflexivity]. apply N.leb_le in E1. cbn. apply N.ltb_ge. exact E1. }
    rewrite (filter_by_bytes (ltb_f x) false x Z); [|intros i Hi; unfold ltb_f; apply N.ltb_ge; lia|exact HZ].
    rewrite (filter_by_bytes (geb_f x) true x Z); [|intros i Hi; unfold geb_f; apply N.leb_le; lia|exact HZ].
    rewrite !M, A1, A3, B1, B3. cbn [app]. rewrite !app_nil_r. reflexivity. }
  rewrite Hstep, IH.
  - unfold pairs. rewrite flat_map_app. cbn [flat_map app]. rewrite <- !app_assoc. cbn [app]. reflexivity.
  - constructor; [reflexivity|]. constructor; [reflexivity|exact HZ].
Qed.

(** for an ascending list, splitting at x *)
Lemma asc_split x E : asc E -> E = List.filter (ltb_f x) E ++ List.filter (geb_f x) E.
Proof.
  induction 1 as [|i l Hle Ha IH]; cbn [List.filter]; [reflexivity|].
  unfold ltb_f at 1, geb_f at 1. destruct (ibytes i <? x) eqn:E1.
  - apply N.ltb_lt in E1. assert (E2 : (x <=? ibytes i) = false) by (apply N.leb_gt; lia). rewrite E2.
    cbn [app]. f_equal. exact IH.
  - apply N.ltb_ge in E1. assert (E2 : (x <=? ibytes i) = true) by (apply N.leb_le; lia). rewrite E2.
    assert (H1 : List.filter (ltb_f x) l = []).
    { apply filter_none. eapply Forall_impl; [|exact Hle]. cbn. intros j Hj. apply N.ltb_ge. lia. }
    assert (H2 : List.filter (geb_f x) l = l).
    { apply filter_all. eapply Forall_impl; [|exact Hle]. cbn. intros j Hj. apply N.leb_le. lia. }
    rewrite H1, H2. reflexivity.
Qed.

Definition clear_of (E : list instr) (lo hi : N) : Prop :=
  Forall (fun i => ibytes i < lo \/ hi <= ibytes i) E.

Lemma filter_lt_bound x E : Forall (fun i => ibytes i < x) (List.filter (ltb_f x) E).
Proof. apply Forall_forall. intros i Hi. apply filter_In in Hi as [_ Hi]. apply N.ltb_lt. exact Hi. Qed.
Lemma filter_ge_bound x E : Forall (fun i => x <= ibytes i) (List.filter (geb_f x) E).
Proof. apply Forall_forall. intros i Hi. apply filter_In in Hi as [_ Hi]. apply N.leb_le. exact Hi. Qed.

Theorem add_run_closed E r :
  asc E -> r_lo r <= r_hi r -> clear_of E (r_lo r) (r_hi r) ->
  add_run E r = List.filter (ltb_f (r_lo r)) E ++ run_instrs_of r ++ List.filter (geb_f (r_hi r)) E
  /\ E = List.filter (ltb_f (r_lo r)) E ++ List.filter (geb_f (r_hi r)) E.
Proof.
  intros Ha Hle Hclear.
  assert (Hsplit : E = List.filter (ltb_f (r_lo r)) E ++ List.filter (geb_f (r_hi r)) E).
  { rewrite (asc_split (r_lo r) E Ha) at 1. f_equal.
    apply filter_ext_in. intros i Hi. unfold clear_of in Hclear. rewrite Forall_forall in Hclear.
    specialize (Hclear i Hi). unfold geb_f.
    destruct (r_lo r <=? ibytes i) eqn:E1, (r_hi r <=? ibytes i) eqn:E2; try reflexivity.
    - apply N.leb_le in E1. apply N.leb_gt in E2. lia.
    - apply N.leb_gt in E1. apply N.leb_le in E2. lia. }
  split; [|exact Hsplit].
  unfold add_run, run_instrs_of. rewrite Hsplit at 1.
  destruct (r_lo r <? r_hi r) eqn:Elt.
  - apply N.ltb_lt in Elt.
    pose proof (add_run_nonempty_gen (List.filter (ltb_f (r_lo r)) E) (List.filter (geb_f (r_hi r)) E)
                  (r_lo r) (r_hi r) (r_confs r) [] Elt (filter_lt_bound _ _) (filter_ge_bound _ _)) as H.
    cbn [pushes map pops repeat List.length app] in H. rewrite H.
    rewrite app_nil_r, Nat.add_0_r. rewrite <- !app_assoc. reflexivity.
  - apply N.ltb_ge in Elt. assert (Heq : r_hi r = r_lo r) by lia. rewrite Heq.
    pose proof (add_run_empty_gen (List.filter (ltb_f (r_lo r)) E) (List.filter (geb_f (r_lo r)) E)
                  (r_lo r) (r_confs r) [] (filter_lt_bound _ _) (filter_ge_bound _ _) (Forall_nil _)) as H.
    cbn [app] in H. rewrite H. reflexivity.
Qed.

(** what a run's instructions do *)
Lemma exec_pushes cs lo st : exec (pushes cs lo) st = Some (rev cs ++ st).
Proof.
  revert st. induction cs as [|c cs IH]; intros st; cbn [pushes map exec rev app]; [reflexivity|].
  fold (pushes cs lo). rewrite IH. rewrite <- app_assoc. reflexivity.
Qed.

Lemma exec_pops_app k hi pre st : List.length pre = k -> exec (pops k hi) (pre ++ st) = Some st.
Proof.
  revert pre. induction k as [|k IH]; intros pre Hl; cbn [pops repeat exec].
  - destruct pre; [reflexivity|discriminate].
  - destruct pre as [|x pre]; [discriminate|]. cbn [app]. apply IH. cbn in Hl. lia.
Qed.

Lemma exec_pairs cs x st : exec (pairs cs x) st = Some st.
Proof. induction cs as [|c cs IH]; cbn [pairs flat_map app exec]; [reflexivity|exact IH]. Qed.

Lemma exec_run_balanced r st : exec (run_instrs_of r) st = Some st.
Proof.
  unfold run_instrs_of. destruct (r_lo r <? r_hi r).
  - rewrite exec_app, exec_pushes. apply exec_pops_app. rewrite rev_length, rev_length. reflexivity.
  - apply exec_pairs.
Qed.

Definition r_covers (r : run) (s : N) : bool := (r_lo r <=? s) && (s <? r_hi r).

Lemma le_filter_run r s :
  r_lo r <= r_hi r ->
  le_filter s (run_instrs_of r) =
    if s <? r_lo r then []
    else if r_covers r s then pushes (rev (r_confs r)) (r_lo r)
    else run_instrs_of r.
Proof.
  intros Hle. unfold run_instrs_of, r_covers, le_filter.
  destruct (s <? r_lo r) eqn:E1.
  - apply N.ltb_lt in E1. apply filter_none. destruct (r_lo r <? r_hi r).
    + apply Forall_app. split.
      * eapply Forall_impl; [|apply pushes_bytes]. cbn. intros i Hi. apply N.leb_gt. lia.
      * eapply Forall_impl; [|apply pops_bytes]. cbn. intros i Hi. apply N.leb_gt. lia.
    + eapply Forall_impl; [|apply pairs_bytes]. cbn. intros i Hi. apply N.leb_gt. lia.
  - apply N.ltb_ge in E1. assert (E1' : (r_lo r <=? s) = true) by (apply N.leb_le; exact E1). rewrite E1'. cbn [andb].
    destruct (s <? r_hi r) eqn:E2.
    + apply N.ltb_lt in E2. assert (E3 : (r_lo r <? r_hi r) = true) by (apply N.ltb_lt; lia). rewrite E3.
      rewrite filter_app.
      rewrite (filter_all _ (pushes _ _)) by (eapply Forall_impl; [|apply pushes_bytes]; cbn; intros i Hi; apply N.leb_le; lia).
      rewrite (filter_none _ (pops _ _)) by (eapply Forall_impl; [|apply pops_bytes]; cbn; intros i Hi; apply N.leb_gt; lia).
      apply app_nil_r.
    + apply N.ltb_ge in E2. apply filter_all. destruct (r_lo r <? r_hi r).
      * apply Forall_app. split.
        -- eapply Forall_impl; [|apply pushes_bytes]. cbn. intros i Hi. apply N.leb_le. lia.
        -- eapply Forall_impl; [|apply pops_bytes]. cbn. intros i Hi. apply N.leb_le. lia.
      * eapply Forall_impl; [|apply pairs_bytes]. cbn. intros i Hi. apply N.leb_le. lia.
Qed.

(** Lemma M: the effect of one run on the stack at every byte *)
Theorem stack_at_add_run E r s :
  asc E -> r_lo r <= r_hi r -> clear_of E (r_lo r) (r_hi r) ->
  stack_at (add_run E r) s =
    match stack_at E s with
    | Some st => Some (if r_covers r s then r_confs r ++ st else st)
    | None => None
    end.
Proof.
  intros Ha Hle Hclear. destruct (add_run_closed E r Ha Hle Hclear) as [Hform Hsplit].
  pose proof (f_equal (le_filter s) Hsplit) as HE. rewrite le_filter_app in HE.
  set (A := List.filter (ltb_f (r_lo r)) E) in *. set (B := List.filter (geb_f (r_hi r)) E) in *.
  assert (HA : Forall (fun i => ibytes i < r_lo r) A) by apply filter_lt_bound.
  assert (HB : Forall (fun i => r_hi r <= ibytes i) B) by apply filter_ge_bound.
  unfold stack_at. rewrite Hform, HE. rewrite !le_filter_app, (le_filter_run r s Hle).
  rewrite !exec_app.
  destruct (s <? r_lo r) eqn:E1.
  - (* below the run: nothing of it, nothing of B *)
    apply N.ltb_lt in E1.
    assert (Hcov : r_covers r s = false).
    { unfold r_covers. assert (X : (r_lo r <=? s) = false) by (apply N.leb_gt; exact E1). rewrite X. reflexivity. }
    assert (HlB : le_filter s B = []).
    { apply le_filter_none. eapply Forall_impl; [|exact HB]. cbn. intros i Hi. lia. }
    rewrite HlB, Hcov. cbn [app exec]. destruct (exec (le_filter s A) []); reflexivity.
  - apply N.ltb_ge in E1.
    assert (HlA : le_filter s A = A).
    { apply le_filter_all. eapply Forall_impl; [|exact HA]. cbn. intros i Hi. lia. }
    rewrite HlA. destruct (exec A []) as [stA|] eqn:EA; [|reflexivity].
    destruct (r_covers r s) eqn:Hcov.
    + unfold r_covers in Hcov. apply andb_true_iff in Hcov as [_ H2]. apply N.ltb_lt in H2.
      assert (HlB : le_filter s B = []).
      { apply le_filter_none. eapply Forall_impl; [|exact HB]. cbn. intros i Hi. lia. }
      rewrite HlB, app_nil_r, exec_pushes, rev_involutive. cbn [exec]. reflexivity.
    + rewrite exec_app, exec_run_balanced. destruct (exec (le_filter s B) stA); reflexivity.
Qed.
