(** C08 main theorem: on well-formed filter families the stack machine computes exactly the
    specification - diagnostics and invalid_lint_filter failures, content and order. *)
From Selene Require Import Filter.Machine Filter.Spec Filter.Correct1 Filter.Correct2 Filter.Correct3
  Filter.Correct4 Filter.Correct5 Filter.Correct6.
Open Scope N_scope.

Fixpoint pairwise_b {A} (p : A -> A -> bool) (l : list A) : bool :=
  match l with [] => true | x :: r => forallb (p x) r && pairwise_b p r end.

Definition run_ok_b (r : run) : bool := r_lo r <=? r_hi r.
Definition wf_runs_b (rs : list run) : bool := pairwise_b clear_pair_b rs && forallb run_ok_b rs.

(** The hypothesis of the theorem, as a boolean evaluated on every dumped filter list:
    - every inline range has lo <= hi;
    - grouping consecutive same-range inline filters into runs, no end point of an earlier run falls
      inside [lo, hi) of a later run (true of real traversals: ranges are laminar, parents are
      visited before children, two nodes that start at the same byte share the claimed comment, and
      a comment separates a filtered node from whatever ends before it);
    - filters of one range are consecutive. *)
Definition wf_ok (fc : option (N * N)) (fs : list lfilter) : bool :=
  forallb (fun f => fst (fl_range f) <=? snd (fl_range f)) (inline fs)
  && wf_runs_b (runs_of (inline fs))
  && contigL (live fc fs).

Lemma pairwise_b_snoc {A} (p : A -> A -> bool) l x :
  pairwise_b p (l ++ [x]) = pairwise_b p l && forallb (fun e => p e x) l.
Proof.
  induction l as [|y l IH]; cbn [app pairwise_b forallb]; [reflexivity|].
  rewrite forallb_app, IH. cbn [forallb]. rewrite andb_true_r.
  destruct (forallb (p y) l), (p y x), (pairwise_b p l), (forallb (fun e => p e x) l); reflexivity.
Qed.

Lemma wf_runs_b_spec rs : wf_runs_b rs = true -> wf_runs rs.
Proof.
  induction rs as [|r rs IH] using rev_ind; intros H; [constructor|].
  unfold wf_runs_b in *. rewrite pairwise_b_snoc, forallb_app in H. cbn [forallb] in H.
  apply andb_true_iff in H as [H1 H2]. apply andb_true_iff in H1 as [H1 H3].
  apply andb_true_iff in H2 as [H2 H4]. rewrite andb_true_r in H4.
  constructor.
  - apply IH. rewrite H1, H2. reflexivity.
  - apply N.leb_le. exact H4.
  - apply Forall_forall. intros e He. apply clear_pair_b_spec.
    rewrite forallb_forall in H3. exact (H3 e He).
Qed.

Lemma exec_frame is st st' base : exec is st = Some st' -> exec is (st ++ base) = Some (st' ++ base).
Proof.
  revert st. induction is as [|i is IH]; intros st; cbn [exec].
  - intros [= <-]. reflexivity.
  - destruct i as [c x|x]; [intros H; exact (IH (c :: st) H)|].
    destruct st as [|y st]; [discriminate|]. cbn [app]. apply IH.
Qed.

Theorem filter_correct es fc ds :
  wf_ok fc (oks es) = true ->
  filter_diagnostics es fc ds =
    Some (map ODiag (spec_diags (oks es) fc ds) ++ map OFail (spec_failures es fc)).
Proof.
  unfold wf_ok. intros Hwf. apply andb_true_iff in Hwf as [Hwf Hcontig]. apply andb_true_iff in Hwf as [Hranges Hruns].
  unfold filter_diagnostics, spec_diags, spec_failures.
  destruct (oks es) as [|f0 fs0] eqn:Eoks; [rewrite app_nil_r; reflexivity|].
  set (fs := f0 :: fs0) in *.
  set (inl := inline fs) in *.
  (* the builder *)
  unfold build. cbn [b_instrs b_failures].
  rewrite fold_instrs, fold_globals, (failures_correct fc fs (errs es) Hcontig). cbn [b_instrs b_globals app].
  fold inl.
  (* execution order *)
  rewrite rev_app_distr.
  assert (Hok : ranges_ok inl).
  { apply Forall_forall. intros f Hf. rewrite forallb_forall in Hranges. apply N.leb_le. exact (Hranges f Hf). }
  destruct (model_instrs inl Hok) as [_ Hrev]. rewrite Hrev, fold_runs_of. fold (E_runs (runs_of inl)).
  pose proof (wf_runs_b_spec _ Hruns) as Hwr.
  destruct (runs_invariant _ Hwr) as (Hasc & _ & Hstack).
  set (gl := live_globals fc fs).
  set (G0 := rev (map (fun g => Push (fl_conf g) 0) gl)).
  assert (HG0bytes : Forall (fun i => ibytes i = 0) G0).
  { apply Forall_rev. apply Forall_forall. intros i Hi. apply in_map_iff in Hi as [g [<- _]]. reflexivity. }
  assert (HG0exec : exec G0 [] = Some (map fl_conf gl)).
  { unfold G0. rewrite <- map_rev.
    replace (map (fun g => Push (fl_conf g) 0) (rev gl)) with (pushes (rev (map fl_conf gl)) 0)
      by (unfold pushes; rewrite <- map_rev, map_map; reflexivity).
    rewrite exec_pushes, rev_involutive, app_nil_r. reflexivity. }
  assert (HascFull : asc (G0 ++ E_runs (runs_of inl))).
  { apply asc_app_intro; [|exact Hasc|].
    - clear -HG0bytes. induction HG0bytes as [|i l Hi Hl IH]; [constructor|].
      constructor; [|exact IH]. eapply Forall_impl; [|exact Hl]. cbn. intros j Hj. lia.
    - intros x y Hx _. rewrite Forall_forall in HG0bytes. rewrite (HG0bytes x Hx). lia. }
  assert (HstackFull : forall s, stack_at (G0 ++ E_runs (runs_of inl)) s
                                 = Some (ref_stack (runs_of inl) s ++ map fl_conf gl)).
  { intros s. unfold stack_at. rewrite le_filter_app, exec_app.
    rewrite (le_filter_all s G0) by (eapply Forall_impl; [|exact HG0bytes]; cbn; intros i Hi; lia).
    rewrite HG0exec. specialize (Hstack s). unfold stack_at in Hstack.
    apply (exec_frame _ [] _ (map fl_conf gl)) in Hstack. exact Hstack. }
  rewrite (replay_spec (G0 ++ E_runs (runs_of inl)) (sort_diags ds) HascFull (sort_diags_sorted ds)
             [] (G0 ++ E_runs (runs_of inl)) [] eq_refl eq_refl).
  2: { intros d _. constructor. }
  2: { intros d _. eexists. apply HstackFull. }
  f_equal. f_equal. f_equal.
  (* per diagnostic: the first matching configuration on the stack is the specification's verdict *)
  apply flat_map_ext. intros d. rewrite HstackFull.
  unfold emit, apply_verdict, governing. rewrite find_conf_app.
  (* inline part *)
  assert (Hfw : fruns_wf (fruns_of inl)).
  { split; [rewrite fruns_runs; exact Hwr|]. split; [apply fruns_members_ok|].
    rewrite fruns_flat. apply Forall_forall. intros f Hf. unfold inl, inline in Hf.
    apply filter_In in Hf as [_ Hf]. apply negb_true_iff in Hf. exact Hf. }
  pose proof (S1 (fruns_of inl) (d_code d) (d_start d) Hfw) as Hs1.
  rewrite fruns_flat, fruns_runs in Hs1. rewrite <- Hs1.
  assert (Hcands : List.filter (fun f => negb (is_global f) && covers f (d_start d) && str_eqb (lint_of f) (d_code d))
                               (accepted fc fs) = cands inl (d_code d) (d_start d)).
  { unfold cands, accepted. fold (matches (d_code d)).
    transitivity (List.filter (fun f => covers f (d_start d) && matches (d_code d) f)
                    (inline (accepted_from [] (live fc fs)))).
    - unfold inline. rewrite filter_filter. apply filter_ext. intros f. unfold matches.
      destruct (is_global f), (covers f (d_start d)), (str_eqb (lint_of f) (d_code d)); reflexivity.
    - rewrite P1. cbn [inline List.filter]. fold (inline (live fc fs)). rewrite inline_live. reflexivity. }
  rewrite Hcands.
  destruct (fold_left narrower (cands inl (d_code d) (d_start d)) None) as [w|]; cbn [option_map].
  - destruct (fc_var (fl_conf w)); reflexivity.
  - (* global part *)
    unfold gl. rewrite (S2 (d_code d) fc fs). unfold gmatch.
    destruct (find (fun f => is_global f && str_eqb (lint_of f) (d_code d)) (accepted fc fs)) as [g|]; cbn [option_map]; [|reflexivity].
    destruct (fc_var (fl_conf g)); reflexivity.
Qed.
