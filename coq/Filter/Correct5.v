(** C08 main theorem, part 5: runs that remember their filters; the specification's winner is the
    first matching configuration on the reference stack. *)
From Selene Require Import Filter.Machine Filter.Spec Filter.Correct1 Filter.Correct2 Filter.Correct3 Filter.Correct4.
Open Scope N_scope.

(** runs with their member filters *)
Definition frun := ((N * N) * list lfilter)%type.
Definition to_run (r : frun) : run := (fst r, map fl_conf (snd r)).
Definition flat (rs : list frun) : list lfilter := flat_map snd rs.
Definition members_ok (r : frun) : Prop := Forall (fun f => fl_range f = fst r) (snd r).

Fixpoint fruns_of (F : list lfilter) : list frun :=
  match F with
  | [] => []
  | f :: rest =>
      match fruns_of rest with
      | r :: rs => if range_eqb (fl_range f) (fst r)
                   then (fst r, f :: snd r) :: rs
                   else (fl_range f, [f]) :: r :: rs
      | [] => [(fl_range f, [f])]
      end
  end.

Lemma fruns_runs F : map to_run (fruns_of F) = runs_of F.
Proof.
  induction F as [|f rest IH]; cbn [fruns_of runs_of map]; [reflexivity|].
  rewrite <- IH. destruct (fruns_of rest) as [|r rs]; cbn [map]; [reflexivity|].
  destruct r as [rg ms]. cbn [to_run fst snd]. destruct (range_eqb (fl_range f) rg); reflexivity.
Qed.

Lemma fruns_flat F : flat (fruns_of F) = F.
Proof.
  induction F as [|f rest IH]; cbn [fruns_of]; [reflexivity|].
  destruct (fruns_of rest) as [|r rs] eqn:E; cbn [flat flat_map] in *.
  - cbn. rewrite <- IH. reflexivity.
  - destruct (range_eqb (fl_range f) (fst r)); cbn [flat flat_map snd app]; rewrite <- IH; reflexivity.
Qed.

Lemma fruns_members_ok F : Forall members_ok (fruns_of F).
Proof.
  induction F as [|f rest IH]; cbn [fruns_of]; [constructor|].
  destruct (fruns_of rest) as [|r rs]; [constructor; [constructor; [reflexivity|constructor]|constructor]|].
  inversion IH as [|? ? Hr Hrs]; subst.
  destruct (range_eqb (fl_range f) (fst r)) eqn:E.
  - apply range_eqb_eq in E. constructor; [|exact Hrs]. constructor; [exact E|exact Hr].
  - constructor; [constructor; [reflexivity|constructor]|exact IH].
Qed.

(** acceptance distributes over append *)
Lemma accepted_from_app seen A B :
  accepted_from seen (A ++ B) = accepted_from seen A ++ accepted_from (seen ++ A) B.
Proof.
  revert seen. induction A as [|f A IH]; intros seen; cbn [app accepted_from].
  - rewrite app_nil_r. reflexivity.
  - rewrite IH, <- !app_assoc. cbn [app]. reflexivity.
Qed.

Definition matches (code : string) (f : lfilter) : bool := str_eqb (lint_of f) code.

(** within one run (all members share range and kind "inline"), the accepted members that match
    [code] are exactly the first matching member, provided nothing seen before has this range *)
Lemma conflicting_with_foreign seen f :
  Forall (fun e => fl_range e <> fl_range f) seen -> conflicting_with seen f = [].
Proof.
  intros H. unfold conflicting_with. apply filter_none. eapply Forall_impl; [|exact H]. cbn.
  intros e He. unfold same_piece.
  destruct (range_eqb (fl_range e) (fl_range f)) eqn:E; [apply range_eqb_eq in E; contradiction|reflexivity].
Qed.

Lemma conflicting_with_app a b f : conflicting_with (a ++ b) f = conflicting_with a f ++ conflicting_with b f.
Proof. unfold conflicting_with. apply filter_app. Qed.

Lemma find_snoc {A} (p : A -> bool) l x :
  find p (l ++ [x]) = match find p l with Some y => Some y | None => if p x then Some x else None end.
Proof. induction l as [|y l IH]; cbn [app find]; [reflexivity|]. destruct (p y); [reflexivity|exact IH]. Qed.

Lemma accepted_run_matching code seen0 rng ms :
  Forall (fun e => fl_range e <> rng) seen0 ->
  Forall (fun f => fl_range f = rng /\ is_global f = false) ms ->
  forall pre, Forall (fun f => fl_range f = rng /\ is_global f = false) pre ->
  List.filter (matches code) (accepted_from (seen0 ++ pre) ms) =
    match find (matches code) pre with
    | Some _ => []
    | None => match find (matches code) ms with Some m => [m] | None => [] end
    end.
Proof.
  intros Hseen Hms. induction Hms as [|f ms [Hr Hg] _ IH]; intros pre Hpre; cbn [accepted_from find List.filter].
  - destruct (find (matches code) pre); reflexivity.
  - rewrite filter_app.
    assert (Hconf : conflicting_with (seen0 ++ pre) f =
                    List.filter (fun e => str_eqb (lint_of e) (lint_of f)) pre).
    { rewrite conflicting_with_app, conflicting_with_foreign by (rewrite Hr; exact Hseen). cbn [app].
      unfold conflicting_with. apply filter_ext_in. intros e He. rewrite Forall_forall in Hpre.
      destruct (Hpre e He) as [Her Heg]. unfold same_piece. rewrite Her, Hr, Heg, Hg.
      unfold range_eqb. rewrite !N.eqb_refl. reflexivity. }
    assert (Hpre' : Forall (fun f0 => fl_range f0 = rng /\ is_global f0 = false) (pre ++ [f])).
    { apply Forall_app. split; [exact Hpre|constructor; [split; assumption|constructor]]. }
    rewrite <- app_assoc, (IH (pre ++ [f]) Hpre'), find_snoc, Hconf.
    destruct (matches code f) eqn:Em.
    + assert (Hl : lint_of f = code) by (apply str_eqb_eq; exact Em).
      destruct (find (matches code) pre) as [e|] eqn:Ef.
      * apply find_some in Ef as [Hin He]. unfold matches in He. apply str_eqb_eq in He.
        destruct (List.filter (fun e0 => str_eqb (lint_of e0) (lint_of f)) pre) as [|x xs] eqn:Efl.
        -- exfalso. assert (Hx : In e (List.filter (fun e0 => str_eqb (lint_of e0) (lint_of f)) pre)).
           { apply filter_In. split; [exact Hin|]. apply str_eqb_eq. congruence. }
           rewrite Efl in Hx. destruct Hx.
        -- cbn [List.filter app]. reflexivity.
      * assert (Hnone : List.filter (fun e0 => str_eqb (lint_of e0) (lint_of f)) pre = []).
        { apply filter_none. apply Forall_forall. intros e He.
          pose proof (find_none _ _ Ef e He) as Hn. unfold matches in Hn. rewrite Hl. exact Hn. }
        rewrite Hnone. cbn [List.filter]. rewrite Em. cbn [app]. reflexivity.
    + assert (Hdrop : forall l : list lfilter,
                List.filter (matches code) (match l with [] => [f] | _ :: _ => [] end) = []).
      { intros l. destruct l; cbn [List.filter]; [rewrite Em|]; reflexivity. }
      rewrite Hdrop. cbn [app]. destruct (find (matches code) pre); reflexivity.
Qed.

(** ---- S1: the narrowest accepted covering matching filter = first match on the reference stack ---- *)
Definition cands (F : list lfilter) (code : string) (s : N) : list lfilter :=
  List.filter (fun f => covers f s && matches code f) (accepted_from [] F).

Lemma accepted_from_subset seen L f : In f (accepted_from seen L) -> In f L.
Proof.
  revert seen. induction L as [|g L IH]; intros seen; cbn [accepted_from]; [intros []|].
  intros H. apply in_app_iff in H as [H|H].
  - destruct (conflicting_with seen g); [destruct H as [<-|[]]; left; reflexivity|destruct H].
  - right. eapply IH. exact H.
Qed.

Lemma fold_narrower_member l init b :
  fold_left narrower l init = Some b -> init = Some b \/ In b l.
Proof.
  revert init. induction l as [|x l IH]; intros init; cbn [fold_left]; [auto|].
  intros H. apply IH in H as [H|H]; [|right; right; exact H].
  unfold narrower in H. destruct init as [b0|].
  - destruct (width x <? width b0); injection H as <-; [right; left; reflexivity|left; reflexivity].
  - injection H as <-. right. left. reflexivity.
Qed.

Lemma find_map_conf code ms :
  find_conf code (map fl_conf ms) = option_map fl_conf (find (matches code) ms).
Proof.
  unfold find_conf. induction ms as [|m ms IH]; cbn [map find option_map]; [reflexivity|].
  unfold matches at 1, lint_of. destruct (str_eqb (fc_lint (fl_conf m)) code); [reflexivity|exact IH].
Qed.

Lemma find_conf_app code a b :
  find_conf code (a ++ b) = match find_conf code a with Some c => Some c | None => find_conf code b end.
Proof.
  unfold find_conf. induction a as [|x a IH]; cbn [app find]; [reflexivity|].
  destruct (str_eqb (fc_lint x) code); [reflexivity|exact IH].
Qed.

Definition fruns_wf (rs : list frun) : Prop :=
  wf_runs (map to_run rs) /\ Forall members_ok rs /\ Forall (fun f => is_global f = false) (flat rs).

Lemma covers_member (r : frun) f s : fl_range f = fst r -> covers f s = r_covers (to_run r) s.
Proof. intros H. unfold covers, r_covers, r_lo, r_hi, to_run. rewrite H. reflexivity. Qed.

Lemma width_lt_of_clear (e r : run) s :
  clear_pair e r -> r_covers e s = true -> r_covers r s = true ->
  r_hi r - r_lo r < r_hi e - r_lo e.
Proof.
  unfold clear_pair, r_covers. rewrite !andb_true_iff, !N.leb_le, !N.ltb_lt. lia.
Qed.

Lemma clear_ranges_differ (e r : run) s :
  clear_pair e r -> r_covers r s = true -> fst e <> fst r.
Proof.
  unfold clear_pair, r_covers, r_lo, r_hi. rewrite !andb_true_iff, !N.leb_le, !N.ltb_lt.
  intros [H1 H2] [H3 H4] Heq. rewrite Heq in *. lia.
Qed.

Lemma flat_app a b : flat (a ++ b) = flat a ++ flat b.
Proof. unfold flat. apply flat_map_app. Qed.

Lemma in_flat_run rs f : In f (flat rs) -> exists e, In e rs /\ In f (snd e).
Proof. unfold flat. intros H. apply in_flat_map in H. exact H. Qed.

Theorem S1 rs code s :
  fruns_wf rs ->
  option_map fl_conf (fold_left narrower (cands (flat rs) code s) None)
  = find_conf code (ref_stack (map to_run rs) s).
Proof.
  intros (Hwf & Hmem & Hinl).
  remember (map to_run rs) as crs eqn:Ecrs. revert rs Ecrs Hmem Hinl.
  induction Hwf as [|crs cr Hwf IH Hle Hclear]; intros rs Ecrs Hmem Hinl.
  - destruct rs; [reflexivity|discriminate].
  - destruct (exists_last (l := rs)) as (rs0 & r & ->).
    { intros ->. destruct crs; discriminate. }
    rewrite map_app in Ecrs. cbn [map] in Ecrs. apply app_inj_tail in Ecrs as [-> ->].
    apply Forall_app in Hmem as [Hmem0 Hmemr]. inversion Hmemr as [|? ? Hr _]; subst.
    rewrite flat_app in Hinl. apply Forall_app in Hinl as [Hinl0 Hinlr].
    unfold flat at 1 in Hinlr. cbn [flat_map] in Hinlr. rewrite app_nil_r in Hinlr.
    specialize (IH rs0 eq_refl Hmem0 Hinl0).
    (* machine side *)
    unfold ref_stack. rewrite rev_app_distr. cbn [rev app flat_map].
    fold (ref_stack (map to_run rs0) s). rewrite find_conf_app.
    (* spec side *)
    unfold cands. rewrite flat_app. unfold flat at 2. cbn [flat_map]. rewrite app_nil_r.
    rewrite accepted_from_app, filter_app, fold_left_app. cbn [app].
    fold (cands (flat rs0) code s).
    destruct (r_covers (to_run r) s) eqn:Hcov.
    + (* the new run covers s *)
      assert (Hforeign : Forall (fun e => fl_range e <> fst r) (flat rs0)).
      { apply Forall_forall. intros e He Heq. apply in_flat_run in He as (er & Her & Hin).
        rewrite Forall_forall in Hmem0. pose proof (Hmem0 er Her) as Hok. unfold members_ok in Hok.
        rewrite Forall_forall in Hok. rewrite (Hok e Hin) in Heq.
        rewrite Forall_forall in Hclear.
        assert (Hc : clear_pair (to_run er) (to_run r)) by (apply Hclear; apply in_map; exact Her).
        exact (clear_ranges_differ _ _ s Hc Hcov Heq). }
      assert (Hms : Forall (fun f => fl_range f = fst r /\ is_global f = false) (snd r)).
      { apply Forall_forall. intros f Hf. split.
        - unfold members_ok in Hr. rewrite Forall_forall in Hr. exact (Hr f Hf).
        - rewrite Forall_forall in Hinlr. exact (Hinlr f Hf). }
      assert (Hfilt : List.filter (fun f => covers f s && matches code f) (accepted_from (flat rs0) (snd r))
                      = List.filter (matches code) (accepted_from (flat rs0 ++ []) (snd r))).
      { rewrite app_nil_r. apply filter_ext_in. intros f Hf. apply accepted_from_subset in Hf.
        rewrite Forall_forall in Hms. destruct (Hms f Hf) as [Hfr _].
        rewrite (covers_member r f s Hfr), Hcov. reflexivity. }
      rewrite Hfilt, (accepted_run_matching code (flat rs0) (fst r) (snd r) Hforeign Hms [] (Forall_nil _)).
      cbn [find]. change (r_confs (to_run r)) with (map fl_conf (snd r)). rewrite find_map_conf.
      destruct (find (matches code) (snd r)) as [m|] eqn:Em; cbn [option_map fold_left].
      * (* m beats every earlier candidate: it is strictly narrower *)
        destruct (fold_left narrower (cands (flat rs0) code s) None) as [b|] eqn:Eb; cbn [narrower]; [|reflexivity].
        apply fold_narrower_member in Eb as [Eb|Eb]; [discriminate|].
        unfold cands in Eb. apply filter_In in Eb as [Hacc Hb]. apply andb_true_iff in Hb as [Hbc _].
        apply accepted_from_subset in Hacc. apply in_flat_run in Hacc as (er & Her & Hin).
        rewrite Forall_forall in Hmem0. pose proof (Hmem0 er Her) as Hok. unfold members_ok in Hok.
        rewrite Forall_forall in Hok. pose proof (Hok b Hin) as Hbr.
        apply find_some in Em as [Hmin _]. rewrite Forall_forall in Hms. destruct (Hms m Hmin) as [Hmr _].
        rewrite Forall_forall in Hclear.
        assert (Hc : clear_pair (to_run er) (to_run r)) by (apply Hclear; apply in_map; exact Her).
        rewrite (covers_member er b s Hbr) in Hbc.
        pose proof (width_lt_of_clear _ _ s Hc Hbc Hcov) as Hlt.
        unfold width. rewrite Hmr, Hbr. unfold r_hi, r_lo, to_run in Hlt. cbn [fst snd] in Hlt.
        apply N.ltb_lt in Hlt. rewrite Hlt. reflexivity.
      * exact IH.
    + (* the new run does not cover s: it contributes nothing on either side *)
      assert (Hnone : List.filter (fun f => covers f s && matches code f) (accepted_from (flat rs0) (snd r)) = []).
      { apply filter_none. apply Forall_forall. intros f Hf. apply accepted_from_subset in Hf.
        unfold members_ok in Hr. rewrite Forall_forall in Hr. rewrite (covers_member r f s (Hr f Hf)), Hcov. reflexivity. }
      rewrite Hnone. cbn [fold_left find_conf find]. exact IH.
Qed.
