(** Theorems about the filter machine that need no well-formedness assumption. *)
From Selene Require Import Filter.Machine Filter.Spec Filter.Comment.

(** No accepted filter at all: diagnostics pass through untouched and unsorted, failures appended. *)
Theorem no_filters_identity es fc ds :
  oks es = [] -> filter_diagnostics es fc ds = Some (map ODiag ds ++ map OFail (errs es)).
Proof. unfold filter_diagnostics. intros ->. reflexivity. Qed.

(** Every configuration that can ever be on the stack comes from a Push instruction. *)
Definition pushed (l : list instr) : list fconf :=
  flat_map (fun i => match i with Push c _ => [c] | Pop _ => [] end) l.

Lemma run_instrs_confs fuel s pending stack pending' stack' (P : fconf -> Prop) :
  run_instrs fuel s pending stack = Some (pending', stack') ->
  Forall P (pushed pending) -> Forall P stack ->
  Forall P (pushed pending') /\ Forall P stack'.
Proof.
  revert pending stack. induction fuel as [|fuel IH]; intros pending stack; cbn [run_instrs].
  - intros [= <- <-]. auto.
  - destruct pending as [|i rest]; [intros [= <- <-]; auto|].
    destruct (ibytes i <=? s)%N; [|intros [= <- <-]; auto].
    destruct i as [c b|b]; cbn [pushed flat_map app].
    + intros H Hp Hs. inversion Hp; subst. eapply IH; eauto.
    + destruct stack as [|x st]; [discriminate|]. intros H Hp Hs. inversion Hs; subst. eapply IH; eauto.
Qed.

Lemma find_conf_none code stack :
  Forall (fun c => fc_lint c <> code) stack -> find_conf code stack = None.
Proof.
  unfold find_conf. induction 1 as [|c st Hc _ IH]; cbn [find]; [reflexivity|].
  destruct (str_eqb (fc_lint c) code) eqn:E; [apply str_eqb_eq in E; contradiction|exact IH].
Qed.

(** Frame for other lints: a diagnostic whose lint no Push mentions is emitted unchanged, in place. *)
Lemma replay_frame code ds pending stack outs :
  replay ds pending stack = Some outs ->
  Forall (fun c => fc_lint c <> code) (pushed pending) ->
  Forall (fun c => fc_lint c <> code) stack ->
  List.filter (fun d => str_eqb (d_code d) code) outs = List.filter (fun d => str_eqb (d_code d) code) ds.
Proof.
  revert pending stack outs. induction ds as [|d rest IH]; intros pending stack outs; cbn [replay].
  - intros [= <-] _ _. reflexivity.
  - destruct (run_instrs (S (List.length pending)) (d_start d) pending stack) as [[p' s']|] eqn:Er; [|discriminate].
    destruct (replay rest p' s') as [outs'|] eqn:Erest; [|discriminate].
    intros H Hp Hs.
    destruct (run_instrs_confs _ _ _ _ _ _ _ Er Hp Hs) as [Hp' Hs'].
    specialize (IH _ _ _ Erest Hp' Hs').
    cbn [List.filter]. destruct (str_eqb (d_code d) code) eqn:Ec.
    + apply str_eqb_eq in Ec. subst code. rewrite (find_conf_none _ _ Hs') in H.
      injection H as <-. cbn [List.filter]. rewrite (proj2 (str_eqb_eq _ _) eq_refl). f_equal. exact IH.
    + destruct (find_conf (d_code d) s') as [c|].
      * destruct (severity_eqb (to_severity (fc_var c)) SAllow); injection H as <-; [exact IH|].
        cbn [List.filter with_sev d_code]. rewrite Ec. exact IH.
      * injection H as <-. cbn [List.filter]. rewrite Ec. exact IH.
Qed.

Lemma pushed_app a b : pushed (a ++ b) = pushed a ++ pushed b.
Proof. unfold pushed. apply flat_map_app. Qed.

Lemma pushed_rev l c : In c (pushed (rev l)) <-> In c (pushed l).
Proof.
  unfold pushed. rewrite !in_flat_map. split; intros [i [Hi Hc]]; exists i; split; auto;
    [apply in_rev; exact Hi|apply in_rev in Hi; exact Hi].
Qed.

Definition conf_of (i : instr) : list fconf := match i with Push c _ => [c] | Pop _ => [] end.
Lemma pushed_cons i l : pushed (i :: l) = conf_of i ++ pushed l.
Proof. reflexivity. Qed.

Lemma pushed_insert x i l c : In c (pushed (insert_instr x i l)) <-> In c (pushed (i :: l)).
Proof.
  induction l as [|j r IH]; cbn [insert_instr]; [reflexivity|].
  destruct (ibytes j <? x)%N; [reflexivity|].
  rewrite !pushed_cons, !in_app_iff, IH, pushed_cons, in_app_iff. tauto.
Qed.

Lemma add_filter_pushed fc st f c :
  In c (pushed (b_instrs (add_filter fc st f))) ->
  In c (pushed (b_instrs st)) \/ c = fl_conf f.
Proof.
  unfold add_filter.
  destruct (fc_global (fl_conf f) && _); [cbn; auto|].
  destruct (b_conflicting st) as [[r fs]|]; [destruct (range_eqb r (fl_range f))|];
    destruct (fc_global (fl_conf f)); cbn [b_instrs]; auto;
    intros H; apply pushed_insert in H; rewrite pushed_cons in H; cbn [conf_of] in H;
    apply in_app_iff in H; (destruct H as [H|H]; [right; destruct H as [H|[]]; auto|]);
    apply pushed_insert in H; rewrite pushed_cons in H; cbn [conf_of app] in H; auto.
Qed.

Lemma add_filter_globals fc st f g :
  In g (b_globals (add_filter fc st f)) -> In g (b_globals st) \/ g = f.
Proof.
  unfold add_filter.
  destruct (fc_global (fl_conf f) && _); [cbn; auto|].
  destruct (b_conflicting st) as [[r fs]|]; [destruct (range_eqb r (fl_range f))|];
    destruct (fc_global (fl_conf f)); cbn [b_globals]; auto; rewrite in_app_iff; cbn; intuition.
Qed.

Lemma fold_add_filter_confs fc fs st c :
  In c (pushed (b_instrs (fold_left (add_filter fc) fs st))) \/
  In c (map fl_conf (b_globals (fold_left (add_filter fc) fs st))) ->
  In c (pushed (b_instrs st)) \/ In c (map fl_conf (b_globals st)) \/ In c (map fl_conf fs).
Proof.
  revert st. induction fs as [|f fs IH]; intros st; cbn [fold_left map In]; [tauto|].
  intros H. apply IH in H. destruct H as [H|[H|H]]; auto.
  - apply add_filter_pushed in H. destruct H as [H|H]; auto.
  - apply in_map_iff in H as [g [<- Hg]]. apply add_filter_globals in Hg. destruct Hg as [Hg| ->]; auto.
    right. left. apply in_map. exact Hg.
Qed.

Theorem frame_other_lints es fc ds outs code :
  filter_diagnostics es fc ds = Some outs ->
  (forall f, In f (oks es) -> fc_lint (fl_conf f) <> code) ->
  List.filter (fun d => str_eqb (d_code d) code)
     (flat_map (fun o => match o with ODiag d => [d] | OFail _ => [] end) outs)
  = List.filter (fun d => str_eqb (d_code d) code) (match oks es with [] => ds | _ => sort_diags ds end).
Proof.
  unfold filter_diagnostics. intros H Hno.
  assert (Hproj : forall l fl, flat_map (fun o => match o with ODiag d => [d] | OFail _ => [] end)
                           (map ODiag l ++ map OFail fl) = l).
  { intros l fl. rewrite flat_map_app.
    assert (H1 : flat_map (fun o => match o with ODiag d => [d] | OFail _ => [] end) (map ODiag l) = l).
    { induction l as [|x l IHl]; cbn; [reflexivity|f_equal; exact IHl]. }
    assert (H2 : flat_map (fun o => match o with ODiag d => [d] | OFail _ => [] end) (map OFail fl) = []).
    { induction fl as [|x fl IHf]; cbn; [reflexivity|exact IHf]. }
    rewrite H1, H2. apply app_nil_r. }
  destruct (oks es) as [|f0 fs0] eqn:Eoks.
  - injection H as <-. rewrite Hproj. reflexivity.
  - destruct (replay _ _ _) as [ro|] eqn:Er; [|discriminate]. injection H as <-. rewrite Hproj.
    eapply replay_frame; [exact Er| |constructor].
    apply Forall_forall. intros c Hc Heq.
    apply (proj1 (pushed_rev _ _)) in Hc. unfold build in Hc. cbv zeta in Hc. cbn [b_instrs] in Hc.
    rewrite pushed_app, in_app_iff in Hc.
    assert (Hc' : In c (pushed (b_instrs (fold_left (add_filter fc) (f0 :: fs0)
                    {| b_instrs := []; b_globals := []; b_conflicting := None; b_failures := errs es |}))) \/
                  In c (map fl_conf (b_globals (fold_left (add_filter fc) (f0 :: fs0)
                    {| b_instrs := []; b_globals := []; b_conflicting := None; b_failures := errs es |})))).
    { destruct Hc as [Hc|Hc]; [left; exact Hc|right].
      unfold pushed in Hc. apply in_flat_map in Hc as [i [Hi Hci]].
      apply in_map_iff in Hi as [g [<- Hg]]. cbn in Hci. destruct Hci as [<-|[]]. apply in_map. exact Hg. }
    apply fold_add_filter_confs in Hc'.
    destruct Hc' as [Hc'|[Hc'|Hc']]; [destruct Hc'|destruct Hc'|].
    apply in_map_iff in Hc' as [f [<- Hf]]. exact (Hno f Hf Heq).
Qed.

(** ---------- C09: rejected filters are reported and inert ---------- *)

Lemma add_filter_failures_mono fc st f x :
  In x (b_failures st) -> In x (b_failures (add_filter fc st f)).
Proof.
  unfold add_filter. intros H.
  destruct (fc_global (fl_conf f) && _); [cbn; apply in_app_iff; auto|].
  destruct (b_conflicting st) as [[r fs]|]; [destruct (range_eqb r (fl_range f))|];
    destruct (fc_global (fl_conf f)); cbn [b_failures]; apply in_app_iff; auto.
Qed.

Lemma fold_failures_mono fc fs st x :
  In x (b_failures st) -> In x (b_failures (fold_left (add_filter fc) fs st)).
Proof.
  revert st. induction fs as [|f fs IH]; intros st H; cbn [fold_left]; [exact H|].
  apply IH. apply add_filter_failures_mono. exact H.
Qed.

Lemma outs_contain_failures es fc ds outs x :
  filter_diagnostics es fc ds = Some outs ->
  (match oks es with
   | [] => In x (errs es)
   | fs => In x (b_failures (build fc fs (errs es))) end) ->
  In (OFail x) outs.
Proof.
  unfold filter_diagnostics. destruct (oks es) as [|f0 fs0].
  - intros [= <-] H. apply in_app_iff. right. apply in_map. exact H.
  - destruct (replay _ _ _); [|discriminate]. intros [= <-] H. apply in_app_iff. right. apply in_map. exact H.
Qed.

(** a well-formed filter naming a lint that does not exist is reported at its comment *)
Theorem unknown_lint_reported es fc ds outs lint comment :
  filter_diagnostics es fc ds = Some outs -> In (FErr lint comment) es ->
  In (OFail (NoSuchLint lint comment)) outs.
Proof.
  intros H Hin. eapply outs_contain_failures; [exact H|].
  assert (He : In (NoSuchLint lint comment) (errs es)).
  { unfold errs. apply in_flat_map. exists (FErr lint comment). split; [exact Hin|left; reflexivity]. }
  destruct (oks es); [exact He|]. unfold build. cbn [b_failures]. apply fold_failures_mono. exact He.
Qed.

Lemma fold_reports_rejected_global fc fs st f code :
  In f fs -> fc = Some code -> rejected_global fc f = true ->
  In (GlobalAfterCode (fl_comment f) code) (b_failures (fold_left (add_filter fc) fs st)).
Proof.
  revert st. induction fs as [|g fs IH]; intros st Hin Hfc Hrej; [destruct Hin|].
  cbn [fold_left]. destruct Hin as [->|Hin]; [|apply IH; assumption].
  apply fold_failures_mono. unfold add_filter. unfold rejected_global, is_global in Hrej.
  rewrite Hfc in *. rewrite Hrej. cbn [b_failures]. apply in_app_iff. right. left. reflexivity.
Qed.

(** a global filter that appears after code is reported at its comment *)
Theorem global_after_code_reported es ds outs f code :
  filter_diagnostics es (Some code) ds = Some outs -> In (FOk f) es ->
  rejected_global (Some code) f = true ->
  In (OFail (GlobalAfterCode (fl_comment f) code)) outs.
Proof.
  intros H Hin Hrej. eapply outs_contain_failures; [exact H|].
  assert (Hf : In f (oks es)).
  { unfold oks. apply in_flat_map. exists (FOk f). split; [exact Hin|left; reflexivity]. }
  destruct (oks es) as [|f0 fs0] eqn:E; [destruct Hf|].
  unfold build. cbn [b_failures]. eapply fold_reports_rejected_global; eauto.
Qed.

(** ... and it is inert: the instruction list and the accepted global filters are exactly those of
    the file without it (so no other diagnostic can be affected). *)
Lemma add_rejected_global_inert fc st f :
  rejected_global fc f = true ->
  b_instrs (add_filter fc st f) = b_instrs st /\ b_globals (add_filter fc st f) = b_globals st /\
  b_conflicting (add_filter fc st f) = b_conflicting st.
Proof.
  unfold add_filter, rejected_global, is_global. intros ->. cbn. auto.
Qed.

Definition same_machine (a b : build_state) : Prop :=
  b_instrs a = b_instrs b /\ b_globals a = b_globals b /\ b_conflicting a = b_conflicting b.

Lemma add_filter_same_machine fc a b f :
  same_machine a b -> same_machine (add_filter fc a f) (add_filter fc b f).
Proof.
  intros (H1 & H2 & H3). unfold same_machine, add_filter. rewrite H1, H2, H3.
  destruct (fc_global (fl_conf f) && _); [cbn; auto|].
  destruct (b_conflicting b) as [[r fs]|]; [destruct (range_eqb r (fl_range f))|];
    destruct (fc_global (fl_conf f)); cbn; auto.
Qed.

Theorem rejected_global_inert fc fs st st' :
  same_machine st st' ->
  same_machine (fold_left (add_filter fc) fs st) (fold_left (add_filter fc) (live fc fs) st').
Proof.
  revert st st'. induction fs as [|f fs IH]; intros st st' H; cbn [fold_left live List.filter]; [exact H|].
  destruct (rejected_global fc f) eqn:E; cbn [negb].
  - apply IH. destruct (add_rejected_global_inert fc st f E) as (H1 & H2 & H3).
    destruct H as (K1 & K2 & K3). unfold same_machine. rewrite H1, H2, H3. auto.
  - cbn [fold_left]. apply IH. apply add_filter_same_machine. exact H.
Qed.

(** a malformed comment produces no entry at all *)
Theorem malformed_inert lints range s e line :
  parse_comment line = None -> visit_comment lints range (s, e, [line]) = Some [].
Proof. intros H. unfold visit_comment. cbn [fold_left]. rewrite H. reflexivity. Qed.

(** a same-piece, same-lint filter is reported as conflicting at its comment *)
Theorem conflict_reported fc st e f :
  rejected_global fc f = false ->
  b_conflicting st = Some (fl_range f, [e]) ->
  fc_lint (fl_conf e) = fc_lint (fl_conf f) -> fc_global (fl_conf e) = fc_global (fl_conf f) ->
  In (Conflict (fl_comment f) (fl_comment e)) (b_failures (add_filter fc st f)).
Proof.
  unfold rejected_global, is_global, add_filter. intros -> Hc Hl Hg. rewrite Hc.
  assert (Hr : range_eqb (fl_range f) (fl_range f) = true).
  { unfold range_eqb. rewrite !N.eqb_refl. reflexivity. }
  rewrite Hr. unfold conflicts_with. cbn [List.filter]. rewrite Hl, Hg.
  rewrite (proj2 (str_eqb_eq _ _) eq_refl), eqb_reflx. cbn [andb map].
  destruct (fc_global (fl_conf f)); cbn [b_failures]; apply in_app_iff; right; left; reflexivity.
Qed.
