(** Model of filter_diagnostics (selene-lib/src/lint_filtering.rs:199-345): verbatim.
    Input: the list get_filter_ranges produced (accepted filters and unknown-lint failures, in
    visit order), the range of the first code, the diagnostics.  [None] = the `expect` on an empty
    stack fires (l.311). *)
From Selene Require Export Base.Util.

Inductive variation := VAllow | VDeny | VWarn.
Inductive severity := SAllow | SError | SWarning.
Definition to_severity (v : variation) : severity :=
  match v with VAllow => SAllow | VDeny => SError | VWarn => SWarning end.
Definition severity_eqb (a b : severity) : bool :=
  match a, b with SAllow, SAllow | SError, SError | SWarning, SWarning => true | _, _ => false end.

Record fconf := { fc_global : bool; fc_lint : string; fc_var : variation }.
Record lfilter := { fl_conf : fconf; fl_comment : N * N; fl_range : N * N }.
Inductive fentry := FOk (f : lfilter) | FErr (lint : string) (comment : N * N).

(** A diagnostic as far as filtering is concerned: lint code, start of the primary label,
    an opaque payload, the severity attached by the checker. *)
Record diag := { d_code : string; d_start : N; d_payload : N; d_sev : severity }.

Inductive failure :=
| NoSuchLint (lint : string) (comment : N * N)
| GlobalAfterCode (comment : N * N) (code : N * N)
| Conflict (comment : N * N) (other : N * N).

Inductive out := ODiag (d : diag) | OFail (f : failure).

Inductive instr := Push (c : fconf) (b : N) | Pop (b : N).
Definition ibytes (i : instr) : N := match i with Push _ b => b | Pop b => b end.

Definition range_eqb (a b : N * N) : bool := (fst a =? fst b)%N && (snd a =? snd b)%N.

(** instructions.insert(position(|i| i.bytes() < x).unwrap_or(len), new) *)
Fixpoint insert_instr (x : N) (new : instr) (l : list instr) : list instr :=
  match l with
  | [] => [new]
  | i :: r => if (ibytes i <? x)%N then new :: i :: r else i :: insert_instr x new r
  end.

Record build_state := {
  b_instrs : list instr;                       (* descending by bytes; executed from the end *)
  b_globals : list lfilter;
  b_conflicting : option ((N * N) * list lfilter);
  b_failures : list failure }.

Definition conflicts_with (earlier : list lfilter) (f : lfilter) : list failure :=
  map (fun e => Conflict (fl_comment f) (fl_comment e))
      (List.filter (fun e => str_eqb (fc_lint (fl_conf e)) (fc_lint (fl_conf f))
                             && Bool.eqb (fc_global (fl_conf e)) (fc_global (fl_conf f))) earlier).

Definition add_filter (first_code : option (N * N)) (st : build_state) (f : lfilter) : build_state :=
  let rejected_global :=
    fc_global (fl_conf f) &&
    match first_code with Some fc => (fst fc <=? fst (fl_comment f))%N | None => false end in
  if rejected_global then
    {| b_instrs := b_instrs st; b_globals := b_globals st; b_conflicting := b_conflicting st;
       b_failures := b_failures st ++ [GlobalAfterCode (fl_comment f)
                                          (match first_code with Some fc => fc | None => (0, 0)%N end)] |}
  else
    let '(confl, fails) :=
      match b_conflicting st with
      | Some (r, fs) =>
          if range_eqb r (fl_range f) then (Some (r, fs ++ [f]), conflicts_with fs f)
          else (Some (fl_range f, [f]), [])
      | None => (Some (fl_range f, [f]), [])
      end in
    if fc_global (fl_conf f) then
      {| b_instrs := b_instrs st; b_globals := b_globals st ++ [f]; b_conflicting := confl;
         b_failures := b_failures st ++ fails |}
    else
      let i1 := insert_instr (snd (fl_range f)) (Pop (snd (fl_range f))) (b_instrs st) in
      let i2 := insert_instr (fst (fl_range f)) (Push (fl_conf f) (fst (fl_range f))) i1 in
      {| b_instrs := i2; b_globals := b_globals st; b_conflicting := confl;
         b_failures := b_failures st ++ fails |}.

Definition oks (es : list fentry) : list lfilter :=
  flat_map (fun e => match e with FOk f => [f] | FErr _ _ => [] end) es.
Definition errs (es : list fentry) : list failure :=
  flat_map (fun e => match e with FErr l c => [NoSuchLint l c] | FOk _ => [] end) es.

Definition build (first_code : option (N * N)) (fs : list lfilter) (pre : list failure) : build_state :=
  let st := fold_left (add_filter first_code) fs
              {| b_instrs := []; b_globals := []; b_conflicting := None; b_failures := pre |} in
  {| b_instrs := b_instrs st ++ map (fun g => Push (fl_conf g) 0%N) (b_globals st);
     b_globals := b_globals st; b_conflicting := b_conflicting st; b_failures := b_failures st |}.

(** Stable sort by start (Vec::sort_by_key is stable). *)
Fixpoint insert_diag (d : diag) (l : list diag) : list diag :=
  match l with
  | [] => [d]
  | x :: r => if (d_start d <=? d_start x)%N then d :: x :: r else x :: insert_diag d r
  end.
Definition sort_diags (ds : list diag) : list diag := fold_right insert_diag [] ds.

(** `while let Some(i) = instructions.pop()`: [pending] is kept reversed (next to run first). *)
Fixpoint run_instrs (fuel : nat) (start : N) (pending : list instr) (stack : list fconf)
  : option (list instr * list fconf) :=
  match fuel with
  | O => Some (pending, stack)
  | S fuel' =>
      match pending with
      | [] => Some ([], stack)
      | i :: rest =>
          if (ibytes i <=? start)%N then
            match i with
            | Push c _ => run_instrs fuel' start rest (c :: stack)
            | Pop _ => match stack with
                       | [] => None
                       | _ :: s' => run_instrs fuel' start rest s'
                       end
            end
          else Some (pending, stack)
      end
  end.

(** stack.iter().rev().find(lint == code): the stack is kept top first. *)
Definition find_conf (code : string) (stack : list fconf) : option fconf :=
  find (fun c => str_eqb (fc_lint c) code) stack.

Definition with_sev (d : diag) (s : severity) : diag :=
  {| d_code := d_code d; d_start := d_start d; d_payload := d_payload d; d_sev := s |}.

Fixpoint replay (ds : list diag) (pending : list instr) (stack : list fconf) : option (list diag) :=
  match ds with
  | [] => Some []
  | d :: rest =>
      match run_instrs (S (List.length pending)) (d_start d) pending stack with
      | None => None
      | Some (pending', stack') =>
          match replay rest pending' stack' with
          | None => None
          | Some outs =>
              match find_conf (d_code d) stack' with
              | Some c => if severity_eqb (to_severity (fc_var c)) SAllow then Some outs
                          else Some (with_sev d (to_severity (fc_var c)) :: outs)
              | None => Some (d :: outs)
              end
          end
      end
  end.

Definition filter_diagnostics (es : list fentry) (first_code : option (N * N)) (ds : list diag)
  : option (list out) :=
  let fs := oks es in
  match fs with
  | [] => Some (map ODiag ds ++ map OFail (errs es))
  | _ =>
      let st := build first_code fs (errs es) in
      match replay (sort_diags ds) (rev (b_instrs st)) [] with
      | None => None
      | Some outs => Some (map ODiag outs ++ map OFail (b_failures st))
      end
  end.
