(** C08 main theorem, part 6: globals, failures, and the final statement. *)
From Selene Require Import Filter.Machine Filter.Spec Filter.Correct1 Filter.Correct2 Filter.Correct3
  Filter.Correct4 Filter.Correct5 Filter.Facts.
Open Scope N_scope.

(** ---- projection of acceptance onto inline / global filters ---- *)
Lemma conflicting_with_inline seen f :
  is_global f = false -> conflicting_with seen f = conflicting_with (inline seen) f.
Proof.
  intros Hg. unfold conflicting_with, inline. rewrite filter_filter. apply filter_ext. intros e.
  unfold same_piece. rewrite Hg.
  destruct (is_global e), (range_eqb (fl_range e) (fl_range f)), (str_eqb (lint_of e) (lint_of f)); reflexivity.
Qed.

Lemma inline_app a b : inline (a ++ b) = inline a ++ inline b.
Proof. unfold inline. apply filter_app. Qed.

Lemma P1 seen L : inline (accepted_from seen L) = accepted_from (inline seen) (inline L).
Proof.
  revert seen. induction L as [|f L IH]; intros seen; cbn [accepted_from]; [reflexivity|].
  rewrite inline_app, IH, inline_app.
  destruct (is_global f) eqn:Hg.
  - assert (Hf : inline [f] = []) by (unfold inline; cbn [List.filter]; rewrite Hg; reflexivity).
    assert (Hi : inline (f :: L) = inline L) by (unfold inline; cbn [List.filter]; rewrite Hg; reflexivity).
    rewrite Hf, Hi, app_nil_r.
    assert (Hd : inline (match conflicting_with seen f with [] => [f] | _ :: _ => [] end) = []).
    { destruct (conflicting_with seen f); [exact Hf|reflexivity]. }
    rewrite Hd. reflexivity.
  - assert (Hf : inline [f] = [f]) by (unfold inline; cbn [List.filter]; rewrite Hg; reflexivity).
    assert (Hi : inline (f :: L) = f :: inline L) by (unfold inline; cbn [List.filter]; rewrite Hg; reflexivity).
    rewrite Hf, Hi. cbn [accepted_from]. rewrite <- (conflicting_with_inline seen f Hg).
    destruct (conflicting_with seen f); [rewrite Hf|]; reflexivity.
Qed.

Lemma inline_live fc fs : inline (live fc fs) = inline fs.
Proof.
  unfold inline, live. rewrite filter_filter. apply filter_ext. intros f. unfold rejected_global.
  destruct (is_global f); reflexivity.
Qed.

(** ---- S2: the first live global filter for the lint is the accepted one ---- *)
Definition gmatch (code : string) (f : lfilter) : bool := is_global f && str_eqb (lint_of f) code.

Lemma S2_gen code seen L :
  Forall (fun e => gmatch code e = false) seen ->
  find (gmatch code) (accepted_from seen L) = find (gmatch code) L.
Proof.
  revert seen. induction L as [|f L IH]; intros seen Hseen; cbn [accepted_from find]; [reflexivity|].
  destruct (gmatch code f) eqn:Eg.
  - assert (Hc : conflicting_with seen f = []).
    { unfold conflicting_with. apply filter_none. eapply Forall_impl; [|exact Hseen]. cbn. intros e He.
      unfold gmatch in *. apply andb_true_iff in Eg as [Eg1 Eg2]. apply str_eqb_eq in Eg2.
      unfold same_piece. rewrite Eg1.
      destruct (is_global e); cbn [Bool.eqb andb] in *; [|rewrite andb_false_r; reflexivity].
      destruct (str_eqb (lint_of e) (lint_of f)) eqn:El; [|apply andb_false_r].
      apply str_eqb_eq in El. rewrite El, Eg2 in He. rewrite (proj2 (str_eqb_eq _ _) eq_refl) in He. discriminate. }
    rewrite Hc. cbn [app find]. rewrite Eg. reflexivity.
  - assert (Hstep : find (gmatch code) (match conflicting_with seen f with [] => [f] | _ :: _ => [] end
                                          ++ accepted_from (seen ++ [f]) L)
                    = find (gmatch code) (accepted_from (seen ++ [f]) L)).
    { destruct (conflicting_with seen f); cbn [app find]; [rewrite Eg|]; reflexivity. }
    rewrite Hstep. apply IH. apply Forall_app. split; [exact Hseen|constructor; [exact Eg|constructor]].
Qed.

Lemma S2 code fc fs :
  find_conf code (map fl_conf (live_globals fc fs))
  = option_map fl_conf (find (gmatch code) (accepted fc fs)).
Proof.
  unfold accepted. rewrite S2_gen by constructor.
  unfold live_globals, live, find_conf. induction fs as [|f fs IH]; cbn [List.filter map find option_map]; [reflexivity|].
  destruct (rejected_global fc f) eqn:Er; cbn [negb].
  - rewrite andb_false_r. exact IH.
  - rewrite andb_true_r. cbn [find]. unfold gmatch at 1. destruct (is_global f); cbn [andb map find].
    + unfold lint_of. destruct (str_eqb (fc_lint (fl_conf f)) code); [reflexivity|exact IH].
    + exact IH.
Qed.

(** ---- failures: the group the machine tracks = the earlier filters on the same piece of code ---- *)
Definition range_in (r : N * N) (l : list (N * N)) : bool := existsb (range_eqb r) l.

(** same-range filters are consecutive (checked left to right) *)
Fixpoint contig_go (closed : list (N * N)) (cur : option (N * N)) (L : list lfilter) : bool :=
  match L with
  | [] => true
  | f :: r =>
      match cur with
      | Some c =>
          if range_eqb (fl_range f) c then contig_go closed cur r
          else negb (range_in (fl_range f) (c :: closed)) && contig_go (c :: closed) (Some (fl_range f)) r
      | None => contig_go closed (Some (fl_range f)) r
      end
  end.
Definition contigL (L : list lfilter) : bool := contig_go [] None L.

Definition same_range_b (r : N * N) (f : lfilter) : bool := range_eqb (fl_range f) r.

Lemma range_eqb_refl r : range_eqb r r = true.
Proof. unfold range_eqb. rewrite !N.eqb_refl. reflexivity. Qed.
Lemma range_eqb_sym a b : range_eqb a b = range_eqb b a.
Proof. unfold range_eqb. rewrite (N.eqb_sym (fst a)), (N.eqb_sym (snd a)). reflexivity. Qed.

Lemma range_in_false r l : range_in r l = false -> forall x, In x l -> range_eqb r x = false.
Proof.
  unfold range_in. intros H x Hx. destruct (range_eqb r x) eqn:E; [|reflexivity].
  assert (existsb (range_eqb r) l = true) by (apply existsb_exists; exists x; auto). congruence.
Qed.

(** state of the machine's builder restricted to failure tracking, against the specification *)
Lemma failures_gen fc L :
  forall closed cur st seen pre,
    contig_go closed cur (live fc L) = true ->
    (forall e, In e seen -> exists x, In x (match cur with Some c => c :: closed | None => closed end) /\ fl_range e = x) ->
    (match cur with
     | Some c => b_conflicting st = Some (c, List.filter (same_range_b c) seen) /\ range_in c closed = false
     | None => b_conflicting st = None /\ seen = [] /\ closed = [] end) ->
    b_failures st = pre ->
    b_failures (fold_left (add_filter fc) L st) = pre ++ spec_failures_from fc seen L.
Proof.
  induction L as [|f L IH]; intros closed cur st seen pre Hc Hseen Hst Hpre; cbn [fold_left spec_failures_from].
  - rewrite app_nil_r. exact Hpre.
  - cbn [live List.filter] in Hc. fold (live fc L) in Hc.
    destruct (rejected_global fc f) eqn:Hf; cbn [negb] in Hc.
    + (* rejected global: reported, otherwise inert *)
      destruct (add_rejected_global_inert fc st f Hf) as (H1 & H2 & H3).
      assert (Hfail : b_failures (add_filter fc st f) =
                      pre ++ [GlobalAfterCode (fl_comment f) (match fc with Some c => c | None => (0, 0) end)]).
      { unfold add_filter. unfold rejected_global, is_global in Hf. rewrite Hf. cbn [b_failures]. rewrite Hpre. reflexivity. }
      rewrite (IH closed cur (add_filter fc st f) seen
                  (pre ++ [GlobalAfterCode (fl_comment f) (match fc with Some c => c | None => (0, 0) end)])).
      * rewrite <- app_assoc. reflexivity.
      * exact Hc.
      * exact Hseen.
      * destruct cur as [c|]; rewrite H3; exact Hst.
      * exact Hfail.
    + assert (Hrej : (fc_global (fl_conf f) && match fc with Some fc0 => fst fc0 <=? fst (fl_comment f) | None => false end) = false).
      { exact Hf. }
      cbn [contig_go] in Hc.
      destruct cur as [c|].
      * destruct Hst as [Hconf Hcl].
        destruct (range_eqb (fl_range f) c) eqn:Er.
        -- (* same piece of code as the current group *)
           apply range_eqb_eq in Er.
           assert (Hsame : conflicting_with seen f =
                           List.filter (fun e => str_eqb (fc_lint (fl_conf e)) (fc_lint (fl_conf f))
                                                 && Bool.eqb (fc_global (fl_conf e)) (fc_global (fl_conf f)))
                                       (List.filter (same_range_b c) seen)).
           { unfold conflicting_with. rewrite filter_filter. apply filter_ext. intros e.
             unfold same_piece, same_range_b, lint_of, is_global. rewrite Er.
             destruct (range_eqb (fl_range e) c); cbn [andb]; [|rewrite andb_false_r; reflexivity].
             rewrite andb_true_r. apply andb_comm. }
           set (st' := add_filter fc st f).
           assert (Hst' : b_conflicting st' = Some (c, List.filter (same_range_b c) (seen ++ [f]))
                          /\ b_failures st' = b_failures st ++ map (fun e => Conflict (fl_comment f) (fl_comment e)) (conflicting_with seen f)).
           { assert (Hsr : same_range_b c f = true) by (unfold same_range_b; rewrite Er; apply range_eqb_refl).
             assert (Hrr : range_eqb c (fl_range f) = true) by (rewrite Er; apply range_eqb_refl).
             unfold st', add_filter. rewrite Hrej, Hconf, Hrr.
             rewrite filter_app. cbn [List.filter]. rewrite Hsr.
             unfold conflicts_with. rewrite <- Hsame.
             destruct (fc_global (fl_conf f)); cbn [b_conflicting b_failures]; split; reflexivity. }
           destruct Hst' as [Hc' Hf'].
           rewrite (IH closed (Some c) st' (seen ++ [f]) (pre ++ map (fun e => Conflict (fl_comment f) (fl_comment e)) (conflicting_with seen f))).
           ++ rewrite <- app_assoc. reflexivity.
           ++ exact Hc.
           ++ intros e He. apply in_app_iff in He as [He|[<-|[]]]; [apply Hseen; exact He|].
              exists c. split; [left; reflexivity|exact Er].
           ++ split; [exact Hc'|exact Hcl].
           ++ rewrite Hf', Hpre. reflexivity.
        -- (* a new piece of code: nothing seen so far has this range *)
           apply andb_true_iff in Hc as [Hnew Hc]. apply negb_true_iff in Hnew.
           assert (Hnone : conflicting_with seen f = []).
           { unfold conflicting_with. apply filter_none. apply Forall_forall. intros e He.
             destruct (Hseen e He) as (x & Hx & Hex). unfold same_piece. rewrite Hex.
             rewrite range_eqb_sym, (range_in_false _ _ Hnew x Hx). reflexivity. }
           set (st' := add_filter fc st f).
           assert (Hst' : b_conflicting st' = Some (fl_range f, [f]) /\ b_failures st' = b_failures st).
           { unfold st', add_filter. rewrite Hrej, Hconf. rewrite range_eqb_sym, Er.
             destruct (fc_global (fl_conf f)); cbn [b_conflicting b_failures]; rewrite app_nil_r; split; reflexivity. }
           destruct Hst' as [Hc' Hf'].
           rewrite Hnone. cbn [map app].
           rewrite (IH (c :: closed) (Some (fl_range f)) st' (seen ++ [f]) pre).
           ++ reflexivity.
           ++ exact Hc.
           ++ intros e He. apply in_app_iff in He as [He|[<-|[]]].
              ** destruct (Hseen e He) as (x & Hx & Hex). exists x. split; [right; exact Hx|exact Hex].
              ** exists (fl_range f). split; [left; reflexivity|reflexivity].
           ++ split.
              ** rewrite Hc'. f_equal. f_equal. rewrite filter_app. cbn [List.filter]. unfold same_range_b at 2.
                 rewrite range_eqb_refl.
                 assert (Hz : List.filter (same_range_b (fl_range f)) seen = []).
                 { apply filter_none. apply Forall_forall. intros e He. destruct (Hseen e He) as (x & Hx & Hex).
                   unfold same_range_b. rewrite Hex, range_eqb_sym. exact (range_in_false _ _ Hnew x Hx). }
                 rewrite Hz. reflexivity.
              ** exact Hnew.
           ++ rewrite Hf'. exact Hpre.
      * destruct Hst as (Hconf & -> & ->).
        set (st' := add_filter fc st f).
        assert (Hst' : b_conflicting st' = Some (fl_range f, [f]) /\ b_failures st' = b_failures st).
        { unfold st', add_filter. rewrite Hrej, Hconf.
          destruct (fc_global (fl_conf f)); cbn [b_conflicting b_failures]; rewrite app_nil_r; split; reflexivity. }
        destruct Hst' as [Hc' Hf'].
        cbn [conflicting_with List.filter map app].
        rewrite (IH [] (Some (fl_range f)) st' [f] pre).
        -- reflexivity.
        -- exact Hc.
        -- intros e [<-|[]]. exists (fl_range f). split; [left; reflexivity|reflexivity].
        -- split; [|reflexivity].
           rewrite Hc'. cbn [List.filter]. unfold same_range_b. rewrite range_eqb_refl. reflexivity.
        -- rewrite Hf'. exact Hpre.
Qed.

Theorem failures_correct fc fs pre :
  contigL (live fc fs) = true ->
  b_failures (fold_left (add_filter fc) fs
                {| b_instrs := []; b_globals := []; b_conflicting := None; b_failures := pre |})
  = pre ++ spec_failures_from fc [] fs.
Proof.
  intros Hc. apply (failures_gen fc fs [] None); try reflexivity; [exact Hc|intros e []|].
  cbn. auto.
Qed.
