(** C04 specification side: literals judged by value, the documented conditions, and the theorems. *)
From Selene Require Import Lints.Closed.
From Coq Require Import Lia.

(** ** what a number literal denotes: (mantissa, exponent of ten); hexadecimal integers included *)
Definition hex_val (c : ascii) : option N :=
  let n := N_of_ascii c in
  if (48 <=? n)%N && (n <=? 57)%N then Some (n - 48)%N
  else if (97 <=? n)%N && (n <=? 102)%N then Some (n - 87)%N
  else if (65 <=? n)%N && (n <=? 70)%N then Some (n - 55)%N
  else None.
Fixpoint hex_digits (s : string) (acc : N) : option N :=
  match s with
  | EmptyString => Some acc
  | String c r => match hex_val c with Some d => hex_digits r (16 * acc + d)%N | None => None end
  end.
Definition lua_value (raw : string) : option (N * Z) :=
  match raw with
  | String "0"%char (String x r) =>
      if (Ascii.eqb x "x" || Ascii.eqb x "X") then
        match r with EmptyString => None | _ => match hex_digits r 0%N with Some v => Some (v, 0%Z) | None => None end end
      else parse_decimal raw
  | _ => parse_decimal raw
  end.

Definition denotes_zero (e : expr) : bool :=
  match e with ENumber raw => match lua_value raw with Some (m, _) => (m =? 0)%N | None => false end | _ => false end.

(** value-judged conditions (what the documentation describes) *)
Definition cond_div0 (n : node) : bool :=
  match n with NExpr (EBinop o l r) => str_eqb o "/" && denotes_zero r && negb (denotes_zero l) | _ => false end.
Definition cond_nan (n : node) : bool :=
  match n with
  | NExpr (EBinop o (EVar _) (EBinop o2 l r)) => (str_eqb o "~=" || str_eqb o "==") && str_eqb o2 "/" && denotes_zero l && denotes_zero r
  | _ => false
  end.
Definition cond_revloop (n : node) : bool :=
  match n with
  | NStmt (SNumericFor _ (EUnop o _) (ENumber raw) OENone _) =>
      str_eqb o "#" && match lua_value raw with Some v => le_one v | None => false end
  | _ => false
  end.

(** what may be reported at most: also a negated number literal as the end (its value is <= 0) *)
Definition cond_revloop_wide (n : node) : bool :=
  cond_revloop n ||
  match n with
  | NStmt (SNumericFor _ (EUnop o _) (EUnop m (ENumber raw)) OENone _) =>
      str_eqb o "#" && str_eqb m "-" && match lua_value raw with Some _ => true | None => false end
  | _ => false
  end.

(** the zero / one spelled canonically *)
Lemma value_is_zero_denotes e : value_is_zero e = true -> denotes_zero e = true.
Proof.
  destruct e; cbn; try discriminate. intros H. apply str_eqb_eq in H. subst raw. reflexivity.
Qed.

(** le_one decides M * 10^E <= 1 *)
Theorem le_one_spec m e :
  le_one (m, e) = true <->
  (if (0 <=? e)%Z then (m * N.pow 10 (Z.to_N e) <= 1)%N else (m <= N.pow 10 (Z.to_N (- e)))%N).
Proof.
  unfold le_one. destruct (N.eqb_spec m 0) as [->|Hm].
  - split; [intros _|reflexivity]. destruct (0 <=? e)%Z; [rewrite N.mul_0_l; lia|lia].
  - destruct (Z.ltb_spec 0 e) as [Hpos|Hnp].
    + replace (0 <=? e)%Z with true by (symmetry; apply Z.leb_le; lia). split; [discriminate|].
      intros H. exfalso.
      assert (10 <= N.pow 10 (Z.to_N e))%N.
      { replace (Z.to_N e) with (N.succ (Z.to_N (e - 1))) by lia. rewrite N.pow_succ_r'.
        pose proof (N.pow_nonzero 10 (Z.to_N (e - 1)) ltac:(lia)). nia. }
      nia.
    + destruct (Z.leb_spec 0 e) as [H0|Hneg].
      * assert (e = 0%Z) by lia. subst e. cbn [Z.opp Z.to_N N.pow]. rewrite N.leb_le. rewrite N.mul_1_r. reflexivity.
      * rewrite N.leb_le. reflexivity.
Qed.

Lemma parse_decimal_hex x r : (x = "x" \/ x = "X")%char -> parse_decimal (String "0" (String x r)) = None.
Proof. intros [-> | ->]; reflexivity. Qed.

(** ** never reported on a false condition (literals by value) *)
Theorem div0_sound n : is_div0 n = true -> exists o l r, n = NExpr (EBinop o l r) /\ o = "/" /\ denotes_zero r = true.
Proof.
  destruct n as [e| | |]; try discriminate. destruct e; try discriminate. cbn [is_div0].
  intros H. apply andb_true_iff in H as [H Hl]. apply andb_true_iff in H as [Ho Hr].
  apply str_eqb_eq in Ho. exists op, e1, e2. repeat split; auto using value_is_zero_denotes.
Qed.

Theorem revloop_sound n : is_reverse_loop n = true -> cond_revloop n = true.
Proof.
  destruct n as [|s| |]; try discriminate. destruct s; try discriminate. cbn [is_reverse_loop cond_revloop].
  destruct start; try discriminate. destruct stop; try discriminate. destruct step; try discriminate.
  intros H. apply andb_true_iff in H as [Ho Hf]. rewrite Ho. cbn [andb].
  unfold f32_le_one in Hf. destruct (parse_decimal raw) as [pv|] eqn:Ep; [|discriminate].
  assert (Hl : lua_value raw = Some pv).
  { unfold lua_value. destruct raw as [|c [|x r]]; [exact Ep| |].
    { destruct c as [[] [] [] [] [] [] [] []]; exact Ep. }
    destruct (Ascii.eqb c "0") eqn:Ec.
    - apply Ascii.eqb_eq in Ec. subst c.
      destruct (Ascii.eqb x "x" || Ascii.eqb x "X") eqn:Ex; [|exact Ep].
      exfalso. apply orb_true_iff in Ex as [Ex|Ex]; apply Ascii.eqb_eq in Ex; subst x;
        rewrite parse_decimal_hex in Ep by auto; discriminate.
    - destruct c as [[] [] [] [] [] [] [] []]; try exact Ep; discriminate. }
  rewrite Hl. exact Hf.
Qed.

(** a hexadecimal end is never reported (the defect L1 repaired by 5593a71) *)
Theorem revloop_never_on_hex x r : (x = "x" \/ x = "X")%char -> f32_le_one (String "0" (String x r)) = false.
Proof. intros [-> | ->]; reflexivity. Qed.

Theorem nan_sound n : is_compare_nan n = true -> cond_nan n = true.
Proof.
  destruct n as [e| | |]; try discriminate. destruct e; try discriminate. destruct e1; try discriminate.
  cbn [is_compare_nan cond_nan]. intros H. apply andb_true_iff in H as [Ho Hn].
  destruct e2; try discriminate. cbn [expression_is_nan] in Hn.
  apply andb_true_iff in Hn as [Hn Hr]. apply andb_true_iff in Hn as [Ho2 Hl].
  rewrite Ho, Ho2, (value_is_zero_denotes _ Hl), (value_is_zero_denotes _ Hr). reflexivity.
Qed.

(** ** the canonical pattern is reported wherever it occurs *)
Lemma count_in {A} (p : A -> bool) x l : In x l -> p x = true -> (1 <= count p l)%nat.
Proof.
  unfold count. induction l as [|y l IH]; [contradiction|]. intros [->|Hin] Hp; cbn [filter].
  - rewrite Hp. cbn. lia.
  - destruct (p y); cbn; [|auto]. specialize (IH Hin Hp). lia.
Qed.

Theorem div0_canonical chunk l :
  In (NExpr (EBinop "/" l (ENumber "0"))) (nodes_block chunk) -> value_is_zero l = false ->
  (1 <= n_div0 (lint_counts chunk))%nat.
Proof. intros Hin Hl. apply (count_in _ _ _ Hin). cbn. rewrite Hl. reflexivity. Qed.

Theorem nan_canonical chunk o v :
  (o = "==" \/ o = "~=") ->
  In (NExpr (EBinop o (EVar v) (EBinop "/" (ENumber "0") (ENumber "0")))) (nodes_block chunk) ->
  (1 <= n_nan (lint_counts chunk))%nat.
Proof. intros [-> | ->] Hin; apply (count_in _ _ _ Hin); reflexivity. Qed.

Theorem revloop_canonical chunk v x b :
  In (NStmt (SNumericFor v (EUnop "#" x) (ENumber "1") OENone b)) (nodes_block chunk) ->
  (1 <= n_revloop (lint_counts chunk))%nat.
Proof. intros Hin. apply (count_in _ _ _ Hin). reflexivity. Qed.

Theorem empty_loop_canonical chunk c rng :
  In (NStmt (SWhile c (Block StNil LNone rng))) (nodes_block chunk) -> (1 <= n_empty_loop (lint_counts chunk))%nat.
Proof. intros Hin. apply (count_in _ _ _ Hin). reflexivity. Qed.

Theorem unbalanced_canonical chunk v1 v2 v3 e :
  expression_is_call e = false -> expression_is_nil e = false -> expression_is_ellipsis e = false ->
  In (NStmt (SAssign (VsCons v1 (VsCons v2 (VsCons v3 VsNil))) (EsCons e EsNil))) (nodes_block chunk) ->
  (1 <= n_unbalanced (lint_counts chunk))%nat.
Proof.
  intros H1 H2 H3 Hin. apply (count_in _ _ _ Hin). cbn. rewrite H1, H2, H3. reflexivity.
Qed.

(** unbalanced_assignments, closed form: more values than targets, or fewer and the last value cannot
    expand *)
Theorem unbalanced_spec lhs rhs last_rhs front :
  rhs = front ++ [last_rhs] ->
  unbalanced lhs rhs = (Nat.ltb lhs (List.length rhs) ||
     (Nat.ltb (List.length rhs) lhs && negb (expression_is_ellipsis last_rhs || expression_is_call last_rhs || expression_is_nil last_rhs))).
Proof.
  intros ->. unfold unbalanced. rewrite rev_app_distr. cbn [rev app].
  destruct (expression_is_ellipsis last_rhs), (expression_is_call last_rhs), (expression_is_nil last_rhs);
    cbn [negb orb andb]; rewrite ?andb_false_r, ?andb_true_r; reflexivity.
Qed.

(** ** mismatched_arg_count: the count compared is the number of syntactic arguments *)
Definition syntactic_args (a : args) : nat :=
  match a with AParens es => List.length (exprs_to_list es) | _ => 1%nat end.

Theorem passed_is_syntactic a :
  match passed a with AFixed n | AVariable n => n = syntactic_args a end.
Proof.
  destruct a as [es| |]; cbn; try reflexivity.
  destruct (rev (exprs_to_list es)) eqn:E.
  - apply (f_equal (@List.length _)) in E. rewrite rev_length in E. cbn in *. congruence.
  - destruct (is_multi e); reflexivity.
Qed.

Theorem arg_count_exact ps a :
  correct_num_args (params_count ps 0) (passed a) = false <->
  exists k, params_count ps 0 = PFixed k /\ (k < syntactic_args a)%nat.
Proof.
  pose proof (passed_is_syntactic a) as Hp. destruct (params_count ps 0) as [k|k|]; cbn [correct_num_args].
  - assert (E : (match passed a with AFixed n => Nat.leb n k | AVariable n => Nat.leb n k end) = Nat.leb (syntactic_args a) k)
      by (destruct (passed a); subst; reflexivity).
    rewrite E, Nat.leb_gt. split; [intros H; exists k; auto|intros (k' & Hk & H); injection Hk as <-; exact H].
  - split; [discriminate|intros (k' & H & _); discriminate].
  - split; [discriminate|intros (k' & H & _); discriminate].
Qed.

(** a definition ending in `...` is never reported, whatever is passed *)
Theorem arg_count_vararg_never ps1 t a : correct_num_args (params_count (ps1 ++ [PrmEllipsis t]) 0) (passed a) = true.
Proof.
  assert (H : forall ps k, exists r, params_count (ps ++ [PrmEllipsis t]) k = r /\ (r = PVariable \/ exists m, r = PMinimum m)).
  { induction ps as [|p ps IH]; intros k; cbn.
    - destruct (Nat.eqb k 0); eexists; split; eauto.
    - destruct p; [apply IH|]. destruct (Nat.eqb k 0); eexists; split; eauto. }
  destruct (H ps1 0%nat) as (r & -> & [-> | [m ->]]); reflexivity.
Qed.

(** ** the five table / condition / call lints *)

(** mixed_table: reported exactly for constructors with both a positional and a keyed field, wherever they occur *)
Theorem mixed_canonical chunk fs :
  In (NTable fs) (nodes_block chunk) ->
  existsb is_nokey (fields_list fs) = true -> existsb (fun f => negb (is_nokey f)) (fields_list fs) = true ->
  (1 <= n_mixed (lint_counts chunk))%nat.
Proof. intros Hin H1 H2. apply (count_in _ _ _ Hin). cbn. rewrite H1, H2. reflexivity. Qed.

Theorem mixed_sound n : is_mixed n = true -> exists fs, n = NTable fs /\ existsb is_nokey (fields_list fs) = true /\
  existsb (fun f => negb (is_nokey f)) (fields_list fs) = true.
Proof. destruct n; try discriminate. cbn. intros H. apply andb_true_iff in H. exists fs. tauto. Qed.

(** duplicate_keys: the key each field declares *)
Definition field_key (f : field) (index : nat) : option key * nat :=
  match f with
  | FNameKey name _ => (Some (KString, t_name name), index)
  | FExprKey ke _ => (expression_to_key ke, index)
  | FNoKey _ => (Some (KNumber, nat_to_string (S index)), S index)
  end.

Fixpoint field_keys (fs : list field) (index : nat) : list key :=
  match fs with
  | [] => []
  | f :: r => let '(k, i') := field_key f index in (match k with Some k' => [k'] | None => [] end) ++ field_keys r i'
  end.

Fixpoint no_dup_keys (ks declared : list key) : bool :=
  match ks with
  | [] => true
  | k :: r => negb (existsb (key_eqb k) declared) && no_dup_keys r (k :: declared)
  end.

(** never reported when all keys differ (as kind + text) *)
Theorem dupkeys_sound fs : forall declared index,
  no_dup_keys (field_keys fs index) declared = true -> dup_count fs declared index = 0%nat.
Proof.
  induction fs as [|f r IH]; intros declared index H; [reflexivity|]. cbn [dup_count field_keys] in *.
  change (match f with
          | FNameKey name _ => (Some (KString, t_name name), index)
          | FExprKey ke _ => (expression_to_key ke, index)
          | FNoKey _ => (Some (KNumber, nat_to_string (S index)), S index)
          end) with (field_key f index).
  destruct (field_key f index) as [[k|] i']; cbn [app no_dup_keys] in H.
  - apply andb_true_iff in H as [H1 H2]. apply negb_true_iff in H1. rewrite H1. apply IH. exact H2.
  - apply IH. exact H.
Qed.

(** the canonical pattern `{ a = _, a = _ }`, anywhere *)
Theorem dupkeys_canonical chunk a v1 v2 rest :
  In (NTable (FsCons (FNameKey a v1) (FsCons (FNameKey a v2) rest))) (nodes_block chunk) ->
  (1 <= n_dupkeys (lint_counts chunk))%nat.
Proof.
  intros Hin. unfold lint_counts. cbn [n_dupkeys]. induction (nodes_block chunk) as [|n r IH]; [contradiction|].
  cbn [fold_right]. destruct Hin as [->|Hin]; [|specialize (IH Hin); lia].
  cbn [dup_keys_count fields_list dup_count existsb]. unfold key_eqb at 1. cbn [fst snd].
  replace (str_eqb (t_name a) (t_name a)) with true by (symmetry; apply str_eqb_eq; reflexivity). cbn [orb]. lia.
Qed.

Theorem paren_canonical chunk c b eis els : In (NStmt (SIf (EParen c) b eis els)) (nodes_block chunk) ->
  (1 <= n_paren (lint_counts chunk))%nat.
Proof.
  intros Hin. unfold lint_counts. cbn [n_paren]. induction (nodes_block chunk) as [|n r IH]; [contradiction|].
  cbn [fold_right]. destruct Hin as [->|Hin]; [cbn; lia|specialize (IH Hin); lia].
Qed.

Theorem tablecmp_canonical chunk o x fs : (o = "==" \/ o = "~=") ->
  In (NExpr (EBinop o x (ETable fs))) (nodes_block chunk) -> (1 <= n_tablecmp (lint_counts chunk))%nat.
Proof. intros [-> | ->] Hin; apply (count_in _ _ _ Hin); cbn; destruct (is_table x); reflexivity. Qed.

Theorem tablecmp_sound n : is_table_comparison n = true ->
  exists o l r, n = NExpr (EBinop o l r) /\ (is_table l = true \/ is_table r = true).
Proof.
  destruct n as [e| | |]; try discriminate. destruct e; try discriminate. cbn. intros H. apply andb_true_iff in H as [_ H].
  apply orb_true_iff in H. eauto.
Qed.

Theorem typecheck_canonical chunk name x raw rest ss rng : t_name name = "type" ->
  In (NCall (FCall (PName name) (SsCons (SfxCall (CAnon (AParens (EsCons (EBinop "==" x (EString raw)) rest)))) ss) rng)) (nodes_block chunk) ->
  (1 <= n_typecheck (lint_counts chunk))%nat.
Proof. intros Hn Hin. apply (count_in _ _ _ Hin). cbn. rewrite Hn. reflexivity. Qed.

(** duplicate_keys, judged by value: number keys are equal when they denote the same number *)
Definition num_eqb (a b : string) : bool :=
  match lua_value a, lua_value b with
  | Some (m1, e1), Some (m2, e2) =>
      let emin := Z.min e1 e2 in
      (m1 * N.pow 10 (Z.to_N (e1 - emin)) =? m2 * N.pow 10 (Z.to_N (e2 - emin)))%N
  | _, _ => str_eqb a b
  end.

Definition key_veqb (a b : key) : bool :=
  match fst a, fst b with
  | KString, KString => str_eqb (snd a) (snd b)
  | KNumber, KNumber => num_eqb (snd a) (snd b)
  | _, _ => false
  end.

Fixpoint vdup_count (ks declared : list key) : nat :=
  match ks with
  | [] => O
  | k :: r => if existsb (key_veqb k) declared then S (vdup_count r declared) else vdup_count r (k :: declared)
  end.

Definition vdup_keys_count (n : node) : nat :=
  match n with NTable fs => vdup_count (field_keys (fields_list fs) 0) [] | _ => O end.
