(** undefined_variable and shadowing commute with renaming / repositioning. *)
From Selene Require Import Lua.Map Scope.Interp Scope.Equivariance Scope.EquivInterp Lints.ScopeLints.
Open Scope N_scope.

Section LintEquiv.
  Context (rho : string -> string) (phi : range -> range).
  Context (rho_inj : forall a b, rho a = rho b -> a = b).
  Context (rho_vararg : rho "..." = "...").
  Context (phi_inj : forall a b, phi a = phi b -> a = b).
  Context (roots : list string).
  (** renamed names keep their library-root status (fresh names are not library names) *)
  Context (roots_stable : forall name, existsb (str_eqb (rho name)) roots = existsb (str_eqb name) roots).
  (** ... and their ignore-pattern status *)
  Context (ignore_stable : forall name, starts_with_underscore (rho name) = starts_with_underscore name).

  Notation mst := (map_st rho phi).

  Lemma mem_range_map r acc : mem_range (phi r) (map phi acc) = mem_range r acc.
  Proof.
    unfold mem_range. induction acc as [|a acc IH]; cbn; [reflexivity|].
    rewrite (range_eq_phi phi phi_inj), IH. reflexivity.
  Qed.

  Theorem undefined_report_equivariant s :
    undefined_report (mst s) roots = map phi (undefined_report s roots).
  Proof.
    unfold undefined_report. rewrite map_rev. f_equal. cbn [map_st refs].
    assert (H : forall l acc,
      fold_left (fun acc r =>
         let id := t_range (r_tok r) in
         if match r_resolved r with None => true | Some _ => false end
            && r_read r && negb (mem_range id acc)
            && negb ((r_scope r =? 0) && str_eqb (t_name (r_tok r)) "...")
            && negb (existsb (str_eqb (t_name (r_tok r))) roots)
         then id :: acc else acc) (map (map_ref rho phi) l) (map phi acc)
      = map phi (fold_left (fun acc r =>
         let id := t_range (r_tok r) in
         if match r_resolved r with None => true | Some _ => false end
            && r_read r && negb (mem_range id acc)
            && negb ((r_scope r =? 0) && str_eqb (t_name (r_tok r)) "...")
            && negb (existsb (str_eqb (t_name (r_tok r))) roots)
         then id :: acc else acc) l acc)).
    { induction l as [|r l IH]; intros acc; cbn [map fold_left]; [reflexivity|].
      cbn [map_ref r_tok r_resolved r_read r_scope].
      rewrite (t_range_mt rho phi), mem_range_map.
      change (t_name (map_tok rho phi (r_tok r))) with (rho (t_name (r_tok r))).
      rewrite roots_stable.
      assert (Hv : str_eqb (rho (t_name (r_tok r))) "..." = str_eqb (t_name (r_tok r)) "...").
      { pose proof (str_eqb_rho rho rho_inj (t_name (r_tok r)) "...") as X. rewrite rho_vararg in X. exact X. }
      rewrite Hv.
      destruct (match r_resolved r with None => true | Some _ => false end && r_read r
                && negb (mem_range (t_range (r_tok r)) acc)
                && negb ((r_scope r =? 0) && str_eqb (t_name (r_tok r)) "...")
                && negb (existsb (str_eqb (t_name (r_tok r))) roots)).
      - rewrite <- IH. reflexivity.
      - apply IH. }
    apply (H (refs s) []).
  Qed.

  Definition shadow_of (vs : list rvar) (v : rvar) : list (range * range) :=
    match v_shadowed v with
    | Some sid =>
        let name := t_name (v_tok v) in
        if starts_with_underscore name || str_eqb name "..." then []
        else match nth_error vs (N.to_nat sid) with
             | Some sv => [(t_range (v_tok v), t_range (v_tok sv))]
             | None => []
             end
    | None => []
    end.

  Lemma shadow_of_map vs v :
    shadow_of (map (map_rvar rho phi) vs) (map_rvar rho phi v)
    = map (fun p => (phi (fst p), phi (snd p))) (shadow_of vs v).
  Proof.
    unfold shadow_of. cbn [map_rvar v_shadowed v_tok].
    destruct (v_shadowed v) as [sid|]; [|reflexivity].
    change (t_name (map_tok rho phi (v_tok v))) with (rho (t_name (v_tok v))).
    rewrite ignore_stable.
    assert (Hv : str_eqb (rho (t_name (v_tok v))) "..." = str_eqb (t_name (v_tok v)) "...").
    { pose proof (str_eqb_rho rho rho_inj (t_name (v_tok v)) "...") as X. rewrite rho_vararg in X. exact X. }
    rewrite Hv.
    destruct (starts_with_underscore (t_name (v_tok v)) || str_eqb (t_name (v_tok v)) "..."); [reflexivity|].
    rewrite nth_error_map. destruct (nth_error vs (N.to_nat sid)) as [sv|]; cbn [option_map map]; [|reflexivity].
    cbn [map_rvar v_tok fst snd]. rewrite !(t_range_mt rho phi). reflexivity.
  Qed.

  Theorem shadowing_report_equivariant s :
    shadowing_report (mst s) = map (fun p => (phi (fst p), phi (snd p))) (shadowing_report s).
  Proof.
    change (shadowing_report (mst s)) with (flat_map (shadow_of (map (map_rvar rho phi) (vars s))) (map (map_rvar rho phi) (vars s))).
    change (shadowing_report s) with (flat_map (shadow_of (vars s)) (vars s)).
    generalize (vars s) at 2 4. intros l.
    induction l as [|v l IH]; cbn [map flat_map]; [reflexivity|].
    rewrite map_app, <- IH, shadow_of_map. reflexivity.
  Qed.
End LintEquiv.
