(** C13 for the closed-form lints: moving every position of a program (what rewriting whitespace and
    comments does to the tree) changes none of their verdicts. *)
From Selene Require Import Lua.Map Lints.Closed Lints.Same.

Section Phi.
Context (phi : range -> range).
Notation mt := (map_tok (fun s => s) phi).
Notation me := (map_expr (fun s => s) phi).
Notation mv := (map_var (fun s => s) phi).
Notation mp := (map_prefix (fun s => s) phi).
Notation msx := (map_suffix (fun s => s) phi).
Notation mss := (map_suffixes (fun s => s) phi).
Notation mc := (map_call (fun s => s) phi).
Notation ma := (map_args (fun s => s) phi).
Notation mi := (map_index (fun s => s) phi).
Notation mfs := (map_fields (fun s => s) phi).
Notation mf := (map_field (fun s => s) phi).
Notation mes := (map_exprs (fun s => s) phi).
Notation mfc := (map_fcall (fun s => s) phi).
Notation mfb := (map_funcbody (fun s => s) phi).
Notation mb := (map_block (fun s => s) phi).
Notation msts := (map_stmts (fun s => s) phi).
Notation mst := (map_stmt (fun s => s) phi).
Notation mvs := (map_vars (fun s => s) phi).
Notation mei := (map_elseifs (fun s => s) phi).
Notation mol := (map_olast (fun s => s) phi).
Notation mob := (map_oblock (fun s => s) phi).
Notation moe := (map_oexpr (fun s => s) phi).

Lemma m_ENil  : me ENil = ENil.
Proof. reflexivity. Qed.
Lemma m_ETrue  : me ETrue = ETrue.
Proof. reflexivity. Qed.
Lemma m_EFalse  : me EFalse = EFalse.
Proof. reflexivity. Qed.
Lemma m_ENumber x0 : me (ENumber x0) = ENumber x0.
Proof. reflexivity. Qed.
Lemma m_EString x0 : me (EString x0) = EString x0.
Proof. reflexivity. Qed.
Lemma m_EVararg x0 : me (EVararg x0) = EVararg (mt x0).
Proof. reflexivity. Qed.
Lemma m_EFunction x0 : me (EFunction x0) = EFunction (mfb x0).
Proof. reflexivity. Qed.
Lemma m_EParen x0 : me (EParen x0) = EParen (me x0).
Proof. reflexivity. Qed.
Lemma m_EUnop x0 x1 : me (EUnop x0 x1) = EUnop x0 (me x1).
Proof. reflexivity. Qed.
Lemma m_EBinop x0 x1 x2 : me (EBinop x0 x1 x2) = EBinop x0 (me x1) (me x2).
Proof. reflexivity. Qed.
Lemma m_ETable x0 : me (ETable x0) = ETable (mfs x0).
Proof. reflexivity. Qed.
Lemma m_EVar x0 : me (EVar x0) = EVar (mv x0).
Proof. reflexivity. Qed.
Lemma m_ECall x0 : me (ECall x0) = ECall (mfc x0).
Proof. reflexivity. Qed.
Lemma m_VName x0 : mv (VName x0) = VName (mt x0).
Proof. reflexivity. Qed.
Lemma m_VExpr x0 x1 x2 : mv (VExpr x0 x1 x2) = VExpr (mp x0) (mss x1) (phi x2).
Proof. reflexivity. Qed.
Lemma m_PName x0 : mp (PName x0) = PName (mt x0).
Proof. reflexivity. Qed.
Lemma m_PExpr x0 : mp (PExpr x0) = PExpr (me x0).
Proof. reflexivity. Qed.
Lemma m_SfxCall x0 : msx (SfxCall x0) = SfxCall (mc x0).
Proof. reflexivity. Qed.
Lemma m_SfxIndex x0 : msx (SfxIndex x0) = SfxIndex (mi x0).
Proof. reflexivity. Qed.
Lemma m_SsNil  : mss SsNil = SsNil.
Proof. reflexivity. Qed.
Lemma m_SsCons x0 x1 : mss (SsCons x0 x1) = SsCons (msx x0) (mss x1).
Proof. reflexivity. Qed.
Lemma m_CAnon x0 : mc (CAnon x0) = CAnon (ma x0).
Proof. reflexivity. Qed.
Lemma m_CMethod x0 x1 : mc (CMethod x0 x1) = CMethod (mt x0) (ma x1).
Proof. reflexivity. Qed.
Lemma m_AParens x0 : ma (AParens x0) = AParens (mes x0).
Proof. reflexivity. Qed.
Lemma m_AString x0 : ma (AString x0) = AString x0.
Proof. reflexivity. Qed.
Lemma m_ATable x0 : ma (ATable x0) = ATable (mfs x0).
Proof. reflexivity. Qed.
Lemma m_IBrackets x0 : mi (IBrackets x0) = IBrackets (me x0).
Proof. reflexivity. Qed.
Lemma m_IDot x0 : mi (IDot x0) = IDot (mt x0).
Proof. reflexivity. Qed.
Lemma m_FsNil  : mfs FsNil = FsNil.
Proof. reflexivity. Qed.
Lemma m_FsCons x0 x1 : mfs (FsCons x0 x1) = FsCons (mf x0) (mfs x1).
Proof. reflexivity. Qed.
Lemma m_FExprKey x0 x1 : mf (FExprKey x0 x1) = FExprKey (me x0) (me x1).
Proof. reflexivity. Qed.
Lemma m_FNameKey x0 x1 : mf (FNameKey x0 x1) = FNameKey (mt x0) (me x1).
Proof. reflexivity. Qed.
Lemma m_FNoKey x0 : mf (FNoKey x0) = FNoKey (me x0).
Proof. reflexivity. Qed.
Lemma m_EsNil  : mes EsNil = EsNil.
Proof. reflexivity. Qed.
Lemma m_EsCons x0 x1 : mes (EsCons x0 x1) = EsCons (me x0) (mes x1).
Proof. reflexivity. Qed.
Lemma m_FCall x0 x1 x2 : mfc (FCall x0 x1 x2) = FCall (mp x0) (mss x1) (phi x2).
Proof. reflexivity. Qed.
Lemma m_FBody x0 x1 : mfb (FBody x0 x1) = FBody ((map (map_param (fun s => s) phi)) x0) (mb x1).
Proof. reflexivity. Qed.
Lemma m_Block x0 x1 x2 : mb (Block x0 x1 x2) = Block (msts x0) (mol x1) ((option_map phi) x2).
Proof. reflexivity. Qed.
Lemma m_StNil  : msts StNil = StNil.
Proof. reflexivity. Qed.
Lemma m_StCons x0 x1 : msts (StCons x0 x1) = StCons (mst x0) (msts x1).
Proof. reflexivity. Qed.
Lemma m_SAssign x0 x1 : mst (SAssign x0 x1) = SAssign (mvs x0) (mes x1).
Proof. reflexivity. Qed.
Lemma m_SDo x0 : mst (SDo x0) = SDo (mb x0).
Proof. reflexivity. Qed.
Lemma m_SCallStmt x0 : mst (SCallStmt x0) = SCallStmt (mfc x0).
Proof. reflexivity. Qed.
Lemma m_SFunction x0 x1 x2 : mst (SFunction x0 x1 x2) = SFunction ((map mt) x0) ((option_map mt) x1) (mfb x2).
Proof. reflexivity. Qed.
Lemma m_SGenericFor x0 x1 x2 : mst (SGenericFor x0 x1 x2) = SGenericFor ((map mt) x0) (mes x1) (mb x2).
Proof. reflexivity. Qed.
Lemma m_SIf x0 x1 x2 x3 : mst (SIf x0 x1 x2 x3) = SIf (me x0) (mb x1) (mei x2) (mob x3).
Proof. reflexivity. Qed.
Lemma m_SLocal x0 x1 : mst (SLocal x0 x1) = SLocal ((map mt) x0) (mes x1).
Proof. reflexivity. Qed.
Lemma m_SLocalFunction x0 x1 : mst (SLocalFunction x0 x1) = SLocalFunction (mt x0) (mfb x1).
Proof. reflexivity. Qed.
Lemma m_SNumericFor x0 x1 x2 x3 x4 : mst (SNumericFor x0 x1 x2 x3 x4) = SNumericFor (mt x0) (me x1) (me x2) (moe x3) (mb x4).
Proof. reflexivity. Qed.
Lemma m_SRepeat x0 x1 : mst (SRepeat x0 x1) = SRepeat (mb x0) (me x1).
Proof. reflexivity. Qed.
Lemma m_SWhile x0 x1 : mst (SWhile x0 x1) = SWhile (me x0) (mb x1).
Proof. reflexivity. Qed.
Lemma m_VsNil  : mvs VsNil = VsNil.
Proof. reflexivity. Qed.
Lemma m_VsCons x0 x1 : mvs (VsCons x0 x1) = VsCons (mv x0) (mvs x1).
Proof. reflexivity. Qed.
Lemma m_EiNil  : mei EiNil = EiNil.
Proof. reflexivity. Qed.
Lemma m_EiCons x0 x1 x2 : mei (EiCons x0 x1 x2) = EiCons (me x0) (mb x1) (mei x2).
Proof. reflexivity. Qed.
Lemma m_LNone  : mol LNone = LNone.
Proof. reflexivity. Qed.
Lemma m_LBreak  : mol LBreak = LBreak.
Proof. reflexivity. Qed.
Lemma m_LReturn x0 : mol (LReturn x0) = LReturn (mes x0).
Proof. reflexivity. Qed.
Lemma m_OBNone  : mob OBNone = OBNone.
Proof. reflexivity. Qed.
Lemma m_OBSome x0 : mob (OBSome x0) = OBSome (mb x0).
Proof. reflexivity. Qed.
Lemma m_OENone  : moe OENone = OENone.
Proof. reflexivity. Qed.
Lemma m_OESome x0 : moe (OESome x0) = OESome (me x0).
Proof. reflexivity. Qed.

Ltac munfold := rewrite ?m_ENil, ?m_ETrue, ?m_EFalse, ?m_ENumber, ?m_EString, ?m_EVararg, ?m_EFunction, ?m_EParen, ?m_EUnop, ?m_EBinop, ?m_ETable, ?m_EVar, ?m_ECall, ?m_VName, ?m_VExpr, ?m_PName, ?m_PExpr, ?m_SfxCall, ?m_SfxIndex, ?m_SsNil, ?m_SsCons, ?m_CAnon, ?m_CMethod, ?m_AParens, ?m_AString, ?m_ATable, ?m_IBrackets, ?m_IDot, ?m_FsNil, ?m_FsCons, ?m_FExprKey, ?m_FNameKey, ?m_FNoKey, ?m_EsNil, ?m_EsCons, ?m_FCall, ?m_FBody, ?m_Block, ?m_StNil, ?m_StCons, ?m_SAssign, ?m_SDo, ?m_SCallStmt, ?m_SFunction, ?m_SGenericFor, ?m_SIf, ?m_SLocal, ?m_SLocalFunction, ?m_SNumericFor, ?m_SRepeat, ?m_SWhile, ?m_VsNil, ?m_VsCons, ?m_EiNil, ?m_EiCons, ?m_LNone, ?m_LBreak, ?m_LReturn, ?m_OBNone, ?m_OBSome, ?m_OENone, ?m_OESome.

Lemma mt_name t : t_name (mt t) = t_name t.
Proof. reflexivity. Qed.

Lemma names_map sep l : tx_names sep (map mt l) = tx_names sep l.
Proof.
  destruct l as [|t r]; [reflexivity|]. cbn [map tx_names]. f_equal.
  induction r as [|x r IH]; [reflexivity|]. cbn [map flat_map app]. rewrite IH. reflexivity.
Qed.

Lemma params_map ps : tx_params (map (map_param (fun s => s) phi) ps) = tx_params ps.
Proof.
  assert (H : forall p, tx_param (map_param (fun s => s) phi p) = tx_param p) by (intros [t|t]; reflexivity).
  destruct ps as [|p r]; [reflexivity|]. cbn [map tx_params]. rewrite H. f_equal.
  induction r as [|x r IH]; [reflexivity|]. cbn [map flat_map app]. rewrite H, IH. reflexivity.
Qed.

(** the token texts do not see positions *)
Theorem tx_map :
  (forall e, tx_expr (me e) = tx_expr e) /\ (forall v, tx_var (mv v) = tx_var v) /\
  (forall p, tx_prefix (mp p) = tx_prefix p) /\ (forall s, tx_suffix (msx s) = tx_suffix s) /\
  (forall ss, tx_suffixes (mss ss) = tx_suffixes ss) /\ (forall c, tx_call (mc c) = tx_call c) /\
  (forall a, tx_args (ma a) = tx_args a) /\ (forall i, tx_index (mi i) = tx_index i) /\
  (forall fs, tx_fields (mfs fs) = tx_fields fs) /\ (forall f, tx_field (mf f) = tx_field f) /\
  (forall es, tx_exprs (mes es) = tx_exprs es) /\ (forall c, tx_fcall (mfc c) = tx_fcall c) /\
  (forall b, tx_funcbody (mfb b) = tx_funcbody b) /\ (forall b, tx_block (mb b) = tx_block b) /\
  (forall ss, tx_stmts (msts ss) = tx_stmts ss) /\ (forall s, tx_stmt (mst s) = tx_stmt s) /\
  (forall vs, tx_vars (mvs vs) = tx_vars vs) /\ (forall ei, tx_elseifs (mei ei) = tx_elseifs ei) /\
  (forall l, tx_olast (mol l) = tx_olast l) /\ (forall o, tx_oblock (mob o) = tx_oblock o) /\
  (forall o, tx_oexpr (moe o) = tx_oexpr o).
Proof.
  apply ast_mutind; intros; munfold;
    cbn [tx_expr tx_var tx_prefix tx_suffix tx_suffixes tx_call tx_args tx_index tx_fields tx_field tx_exprs
         tx_fcall tx_funcbody tx_block tx_stmts tx_stmt tx_vars tx_elseifs tx_olast tx_oblock tx_oexpr];
    rewrite ?mt_name, ?names_map, ?params_map; try congruence;
    repeat match goal with
           | |- context [match ?x with _ => _ end] => is_var x; destruct x; munfold; cbn [option_map]
           end;
    rewrite ?mt_name; rewrite <- ?m_FsCons, <- ?m_EsCons, <- ?m_VsCons; congruence.
Qed.

(** has_side_effects does not see positions *)
Theorem se_map :
  (forall e, se_expr (me e) = se_expr e) /\ (forall v, se_var (mv v) = se_var v) /\
  (forall p, se_prefix (mp p) = se_prefix p) /\ (forall s, se_suffix (msx s) = se_suffix s) /\
  (forall ss, se_suffixes (mss ss) = se_suffixes ss) /\ (forall c : call, True) /\
  (forall a : args, True) /\ (forall i, se_index (mi i) = se_index i) /\
  (forall fs, se_fields (mfs fs) = se_fields fs) /\ (forall f, se_field (mf f) = se_field f) /\
  (forall es : exprs, True) /\ (forall c : fcall, True) /\
  (forall b : funcbody, True) /\ (forall b : block, True) /\
  (forall ss : stmts, True) /\ (forall s : stmt, True) /\
  (forall vs : vars, True) /\ (forall ei : elseifs, True) /\
  (forall l : olast, True) /\ (forall o : oblock, True) /\
  (forall o : oexpr, True).
Proof.
  apply ast_mutind; intros; try exact I; munfold;
    cbn [se_expr se_var se_prefix se_suffix se_suffixes se_index se_fields se_field]; congruence.
Qed.

(** the nodes the Visitor reaches, of the moved tree: the moved nodes *)
Definition mnode (n : node) : node :=
  match n with
  | NExpr e => NExpr (me e)
  | NStmt s => NStmt (mst s)
  | NCall c => NCall (mfc c)
  | NTable fs => NTable (mfs fs)
  end.

Theorem nodes_map :
  (forall e, nodes_expr (me e) = map mnode (nodes_expr e)) /\ (forall v, nodes_var (mv v) = map mnode (nodes_var v)) /\
  (forall p, nodes_prefix (mp p) = map mnode (nodes_prefix p)) /\ (forall s, nodes_suffix (msx s) = map mnode (nodes_suffix s)) /\
  (forall ss, nodes_suffixes (mss ss) = map mnode (nodes_suffixes ss)) /\ (forall c, nodes_call (mc c) = map mnode (nodes_call c)) /\
  (forall a, nodes_args (ma a) = map mnode (nodes_args a)) /\ (forall i, nodes_index (mi i) = map mnode (nodes_index i)) /\
  (forall fs, nodes_fields (mfs fs) = map mnode (nodes_fields fs)) /\ (forall f, nodes_field (mf f) = map mnode (nodes_field f)) /\
  (forall es, nodes_exprs (mes es) = map mnode (nodes_exprs es)) /\ (forall c, nodes_fcall (mfc c) = map mnode (nodes_fcall c)) /\
  (forall b, nodes_funcbody (mfb b) = map mnode (nodes_funcbody b)) /\ (forall b, nodes_block (mb b) = map mnode (nodes_block b)) /\
  (forall ss, nodes_stmts (msts ss) = map mnode (nodes_stmts ss)) /\ (forall s, nodes_stmt (mst s) = map mnode (nodes_stmt s)) /\
  (forall vs, nodes_vars (mvs vs) = map mnode (nodes_vars vs)) /\ (forall ei, nodes_elseifs (mei ei) = map mnode (nodes_elseifs ei)) /\
  (forall l, nodes_olast (mol l) = map mnode (nodes_olast l)) /\ (forall o, nodes_oblock (mob o) = map mnode (nodes_oblock o)) /\
  (forall o, nodes_oexpr (moe o) = map mnode (nodes_oexpr o)).
Proof.
  apply ast_mutind; intros; munfold;
    cbn [nodes_expr nodes_var nodes_prefix nodes_suffix nodes_suffixes nodes_call nodes_args nodes_index nodes_fields nodes_field
         nodes_exprs nodes_fcall nodes_funcbody nodes_block nodes_stmts nodes_stmt nodes_vars nodes_elseifs nodes_olast nodes_oblock nodes_oexpr];
    rewrite ?map_app; cbn [map mnode]; munfold; rewrite ?map_app; congruence.
Qed.

(** ** the lints' predicates on a moved node *)
Lemma count_map (p : node -> bool) l : (forall n, p (mnode n) = p n) -> count p (map mnode l) = count p l.
Proof.
  intros H. unfold count. induction l as [|x r IH]; [reflexivity|]. cbn [map filter]. rewrite H.
  destruct (p x); cbn [List.length]; rewrite IH; reflexivity.
Qed.

Lemma sum_map (f : node -> nat) l : (forall n, f (mnode n) = f n) ->
  fold_right (fun n a => (f n + a)%nat) O (map mnode l) = fold_right (fun n a => (f n + a)%nat) O l.
Proof. intros H. induction l as [|x r IH]; [reflexivity|]. cbn [map fold_right]. rewrite H, IH. reflexivity. Qed.

Lemma value_is_zero_map e : value_is_zero (me e) = value_is_zero e.
Proof. destruct e; reflexivity. Qed.

Lemma expression_is_nan_map e : expression_is_nan (me e) = expression_is_nan e.
Proof. destruct e; try reflexivity. munfold. cbn [expression_is_nan]. rewrite !value_is_zero_map. reflexivity. Qed.

Lemma is_div0_map n : is_div0 (mnode n) = is_div0 n.
Proof.
  destruct n as [e| | |]; try reflexivity. destruct e; try reflexivity. cbn [mnode]. munfold. cbn [is_div0].
  rewrite !value_is_zero_map. reflexivity.
Qed.

Lemma is_compare_nan_map n : is_compare_nan (mnode n) = is_compare_nan n.
Proof.
  destruct n as [e| | |]; try reflexivity. destruct e; try reflexivity. cbn [mnode]. munfold.
  destruct e1; try reflexivity. munfold. cbn [is_compare_nan]. rewrite expression_is_nan_map. reflexivity.
Qed.

Lemma block_is_empty_map b : block_is_empty (mb b) = block_is_empty b.
Proof. destruct b as [ss l r]. munfold. destruct ss, l; reflexivity. Qed.

Lemma empty_elseifs_map ei : empty_elseifs (mei ei) = empty_elseifs ei.
Proof. induction ei as [|c b r IH]; [reflexivity|]. munfold. cbn [empty_elseifs]. rewrite block_is_empty_map, IH. reflexivity. Qed.

Lemma is_reverse_loop_map n : is_reverse_loop (mnode n) = is_reverse_loop n.
Proof.
  destruct n as [|s| |]; try reflexivity. destruct s; try reflexivity. cbn [mnode]. munfold.
  destruct start; try reflexivity. munfold. destruct stop; try reflexivity. munfold. destruct step; reflexivity.
Qed.

Lemma empty_if_count_map n : empty_if_count (mnode n) = empty_if_count n.
Proof.
  destruct n as [|s| |]; try reflexivity. destruct s; try reflexivity. cbn [mnode]. munfold. cbn [empty_if_count].
  rewrite block_is_empty_map, empty_elseifs_map. destruct els; munfold; rewrite ?block_is_empty_map; reflexivity.
Qed.

Lemma is_empty_loop_map n : is_empty_loop (mnode n) = is_empty_loop n.
Proof.
  destruct n as [|s| |]; try reflexivity. destruct s; try reflexivity; cbn [mnode]; munfold; cbn [is_empty_loop]; apply block_is_empty_map.
Qed.

Lemma expression_is_call_map e : expression_is_call (me e) = expression_is_call e.
Proof. induction e; try reflexivity. munfold. cbn [expression_is_call]. exact IHe. Qed.
Lemma expression_is_nil_map e : expression_is_nil (me e) = expression_is_nil e.
Proof. destruct e; try reflexivity. munfold. cbn [expression_is_nil]. apply expression_is_call_map. Qed.
Lemma expression_is_ellipsis_map e : expression_is_ellipsis (me e) = expression_is_ellipsis e.
Proof. destruct e; reflexivity. Qed.

Lemma exprs_to_list_map es : exprs_to_list (mes es) = map me (exprs_to_list es).
Proof. induction es as [|e r IH]; [reflexivity|]. munfold. cbn [exprs_to_list map]. rewrite IH. reflexivity. Qed.
Lemma vars_length_map vs : vars_length (mvs vs) = vars_length vs.
Proof. induction vs as [|v r IH]; [reflexivity|]. munfold. cbn [vars_length]. rewrite IH. reflexivity. Qed.

Lemma unbalanced_map lhs l : unbalanced lhs (map me l) = unbalanced lhs l.
Proof.
  unfold unbalanced. rewrite <- map_rev, map_length. destruct (rev l) as [|x r]; [reflexivity|]. cbn [map].
  rewrite expression_is_ellipsis_map, expression_is_call_map, expression_is_nil_map. reflexivity.
Qed.

Lemma is_unbalanced_map n : is_unbalanced (mnode n) = is_unbalanced n.
Proof.
  destruct n as [|s| |]; try reflexivity. destruct s; try reflexivity; cbn [mnode]; munfold; cbn [is_unbalanced];
    rewrite exprs_to_list_map, ?vars_length_map, ?map_length; apply unbalanced_map.
Qed.

Lemma fields_list_map fs : fields_list (mfs fs) = map mf (fields_list fs).
Proof. induction fs as [|f r IH]; [reflexivity|]. munfold. cbn [fields_list map]. rewrite IH. reflexivity. Qed.
Lemma is_nokey_map f : is_nokey (mf f) = is_nokey f.
Proof. destruct f; reflexivity. Qed.

Lemma existsb_map_ext {A} (p : A -> bool) (g : A -> A) l : (forall x, p (g x) = p x) -> existsb p (map g l) = existsb p l.
Proof. intros H. induction l as [|x r IH]; [reflexivity|]. cbn [map existsb]. rewrite H, IH. reflexivity. Qed.

Lemma is_mixed_map n : is_mixed (mnode n) = is_mixed n.
Proof.
  destruct n as [| | |fs]; try reflexivity. cbn [mnode is_mixed]. rewrite fields_list_map.
  rewrite !existsb_map_ext; [reflexivity|intros f; rewrite is_nokey_map; reflexivity|apply is_nokey_map].
Qed.

Lemma expression_to_key_map e : expression_to_key (me e) = expression_to_key e.
Proof. destruct e; reflexivity. Qed.

Lemma dup_count_map l : forall declared index, dup_count (map mf l) declared index = dup_count l declared index.
Proof.
  induction l as [|f r IH]; intros declared index; [reflexivity|]. cbn [map dup_count].
  destruct f as [k v|nm v|v]; munfold; rewrite ?expression_to_key_map, ?mt_name.
  - destruct (expression_to_key k) as [k'|]; [destruct (existsb _ declared)|]; rewrite IH; reflexivity.
  - destruct (existsb _ declared); rewrite IH; reflexivity.
  - destruct (existsb _ declared); rewrite IH; reflexivity.
Qed.

Lemma dup_keys_count_map n : dup_keys_count (mnode n) = dup_keys_count n.
Proof. destruct n as [| | |fs]; try reflexivity. cbn [mnode dup_keys_count]. rewrite fields_list_map. apply dup_count_map. Qed.

Lemma is_paren_map e : is_paren (me e) = is_paren e.
Proof. destruct e; reflexivity. Qed.
Lemma paren_elseifs_map ei : paren_elseifs (mei ei) = paren_elseifs ei.
Proof. induction ei as [|c b r IH]; [reflexivity|]. munfold. cbn [paren_elseifs]. rewrite is_paren_map, IH. reflexivity. Qed.
Lemma paren_cond_count_map n : paren_cond_count (mnode n) = paren_cond_count n.
Proof.
  destruct n as [|s| |]; try reflexivity. destruct s; try reflexivity; cbn [mnode]; munfold; cbn [paren_cond_count];
    rewrite ?is_paren_map, ?paren_elseifs_map; reflexivity.
Qed.

Lemma is_table_map e : is_table (me e) = is_table e.
Proof. destruct e; reflexivity. Qed.
Lemma is_table_comparison_map n : is_table_comparison (mnode n) = is_table_comparison n.
Proof.
  destruct n as [e| | |]; try reflexivity. destruct e; try reflexivity. cbn [mnode]. munfold. cbn [is_table_comparison].
  rewrite !is_table_map. reflexivity.
Qed.

Lemma is_type_check_inside_map n : is_type_check_inside (mnode n) = is_type_check_inside n.
Proof.
  destruct n as [| |c|]; try reflexivity. destruct c as [p ss r]. cbn [mnode]. munfold.
  destruct p as [nm|]; [|reflexivity]. munfold. destruct ss as [|s ss']; [reflexivity|]. munfold.
  destruct s as [c|]; [|reflexivity]. munfold. destruct c as [a|]; [|reflexivity]. munfold.
  destruct a as [es| |]; try reflexivity. munfold. destruct es as [|e es']; [reflexivity|]. munfold.
  destruct e; try reflexivity. munfold. destruct e2; try reflexivity.
Qed.

(** the thirteen closed lints of Lints/Closed.v: every count is the same on the moved tree *)
Theorem lint_counts_moved chunk : lint_counts (mb chunk) = lint_counts chunk.
Proof.
  unfold lint_counts. destruct nodes_map as (_&_&_&_&_&_&_&_&_&_&_&_&_&Hb&_). rewrite Hb.
  rewrite !count_map by (first [apply is_div0_map|apply is_compare_nan_map|apply is_reverse_loop_map|apply is_empty_loop_map
                               |apply is_unbalanced_map|apply is_mixed_map|apply is_table_comparison_map|apply is_type_check_inside_map]).
  rewrite (sum_map empty_if_count) by apply empty_if_count_map.
  rewrite (sum_map dup_keys_count) by apply dup_keys_count_map.
  rewrite (sum_map paren_cond_count) by apply paren_cond_count_map.
  reflexivity.
Qed.

(** ** the "same text" lints on the moved tree *)
Definition txe := proj1 tx_map.
Lemma txb b : tx_block (mb b) = tx_block b.
Proof. destruct tx_map as (_&_&_&_&_&_&_&_&_&_&_&_&_&H&_). apply H. Qed.
Lemma txv v : tx_var (mv v) = tx_var v.
Proof. destruct tx_map as (_&H&_). apply H. Qed.
Definition see := proj1 se_map.
Lemma sev v : se_var (mv v) = se_var v.
Proof. destruct se_map as (_&H&_). apply H. Qed.

Lemma elseif_conds_map ei : elseif_conds (mei ei) = map me (elseif_conds ei).
Proof. induction ei as [|c b r IH]; [reflexivity|]. munfold. cbn [elseif_conds map]. rewrite IH. reflexivity. Qed.
Lemma elseif_blocks_map ei : elseif_blocks (mei ei) = map mb (elseif_blocks ei).
Proof. induction ei as [|c b r IH]; [reflexivity|]. munfold. cbn [elseif_blocks map]. rewrite IH. reflexivity. Qed.

Lemma find_map_some {A} (p q : A -> bool) (g : A -> A) l : (forall x, q (g x) = p x) ->
  find q (map g l) = option_map g (find p l).
Proof. intros H. induction l as [|x r IH]; [reflexivity|]. cbn [map find]. rewrite H. destruct (p x); [reflexivity|exact IH]. Qed.

Lemma same_cond_loop_map cs : forall seen,
  List.length (same_cond_loop (map me seen) (map me cs)) = List.length (same_cond_loop seen cs).
Proof.
  induction cs as [|c r IH]; intros seen; [reflexivity|]. cbn [map same_cond_loop]. rewrite see.
  destruct (se_expr c); [apply IH|].
  rewrite (find_map_some (fun o => similar_expr o c) (fun o => similar_expr o (me c)) me)
    by (intros x; unfold similar_expr; rewrite !txe; reflexivity).
  destruct (find (fun o => similar_expr o c) seen); cbn [option_map List.length].
  - f_equal. apply IH.
  - specialize (IH (seen ++ [c])). rewrite map_app in IH. exact IH.
Qed.

Lemma same_cond_reports_map n : List.length (same_cond_reports (mnode n)) = List.length (same_cond_reports n).
Proof.
  destruct n as [|s| |]; try reflexivity. destruct s; try reflexivity. cbn [mnode]. munfold. cbn [same_cond_reports].
  rewrite see, elseif_conds_map. destruct (se_expr c); [apply (same_cond_loop_map _ [])|apply (same_cond_loop_map _ [c])].
Qed.

Lemma block_has_stmts_map b : block_has_stmts (mb b) = block_has_stmts b.
Proof. destruct b as [ss l r]. munfold. destruct ss; reflexivity. Qed.

Lemma same_block_loop_map bs : forall seen,
  List.length (same_block_loop (map mb seen) (map mb bs)) = List.length (same_block_loop seen bs).
Proof.
  induction bs as [|b r IH]; intros seen; [reflexivity|]. cbn [map same_block_loop]. rewrite block_has_stmts_map.
  destruct (negb (block_has_stmts b)); [apply IH|].
  rewrite (find_map_some (fun o => similar_block o b) (fun o => similar_block o (mb b)) mb)
    by (intros x; unfold similar_block; rewrite !txb; reflexivity).
  destruct (find (fun o => similar_block o b) seen); cbn [option_map List.length].
  - f_equal. apply IH.
  - specialize (IH (seen ++ [b])). rewrite map_app in IH. exact IH.
Qed.

Lemma same_block_reports_map n : List.length (same_block_reports (mnode n)) = List.length (same_block_reports n).
Proof.
  destruct n as [|s| |]; try reflexivity. destruct s; try reflexivity. cbn [mnode]. munfold. cbn [same_block_reports].
  rewrite elseif_blocks_map.
  replace (match mob els with OBSome eb => [eb] | OBNone => [] end) with (map mb (match els with OBSome eb => [eb] | OBNone => [] end))
    by (destruct els; reflexivity).
  rewrite <- map_app. apply (same_block_loop_map _ [b]).
Qed.

Lemma length_flat_map_map {B} (f : node -> list B) l : (forall n, List.length (f (mnode n)) = List.length (f n)) ->
  List.length (flat_map f (map mnode l)) = List.length (flat_map f l).
Proof. intros H. induction l as [|x r IH]; [reflexivity|]. cbn [map flat_map]. rewrite !app_length, H, IH. reflexivity. Qed.

Lemma stmts_list_map ss : stmts_list (msts ss) = map mst (stmts_list ss).
Proof. induction ss as [|s r IH]; [reflexivity|]. munfold. cbn [stmts_list map]. rewrite IH. reflexivity. Qed.

Lemma swap_loop_map ss : forall last, swap_loop last (map mst ss) = swap_loop last ss.
Proof.
  induction ss as [|s r IH]; intros last; [reflexivity|]. cbn [map].
  destruct s as [vs es| | | | | | | | | |]; munfold; try (cbn [swap_loop]; apply IH).
  destruct vs as [|v [|? ?]]; munfold; try (cbn [swap_loop]; apply IH).
  destruct es as [|e [|? ?]]; munfold; try (cbn [swap_loop]; apply IH).
  cbn [swap_loop]. rewrite sev, txv, txe. destruct (se_var v); [apply IH|].
  destruct last as [[n0 n1]|]; [destruct (_ && _)|]; rewrite ?IH; reflexivity.
Qed.

Lemma swaps_of_block_map b : swaps_of_block (mb b) = swaps_of_block b.
Proof. destruct b as [ss l r]. munfold. cbn [swaps_of_block]. rewrite stmts_list_map. apply swap_loop_map. Qed.

Lemma blocks_of_node_map n : blocks_of_node (mnode n) = map mb (blocks_of_node n).
Proof.
  destruct n as [e|s| |]; try reflexivity.
  - destruct e; try reflexivity. cbn [mnode]. munfold. destruct b. munfold. reflexivity.
  - destruct s; try reflexivity; cbn [mnode]; munfold; try reflexivity.
    + destruct b. munfold. reflexivity.
    + cbn [blocks_of_node map]. rewrite elseif_blocks_map, map_app. destruct els; reflexivity.
    + destruct b. munfold. reflexivity.
Qed.

Lemma flat_map_map_comm {A B} (g : A -> A) (f : A -> list B) (h : B -> B) l : (forall x, f (g x) = map h (f x)) ->
  flat_map f (map g l) = map h (flat_map f l).
Proof. intros H. induction l as [|x r IH]; [reflexivity|]. cbn [map flat_map]. rewrite map_app, H, IH. reflexivity. Qed.

Lemma all_blocks_map chunk : all_blocks (mb chunk) = map mb (all_blocks chunk).
Proof.
  unfold all_blocks. destruct nodes_map as (_&_&_&_&_&_&_&_&_&_&_&_&_&Hb&_). rewrite Hb. cbn [map]. f_equal.
  apply flat_map_map_comm. apply blocks_of_node_map.
Qed.

Lemma flat_map_swaps l : flat_map swaps_of_block (map mb l) = flat_map swaps_of_block l.
Proof. induction l as [|x r IH]; [reflexivity|]. cbn [map flat_map]. rewrite swaps_of_block_map, IH. reflexivity. Qed.

(** ifs_same_cond, if_same_then_else, almost_swapped: the same counts (and the same swap texts) on the moved tree *)
Theorem same_lint_counts_moved chunk : same_lint_counts (mb chunk) = same_lint_counts chunk.
Proof.
  unfold same_lint_counts. destruct nodes_map as (_&_&_&_&_&_&_&_&_&_&_&_&_&Hb&_). rewrite Hb.
  rewrite (length_flat_map_map same_cond_reports) by apply same_cond_reports_map.
  rewrite (length_flat_map_map same_block_reports) by apply same_block_reports_map.
  rewrite all_blocks_map, flat_map_swaps. reflexivity.
Qed.
End Phi.
