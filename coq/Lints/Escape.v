(** bad_string_escape (selene-lib/src/lints/bad_string_escape.rs): the scan of a quoted string's
    content with the escape regex (backslash, then `u{` or any character, then hex digits, then an optional
    closing brace) and the classification of each match, over the
    bytes of the literal.  Offsets are relative to the first byte after the opening quote. *)
From Selene Require Export Base.Util.
From Coq Require Import Lia.
Open Scope N_scope.

Definition is_hex (b : N) : bool :=
  ((48 <=? b) && (b <=? 57)) || ((97 <=? b) && (b <=? 102)) || ((65 <=? b) && (b <=? 70)).
Definition is_dec (b : N) : bool := (48 <=? b) && (b <=? 57).

(** length of the UTF-8 sequence a lead byte announces *)
Definition ulen (b : N) : nat :=
  if b <? 192 then 1%nat else if b <? 224 then 2%nat else if b <? 240 then 3%nat else 4%nat.

Fixpoint hex_run (l : list N) : list N :=
  match l with b :: r => if is_hex b then b :: hex_run r else [] | [] => [] end.

Definition hexval (b : N) : N :=
  if is_dec b then b - 48 else if (97 <=? b) then b - 87 else b - 55.
Definition hex_value (ds : list N) : N := fold_left (fun a d => 16 * a + hexval d) ds 0.

Inductive quote := QSingle | QDouble.

(** one match at a backslash: (length of the whole match, reported length if any) *)
Definition starts_ubrace (rest : list N) : bool := match rest with 117 :: 123 :: _ => true | _ => false end.
Definition close_len (l : list N) : nat := match l with 125 :: _ => 1%nat | _ => 0%nat end.

Definition classify (q : quote) (roblox : bool) (rest : list N) : option (nat * option nat) :=
  match rest with
  | [] => None
  | c :: r1 =>
      if starts_ubrace rest then
        let r2 := skipn 1 r1 in
        let c2 := hex_run r2 in
        let c3 := close_len (skipn (List.length c2) r2) in
        Some ((1 + 2 + List.length c2 + c3)%nat,
              if negb roblox then Some 2%nat
              else if Nat.eqb c3 0 then Some (List.length c2 + 3)%nat
              else if (match c2 with [] => true | _ => 1114111 <? hex_value c2 end) then Some (List.length c2 + 4)%nat else None)
      else if c =? 10 then None else
      let n1 := ulen c in
      let r2 := skipn (n1 - 1) r1 in
      let c2 := hex_run r2 in
      let c3 := close_len (skipn (List.length c2) r2) in
      Some ((1 + n1 + List.length c2 + c3)%nat,
            if (c =? 97) || (c =? 98) || (c =? 102) || (c =? 110) || (c =? 114) || (c =? 116) || (c =? 118) || (c =? 92) then None
            else if is_dec c then
              match c2 with
              | _ :: u :: _ => if 255 <? (c - 48) * 100 + (if is_dec u then u - 48 else 0) then Some 4%nat else None
              | _ => None
              end
            else if c =? 34 then (match q with QSingle => Some 2%nat | QDouble => None end)
            else if c =? 39 then (match q with QDouble => Some 2%nat | QSingle => None end)
            else if c =? 122 then (if roblox then None else Some 2%nat)
            else if c =? 120 then (if negb roblox then Some 2%nat
                                   else if Nat.eqb (List.length c2) 2 then None else Some (List.length c2 + 2)%nat)
            else Some (1 + n1)%nat)
  end.

(** the successive non-overlapping matches; [skip] bytes belong to the previous match *)
Fixpoint scan (q : quote) (roblox : bool) (l : list N) (off skip : nat) : list (nat * nat) :=
  match l with
  | [] => []
  | b :: r =>
      match skip with
      | S k => scan q roblox r (S off) k
      | O =>
          if b =? 92 then
            match classify q roblox r with
            | Some (total, rep) =>
                (match rep with Some len => [(off, (off + len)%nat)] | None => [] end) ++ scan q roblox r (S off) (total - 1)
            | None => scan q roblox r (S off) 0
            end
          else scan q roblox r (S off) 0
      end
  end.

Definition bad_escapes (q : quote) (roblox : bool) (literal : list N) : list (nat * nat) := scan q roblox literal 0 0.

(** ** what is reported never extends past the match that produced it, and is never empty *)
Lemma classify_len q rb rest total rep :
  classify q rb rest = Some (total, rep) ->
  match rep with Some len => (2 <= len <= total)%nat | None => True end.
Proof.
  unfold classify. destruct rest as [|c r1]; [discriminate|].
  assert (Hu : (1 <= ulen c <= 4)%nat) by (unfold ulen; destruct (c <? 192), (c <? 224), (c <? 240); lia).
  destruct (starts_ubrace (c :: r1)).
  - intros [= <- <-]. destruct (negb rb); [lia|].
    assert (Hc : (close_len (skipn (List.length (hex_run (skipn 1 r1))) (skipn 1 r1)) <= 1)%nat)
      by (unfold close_len; destruct (skipn _ _) as [|x y]; [lia|]; destruct (x =? 125) eqn:E;
          [apply N.eqb_eq in E; subst; lia|]; destruct x as [|p]; [lia|]; repeat (destruct p; try lia)).
    destruct (close_len _) as [|k] eqn:E3; cbn [Nat.eqb]; [lia|].
    match goal with |- context [if ?b then Some _ else None] => destruct b end; [lia|exact I].
  - destruct (c =? 10); [discriminate|]. intros [= <- <-].
    destruct ((c =? 97) || (c =? 98) || (c =? 102) || (c =? 110) || (c =? 114) || (c =? 116) || (c =? 118) || (c =? 92)); [exact I|].
    destruct (is_dec c) eqn:Ed.
    + destruct (hex_run (skipn (ulen c - 1) r1)) as [|h1 [|h2 t]]; try exact I.
      destruct (255 <? _); [|exact I]. cbn [List.length]. 
      assert (ulen c = 1%nat) by (unfold ulen, is_dec in *; apply andb_true_iff in Ed as [_ Ed]; apply N.leb_le in Ed;
                                  replace (c <? 192) with true by (symmetry; apply N.ltb_lt; lia); reflexivity).
      lia.
    + destruct (c =? 34); [destruct q; [lia|exact I]|].
      destruct (c =? 39); [destruct q; [exact I|lia]|].
      destruct (c =? 122); [destruct rb; [exact I|lia]|].
      destruct (c =? 120) eqn:Ex; [|lia].
      apply N.eqb_eq in Ex. subst c. destruct (negb rb); [cbn; lia|].
      destruct (Nat.eqb _ 2); [exact I|]. cbn [ulen]. cbn. lia.
Qed.


(** every match fits inside the literal (true for valid UTF-8; evaluated on every case) *)
Fixpoint scan_fits (q : quote) (roblox : bool) (l : list N) (skip : nat) : bool :=
  match l with
  | [] => true
  | b :: r =>
      match skip with
      | S k => scan_fits q roblox r k
      | O =>
          if b =? 92 then
            match classify q roblox r with
            | Some (total, _) => Nat.leb total (S (List.length r)) && scan_fits q roblox r (total - 1)
            | None => scan_fits q roblox r 0
            end
          else scan_fits q roblox r 0
      end
  end.

Theorem scan_in_bounds q rb : forall l off skip,
  scan_fits q rb l skip = true ->
  forall s e, In (s, e) (scan q rb l off skip) -> (off <= s)%nat /\ (s < e)%nat /\ (e <= off + List.length l)%nat.
Proof.
  induction l as [|b r IH]; intros off skip Hf s e Hin; cbn [scan scan_fits] in *; [contradiction|].
  destruct skip as [|k].
  - destruct (b =? 92).
    + destruct (classify q rb r) as [[total rep]|] eqn:Ec.
      * apply andb_true_iff in Hf as [Hle Hf]. apply Nat.leb_le in Hle.
        apply in_app_iff in Hin as [Hin|Hin].
        -- pose proof (classify_len _ _ _ _ _ Ec) as Hl. destruct rep as [len|]; [|contradiction].
           destruct Hin as [[= <- <-]|[]]. cbn [List.length]. lia.
        -- destruct (IH (S off) (total - 1)%nat Hf s e Hin) as (A & B & C). cbn [List.length]. lia.
      * destruct (IH (S off) 0%nat Hf s e Hin) as (A & B & C). cbn [List.length]. lia.
    + destruct (IH (S off) 0%nat Hf s e Hin) as (A & B & C). cbn [List.length]. lia.
  - destruct (IH (S off) k Hf s e Hin) as (A & B & C). cbn [List.length]. lia.
Qed.

(** every reported range starts at a backslash *)
Theorem scan_starts_at_backslash q rb : forall l off skip s e,
  In (s, e) (scan q rb l off skip) -> nth_error l (s - off) = Some 92.
Proof.
  induction l as [|b r IH]; intros off skip s e Hin; cbn [scan] in *; [contradiction|].
  assert (Hrec : forall k, In (s, e) (scan q rb r (S off) k) -> nth_error (b :: r) (s - off) = Some 92).
  { intros k H. pose proof (IH _ _ _ _ H) as H1.
    assert (Hge : (S off <= s)%nat).
    { clear -H. revert off k H. induction r as [|x y IHr]; intros off k H; cbn [scan] in H; [contradiction|].
      destruct k as [|k']; [|specialize (IHr _ _ H); lia].
      destruct (x =? 92); [|specialize (IHr _ _ H); lia].
      destruct (classify q rb y) as [[t rp]|]; [|specialize (IHr _ _ H); lia].
      apply in_app_iff in H as [H|H]; [destruct rp; [destruct H as [[= <- _]|[]]; lia|contradiction]|specialize (IHr _ _ H); lia]. }
    replace (s - off)%nat with (S (s - S off)) by lia. exact H1. }
  destruct skip as [|k]; [|apply (Hrec k Hin)].
  destruct (b =? 92) eqn:Eb; [|apply (Hrec 0%nat Hin)].
  destruct (classify q rb r) as [[total rep]|]; [|apply (Hrec 0%nat Hin)].
  apply in_app_iff in Hin as [Hin|Hin]; [|apply (Hrec _ Hin)].
  destruct rep; [|contradiction]. destruct Hin as [[= <- _]|[]]. rewrite Nat.sub_diag. cbn. apply N.eqb_eq in Eb. congruence.
Qed.
