(** C02, specification side: what the unused_variable model implies, for every program and library. *)
From Selene Require Import Scope.RefsInv Lints.Unused.
From Coq Require Import Lia.
Open Scope nat_scope.

Section Facts.
Context (cfg : ucfg) (l : Std.Lib.lib) (s : st) (chunk : block).

Definition is_static_var (v : rvar) : bool := existsb (range_eq (t_range (v_tok v))) (static_decls chunk).

(** reported = not exempt, and no reference analysed as a read *)
Theorem reported_iff v :
  var_reported cfg l s chunk v = true <->
  var_skipped cfg l v = false /\ (v_self v && u_allow_self cfg = false) /\
  forall a, In a (var_analysis l s chunk v) -> is_read a = false.
Proof.
  unfold var_reported. rewrite !andb_true_iff, !negb_true_iff. split.
  - intros [[H1 H2] H3]. repeat split; auto. intros a Ha. destruct (is_read a) eqn:E; [|reflexivity].
    exfalso. assert (existsb is_read (var_analysis l s chunk v) = true) by (apply existsb_exists; exists a; auto). congruence.
  - intros (H1 & H3 & H2). repeat split; auto. apply not_true_is_false. intros H. apply existsb_exists in H as (a & Ha & E).
    rewrite (H2 a Ha) in E. discriminate.
Qed.

(** a variable that is not a static table: a reference that reads is a use, whatever else it does *)
Theorem read_is_a_use v i r :
  is_static_var v = false -> In (i, r) (refs_of (refs s) v) -> r_read r = true ->
  var_reported cfg l s chunk v = false.
Proof.
  intros Hst Hin Hrd. apply not_true_is_false. intros H. apply reported_iff in H as (_ & _ & H).
  assert (Ha : In (analyse l (refs s) (index_attrs chunk) (call_attrs chunk) (is_static_var v) i r) (var_analysis l s chunk v)).
  { unfold var_analysis. apply in_map_iff. exists (i, r). split; [reflexivity|exact Hin]. }
  specialize (H _ Ha). unfold analyse in H. rewrite Hst, Hrd in H. rewrite !andb_false_r in H. cbn in H. discriminate.
Qed.

(** a static table: a plain read (not a bare argument of a call statement) is a use *)
Theorem plain_read_is_a_use v i r :
  In (i, r) (refs_of (refs s) v) -> r_read r = true -> r_write r = None ->
  attr_of (refs s) (call_attrs chunk) i = None ->
  var_reported cfg l s chunk v = false.
Proof.
  intros Hin Hrd Hw Hca. apply not_true_is_false. intros H. apply reported_iff in H as (_ & _ & H).
  assert (Ha : In (analyse l (refs s) (index_attrs chunk) (call_attrs chunk) (is_static_var v) i r) (var_analysis l s chunk v)).
  { unfold var_analysis. apply in_map_iff. exists (i, r). split; [reflexivity|exact Hin]. }
  specialize (H _ Ha). unfold analyse in H. rewrite Hw, Hrd, Hca in H. cbn in H. destruct (is_static_var v); discriminate.
Qed.

(** an argument of a call to a script-defined function is a use *)
Theorem script_call_argument_is_a_use v i r ca j init vid :
  In (i, r) (refs_of (refs s) v) -> r_read r = true -> r_write r = None ->
  attr_of (refs s) (call_attrs chunk) i = Some ca ->
  ref_at (refs s) (ca_start ca) = Some j -> nth_error (refs s) j = Some init -> r_resolved init = Some vid ->
  var_reported cfg l s chunk v = false.
Proof.
  intros Hin Hrd Hw Hca Hj Hinit Hres. apply not_true_is_false. intros H. apply reported_iff in H as (_ & _ & H).
  assert (Ha : In (analyse l (refs s) (index_attrs chunk) (call_attrs chunk) (is_static_var v) i r) (var_analysis l s chunk v)).
  { unfold var_analysis. apply in_map_iff. exists (i, r). split; [reflexivity|exact Hin]. }
  specialize (H _ Ha). unfold analyse in H. rewrite Hw, Hrd, Hca in H. cbn in H.
  unfold observed_write_arg in H. rewrite Hj, Hinit, Hres in H. destruct (is_static_var v); discriminate.
Qed.

(** only written: reported, unless exempt *)
Theorem only_written_is_reported v :
  var_skipped cfg l v = false -> (v_self v && u_allow_self cfg = false) ->
  (forall i r, In (i, r) (refs_of (refs s) v) -> r_read r = false /\ r_write r <> None) ->
  var_reported cfg l s chunk v = true.
Proof.
  intros H1 H2 H3. apply reported_iff. repeat split; auto. intros a Ha. unfold var_analysis in Ha.
  apply in_map_iff in Ha as ([i r] & <- & Hin). destruct (H3 i r Hin) as [Hrd Hw]. cbn [fst snd]. unfold analyse. rewrite Hrd.
  destruct (r_write r); [|congruence]. cbn [negb andb]. destruct (existsb _ _ && _); reflexivity.
Qed.
End Facts.

(** ** a local whose name is never read anywhere in the file is reported (unless exempt) *)
Theorem never_read_is_reported cfg l chunk s v :
  scope_manager chunk = Some s -> In v (Interp.vars s) ->
  (forall t, In (EvRead t) (events_of_chunk chunk) -> t_name t <> t_name (v_tok v)) ->
  var_skipped cfg l v = false -> (v_self v && u_allow_self cfg = false) ->
  var_reported cfg l s chunk v = true.
Proof.
  intros Hs Hv Hno H1 H2. destruct (scope_manager_ok chunk s Hs) as [Hrw Hrd Hnm].
  apply only_written_is_reported; auto. intros i r Hin. unfold refs_of in Hin. apply in_flat_map in Hin as (id & Hid & Hin).
  destruct (nth_error (refs s) (N.to_nat id)) as [r0|] eqn:E0; [|destruct Hin]. destruct Hin as [[= <- <-]|[]].
  destruct (Hnm v id Hv Hid) as (r1 & Hr1 & Hname). rewrite E0 in Hr1. injection Hr1 as <-.
  assert (Hin0 : In r0 (refs s)) by (apply nth_error_In with (N.to_nat id); exact E0).
  destruct (r_read r0) eqn:Er.
  - exfalso. destruct (Hrd r0 Hin0 Er) as (t & Ht & En). apply (Hno t Ht). congruence.
  - split; [reflexivity|]. destruct (Hrw r0 Hin0) as [H|H]; [congruence|exact H].
Qed.
