From Selene Require Import Scope.Interp Lints.ScopeLints.
Open Scope N_scope.

Definition qualifies (roots : list string) (r : rref) : bool :=
  match r_resolved r with None => true | Some _ => false end
  && r_read r
  && negb ((r_scope r =? 0) && str_eqb (t_name (r_tok r)) "...")
  && negb (existsb (str_eqb (t_name (r_tok r))) roots).

Definition step_ur (roots : list string) (acc : list range) (r : rref) : list range :=
  let id := t_range (r_tok r) in
  if match r_resolved r with None => true | Some _ => false end
     && r_read r && negb (mem_range id acc)
     && negb ((r_scope r =? 0) && str_eqb (t_name (r_tok r)) "...")
     && negb (existsb (str_eqb (t_name (r_tok r))) roots)
  then id :: acc else acc.

Lemma undefined_report_unfold s roots :
  undefined_report s roots = rev (fold_left (step_ur roots) (refs s) []).
Proof. reflexivity. Qed.

Lemma step_ur_cases roots acc r :
  step_ur roots acc r = if qualifies roots r && negb (mem_range (t_range (r_tok r)) acc)
                        then t_range (r_tok r) :: acc else acc.
Proof.
  unfold step_ur, qualifies.
  destruct (r_resolved r), (r_read r), (mem_range (t_range (r_tok r)) acc),
    ((r_scope r =? 0) && str_eqb (t_name (r_tok r)) "..."), (existsb (str_eqb (t_name (r_tok r))) roots); reflexivity.
Qed.

Lemma range_eq_true a b : range_eq a b = true <-> a = b.
Proof.
  unfold range_eq. destruct a, b. cbn. rewrite andb_true_iff, !N.eqb_eq. split; [intros [-> ->]; reflexivity|intros [= -> ->]; auto].
Qed.

Lemma mem_range_In r l : mem_range r l = true <-> In r l.
Proof.
  unfold mem_range. rewrite existsb_exists. split.
  - intros [x [Hx He]]. apply range_eq_true in He. subst. exact Hx.
  - intros H. exists r. split; [exact H|apply range_eq_true; reflexivity].
Qed.

(** every reported identifier belongs to a qualifying reference; no identifier is reported twice;
    every qualifying reference's identifier is reported *)
Lemma fold_ur_inv roots rs acc :
  NoDup acc ->
  let out := fold_left (step_ur roots) rs acc in
  NoDup out /\
  (forall id, In id out -> In id acc \/ exists r, In r rs /\ qualifies roots r = true /\ t_range (r_tok r) = id) /\
  (forall id, In id acc -> In id out) /\
  (forall r, In r rs -> qualifies roots r = true -> In (t_range (r_tok r)) out).
Proof.
  revert acc. induction rs as [|r rs IH]; intros acc Hnd; cbn [fold_left].
  - repeat split; auto. intros r [].
  - rewrite step_ur_cases.
    destruct (qualifies roots r && negb (mem_range (t_range (r_tok r)) acc)) eqn:E.
    + apply andb_true_iff in E as [Eq En]. apply negb_true_iff in En.
      assert (Hnotin : ~ In (t_range (r_tok r)) acc).
      { intros H. apply mem_range_In in H. congruence. }
      destruct (IH (t_range (r_tok r) :: acc) (NoDup_cons _ Hnotin Hnd)) as (H1 & H2 & H3 & H4).
      repeat split.
      * exact H1.
      * intros id Hid. destruct (H2 id Hid) as [[<-|Hin]|(r' & Hr' & Hq & He)].
        -- right. exists r. repeat split; auto. left. reflexivity.
        -- left. exact Hin.
        -- right. exists r'. repeat split; auto. right. exact Hr'.
      * intros id Hid. apply H3. right. exact Hid.
      * intros r' [<-|Hr'] Hq; [apply H3; left; reflexivity|apply H4; assumption].
    + destruct (IH acc Hnd) as (H1 & H2 & H3 & H4).
      repeat split.
      * exact H1.
      * intros id Hid. destruct (H2 id Hid) as [Hin|(r' & Hr' & Hq & He)]; [left; exact Hin|].
        right. exists r'. repeat split; auto. right. exact Hr'.
      * exact H3.
      * intros r' [<-|Hr'] Hq; [|apply H4; assumption].
        rewrite Hq in E. cbn [andb] in E. apply negb_false_iff in E. apply mem_range_In in E. apply H3. exact E.
Qed.

Theorem undefined_report_exact s roots :
  NoDup (undefined_report s roots) /\
  (forall id, In id (undefined_report s roots) <->
              exists r, In r (refs s) /\ qualifies roots r = true /\ t_range (r_tok r) = id).
Proof.
  rewrite undefined_report_unfold.
  destruct (fold_ur_inv roots (refs s) [] (NoDup_nil _)) as (H1 & H2 & _ & H4).
  split; [apply NoDup_rev; exact H1|].
  intros id. rewrite <- in_rev. split.
  - intros H. destruct (H2 id H) as [[]|Hex]. exact Hex.
  - intros (r & Hr & Hq & <-). apply H4; assumption.
Qed.
