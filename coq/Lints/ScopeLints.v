(** Models of the lints that read the scope analysis directly:
    undefined_variable (undefined_variable.rs:27-63) and shadowing (shadowing.rs:38-84). *)
From Selene Require Export Scope.Interp.
Open Scope N_scope.

Definition mem_range (r : range) (l : list range) : bool := existsb (range_eq r) l.

(** report = unresolved && read && not yet reported at this identifier
             && not (`...` in the initial scope) && not a standard-library root *)
Definition undefined_report (s : st) (roots : list string) : list range :=
  rev (fold_left (fun acc r =>
         let id := t_range (r_tok r) in
         if match r_resolved r with None => true | Some _ => false end
            && r_read r && negb (mem_range id acc)
            && negb ((r_scope r =? 0) && str_eqb (t_name (r_tok r)) "...")
            && negb (existsb (str_eqb (t_name (r_tok r))) roots)
         then id :: acc else acc) (refs s) []).

Definition starts_with_underscore (name : string) : bool :=
  match name with String a _ => (N_of_ascii a =? 95) | EmptyString => false end.

(** every variable with a shadowed one, unless ignored (default pattern ^_) or named `...`:
    (new declaration, shadowed declaration) *)
Definition shadowing_report_with (ign : string -> bool) (s : st) : list (range * range) :=
  flat_map (fun v =>
    match v_shadowed v with
    | Some sid =>
        let name := t_name (v_tok v) in
        if ign name || str_eqb name "..." then []
        else match nth_error (vars s) (N.to_nat sid) with
             | Some sv => [(t_range (v_tok v), t_range (v_tok sv))]
             | None => []
             end
    | None => []
    end) (vars s).

(** the default configuration (ignore_pattern = "^_") *)
Definition shadowing_report (s : st) : list (range * range) :=
  flat_map (fun v =>
    match v_shadowed v with
    | Some sid =>
        let name := t_name (v_tok v) in
        if starts_with_underscore name || str_eqb name "..." then []
        else match nth_error (vars s) (N.to_nat sid) with
             | Some sv => [(t_range (v_tok v), t_range (v_tok sv))]
             | None => []
             end
    | None => []
    end) (vars s).

Lemma shadowing_report_default s : shadowing_report s = shadowing_report_with starts_with_underscore s.
Proof. reflexivity. Qed.
