(** C02: unused_variable (selene-lib/src/lints/unused_variable.rs:54-215) over the scope model's state,
    the syntax tree and the standard library.

    Besides the two arenas of Scope/Interp.v the lint reads three things the ScopeManager records:
    [Variable.value] (a local initialised with a table constructor: visit_local_assignment),
    [Reference.indexing] (adjust_indexing, called by read_var) and [Reference.within_function_stmt]
    (process_function_call_finish, for the bare-identifier arguments of a call statement).  All three
    are functions of the syntax alone and are recomputed here from the tree; they are attached to a
    reference the way the implementation does it: to the first reference, in arena order, whose
    identifier range contains the node's first byte (reference_at_byte, bounds inclusive). *)
From Selene Require Export Scope.Interp Lints.Closed.
From Selene Require Std.Lib Std.FindGlobal.
Open Scope N_scope.

(** ** A. declarations initialised with a table constructor *)
Fixpoint zip_static (names : list tok) (es : exprs) : list range :=
  match names, es with
  | n :: r, EsCons e es' => (match e with ETable _ => [t_range n] | _ => [] end) ++ zip_static r es'
  | _, _ => []
  end.
Definition static_of_node (n : node) : list range :=
  match n with NStmt (SLocal names es) => zip_static names es | _ => [] end.
Definition static_decls (chunk : block) : list range := flat_map static_of_node (nodes_block chunk).

(** ** B. indexing: (first byte of the var expression, number of index suffixes, one of them static) *)
Fixpoint static_token (e : expr) : bool :=
  match e with
  | EParen e' => static_token e'
  | ENumber _ | EString _ | ENil | ETrue | EFalse | EVararg _ => true
  | _ => false
  end.
Definition index_static (i : index) : bool := match i with IDot _ => true | IBrackets e => static_token e end.

(** [None]: a call among the suffixes (adjust_indexing returns without recording anything) *)
Fixpoint all_index (ss : suffixes) : option (nat * bool) :=
  match ss with
  | SsNil => Some (O, false)
  | SsCons (SfxCall _) _ => None
  | SsCons (SfxIndex i) r =>
      match all_index r with Some (n, st) => Some (S n, index_static i || st) | None => None end
  end.

Definition prefix_start (p : prefix) (rng : range) : N := match p with PName t => t_lo t | PExpr _ => fst rng end.

Definition index_of_var (v : var) : list (N * (nat * bool)) :=
  match v with
  | VExpr p ss rng =>
      match all_index ss with
      | Some (S n, st) => [(prefix_start p rng, (S n, st))]
      | _ => []
      end
  | VName _ => []
  end.

Fixpoint vars_list (vs : vars) : list var := match vs with VsNil => [] | VsCons v r => v :: vars_list r end.

Definition vars_of_node (n : node) : list var :=
  match n with
  | NExpr (EVar v) => [v]
  | NStmt (SAssign vs _) => vars_list vs
  | _ => []
  end.

Definition index_attrs (chunk : block) : list (N * (nat * bool)) :=
  flat_map (fun n => flat_map index_of_var (vars_of_node n)) (nodes_block chunk).

(** ** C. call statements: get_name_path_from_call and the bare-identifier arguments *)
Fixpoint suffix_list (ss : suffixes) : list suffix := match ss with SsNil => [] | SsCons s r => s :: suffix_list r end.

Fixpoint path_of (ss : list suffix) (acc : list string) : option (list string) :=
  match ss with
  | [] => Some acc
  | SfxIndex (IDot name) :: r => path_of r (acc ++ [t_name name])
  | SfxIndex (IBrackets _) :: _ => None
  | SfxCall _ :: r => match r with [] => Some acc | _ => None end
  end.

Definition call_name_path (c : fcall) : option (list string) :=
  match c with
  | FCall (PName t) ss _ => path_of (suffix_list ss) [t_name t]
  | FCall (PExpr _) _ _ => None
  end.

Record call_attr := { ca_path : list string; ca_start : N; ca_index : nat }.

Fixpoint ident_args (es : list expr) (i : nat) (path : list string) (start : N) : list (N * call_attr) :=
  match es with
  | [] => []
  | EVar (VName t) :: r => (t_lo t, {| ca_path := path; ca_start := start; ca_index := i |}) :: ident_args r (S i) path start
  | _ :: r => ident_args r (S i) path start
  end.

Definition last_call_args (ss : list suffix) : option args :=
  match rev ss with
  | SfxCall (CAnon a) :: _ => Some a
  | SfxCall (CMethod _ a) :: _ => Some a
  | _ => None
  end.

Definition call_of_node (n : node) : list (N * call_attr) :=
  match n with
  | NStmt (SCallStmt (FCall p ss rng as c)) =>
      match call_name_path c with
      | Some path =>
          match last_call_args (suffix_list ss) with
          | Some (AParens es) => ident_args (exprs_to_list es) O path (prefix_start p rng)
          | _ => []
          end
      | None => []
      end
  | _ => []
  end.

Definition call_attrs (chunk : block) : list (N * call_attr) := flat_map call_of_node (nodes_block chunk).

(** ** reference_at_byte: first reference whose identifier range contains the byte, bounds inclusive *)
Definition contains (r : rref) (b : N) : bool := (t_lo (r_tok r) <=? b) && (b <=? t_hi (r_tok r)).
Definition ref_at (rs : list rref) (b : N) : option nat := find_index (fun r => contains r b) rs O.

Definition owner_is (rs : list rref) (i : nat) (b : N) : bool :=
  match ref_at rs b with Some j => Nat.eqb i j | None => false end.

(** the attribute recorded last wins (the implementation overwrites) *)
Definition attr_of {A} (rs : list rref) (attrs : list (N * A)) (i : nat) : option A :=
  match find (fun a => owner_is rs i (fst a)) (rev attrs) with Some a => Some (snd a) | None => None end.

(** ** the lint *)
Inductive analysed := ARead | APlainWrite | AObservedWrite.

Definition is_read (a : analysed) : bool := match a with ARead => true | _ => false end.

Definition observed_write_arg (l : Std.Lib.lib) (rs : list rref) (ca : call_attr) : bool :=
  match ref_at rs (ca_start ca) with
  | Some j =>
      match nth_error rs j with
      | Some init =>
          match r_resolved init with
          | Some _ => false                                (* the callee is script defined *)
          | None =>
              match Std.FindGlobal.find_global l (ca_path ca) with
              | Std.FindGlobal.Found f =>
                  match Std.Lib.f_kind f with
                  | Std.Lib.FFunction b =>
                      match nth_error (Std.Lib.fn_args b) (ca_index ca) with
                      | Some a => match Std.Lib.arg_observes a with Std.Lib.ObsWrite => true | _ => false end
                      | None => false
                      end
                  | _ => false
                  end
              | _ => false
              end
          end
      | None => false
      end
  | None => false
  end.

Definition analyse (l : Std.Lib.lib) (rs : list rref) (ix : list (N * (nat * bool))) (cs : list (N * call_attr))
           (is_static : bool) (i : nat) (r : rref) : analysed :=
  let written := match r_write r with Some _ => true | None => false end in
  if written && is_static &&
     match attr_of rs ix i with Some (n, st) => Nat.eqb n 1 && st | None => false end
  then AObservedWrite
  else if written && negb (r_read r) then APlainWrite
  else if negb is_static then ARead
  else match attr_of rs cs i with
       | None => ARead
       | Some ca => if observed_write_arg l rs ca then AObservedWrite else ARead
       end.

Record ucfg := { u_ignored : string -> bool; u_allow_self : bool }.

Definition refs_of (rs : list rref) (v : rvar) : list (nat * rref) :=
  flat_map (fun id => match nth_error rs (N.to_nat id) with Some r => [(N.to_nat id, r)] | None => [] end) (v_refs v).

Definition var_analysis (l : Std.Lib.lib) (s : st) (chunk : block) (v : rvar) : list analysed :=
  let is_static := existsb (range_eq (t_range (v_tok v))) (static_decls chunk) in
  map (fun ir => analyse l (refs s) (index_attrs chunk) (call_attrs chunk) is_static (fst ir) (snd ir)) (refs_of (refs s) v).

Definition var_skipped (cfg : ucfg) (l : Std.Lib.lib) (v : rvar) : bool :=
  u_ignored cfg (t_name (v_tok v)) || Std.FindGlobal.global_has_fields l (t_name (v_tok v)).

Definition var_reported (cfg : ucfg) (l : Std.Lib.lib) (s : st) (chunk : block) (v : rvar) : bool :=
  negb (var_skipped cfg l v) &&
  negb (existsb is_read (var_analysis l s chunk v)) &&
  negb (v_self v && u_allow_self cfg).

(** (declaring identifier, "assigned a value, but never used" rather than "defined, but never used") *)
Definition unused_report (cfg : ucfg) (l : Std.Lib.lib) (s : st) (chunk : block) : list (range * bool) :=
  flat_map (fun v => if var_reported cfg l s chunk v
                     then [(t_range (v_tok v), match var_analysis l s chunk v with [] => false | _ => true end)]
                     else []) (Interp.vars s).
