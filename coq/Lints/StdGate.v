(** C07: the gate that keeps the standard-library lints away from re-bound names.
    standard_library.rs:273-280/370-377/385-392 and deprecated.rs:170-195 start every visit with
      if reference_at_byte(start).resolved.is_some() { return / continue }
    and must_use (after the R1 repair) skips call statements whose initial reference is resolved. *)
From Selene Require Import Lua.Map Scope.Interp Scope.Equivariance Scope.EquivInterp.
Open Scope N_scope.

(** ScopeManager::reference_at_byte: first reference in arena order whose identifier range
    contains the byte, upper bound inclusive *)
Definition reference_at_byte (s : st) (b : N) : option rref :=
  find (fun r => (t_lo (r_tok r) <=? b) && (b <=? t_hi (r_tok r))) (refs s).

Definition gated (s : st) (b : N) : bool :=
  match reference_at_byte s b with
  | Some r => match r_resolved r with Some _ => true | None => false end
  | None => false
  end.

(** a lint pass = what it would report at each visited node (start byte, findings); the gate
    drops the node when its leading identifier resolved to a script variable *)
Definition gate_pass {A} (s : st) (visits : list (N * list A)) : list A :=
  flat_map (fun v => if gated s (fst v) then [] else snd v) visits.

Theorem rebound_silent {A} (s : st) (visits : list (N * list A)) :
  Forall (fun v => gated s (fst v) = true) visits -> gate_pass s visits = [].
Proof.
  induction 1 as [|v l Hv _ IH]; cbn [gate_pass flat_map]; [reflexivity|].
  rewrite Hv. exact IH.
Qed.

Theorem ungated_unchanged {A} (s s' : st) (visits : list (N * list A)) :
  Forall (fun v => gated s (fst v) = gated s' (fst v)) visits -> gate_pass s visits = gate_pass s' visits.
Proof.
  induction 1 as [|v l Hv _ IH]; cbn [gate_pass flat_map]; [reflexivity|].
  rewrite Hv. f_equal. exact IH.
Qed.

(** "as if the binding were absent": alpha-renaming the binding (and the uses in its scope) to a
    fresh name leaves the resolution status of every reference unchanged - in particular that of
    the uses outside its scope, whose spelling is not touched. *)
Theorem renaming_preserves_resolution rho phi
  (rho_inj : forall a b, rho a = rho b -> a = b) (rho_vararg : rho "..." = "...")
  (phi_inj : forall a b, phi a = phi b -> a = b) (rho_self : rho "self" = "self") chunk s :
  scope_manager chunk = Some s ->
  exists s', scope_manager (map_block rho phi chunk) = Some s' /\
             map r_resolved (refs s') = map r_resolved (refs s) /\
             map (fun r => t_range (r_tok r)) (refs s') = map (fun r => phi (t_range (r_tok r))) (refs s).
Proof.
  intros Hs. rewrite (scope_manager_equivariant rho phi rho_inj rho_vararg phi_inj rho_self), Hs.
  eexists. split; [reflexivity|]. cbn [map_st refs]. rewrite !map_map. split; apply map_ext; intros r.
  - reflexivity.
  - cbn [map_ref r_tok]. apply t_range_mt.
Qed.
