(** C04, multiple_statements (selene-lib/src/lints/multiple_statements.rs) as a machine over the statements
    in the order full_moon's Visitor reaches them.  What the model takes as given for each statement:
    the line its last token ends on, and for an `if` the line of its `then` token and whether its first
    block has statements / a last statement (measured from full_moon's positions by the harness). *)
From Selene Require Export Base.Util.
From Coq Require Import Lia.

Inductive one_line_if := OAllow | ODeny | OBreakReturn.

Record sev := {
  sv_id : N;                            (* start byte of the statement *)
  sv_line : N;                          (* line its end position is on *)
  sv_if : option (N * bool * bool)      (* `if`: line of `then`, block has statements, block has a last statement *)
}.

Record lstate := { if_lines : list N; with_stmt : list N; reported : list N }.

Definition mem (x : N) (l : list N) : bool := existsb (N.eqb x) l.

Definition prepare (cfg : one_line_if) (st : lstate) (e : sev) : lstate :=
  match sv_if e with
  | Some (tl, has_stmts, has_last) =>
      let ins := {| if_lines := if mem tl (if_lines st) then if_lines st else tl :: if_lines st;
                    with_stmt := with_stmt st; reported := reported st |} in
      match cfg with
      | ODeny => st
      | OBreakReturn => if has_stmts || negb has_last then st else ins
      | OAllow => ins
      end
  | None => st
  end.

Definition lint_stmt (st : lstate) (e : sev) : lstate :=
  let line := sv_line e in
  if mem line (with_stmt st) then
    {| if_lines := if_lines st; with_stmt := with_stmt st; reported := reported st ++ [sv_id e] |}
  else if mem line (if_lines st) then
    {| if_lines := filter (fun x => negb (N.eqb x line)) (if_lines st); with_stmt := with_stmt st; reported := reported st |}
  else
    {| if_lines := if_lines st; with_stmt := line :: with_stmt st; reported := reported st |}.

Definition lstep (cfg : one_line_if) (st : lstate) (e : sev) : lstate := lint_stmt (prepare cfg st e) e.

Definition lines_run (cfg : one_line_if) (evs : list sev) : lstate :=
  fold_left (lstep cfg) evs {| if_lines := []; with_stmt := []; reported := [] |}.

(** ** facts *)
Lemma mem_in x l : mem x l = true <-> In x l.
Proof.
  unfold mem. rewrite existsb_exists. split.
  - intros (y & Hy & E). apply N.eqb_eq in E. subst. exact Hy.
  - intros H. exists x. split; [exact H|apply N.eqb_refl].
Qed.

Lemma prepare_keeps cfg st e : with_stmt (prepare cfg st e) = with_stmt st /\ reported (prepare cfg st e) = reported st.
Proof.
  unfold prepare. destruct (sv_if e) as [[[tl hs] hl]|]; [|auto]. destruct cfg; auto. destruct (hs || negb hl); auto.
Qed.

(** the lines known to hold a statement: each is the end line of an event seen so far *)
Definition lines_of (evs : list sev) : list N := map sv_line evs.

Lemma lstep_with cfg st e x : In x (with_stmt (lstep cfg st e)) -> In x (with_stmt st) \/ x = sv_line e.
Proof.
  unfold lstep, lint_stmt. destruct (prepare_keeps cfg st e) as [Hw _].
  destruct (mem _ (with_stmt _)); cbn [with_stmt]; [rewrite Hw; auto|].
  destruct (mem _ (if_lines _)); cbn [with_stmt]; [rewrite Hw; auto|]. rewrite Hw. intros [<-|H]; auto.
Qed.

Lemma lstep_with_mono cfg st e x : In x (with_stmt st) -> In x (with_stmt (lstep cfg st e)).
Proof.
  unfold lstep, lint_stmt. destruct (prepare_keeps cfg st e) as [Hw _].
  destruct (mem _ (with_stmt _)); cbn [with_stmt]; [rewrite Hw; auto|].
  destruct (mem _ (if_lines _)); cbn [with_stmt]; [rewrite Hw; auto|]. rewrite Hw. intros H. right. exact H.
Qed.

Lemma lstep_reported cfg st e :
  reported (lstep cfg st e) = reported st ++ (if mem (sv_line e) (with_stmt st) then [sv_id e] else []).
Proof.
  unfold lstep, lint_stmt. destruct (prepare_keeps cfg st e) as [Hw Hr]. rewrite Hw.
  destruct (mem _ (with_stmt st)); cbn [reported]; [rewrite Hr; reflexivity|].
  destruct (mem _ (if_lines _)); cbn [reported]; rewrite Hr, app_nil_r; reflexivity.
Qed.

Lemma fold_with cfg evs : forall st x,
  In x (with_stmt (fold_left (lstep cfg) evs st)) -> In x (with_stmt st) \/ In x (lines_of evs).
Proof.
  induction evs as [|e r IH]; intros st x; cbn [fold_left lines_of map]; [auto|].
  intros H. destruct (IH _ _ H) as [H1|H1]; [|right; right; exact H1].
  destruct (lstep_with _ _ _ _ H1) as [H2| ->]; [left; exact H2|right; left; reflexivity].
Qed.

Lemma fold_with_mono cfg evs : forall st x, In x (with_stmt st) -> In x (with_stmt (fold_left (lstep cfg) evs st)).
Proof.
  induction evs as [|e r IH]; intros st x H; cbn [fold_left]; [exact H|]. apply IH, lstep_with_mono, H.
Qed.

(** ** never on a false condition: a reported statement ends on the line an earlier statement ends on *)
Lemma fold_reported_sound cfg evs : forall st id,
  In id (reported (fold_left (lstep cfg) evs st)) ->
  In id (reported st) \/
  exists pre e post, evs = pre ++ e :: post /\ sv_id e = id /\
    (In (sv_line e) (with_stmt st) \/ In (sv_line e) (lines_of pre)).
Proof.
  induction evs as [|e r IH]; intros st id; cbn [fold_left]; [auto|].
  intros H. destruct (IH _ _ H) as [H1|(pre & e' & post & -> & Hid & Hl)].
  - rewrite lstep_reported in H1. apply in_app_iff in H1 as [H1|H1]; [left; exact H1|].
    destruct (mem (sv_line e) (with_stmt st)) eqn:Em; [|destruct H1]. destruct H1 as [<-|[]].
    right. exists [], e, r. split; [reflexivity|]. split; [reflexivity|]. left. apply mem_in. exact Em.
  - right. exists (e :: pre), e', post. split; [reflexivity|]. split; [exact Hid|].
    destruct Hl as [Hl|Hl]; [|right; right; exact Hl].
    destruct (lstep_with _ _ _ _ Hl) as [H2|H2]; [left; exact H2|right; left; symmetry; exact H2].
Qed.

Theorem lines_sound cfg evs id :
  In id (reported (lines_run cfg evs)) ->
  exists pre e post e0, evs = pre ++ e :: post /\ sv_id e = id /\ In e0 pre /\ sv_line e0 = sv_line e.
Proof.
  unfold lines_run. intros H. destruct (fold_reported_sound _ _ _ _ H) as [[]|(pre & e & post & -> & Hid & [[]|Hl])].
  unfold lines_of in Hl. apply in_map_iff in Hl as (e0 & He0 & Hin). exists pre, e, post, e0. auto.
Qed.

(** ** the documented pattern `foo() bar() baz()`: of three statements ending on one line, none of them
    (nor anything visited between them) an `if`, the third is reported - under every configuration and
    whatever was visited before *)
Definition not_if (e : sev) : Prop := sv_if e = None.

Lemma lstep_not_if cfg st e : not_if e -> lstep cfg st e = lint_stmt st e.
Proof. unfold not_if, lstep, prepare. intros ->. reflexivity. Qed.

Lemma lint_if_lines_shrink st e x : ~ In x (if_lines st) -> ~ In x (if_lines (lint_stmt st e)).
Proof.
  unfold lint_stmt. destruct (mem _ (with_stmt st)); cbn [if_lines]; [auto|].
  destruct (mem _ (if_lines st)); cbn [if_lines]; [|auto]. intros H Hin. apply filter_In in Hin as [Hin _]. auto.
Qed.

(** after a non-`if` statement ending on line L: L is recorded, or no one-line-if allowance for L is left *)
Lemma lint_settles st e : In (sv_line e) (with_stmt (lint_stmt st e)) \/ ~ In (sv_line e) (if_lines (lint_stmt st e)).
Proof.
  unfold lint_stmt. destruct (mem (sv_line e) (with_stmt st)) eqn:Ew; cbn [with_stmt if_lines].
  - left. apply mem_in. exact Ew.
  - destruct (mem (sv_line e) (if_lines st)) eqn:Ei; cbn [with_stmt if_lines].
    + right. intros Hin. apply filter_In in Hin as [_ Hn]. rewrite N.eqb_refl in Hn. discriminate.
    + left. left. reflexivity.
Qed.

Lemma fold_settled cfg mid : Forall not_if mid -> forall st L,
  In L (with_stmt st) \/ ~ In L (if_lines st) ->
  let st' := fold_left (lstep cfg) mid st in In L (with_stmt st') \/ ~ In L (if_lines st').
Proof.
  induction 1 as [|e r He _ IH]; intros st L H; cbn [fold_left]; [exact H|].
  apply IH. rewrite (lstep_not_if _ _ _ He). destruct H as [H|H].
  - left. rewrite <- (lstep_not_if cfg _ _ He). apply lstep_with_mono. exact H.
  - right. apply lint_if_lines_shrink. exact H.
Qed.

Lemma lint_records st e : ~ In (sv_line e) (if_lines st) -> In (sv_line e) (with_stmt (lint_stmt st e)).
Proof.
  intros Hn. unfold lint_stmt. destruct (mem (sv_line e) (with_stmt st)) eqn:Ew; cbn [with_stmt]; [apply mem_in; exact Ew|].
  destruct (mem (sv_line e) (if_lines st)) eqn:Ei; [apply mem_in in Ei; contradiction|]. left. reflexivity.
Qed.

Lemma fold_reported_mono cfg evs : forall st id, In id (reported st) -> In id (reported (fold_left (lstep cfg) evs st)).
Proof.
  induction evs as [|e r IH]; intros st id H; cbn [fold_left]; [exact H|].
  apply IH. rewrite lstep_reported. apply in_app_iff. left. exact H.
Qed.

Theorem lines_canonical cfg pre e1 mid1 e2 mid2 e3 post :
  not_if e1 -> not_if e2 -> not_if e3 -> Forall not_if mid1 -> Forall not_if mid2 ->
  sv_line e2 = sv_line e1 -> sv_line e3 = sv_line e1 ->
  In (sv_id e3) (reported (lines_run cfg (pre ++ e1 :: mid1 ++ e2 :: mid2 ++ e3 :: post))).
Proof.
  intros N1 N2 N3 M1 M2 L2 L3. unfold lines_run.
  rewrite fold_left_app. set (s0 := fold_left (lstep cfg) pre _). cbn [fold_left].
  rewrite fold_left_app. cbn [fold_left]. rewrite fold_left_app. cbn [fold_left].
  set (s1 := lstep cfg s0 e1).
  assert (H1 : In (sv_line e1) (with_stmt s1) \/ ~ In (sv_line e1) (if_lines s1)).
  { unfold s1. rewrite (lstep_not_if _ _ _ N1). apply lint_settles. }
  set (s2 := fold_left (lstep cfg) mid1 s1).
  assert (H2 : In (sv_line e1) (with_stmt s2) \/ ~ In (sv_line e1) (if_lines s2)) by (apply fold_settled; assumption).
  set (s3 := lstep cfg s2 e2).
  assert (H3 : In (sv_line e1) (with_stmt s3)).
  { unfold s3. destruct H2 as [H2|H2]; [apply lstep_with_mono; exact H2|].
    rewrite (lstep_not_if _ _ _ N2). rewrite <- L2. apply lint_records. rewrite L2. exact H2. }
  set (s4 := fold_left (lstep cfg) mid2 s3).
  assert (H4 : In (sv_line e1) (with_stmt s4)) by (apply fold_with_mono; exact H3).
  apply fold_reported_mono. rewrite lstep_reported. apply in_app_iff. right.
  rewrite L3. replace (mem (sv_line e1) (with_stmt s4)) with true by (symmetry; apply mem_in; exact H4). left. reflexivity.
Qed.

(** with one_line_if = "deny" the lint is exact: a statement is reported iff an earlier one ends on its line *)
Lemma deny_if_lines evs : forall st, if_lines st = [] -> if_lines (fold_left (lstep ODeny) evs st) = [].
Proof.
  induction evs as [|e r IH]; intros st H; cbn [fold_left]; [exact H|]. apply IH.
  unfold lstep, prepare. replace (match sv_if e with Some (tl, _, _) => st | None => st end) with st
    by (destruct (sv_if e) as [[[? ?] ?]|]; reflexivity).
  unfold lint_stmt. rewrite H. cbn [mem existsb]. destruct (mem _ (with_stmt st)); cbn [if_lines]; reflexivity.
Qed.

Lemma deny_with evs : forall st x, if_lines st = [] ->
  In x (lines_of evs) -> In x (with_stmt (fold_left (lstep ODeny) evs st)).
Proof.
  induction evs as [|e r IH]; intros st x Hi; cbn [fold_left lines_of map]; [intros []|].
  assert (Hi' : if_lines (lstep ODeny st e) = []) by (apply (deny_if_lines [e]); exact Hi).
  intros [<-|H]; [|apply IH; assumption]. apply fold_with_mono.
  unfold lstep, prepare. replace (match sv_if e with Some (tl, _, _) => st | None => st end) with st
    by (destruct (sv_if e) as [[[? ?] ?]|]; reflexivity).
  apply lint_records. rewrite Hi. intros [].
Qed.

Theorem lines_deny_complete pre e post e0 :
  In e0 pre -> sv_line e0 = sv_line e -> In (sv_id e) (reported (lines_run ODeny (pre ++ e :: post))).
Proof.
  intros Hin Hl. unfold lines_run. rewrite fold_left_app. cbn [fold_left]. apply fold_reported_mono.
  rewrite lstep_reported. apply in_app_iff. right.
  set (s := fold_left (lstep ODeny) pre _).
  assert (H : In (sv_line e) (with_stmt s)).
  { apply deny_with; [reflexivity|]. rewrite <- Hl. unfold lines_of. apply in_map. exact Hin. }
  replace (mem (sv_line e) (with_stmt s)) with true by (symmetry; apply mem_in; exact H). left. reflexivity.
Qed.

(** ** a computable lower bound used on the implementation's output: the statements that are at least the
    third one ending on their line within a run of consecutive non-`if` statements *)
Definition on_line (L : N) (e : sev) : bool := N.eqb (sv_line e) L.

Fixpoint must_loop (run : list sev) (evs : list sev) : list N :=
  match evs with
  | [] => []
  | e :: r =>
      match sv_if e with
      | Some _ => must_loop [] r
      | None => (if Nat.leb 2 (List.length (filter (on_line (sv_line e)) run)) then [sv_id e] else []) ++ must_loop (run ++ [e]) r
      end
  end.

Definition must_report (evs : list sev) : list N := must_loop [] evs.

Lemma filter_split1 L run : (1 <= List.length (filter (on_line L) run))%nat ->
  exists a e b, run = a ++ e :: b /\ sv_line e = L /\ filter (on_line L) a = [].
Proof.
  induction run as [|x r IH]; cbn [filter List.length]; [lia|]. destruct (on_line L x) eqn:E.
  - intros _. exists [], x, r. repeat split. apply N.eqb_eq. exact E.
  - intros H. destruct (IH H) as (a & e & b & -> & Hl & Hf). exists (x :: a), e, b. repeat split; auto. cbn [filter]. rewrite E. exact Hf.
Qed.

Lemma filter_split2 L run : (2 <= List.length (filter (on_line L) run))%nat ->
  exists a e1 b e2 c, run = a ++ e1 :: b ++ e2 :: c /\ sv_line e1 = L /\ sv_line e2 = L.
Proof.
  intros H. destruct (filter_split1 L run) as (a & e1 & rest & -> & Hl1 & Hf); [lia|].
  rewrite filter_app, Hf in H. cbn [app filter] in H. replace (on_line L e1) with true in H by (symmetry; apply N.eqb_eq; exact Hl1).
  cbn [List.length] in H. destruct (filter_split1 L rest) as (b & e2 & c & -> & Hl2 & _); [lia|].
  exists a, e1, b, e2, c. repeat split; auto.
Qed.

Lemma must_loop_sound cfg evs : forall pre run id,
  Forall not_if run -> In id (must_loop run evs) -> In id (reported (lines_run cfg (pre ++ run ++ evs))).
Proof.
  induction evs as [|e r IH]; intros pre run id Hrun; cbn [must_loop]; [intros []|].
  destruct (sv_if e) as [i|] eqn:Ei.
  - intros H. specialize (IH (pre ++ run ++ [e]) [] id (Forall_nil _) H). cbn [app] in IH.
    rewrite <- !app_assoc in IH. cbn [app] in IH. exact IH.
  - intros H. apply in_app_iff in H as [H|H].
    + destruct (Nat.leb 2 _) eqn:E2; [|destruct H]. destruct H as [<-|[]]. apply Nat.leb_le in E2.
      destruct (filter_split2 _ _ E2) as (a & e1 & b & e2 & c & -> & L1 & L2).
      assert (Ha : Forall not_if (a ++ e1 :: b ++ e2 :: c)) by exact Hrun.
      apply Forall_app in Ha as [_ Ha]. inversion Ha as [|? ? N1 Hb]; subst.
      apply Forall_app in Hb as [Hb Hc]. inversion Hc as [|? ? N2 Hc']; subst.
      replace (pre ++ (a ++ e1 :: b ++ e2 :: c) ++ e :: r) with ((pre ++ a) ++ e1 :: b ++ e2 :: c ++ e :: r)
        by (rewrite <- !app_assoc; cbn [app]; rewrite <- !app_assoc; reflexivity).
      apply lines_canonical; auto; congruence.
    + specialize (IH pre (run ++ [e]) id). rewrite <- app_assoc in IH. cbn [app] in IH. apply IH; [|exact H].
      apply Forall_app. split; [exact Hrun|constructor; [exact Ei|constructor]].
Qed.

Theorem must_report_sound cfg evs id : In id (must_report evs) -> In id (reported (lines_run cfg evs)).
Proof. intros H. apply (must_loop_sound cfg evs [] [] id (Forall_nil _) H). Qed.
