(** C04, the "same text" lints: if_same_then_else, ifs_same_cond, almost_swapped, transcribed from
    selene-lib/src/lints/{if_same_then_else, ifs_same_cond, almost_swapped}.rs and
    selene-lib/src/ast_util/side_effects.rs.

    full_moon's [Node::similar] compares two nodes field by field, tokens by their token type (kind and
    text), ignoring trivia and positions; [Punctuated] sequences are compared item by item, their
    separators ignored.  Here a node is flattened to the texts of its tokens in source order, separators
    spelled canonically; two nodes are similar when these sequences are equal.  (The optional `;` after a
    statement is not part of Lua/Syntax.v: chunks containing one are outside this model, the
    correspondence run flags them.) *)
From Selene Require Export Lua.Syntax Lints.Closed.

Definition tx_names (sep : string) (l : list tok) : list string :=
  match l with
  | [] => []
  | t :: r => t_name t :: flat_map (fun x => [sep; t_name x]) r
  end.

Definition tx_param (p : param) : string := match p with PrmName t => t_name t | PrmEllipsis _ => "..." end.
Definition tx_params (l : list param) : list string :=
  match l with
  | [] => []
  | p :: r => tx_param p :: flat_map (fun x => [","; tx_param x]) r
  end.

Fixpoint tx_expr (e : expr) : list string :=
  match e with
  | ENil => ["nil"] | ETrue => ["true"] | EFalse => ["false"]
  | ENumber raw => [raw]
  | EString raw => [raw]
  | EVararg _ => ["..."]
  | EFunction b => "function" :: tx_funcbody b
  | EParen e' => "(" :: tx_expr e' ++ [")"]
  | EUnop op e' => op :: tx_expr e'
  | EBinop op l r => tx_expr l ++ op :: tx_expr r
  | ETable fs => "{" :: tx_fields fs ++ ["}"]
  | EVar v => tx_var v
  | ECall c => tx_fcall c
  end
with tx_var (v : var) : list string :=
  match v with VName t => [t_name t] | VExpr p ss _ => tx_prefix p ++ tx_suffixes ss end
with tx_prefix (p : prefix) : list string :=
  match p with PName t => [t_name t] | PExpr e => tx_expr e end
with tx_suffix (s : suffix) : list string :=
  match s with SfxCall c => tx_call c | SfxIndex i => tx_index i end
with tx_suffixes (ss : suffixes) : list string :=
  match ss with SsNil => [] | SsCons s r => tx_suffix s ++ tx_suffixes r end
with tx_call (c : call) : list string :=
  match c with CAnon a => tx_args a | CMethod name a => ":" :: t_name name :: tx_args a end
with tx_args (a : args) : list string :=
  match a with
  | AParens es => "(" :: tx_exprs es ++ [")"]
  | AString raw => [raw]
  | ATable fs => "{" :: tx_fields fs ++ ["}"]
  end
with tx_index (i : index) : list string :=
  match i with IBrackets e => "[" :: tx_expr e ++ ["]"] | IDot name => ["."; t_name name] end
with tx_fields (fs : fields) : list string :=
  match fs with
  | FsNil => []
  | FsCons f FsNil => tx_field f
  | FsCons f r => tx_field f ++ "," :: tx_fields r
  end
with tx_field (f : field) : list string :=
  match f with
  | FExprKey k v => "[" :: tx_expr k ++ "]" :: "=" :: tx_expr v
  | FNameKey name v => t_name name :: "=" :: tx_expr v
  | FNoKey v => tx_expr v
  end
with tx_exprs (es : exprs) : list string :=
  match es with
  | EsNil => []
  | EsCons e EsNil => tx_expr e
  | EsCons e r => tx_expr e ++ "," :: tx_exprs r
  end
with tx_fcall (c : fcall) : list string :=
  match c with FCall p ss _ => tx_prefix p ++ tx_suffixes ss end
with tx_funcbody (b : funcbody) : list string :=
  match b with FBody ps blk => "(" :: tx_params ps ++ ")" :: tx_block blk ++ ["end"] end
with tx_block (b : block) : list string :=
  match b with Block ss l _ => tx_stmts ss ++ tx_olast l end
with tx_stmts (ss : stmts) : list string :=
  match ss with StNil => [] | StCons s r => tx_stmt s ++ tx_stmts r end
with tx_stmt (s : stmt) : list string :=
  match s with
  | SAssign vs es => tx_vars vs ++ "=" :: tx_exprs es
  | SDo b => "do" :: tx_block b ++ ["end"]
  | SCallStmt c => tx_fcall c
  | SFunction names method b =>
      "function" :: tx_names "." names ++
      match method with Some m => [":"; t_name m] | None => [] end ++ tx_funcbody b
  | SGenericFor names es b => "for" :: tx_names "," names ++ "in" :: tx_exprs es ++ "do" :: tx_block b ++ ["end"]
  | SIf c b eis els => "if" :: tx_expr c ++ "then" :: tx_block b ++ tx_elseifs eis ++ tx_oblock els ++ ["end"]
  | SLocal names es =>
      "local" :: tx_names "," names ++ match es with EsNil => [] | _ => "=" :: tx_exprs es end
  | SLocalFunction name b => "local" :: "function" :: t_name name :: tx_funcbody b
  | SNumericFor v a b st blk =>
      "for" :: t_name v :: "=" :: tx_expr a ++ "," :: tx_expr b ++ tx_oexpr st ++ "do" :: tx_block blk ++ ["end"]
  | SRepeat b c => "repeat" :: tx_block b ++ "until" :: tx_expr c
  | SWhile c b => "while" :: tx_expr c ++ "do" :: tx_block b ++ ["end"]
  end
with tx_vars (vs : vars) : list string :=
  match vs with
  | VsNil => []
  | VsCons v VsNil => tx_var v
  | VsCons v r => tx_var v ++ "," :: tx_vars r
  end
with tx_elseifs (e : elseifs) : list string :=
  match e with EiNil => [] | EiCons c b r => "elseif" :: tx_expr c ++ "then" :: tx_block b ++ tx_elseifs r end
with tx_olast (l : olast) : list string :=
  match l with LNone => [] | LBreak => ["break"] | LReturn es => "return" :: tx_exprs es end
with tx_oblock (o : oblock) : list string :=
  match o with OBNone => [] | OBSome b => "else" :: tx_block b end
with tx_oexpr (o : oexpr) : list string :=
  match o with OENone => [] | OESome e => "," :: tx_expr e end.

Fixpoint strs_eqb (a b : list string) : bool :=
  match a, b with
  | [], [] => true
  | x :: r, y :: s => str_eqb x y && strs_eqb r s
  | _, _ => false
  end.

Definition similar_expr (a b : expr) : bool := strs_eqb (tx_expr a) (tx_expr b).
Definition similar_block (a b : block) : bool := strs_eqb (tx_block a) (tx_block b).

(** ** has_side_effects (side_effects.rs) *)
Fixpoint se_expr (e : expr) : bool :=
  match e with
  | EBinop _ l r => se_expr l || se_expr r
  | EParen e' | EUnop _ e' => se_expr e'
  | EFunction _ | ENumber _ | EString _ | ENil | ETrue | EFalse | EVararg _ => false
  | ECall _ => true
  | ETable fs => se_fields fs
  | EVar v => se_var v
  end
with se_var (v : var) : bool :=
  match v with VName _ => false | VExpr p ss _ => se_prefix p || se_suffixes ss end
with se_prefix (p : prefix) : bool :=
  match p with PName _ => false | PExpr e => se_expr e end
with se_suffixes (ss : suffixes) : bool :=
  match ss with SsNil => false | SsCons s r => se_suffix s || se_suffixes r end
with se_suffix (s : suffix) : bool :=
  match s with SfxCall _ => true | SfxIndex i => se_index i end
with se_index (i : index) : bool :=
  match i with IBrackets e => se_expr e | IDot _ => false end
with se_fields (fs : fields) : bool :=
  match fs with FsNil => false | FsCons f r => se_field f || se_fields r end
with se_field (f : field) : bool :=
  match f with FExprKey k v => se_expr k || se_expr v | FNameKey _ v => se_expr v | FNoKey v => se_expr v end.

(** ** ifs_same_cond: the walk over the conditions of one if statement *)
Fixpoint elseif_conds (e : elseifs) : list expr := match e with EiNil => [] | EiCons c _ r => c :: elseif_conds r end.
Fixpoint elseif_blocks (e : elseifs) : list block := match e with EiNil => [] | EiCons _ b r => b :: elseif_blocks r end.

(** [seen]: the side-effect-free conditions kept so far; the result lists (reported, the earlier one) *)
Fixpoint same_cond_loop (seen : list expr) (cs : list expr) : list (expr * expr) :=
  match cs with
  | [] => []
  | c :: r =>
      if se_expr c then same_cond_loop seen r
      else match find (fun o => similar_expr o c) seen with
           | Some o => (c, o) :: same_cond_loop seen r
           | None => same_cond_loop (seen ++ [c]) r
           end
  end.

Definition same_cond_reports (n : node) : list (expr * expr) :=
  match n with
  | NStmt (SIf c _ eis _) => same_cond_loop (if se_expr c then [] else [c]) (elseif_conds eis)
  | _ => []
  end.

(** ** if_same_then_else *)
Definition block_has_stmts (b : block) : bool := match b with Block StNil _ _ => false | _ => true end.

Fixpoint same_block_loop (seen : list block) (bs : list block) : list (block * block) :=
  match bs with
  | [] => []
  | b :: r =>
      if negb (block_has_stmts b) then same_block_loop seen r
      else match find (fun o => similar_block o b) seen with
           | Some o => (b, o) :: same_block_loop seen r
           | None => same_block_loop (seen ++ [b]) r
           end
  end.

Definition same_block_reports (n : node) : list (block * block) :=
  match n with
  | NStmt (SIf _ b eis els) =>
      same_block_loop [b] (elseif_blocks eis ++ match els with OBSome eb => [eb] | OBNone => [] end)
  | _ => []
  end.

(** ** almost_swapped: per block, over its statements (the last statement is not looked at).
    The lint compares target and value token by token (code_tokens) and shows their trivia-free text. *)
Definition text (l : list string) : string := String.concat "" l.

Fixpoint stmts_list (ss : stmts) : list stmt := match ss with StNil => [] | StCons s r => s :: stmts_list r end.

(** [last]: the previous single assignment's (target tokens, value tokens) *)
Fixpoint swap_loop (last : option (list string * list string)) (ss : list stmt) : list (string * string) :=
  match ss with
  | [] => []
  | SAssign (VsCons v VsNil) (EsCons e EsNil) :: r =>
      if se_var v then swap_loop None r
      else
        let vt := tx_var v in
        let et := tx_expr e in
        match last with
        | Some (n0, n1) =>
            if strs_eqb n0 et && strs_eqb n1 vt then (text n0, text n1) :: swap_loop None r
            else swap_loop (Some (vt, et)) r
        | None => swap_loop (Some (vt, et)) r
        end
  | _ :: r => swap_loop None r
  end.

Definition swaps_of_block (b : block) : list (string * string) :=
  match b with Block ss _ _ => swap_loop None (stmts_list ss) end.

(** the blocks full_moon's [visit_block] reaches: the chunk and the blocks hanging off the visited nodes *)
Definition blocks_of_node (n : node) : list block :=
  match n with
  | NStmt (SDo b) | NStmt (SGenericFor _ _ b) | NStmt (SNumericFor _ _ _ _ b) | NStmt (SRepeat b _) | NStmt (SWhile _ b) => [b]
  | NStmt (SFunction _ _ (FBody _ b)) | NStmt (SLocalFunction _ (FBody _ b)) | NExpr (EFunction (FBody _ b)) => [b]
  | NStmt (SIf _ b eis els) => b :: elseif_blocks eis ++ match els with OBSome eb => [eb] | OBNone => [] end
  | _ => []
  end.

Definition all_blocks (chunk : block) : list block := chunk :: flat_map blocks_of_node (nodes_block chunk).

Record same_counts := { n_same_cond : nat; n_same_block : nat; n_swapped : nat }.

Definition same_lint_counts (chunk : block) : same_counts :=
  let ns := nodes_block chunk in
  {| n_same_cond := List.length (flat_map same_cond_reports ns);
     n_same_block := List.length (flat_map same_block_reports ns);
     n_swapped := List.length (flat_map swaps_of_block (all_blocks chunk)) |}.
