(** C04: closed-form syntactic lints over the syntax tree (Lua/Syntax.v), transcribed from
    selene-lib/src/lints/{divide_by_zero, compare_nan, suspicious_reverse_loop, empty_if, empty_loop,
    unbalanced_assignments, mismatched_arg_count}.rs.  A lint is a filter over the nodes full_moon's
    Visitor reaches; [nodes_*] enumerates them. *)
From Selene Require Export Lua.Syntax.
From Coq Require Export ZArith.

Inductive node := NExpr (e : expr) | NStmt (s : stmt) | NCall (c : fcall) | NTable (fs : fields).

Fixpoint nodes_expr (e : expr) : list node :=
  NExpr e ::
  match e with
  | EFunction b => nodes_funcbody b
  | EParen e' => nodes_expr e'
  | EUnop _ e' => nodes_expr e'
  | EBinop _ l r => nodes_expr l ++ nodes_expr r
  | ETable fs => NTable fs :: nodes_fields fs
  | EVar v => nodes_var v
  | ECall c => nodes_fcall c
  | _ => []
  end
with nodes_var (v : var) : list node :=
  match v with VName _ => [] | VExpr p ss _ => nodes_prefix p ++ nodes_suffixes ss end
with nodes_prefix (p : prefix) : list node :=
  match p with PName _ => [] | PExpr e => nodes_expr e end
with nodes_suffix (s : suffix) : list node :=
  match s with SfxCall c => nodes_call c | SfxIndex i => nodes_index i end
with nodes_suffixes (ss : suffixes) : list node :=
  match ss with SsNil => [] | SsCons s r => nodes_suffix s ++ nodes_suffixes r end
with nodes_call (c : call) : list node :=
  match c with CAnon a => nodes_args a | CMethod _ a => nodes_args a end
with nodes_args (a : args) : list node :=
  match a with AParens es => nodes_exprs es | AString _ => [] | ATable fs => NTable fs :: nodes_fields fs end
with nodes_index (i : index) : list node :=
  match i with IBrackets e => nodes_expr e | IDot _ => [] end
with nodes_fields (fs : fields) : list node :=
  match fs with FsNil => [] | FsCons f r => nodes_field f ++ nodes_fields r end
with nodes_field (f : field) : list node :=
  match f with FExprKey k v => nodes_expr k ++ nodes_expr v | FNameKey _ v => nodes_expr v | FNoKey v => nodes_expr v end
with nodes_exprs (es : exprs) : list node :=
  match es with EsNil => [] | EsCons e r => nodes_expr e ++ nodes_exprs r end
with nodes_fcall (c : fcall) : list node :=
  NCall c :: match c with FCall p ss _ => nodes_prefix p ++ nodes_suffixes ss end
with nodes_funcbody (b : funcbody) : list node :=
  match b with FBody _ blk => nodes_block blk end
with nodes_block (b : block) : list node :=
  match b with Block ss l _ => nodes_stmts ss ++ nodes_olast l end
with nodes_stmts (ss : stmts) : list node :=
  match ss with StNil => [] | StCons s r => nodes_stmt s ++ nodes_stmts r end
with nodes_stmt (s : stmt) : list node :=
  NStmt s ::
  match s with
  | SAssign vs es => nodes_vars vs ++ nodes_exprs es
  | SDo b => nodes_block b
  | SCallStmt c => nodes_fcall c
  | SFunction _ _ b => nodes_funcbody b
  | SGenericFor _ es b => nodes_exprs es ++ nodes_block b
  | SIf c b eis els => nodes_expr c ++ nodes_block b ++ nodes_elseifs eis ++ nodes_oblock els
  | SLocal _ es => nodes_exprs es
  | SLocalFunction _ b => nodes_funcbody b
  | SNumericFor _ a b st blk => nodes_expr a ++ nodes_expr b ++ nodes_oexpr st ++ nodes_block blk
  | SRepeat b c => nodes_block b ++ nodes_expr c
  | SWhile c b => nodes_expr c ++ nodes_block b
  end
with nodes_vars (vs : vars) : list node :=
  match vs with VsNil => [] | VsCons v r => nodes_var v ++ nodes_vars r end
with nodes_elseifs (e : elseifs) : list node :=
  match e with EiNil => [] | EiCons c b r => nodes_expr c ++ nodes_block b ++ nodes_elseifs r end
with nodes_olast (l : olast) : list node :=
  match l with LReturn es => nodes_exprs es | _ => [] end
with nodes_oblock (o : oblock) : list node :=
  match o with OBNone => [] | OBSome b => nodes_block b end
with nodes_oexpr (o : oexpr) : list node :=
  match o with OENone => [] | OESome e => nodes_expr e end.

Definition count {A} (p : A -> bool) (l : list A) : nat := List.length (filter p l).

(** ** divide_by_zero / compare_nan *)
Definition value_is_zero (e : expr) : bool := match e with ENumber raw => str_eqb raw "0" | _ => false end.

Definition is_div0 (n : node) : bool :=
  match n with
  | NExpr (EBinop o l r) => str_eqb o "/" && value_is_zero r && negb (value_is_zero l)
  | _ => false
  end.

Definition expression_is_nan (e : expr) : bool :=
  match e with EBinop o l r => str_eqb o "/" && value_is_zero l && value_is_zero r | _ => false end.

Definition is_compare_nan (n : node) : bool :=
  match n with
  | NExpr (EBinop o (EVar _) r) => (str_eqb o "~=" || str_eqb o "==") && expression_is_nan r
  | _ => false
  end.

(** ** suspicious_reverse_loop: `str::parse::<f32>(text)` succeeds with a value <= 1.0.
    Decimal literals: digits [. digits] [e [+-] digits]; the value is M * 10^(E - F). *)
Definition is_digit (c : ascii) : bool := let n := N_of_ascii c in (48 <=? n)%N && (n <=? 57)%N.
Definition dval (c : ascii) : N := (N_of_ascii c - 48)%N.

Fixpoint take_digits (s : string) (acc : N) (k : nat) : N * nat * string :=
  match s with
  | String c r => if is_digit c then take_digits r (10 * acc + dval c)%N (S k) else (acc, k, s)
  | EmptyString => (acc, k, s)
  end.

(** (mantissa, exponent of ten) of a decimal literal, [None] if the text is not one *)
Definition parse_decimal (raw : string) : option (N * Z) :=
  let '(m1, k1, r1) := take_digits raw 0%N 0 in
  let '(m, kf, r2, have_frac_digits) :=
    match r1 with
    | String "."%char r => let '(m2, k2, r') := take_digits r m1 0 in (m2, k2, r', Nat.ltb 0 k2)
    | _ => (m1, 0%nat, r1, false)
    end in
  if Nat.eqb k1 0 && negb have_frac_digits then None else
  match r2 with
  | EmptyString => Some (m, (- Z.of_nat kf)%Z)
  | String c r =>
      if Ascii.eqb c "e"%char || Ascii.eqb c "E"%char then
        let '(neg, r') := match r with
                          | String "-"%char x => (true, x)
                          | String "+"%char x => (false, x)
                          | _ => (false, r) end in
        let '(e, ke, r'') := take_digits r' 0%N 0 in
        if Nat.eqb ke 0 then None else
        match r'' with
        | EmptyString => Some (m, ((if neg then - Z.of_N e else Z.of_N e) - Z.of_nat kf)%Z)
        | _ => None
        end
      else None
  end.

Definition le_one (v : N * Z) : bool :=
  let '(m, e) := v in
  if (m =? 0)%N then true
  else if (0 <? e)%Z then false            (* m >= 1, so m * 10^e >= 10 *)
  else (m <=? N.pow 10 (Z.to_N (- e)))%N.

Definition f32_le_one (raw : string) : bool :=
  match parse_decimal raw with Some v => le_one v | None => false end.

Definition is_reverse_loop (n : node) : bool :=
  match n with
  | NStmt (SNumericFor _ (EUnop o _) (ENumber raw) OENone _) => str_eqb o "#" && f32_le_one raw
  | _ => false
  end.

(** ** empty_if / empty_loop (comments_count = false) *)
Definition block_is_empty (b : block) : bool :=
  match b with Block StNil LNone _ => true | _ => false end.

Fixpoint empty_elseifs (e : elseifs) : nat :=
  match e with EiNil => O | EiCons _ b r => (if block_is_empty b then 1 else 0) + empty_elseifs r end.

Definition empty_if_count (n : node) : nat :=
  match n with
  | NStmt (SIf _ b eis els) =>
      (if block_is_empty b then 1 else 0) + empty_elseifs eis +
      match els with OBSome eb => if block_is_empty eb then 1 else 0 | OBNone => 0 end
  | _ => O
  end.

Definition is_empty_loop (n : node) : bool :=
  match n with
  | NStmt (SGenericFor _ _ b) | NStmt (SNumericFor _ _ _ _ b) | NStmt (SWhile _ b) | NStmt (SRepeat b _) => block_is_empty b
  | _ => false
  end.

(** ** unbalanced_assignments *)
Fixpoint expression_is_call (e : expr) : bool :=
  match e with EParen e' => expression_is_call e' | ECall _ => true | _ => false end.
Definition expression_is_nil (e : expr) : bool :=
  match e with EParen e' => expression_is_call e' | ENil => true | _ => false end.
Definition expression_is_ellipsis (e : expr) : bool := match e with EVararg _ => true | _ => false end.

Fixpoint exprs_to_list (es : exprs) : list expr := match es with EsNil => [] | EsCons e r => e :: exprs_to_list r end.
Fixpoint vars_length (vs : vars) : nat := match vs with VsNil => O | VsCons _ r => S (vars_length r) end.

Definition unbalanced (lhs : nat) (rhs : list expr) : bool :=
  match rev rhs with
  | [] => false
  | last_rhs :: _ =>
      Nat.ltb lhs (List.length rhs) ||
      (Nat.ltb (List.length rhs) lhs && negb (expression_is_ellipsis last_rhs) && negb (expression_is_call last_rhs)
       && negb (expression_is_nil last_rhs))
  end.

Definition is_unbalanced (n : node) : bool :=
  match n with
  | NStmt (SAssign vs es) => unbalanced (vars_length vs) (exprs_to_list es)
  | NStmt (SLocal names es) => unbalanced (List.length names) (exprs_to_list es)
  | _ => false
  end.

(** ** mismatched_arg_count: the two counts and their comparison *)
Inductive parameter_count := PFixed (n : nat) | PMinimum (n : nat) | PVariable.
Inductive passed_count := AFixed (n : nat) | AVariable (at_least : nat).

Fixpoint params_count (ps : list param) (necessary : nat) : parameter_count :=
  match ps with
  | [] => PFixed necessary
  | PrmName _ :: r => params_count r (S necessary)
  | PrmEllipsis _ :: _ => if Nat.eqb necessary 0 then PVariable else PMinimum necessary
  end.

Definition is_multi (e : expr) : bool := match e with ECall _ | EVararg _ => true | _ => false end.

Definition passed (a : args) : passed_count :=
  match a with
  | AParens es =>
      let l := exprs_to_list es in
      match rev l with
      | last_arg :: _ => if is_multi last_arg then AVariable (List.length l) else AFixed (List.length l)
      | [] => AFixed 0
      end
  | _ => AFixed 1
  end.

Definition correct_num_args (p : parameter_count) (a : passed_count) : bool :=
  match p with
  | PFixed required => match a with AFixed n => Nat.leb n required | AVariable n => Nat.leb n required end
  | _ => true
  end.

Definition overlap (a b : parameter_count) : parameter_count :=
  match a, b with
  | PVariable, _ | _, PVariable => PVariable
  | PFixed f, PMinimum m | PMinimum m, PFixed f => PMinimum (Nat.min m f)
  | PFixed x, PFixed y => PFixed (Nat.max x y)
  | PMinimum x, PMinimum y => PMinimum (Nat.min x y)
  end.

(** ** mixed_table: a constructor with both keyed and positional fields (reported once per table) *)
Fixpoint fields_list (fs : fields) : list field := match fs with FsNil => [] | FsCons f r => f :: fields_list r end.
Definition is_nokey (f : field) : bool := match f with FNoKey _ => true | _ => false end.
Definition is_mixed (n : node) : bool :=
  match n with
  | NTable fs => existsb is_nokey (fields_list fs) && existsb (fun f => negb (is_nokey f)) (fields_list fs)
  | _ => false
  end.

(** ** duplicate_keys *)
Inductive keykind := KString | KNumber.
Definition key := (keykind * string)%type.
Definition key_eqb (a b : key) : bool :=
  match fst a, fst b with KString, KString | KNumber, KNumber => str_eqb (snd a) (snd b) | _, _ => false end.

Fixpoint count_eqs' (s : string) : nat := match s with String "="%char r => S (count_eqs' r) | _ => O end.
(** the tokenizer's `literal`: the text between the quotes / long brackets *)
Definition str_content (raw : string) : string :=
  match raw with
  | String "["%char rest => let lvl := count_eqs' rest in substring (lvl + 2) (String.length raw - 2 * (lvl + 2)) raw
  | _ => substring 1 (String.length raw - 2) raw
  end.

Definition expression_to_key (e : expr) : option key :=
  match e with
  | EString raw => Some (KString, str_content raw)
  | ENumber raw => Some (KNumber, raw)
  | _ => None
  end.

Fixpoint nat_to_string_aux (fuel n : nat) (acc : string) : string :=
  match fuel with
  | O => acc
  | S f => let d := ascii_of_nat (48 + Nat.modulo n 10) in
           let acc' := String d acc in
           match Nat.div n 10 with O => acc' | q => nat_to_string_aux f q acc' end
  end.
Definition nat_to_string (n : nat) : string := nat_to_string_aux (S n) n "".

(** the number of duplicates among the fields, with the declared keys so far and the positional index *)
Fixpoint dup_count (fs : list field) (declared : list key) (index : nat) : nat :=
  match fs with
  | [] => O
  | f :: r =>
      let '(k, index') :=
        match f with
        | FNameKey name _ => (Some (KString, t_name name), index)
        | FExprKey ke _ => (expression_to_key ke, index)
        | FNoKey _ => (Some (KNumber, nat_to_string (S index)), S index)
        end in
      match k with
      | Some k' => if existsb (key_eqb k') declared then S (dup_count r declared index')
                   else dup_count r (k' :: declared) index'
      | None => dup_count r declared index'
      end
  end.

Definition dup_keys_count (n : node) : nat :=
  match n with NTable fs => dup_count (fields_list fs) [] 0 | _ => O end.

(** ** parenthese_conditions *)
Definition is_paren (e : expr) : bool := match e with EParen _ => true | _ => false end.
Fixpoint paren_elseifs (e : elseifs) : nat :=
  match e with EiNil => O | EiCons c _ r => (if is_paren c then 1 else 0) + paren_elseifs r end.
Definition paren_cond_count (n : node) : nat :=
  match n with
  | NStmt (SIf c _ eis _) => (if is_paren c then 1 else 0) + paren_elseifs eis
  | NStmt (SRepeat _ c) | NStmt (SWhile c _) => if is_paren c then 1 else 0
  | _ => O
  end.

(** ** constant_table_comparison *)
Definition is_table (e : expr) : bool := match e with ETable _ => true | _ => false end.
Definition is_table_comparison (n : node) : bool :=
  match n with
  | NExpr (EBinop o l r) =>
      (str_eqb o "==" || str_eqb o "~=" || str_eqb o ">" || str_eqb o "<" || str_eqb o ">=" || str_eqb o "<=")
      && (is_table l || is_table r)
  | _ => false
  end.

(** ** type_check_inside_call (outside Roblox: only `type`) *)
Definition is_type_check_inside (n : node) : bool :=
  match n with
  | NCall (FCall (PName name) (SsCons (SfxCall (CAnon (AParens (EsCons (EBinop o _ (EString _)) _)))) _) _) =>
      str_eqb (t_name name) "type" && str_eqb o "=="
  | _ => false
  end.

(** the per-lint numbers of diagnostics of a chunk *)
Record counts := { n_div0 : nat; n_nan : nat; n_revloop : nat; n_empty_if : nat; n_empty_loop : nat; n_unbalanced : nat;
  n_mixed : nat; n_dupkeys : nat; n_paren : nat; n_tablecmp : nat; n_typecheck : nat }.

Definition lint_counts (chunk : block) : counts :=
  let ns := nodes_block chunk in
  {| n_div0 := count is_div0 ns; n_nan := count is_compare_nan ns; n_revloop := count is_reverse_loop ns;
     n_empty_if := fold_right (fun n a => (empty_if_count n + a)%nat) O ns; n_empty_loop := count is_empty_loop ns;
     n_unbalanced := count is_unbalanced ns;
     n_mixed := count is_mixed ns; n_dupkeys := fold_right (fun n a => (dup_keys_count n + a)%nat) O ns;
     n_paren := fold_right (fun n a => (paren_cond_count n + a)%nat) O ns;
     n_tablecmp := count is_table_comparison ns; n_typecheck := count is_type_check_inside ns |}.
