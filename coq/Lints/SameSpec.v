(** C04, specification side of the "same text" lints. *)
From Selene Require Import Lints.Same.
From Selene Require Scope.Tokens.
From Coq Require Import Lia.

(** ** what evaluating an expression evaluates: its sub-expressions and the call suffixes applied on the
    way, function bodies excluded (defining a function runs nothing) *)
Inductive evitem := EvE (e : expr) | EvC (c : call).

Fixpoint ev_expr (e : expr) : list evitem :=
  EvE e ::
  match e with
  | EParen e' | EUnop _ e' => ev_expr e'
  | EBinop _ l r => ev_expr l ++ ev_expr r
  | ETable fs => ev_fields fs
  | EVar v => ev_var v
  | ECall c => ev_fcall c
  | _ => []
  end
with ev_var (v : var) : list evitem :=
  match v with VName _ => [] | VExpr p ss _ => ev_prefix p ++ ev_suffixes ss end
with ev_prefix (p : prefix) : list evitem :=
  match p with PName _ => [] | PExpr e => ev_expr e end
with ev_suffix (s : suffix) : list evitem :=
  match s with SfxCall c => EvC c :: ev_call c | SfxIndex i => ev_index i end
with ev_suffixes (ss : suffixes) : list evitem :=
  match ss with SsNil => [] | SsCons s r => ev_suffix s ++ ev_suffixes r end
with ev_call (c : call) : list evitem :=
  match c with CAnon a => ev_args a | CMethod _ a => ev_args a end
with ev_args (a : args) : list evitem :=
  match a with AParens es => ev_exprs es | AString _ => [] | ATable fs => ev_fields fs end
with ev_index (i : index) : list evitem :=
  match i with IBrackets e => ev_expr e | IDot _ => [] end
with ev_fields (fs : fields) : list evitem :=
  match fs with FsNil => [] | FsCons f r => ev_field f ++ ev_fields r end
with ev_field (f : field) : list evitem :=
  match f with FExprKey k v => ev_expr k ++ ev_expr v | FNameKey _ v => ev_expr v | FNoKey v => ev_expr v end
with ev_exprs (es : exprs) : list evitem :=
  match es with EsNil => [] | EsCons e r => ev_expr e ++ ev_exprs r end
with ev_fcall (c : fcall) : list evitem :=
  match c with FCall p ss _ => ev_prefix p ++ ev_suffixes ss end.

Definition is_call_item (i : evitem) : bool :=
  match i with EvC _ => true | EvE (ECall _) => true | _ => false end.

(** the documented exemption: "conditions that could have side effects, such as function calls" *)
Definition performs_call (e : expr) : bool := existsb is_call_item (ev_expr e).
Definition var_performs_call (v : var) : bool := existsb is_call_item (ev_var v).

Lemma se_exact_family :
  (forall e, se_expr e = existsb is_call_item (ev_expr e)) /\
  (forall v, se_var v = existsb is_call_item (ev_var v)) /\
  (forall p, se_prefix p = existsb is_call_item (ev_prefix p)) /\
  (forall s, se_suffix s = existsb is_call_item (ev_suffix s)) /\
  (forall ss, se_suffixes ss = existsb is_call_item (ev_suffixes ss)) /\
  (forall c : call, True) /\ (forall a : args, True) /\
  (forall i, se_index i = existsb is_call_item (ev_index i)) /\
  (forall fs, se_fields fs = existsb is_call_item (ev_fields fs)) /\
  (forall f, se_field f = existsb is_call_item (ev_field f)) /\
  (forall es : exprs, True) /\ (forall c : fcall, True).
Proof.
  apply Scope.Tokens.expr_family_ind; intros; try exact I;
    cbn [se_expr se_var se_prefix se_suffix se_suffixes se_index se_fields se_field
         ev_expr ev_var ev_prefix ev_suffix ev_suffixes ev_index ev_fields ev_field existsb is_call_item orb];
    rewrite ?existsb_app; try congruence; reflexivity.
Qed.

(** has_side_effects is true exactly when evaluating the expression performs a call *)
Theorem se_expr_exact e : se_expr e = performs_call e.
Proof. apply se_exact_family. Qed.
Theorem se_var_exact v : se_var v = var_performs_call v.
Proof. apply se_exact_family. Qed.

Lemma strs_eqb_eq a : forall b, strs_eqb a b = true <-> a = b.
Proof.
  induction a as [|x r IH]; intros [|y s]; cbn [strs_eqb]; try (split; [discriminate|congruence]); [tauto|].
  rewrite andb_true_iff, IH, str_eqb_eq. split; [intros [-> ->]; reflexivity|intros [= -> ->]; auto].
Qed.

Lemma find_true {A} (p : A -> bool) l x : find p l = Some x -> In x l /\ p x = true.
Proof. intros H. apply find_some in H. exact H. Qed.
Lemma find_none_in {A} (p : A -> bool) l x : find p l = None -> In x l -> p x = false.
Proof. intros H Hi. apply (find_none _ _ H _ Hi). Qed.

(** ** ifs_same_cond *)
Lemma same_cond_loop_sound cs : forall seen c o,
  (forall x, In x seen -> se_expr x = false) ->
  In (c, o) (same_cond_loop seen cs) ->
  exists pre post, cs = pre ++ c :: post /\ (In o seen \/ In o pre) /\
    tx_expr o = tx_expr c /\ se_expr c = false /\ se_expr o = false.
Proof.
  induction cs as [|c0 r IH]; intros seen c o Hseen; cbn [same_cond_loop]; [intros []|].
  destruct (se_expr c0) eqn:Ese.
  - intros H. destruct (IH seen c o Hseen H) as (pre & post & -> & Ho & Hr).
    exists (c0 :: pre), post. split; [reflexivity|]. split; [|exact Hr]. destruct Ho; [left|right; right]; assumption.
  - destruct (find (fun o0 => similar_expr o0 c0) seen) as [o0|] eqn:Ef.
    + intros [[= <- <-]|H].
      * destruct (find_true _ _ _ Ef) as [Hin Hs]. exists [], r. split; [reflexivity|]. split; [left; exact Hin|].
        split; [apply strs_eqb_eq; exact Hs|]. split; [exact Ese|apply Hseen; exact Hin].
      * destruct (IH seen c o Hseen H) as (pre & post & -> & Ho & Hr).
        exists (c0 :: pre), post. split; [reflexivity|]. split; [|exact Hr]. destruct Ho; [left|right; right]; assumption.
    + intros H.
      assert (Hseen' : forall x, In x (seen ++ [c0]) -> se_expr x = false).
      { intros x Hx. apply in_app_iff in Hx as [Hx|[<-|[]]]; auto. }
      destruct (IH (seen ++ [c0]) c o Hseen' H) as (pre & post & -> & Ho & Hr).
      exists (c0 :: pre), post. split; [reflexivity|]. split; [|exact Hr].
      destruct Ho as [Ho|Ho]; [apply in_app_iff in Ho as [Ho|[<-|[]]]; [left; exact Ho|right; left; reflexivity]|right; right; exact Ho].
Qed.

(** a reported `elseif` condition has an earlier condition of the same if statement with the same text, and
    evaluating either performs no call *)
Theorem same_cond_sound n c o :
  In (c, o) (same_cond_reports n) ->
  exists c0 b eis els pre post, n = NStmt (SIf c0 b eis els) /\
    c0 :: elseif_conds eis = pre ++ c :: post /\ In o pre /\
    tx_expr o = tx_expr c /\ performs_call c = false /\ performs_call o = false.
Proof.
  destruct n as [|s| |]; try (intros []). destruct s; try (intros []). cbn [same_cond_reports]. intros H.
  assert (Hseen : forall x, In x (if se_expr c0 then [] else [c0]) -> se_expr x = false).
  { destruct (se_expr c0) eqn:E; intros x Hx; [destruct Hx|destruct Hx as [<-|[]]; exact E]. }
  destruct (same_cond_loop_sound _ _ _ _ Hseen H) as (pre & post & Hcs & Ho & Ht & Hc & Hoo).
  exists c0, b, elifs, els, (c0 :: pre), post. split; [reflexivity|]. split; [rewrite Hcs; reflexivity|].
  rewrite <- !se_expr_exact. repeat split; auto.
  destruct Ho as [Ho|Ho]; [|right; exact Ho]. destruct (se_expr c0); [destruct Ho|destruct Ho as [<-|[]]]. left. reflexivity.
Qed.

Lemma same_cond_loop_complete cs : forall seen c o,
  In o seen -> In c cs -> se_expr c = false -> tx_expr o = tx_expr c -> same_cond_loop seen cs <> [].
Proof.
  induction cs as [|c0 r IH]; intros seen c o Ho Hin Hse Ht; [destruct Hin|]. destruct Hin as [<-|Hc]; cbn [same_cond_loop].
  - rewrite Hse. destruct (find _ seen) eqn:Ef; [discriminate|].
    pose proof (find_none_in _ _ _ Ef Ho) as Hn. cbn beta in Hn. unfold similar_expr in Hn. rewrite Ht in Hn.
    assert (strs_eqb (tx_expr c0) (tx_expr c0) = true) by (apply strs_eqb_eq; reflexivity). congruence.
  - destruct (se_expr c0); [apply (IH seen c o); assumption|].
    destruct (find _ seen); [discriminate|]. apply (IH (seen ++ [c0]) c o); auto. apply in_app_iff. left. exact Ho.
Qed.

(** the documented pattern: an `elseif` repeating the text of the `if` condition, no call in it *)
Theorem same_cond_canonical chunk c b c' b' r els :
  In (NStmt (SIf c b (EiCons c' b' r) els)) (nodes_block chunk) ->
  tx_expr c = tx_expr c' -> se_expr c = false -> se_expr c' = false ->
  (1 <= n_same_cond (same_lint_counts chunk))%nat.
Proof.
  intros Hin Ht Hc Hc'. unfold same_lint_counts, n_same_cond.
  apply in_split in Hin as (l1 & l2 & ->). rewrite flat_map_app, app_length. cbn [flat_map same_cond_reports].
  rewrite Hc. cbn [elseif_conds]. rewrite app_length.
  assert (H : same_cond_loop [c] (c' :: elseif_conds r) <> []).
  { apply (same_cond_loop_complete _ [c] c' c); [left; reflexivity|left; reflexivity|exact Hc'|exact Ht]. }
  destruct (same_cond_loop [c] (c' :: elseif_conds r)); [congruence|cbn [List.length]; lia].
Qed.

(** ** if_same_then_else *)
Lemma same_block_loop_sound bs : forall seen b o,
  In (b, o) (same_block_loop seen bs) ->
  exists pre post, bs = pre ++ b :: post /\ (In o seen \/ In o pre) /\ tx_block o = tx_block b /\ block_has_stmts b = true.
Proof.
  induction bs as [|b0 r IH]; intros seen b o; cbn [same_block_loop]; [intros []|].
  destruct (block_has_stmts b0) eqn:Eh; cbn [negb].
  - destruct (find (fun o0 => similar_block o0 b0) seen) as [o0|] eqn:Ef.
    + intros [[= <- <-]|H].
      * destruct (find_true _ _ _ Ef) as [Hin Hs]. exists [], r. split; [reflexivity|]. split; [left; exact Hin|].
        split; [apply strs_eqb_eq; exact Hs|exact Eh].
      * destruct (IH seen b o H) as (pre & post & -> & Ho & Hr).
        exists (b0 :: pre), post. split; [reflexivity|]. split; [|exact Hr]. destruct Ho; [left|right; right]; assumption.
    + intros H. destruct (IH (seen ++ [b0]) b o H) as (pre & post & -> & Ho & Hr).
      exists (b0 :: pre), post. split; [reflexivity|]. split; [|exact Hr].
      destruct Ho as [Ho|Ho]; [apply in_app_iff in Ho as [Ho|[<-|[]]]; [left; exact Ho|right; left; reflexivity]|right; right; exact Ho].
  - intros H. destruct (IH seen b o H) as (pre & post & -> & Ho & Hr).
    exists (b0 :: pre), post. split; [reflexivity|]. split; [|exact Hr]. destruct Ho; [left|right; right]; assumption.
Qed.

Definition if_blocks (b : block) (eis : elseifs) (els : oblock) : list block :=
  b :: elseif_blocks eis ++ match els with OBSome eb => [eb] | OBNone => [] end.

(** a reported branch has statements, and an earlier branch of the same if statement has the same text *)
Theorem same_block_sound n b o :
  In (b, o) (same_block_reports n) ->
  exists c0 b0 eis els pre post, n = NStmt (SIf c0 b0 eis els) /\
    if_blocks b0 eis els = pre ++ b :: post /\ In o pre /\ tx_block o = tx_block b /\ block_has_stmts b = true.
Proof.
  destruct n as [|s| |]; try (intros []). destruct s; try (intros []). cbn [same_block_reports]. intros H.
  destruct (same_block_loop_sound _ _ _ _ H) as (pre & post & Hbs & Ho & Ht & Hh).
  exists c, b0, elifs, els, (b0 :: pre), post. split; [reflexivity|]. unfold if_blocks. split; [rewrite Hbs; reflexivity|].
  repeat split; auto. destruct Ho as [[<-|[]]|Ho]; [left; reflexivity|right; exact Ho].
Qed.

Lemma same_block_loop_complete bs : forall seen b o,
  In o seen -> In b bs -> block_has_stmts b = true -> tx_block o = tx_block b -> same_block_loop seen bs <> [].
Proof.
  induction bs as [|b0 r IH]; intros seen b o Ho Hin Hh Ht; [destruct Hin|]. destruct Hin as [<-|Hb]; cbn [same_block_loop].
  - rewrite Hh. cbn [negb]. destruct (find _ seen) eqn:Ef; [discriminate|].
    pose proof (find_none_in _ _ _ Ef Ho) as Hn. cbn beta in Hn. unfold similar_block in Hn. rewrite Ht in Hn.
    assert (strs_eqb (tx_block b0) (tx_block b0) = true) by (apply strs_eqb_eq; reflexivity). congruence.
  - destruct (negb (block_has_stmts b0)); [apply (IH seen b o); assumption|].
    destruct (find _ seen); [discriminate|]. apply (IH (seen ++ [b0]) b o); auto. apply in_app_iff. left. exact Ho.
Qed.

(** the documented pattern: `if c then B else B end`, B with at least one statement *)
Theorem same_block_canonical chunk c b eis b' :
  In (NStmt (SIf c b eis (OBSome b'))) (nodes_block chunk) ->
  tx_block b = tx_block b' -> block_has_stmts b' = true ->
  (1 <= n_same_block (same_lint_counts chunk))%nat.
Proof.
  intros Hin Ht Hh. unfold same_lint_counts, n_same_block.
  apply in_split in Hin as (l1 & l2 & ->). rewrite flat_map_app, app_length. cbn [flat_map same_block_reports].
  rewrite app_length.
  assert (H : same_block_loop [b] (elseif_blocks eis ++ [b']) <> []).
  { apply (same_block_loop_complete _ [b] b' b); [left; reflexivity|apply in_app_iff; right; left; reflexivity|exact Hh|exact Ht]. }
  destruct (same_block_loop [b] (elseif_blocks eis ++ [b'])); [congruence|cbn [List.length]; lia].
Qed.

(** ** almost_swapped *)
Definition assign1 (v : var) (e : expr) : stmt := SAssign (VsCons v VsNil) (EsCons e EsNil).

Lemma swap_loop_sound ss : forall last n0 n1,
  In (n0, n1) (swap_loop last ss) ->
  (exists l0 l1, last = Some (l0, l1) /\ n0 = text l0 /\ n1 = text l1 /\
     exists v e r, ss = assign1 v e :: r /\ tx_expr e = l0 /\ tx_var v = l1 /\ se_var v = false) \/
  (exists pre v1 e1 v2 e2 post, ss = pre ++ assign1 v1 e1 :: assign1 v2 e2 :: post /\
     n0 = text (tx_var v1) /\ n1 = text (tx_expr e1) /\ tx_expr e2 = tx_var v1 /\ tx_var v2 = tx_expr e1 /\
     se_var v1 = false /\ se_var v2 = false).
Proof.
  induction ss as [|s r IH]; intros last n0 n1; [intros []|].
  assert (Hother : In (n0, n1) (swap_loop None r) ->
    exists pre v1 e1 v2 e2 post, s :: r = pre ++ assign1 v1 e1 :: assign1 v2 e2 :: post /\
     n0 = text (tx_var v1) /\ n1 = text (tx_expr e1) /\ tx_expr e2 = tx_var v1 /\ tx_var v2 = tx_expr e1 /\
     se_var v1 = false /\ se_var v2 = false).
  { intros H. destruct (IH None n0 n1 H) as [(l0 & l1 & Hl & _)|(pre & v1 & e1 & v2 & e2 & post & -> & Hr)]; [discriminate|].
    exists (s :: pre), v1, e1, v2, e2, post. split; [reflexivity|exact Hr]. }
  destruct s as [vs es| | | | | | | | | |]; try (cbn [swap_loop]; intros H; right; exact (Hother H)).
  destruct vs as [|v [|? ?]]; try (cbn [swap_loop]; intros H; right; exact (Hother H)).
  destruct es as [|e [|? ?]]; try (cbn [swap_loop]; intros H; right; exact (Hother H)).
  cbn [swap_loop]. destruct (se_var v) eqn:Ese; [intros H; right; exact (Hother H)|].
  assert (Hnext : In (n0, n1) (swap_loop (Some (tx_var v, tx_expr e)) r) ->
    exists pre v1 e1 v2 e2 post, assign1 v e :: r = pre ++ assign1 v1 e1 :: assign1 v2 e2 :: post /\
     n0 = text (tx_var v1) /\ n1 = text (tx_expr e1) /\ tx_expr e2 = tx_var v1 /\ tx_var v2 = tx_expr e1 /\
     se_var v1 = false /\ se_var v2 = false).
  { intros H. destruct (IH _ n0 n1 H) as [(l0 & l1 & [= <- <-] & -> & -> & v2 & e2 & r2 & -> & He & Hv & Hs)|(pre & v1 & e1 & v2 & e2 & post & -> & Hr)].
    - exists [], v, e, v2, e2, r2. repeat split; auto.
    - exists (assign1 v e :: pre), v1, e1, v2, e2, post. split; [reflexivity|exact Hr]. }
  destruct last as [[m0 m1]|].
  - destruct (strs_eqb m0 (tx_expr e) && strs_eqb m1 (tx_var v)) eqn:Em.
    + intros [[= <- <-]|H].
      * apply andb_true_iff in Em as [E0 E1]. apply strs_eqb_eq in E0, E1. left. exists m0, m1. repeat split; auto.
        exists v, e, r. repeat split; auto.
      * right. exact (Hother H).
    + intros H. right. exact (Hnext H).
  - intros H. right. exact (Hnext H).
Qed.

(** every report is a pair of adjacent single assignments `v1 = e1` `v2 = e2` of one block with the tokens
    of e2 those of v1 and the tokens of v2 those of e1 (the report shows the texts of v1 and e1) *)
Theorem swapped_sound b n0 n1 :
  In (n0, n1) (swaps_of_block b) ->
  exists ss l rng pre v1 e1 v2 e2 post, b = Block ss l rng /\
    stmts_list ss = pre ++ assign1 v1 e1 :: assign1 v2 e2 :: post /\
    n0 = text (tx_var v1) /\ n1 = text (tx_expr e1) /\ tx_expr e2 = tx_var v1 /\ tx_var v2 = tx_expr e1.
Proof.
  destruct b as [ss l rng]. cbn [swaps_of_block]. intros H.
  destruct (swap_loop_sound _ _ _ _ H) as [(l0 & l1 & Hl & _)|(pre & v1 & e1 & v2 & e2 & post & Hs & H0 & H1 & H2 & H3 & _)]; [discriminate|].
  exists ss, l, rng, pre, v1, e1, v2, e2, post. repeat split; assumption.
Qed.

Lemma swap_loop_pair last v1 e1 v2 e2 post :
  se_var v1 = false -> se_var v2 = false -> tx_expr e2 = tx_var v1 -> tx_var v2 = tx_expr e1 ->
  swap_loop last (assign1 v1 e1 :: assign1 v2 e2 :: post) <> [].
Proof.
  intros S1 S2 H2 H3. unfold assign1. cbn [swap_loop]. rewrite S1, S2.
  assert (Hm : strs_eqb (tx_var v1) (tx_expr e2) && strs_eqb (tx_expr e1) (tx_var v2) = true).
  { apply andb_true_iff. split; apply strs_eqb_eq; congruence. }
  destruct last as [[m0 m1]|]; [destruct (strs_eqb m0 _ && _); [intros [=]|]|]; rewrite Hm; intros [=].
Qed.

Lemma swap_loop_skip s r last : swap_loop last (s :: r) <> [] \/ exists last', swap_loop last (s :: r) = swap_loop last' r.
Proof.
  destruct s as [vs es| | | | | | | | | |]; try (right; exists None; reflexivity).
  destruct vs as [|v [|? ?]]; try (right; exists None; reflexivity).
  destruct es as [|e [|? ?]]; try (right; exists None; reflexivity).
  cbn [swap_loop]. destruct (se_var v); [right; exists None; reflexivity|].
  destruct last as [[m0 m1]|]; [destruct (_ && _); [left; discriminate|]|]; right; eexists; reflexivity.
Qed.

Lemma swap_loop_complete pre : forall last v1 e1 v2 e2 post,
  se_var v1 = false -> se_var v2 = false -> tx_expr e2 = tx_var v1 -> tx_var v2 = tx_expr e1 ->
  swap_loop last (pre ++ assign1 v1 e1 :: assign1 v2 e2 :: post) <> [].
Proof.
  induction pre as [|s r IH]; intros last v1 e1 v2 e2 post S1 S2 H2 H3; cbn [app].
  - apply swap_loop_pair; assumption.
  - destruct (swap_loop_skip s (r ++ assign1 v1 e1 :: assign1 v2 e2 :: post) last) as [H|[last' H]]; [exact H|].
    rewrite H. apply IH; assumption.
Qed.

(** the documented pattern `a = b` `b = a` (targets without calls), adjacent in any block, is reported *)
Theorem swapped_canonical chunk ss l rng pre v1 e1 v2 e2 post :
  In (Block ss l rng) (all_blocks chunk) ->
  stmts_list ss = pre ++ assign1 v1 e1 :: assign1 v2 e2 :: post ->
  se_var v1 = false -> se_var v2 = false -> tx_expr e2 = tx_var v1 -> tx_var v2 = tx_expr e1 ->
  (1 <= n_swapped (same_lint_counts chunk))%nat.
Proof.
  intros Hin Hs S1 S2 H2 H3. unfold same_lint_counts, n_swapped.
  apply in_split in Hin as (l1 & l2 & ->). rewrite flat_map_app, app_length. cbn [flat_map swaps_of_block].
  rewrite app_length, Hs.
  pose proof (swap_loop_complete pre None v1 e1 v2 e2 post S1 S2 H2 H3) as H.
  destruct (swap_loop None _); [congruence|cbn [List.length]; lia].
Qed.

(** ** the two "same text" if-lints, exactly: a branch is reported iff it qualifies (condition without a
    call / block with statements) and an earlier qualifying branch of the same statement has its text *)
Definition dup_cond (earlier : list expr) (c : expr) : bool :=
  negb (performs_call c) && existsb (fun o => negb (performs_call o) && strs_eqb (tx_expr o) (tx_expr c)) earlier.

Fixpoint spec_cond_loop (earlier : list expr) (cs : list expr) : nat :=
  match cs with
  | [] => O
  | c :: r => ((if dup_cond earlier c then 1 else 0) + spec_cond_loop (earlier ++ [c]) r)%nat
  end.

Definition cond_inv (seen earlier : list expr) : Prop :=
  (forall x, In x seen -> se_expr x = false) /\
  forall t, (exists o, In o seen /\ tx_expr o = t) <-> (exists o, In o earlier /\ se_expr o = false /\ tx_expr o = t).

Lemma find_similar_iff seen c :
  (exists o, find (fun o0 => similar_expr o0 c) seen = Some o) <-> (exists o, In o seen /\ tx_expr o = tx_expr c).
Proof.
  split.
  - intros (o & H). destruct (find_true _ _ _ H) as [Hi Hs]. exists o. split; [exact Hi|apply strs_eqb_eq; exact Hs].
  - intros (o & Hi & Ht). destruct (find (fun o0 => similar_expr o0 c) seen) as [o'|] eqn:Ef; [exists o'; reflexivity|].
    pose proof (find_none_in _ _ _ Ef Hi) as Hn. cbn beta in Hn. unfold similar_expr in Hn. rewrite Ht in Hn.
    assert (strs_eqb (tx_expr c) (tx_expr c) = true) by (apply strs_eqb_eq; reflexivity). congruence.
Qed.

Lemma dup_cond_iff earlier c :
  dup_cond earlier c = true <-> se_expr c = false /\ exists o, In o earlier /\ se_expr o = false /\ tx_expr o = tx_expr c.
Proof.
  unfold dup_cond. rewrite andb_true_iff, negb_true_iff, existsb_exists, <- se_expr_exact. split.
  - intros [Hc (o & Hi & Ho)]. apply andb_true_iff in Ho as [Hs Ht]. apply negb_true_iff in Hs. rewrite <- se_expr_exact in Hs.
    split; [exact Hc|]. exists o. repeat split; auto. apply strs_eqb_eq. exact Ht.
  - intros [Hc (o & Hi & Hs & Ht)]. split; [exact Hc|]. exists o. split; [exact Hi|].
    apply andb_true_iff. split; [apply negb_true_iff; rewrite <- se_expr_exact; exact Hs|apply strs_eqb_eq; exact Ht].
Qed.

Lemma same_cond_loop_exact cs : forall seen earlier,
  cond_inv seen earlier -> List.length (same_cond_loop seen cs) = spec_cond_loop earlier cs.
Proof.
  induction cs as [|c r IH]; intros seen earlier [Hse Hinv]; cbn [same_cond_loop spec_cond_loop]; [reflexivity|].
  destruct (se_expr c) eqn:Ec.
  - replace (dup_cond earlier c) with false.
    2:{ symmetry. apply not_true_is_false. intros H. apply dup_cond_iff in H as [H _]. congruence. }
    cbn [Nat.add]. apply IH. split; [exact Hse|]. intros t. rewrite Hinv. split.
    + intros (o & Hi & Hr). exists o. split; [apply in_app_iff; left; exact Hi|exact Hr].
    + intros (o & Hi & Hs & Ht). apply in_app_iff in Hi as [Hi|[<-|[]]]; [exists o; auto|congruence].
  - destruct (find (fun o0 => similar_expr o0 c) seen) as [o|] eqn:Ef.
    + replace (dup_cond earlier c) with true.
      2:{ symmetry. apply dup_cond_iff. split; [exact Ec|]. apply Hinv. apply find_similar_iff. exists o. exact Ef. }
      cbn [List.length Nat.add]. f_equal. apply IH. split; [exact Hse|]. intros t. rewrite Hinv. split.
      * intros (o' & Hi & Hr). exists o'. split; [apply in_app_iff; left; exact Hi|exact Hr].
      * intros (o' & Hi & Hs & Ht). apply in_app_iff in Hi as [Hi|[<-|[]]]; [exists o'; auto|].
        subst t. apply Hinv. apply find_similar_iff. exists o. exact Ef.
    + replace (dup_cond earlier c) with false.
      2:{ symmetry. apply not_true_is_false. intros H. apply dup_cond_iff in H as [_ H]. apply Hinv in H.
          apply find_similar_iff in H as (o & H). congruence. }
      cbn [Nat.add]. apply IH. split.
      * intros x Hx. apply in_app_iff in Hx as [Hx|[<-|[]]]; auto.
      * intros t. split.
        -- intros (o & Hi & Ht). apply in_app_iff in Hi as [Hi|[<-|[]]].
           ++ destruct (proj1 (Hinv t) (ex_intro _ o (conj Hi Ht))) as (o' & Hi' & Hr). exists o'. split; [apply in_app_iff; left; exact Hi'|exact Hr].
           ++ exists c. split; [apply in_app_iff; right; left; reflexivity|auto].
        -- intros (o & Hi & Hs & Ht). apply in_app_iff in Hi as [Hi|[<-|[]]].
           ++ destruct (proj2 (Hinv t) (ex_intro _ o (conj Hi (conj Hs Ht)))) as (o' & Hi' & Hr). exists o'. split; [apply in_app_iff; left; exact Hi'|exact Hr].
           ++ exists c. split; [apply in_app_iff; right; left; reflexivity|exact Ht].
Qed.

Definition spec_same_cond (n : node) : nat :=
  match n with NStmt (SIf c _ eis _) => spec_cond_loop [c] (elseif_conds eis) | _ => O end.

Theorem same_cond_exact n : List.length (same_cond_reports n) = spec_same_cond n.
Proof.
  destruct n as [|s| |]; try reflexivity. destruct s; try reflexivity. cbn [same_cond_reports spec_same_cond].
  apply same_cond_loop_exact. split.
  - destruct (se_expr c) eqn:E; intros x Hx; [destruct Hx|destruct Hx as [<-|[]]; exact E].
  - intros t. destruct (se_expr c) eqn:E; split.
    + intros (o & [] & _).
    + intros (o & [<-|[]] & Hs & _). congruence.
    + intros (o & [<-|[]] & Ht). exists c. repeat split; auto. left. reflexivity.
    + intros (o & [<-|[]] & _ & Ht). exists c. split; [left; reflexivity|exact Ht].
Qed.

Definition dup_block (earlier : list block) (b : block) : bool :=
  block_has_stmts b && existsb (fun o => strs_eqb (tx_block o) (tx_block b)) earlier.

(** [earlier]: the first branch and the later branches that have statements *)
Fixpoint spec_block_loop (earlier : list block) (bs : list block) : nat :=
  match bs with
  | [] => O
  | b :: r => ((if dup_block earlier b then 1 else 0) + spec_block_loop (if block_has_stmts b then earlier ++ [b] else earlier) r)%nat
  end.

Definition block_inv (seen earlier : list block) : Prop :=
  forall t, (exists o, In o seen /\ tx_block o = t) <-> (exists o, In o earlier /\ tx_block o = t).

Lemma find_similar_block_iff seen b :
  (exists o, find (fun o0 => similar_block o0 b) seen = Some o) <-> (exists o, In o seen /\ tx_block o = tx_block b).
Proof.
  split.
  - intros (o & H). destruct (find_true _ _ _ H) as [Hi Hs]. exists o. split; [exact Hi|apply strs_eqb_eq; exact Hs].
  - intros (o & Hi & Ht). destruct (find (fun o0 => similar_block o0 b) seen) as [o'|] eqn:Ef; [exists o'; reflexivity|].
    pose proof (find_none_in _ _ _ Ef Hi) as Hn. cbn beta in Hn. unfold similar_block in Hn. rewrite Ht in Hn.
    assert (strs_eqb (tx_block b) (tx_block b) = true) by (apply strs_eqb_eq; reflexivity). congruence.
Qed.

Lemma dup_block_iff earlier b :
  dup_block earlier b = true <-> block_has_stmts b = true /\ exists o, In o earlier /\ tx_block o = tx_block b.
Proof.
  unfold dup_block. rewrite andb_true_iff, existsb_exists. split.
  - intros [Hb (o & Hi & Ht)]. split; [exact Hb|]. exists o. split; [exact Hi|apply strs_eqb_eq; exact Ht].
  - intros [Hb (o & Hi & Ht)]. split; [exact Hb|]. exists o. split; [exact Hi|apply strs_eqb_eq; exact Ht].
Qed.

Lemma block_inv_snoc seen earlier b : block_inv seen earlier -> block_inv (seen ++ [b]) (earlier ++ [b]).
Proof.
  intros H t. split; intros (o & Hi & Ht); apply in_app_iff in Hi as [Hi|[<-|[]]].
  - destruct (proj1 (H t) (ex_intro _ o (conj Hi Ht))) as (o' & Hi' & Hr). exists o'. split; [apply in_app_iff; left; exact Hi'|exact Hr].
  - exists b. split; [apply in_app_iff; right; left; reflexivity|exact Ht].
  - destruct (proj2 (H t) (ex_intro _ o (conj Hi Ht))) as (o' & Hi' & Hr). exists o'. split; [apply in_app_iff; left; exact Hi'|exact Hr].
  - exists b. split; [apply in_app_iff; right; left; reflexivity|exact Ht].
Qed.

Lemma block_inv_dup seen earlier b : block_inv seen earlier -> (exists o, In o seen /\ tx_block o = tx_block b) ->
  block_inv seen (earlier ++ [b]).
Proof.
  intros H Hd t. split.
  - intros Hs. destruct (proj1 (H t) Hs) as (o' & Hi' & Hr). exists o'. split; [apply in_app_iff; left; exact Hi'|exact Hr].
  - intros (o & Hi & Ht). apply in_app_iff in Hi as [Hi|[<-|[]]]; [apply H; exists o; auto|]. subst t. exact Hd.
Qed.

Lemma same_block_loop_exact bs : forall seen earlier,
  block_inv seen earlier -> List.length (same_block_loop seen bs) = spec_block_loop earlier bs.
Proof.
  induction bs as [|b r IH]; intros seen earlier Hinv; cbn [same_block_loop spec_block_loop]; [reflexivity|].
  destruct (block_has_stmts b) eqn:Eb; cbn [negb].
  - destruct (find (fun o0 => similar_block o0 b) seen) as [o|] eqn:Ef.
    + assert (Hd : exists o, In o seen /\ tx_block o = tx_block b) by (apply find_similar_block_iff; exists o; exact Ef).
      replace (dup_block earlier b) with true by (symmetry; apply dup_block_iff; split; [exact Eb|apply Hinv; exact Hd]).
      cbn [List.length Nat.add]. f_equal. apply IH. apply block_inv_dup; assumption.
    + replace (dup_block earlier b) with false.
      2:{ symmetry. apply not_true_is_false. intros H. apply dup_block_iff in H as [_ H]. apply Hinv in H.
          apply find_similar_block_iff in H as (o & H). congruence. }
      cbn [Nat.add]. apply IH. apply block_inv_snoc. exact Hinv.
  - replace (dup_block earlier b) with false by (unfold dup_block; rewrite Eb; reflexivity).
    cbn [Nat.add]. apply IH. exact Hinv.
Qed.

Definition spec_same_block (n : node) : nat :=
  match n with
  | NStmt (SIf _ b eis els) => spec_block_loop [b] (elseif_blocks eis ++ match els with OBSome eb => [eb] | OBNone => [] end)
  | _ => O
  end.

Theorem same_block_exact n : List.length (same_block_reports n) = spec_same_block n.
Proof.
  destruct n as [|s| |]; try reflexivity. destruct s; try reflexivity. cbn [same_block_reports spec_same_block].
  apply same_block_loop_exact. intros t. reflexivity.
Qed.
