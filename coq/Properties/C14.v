(** C14 - diagnostics do not depend on how script-chosen names are spelled. Statements only.
    Proved: the complete scope analysis (every reference, its flags, its resolution, every variable,
    its shadowing, the arena order) and the undefined_variable / shadowing reports commute with any
    injective renaming that fixes `...` and `self`, together with the induced move of positions.
    The remaining lints are covered by the metamorphic run (program vs renamed twin, all lints). *)
From Selene Require Import Lua.Map Scope.Interp Scope.Equivariance Scope.EquivInterp Lints.ScopeLints Lints.ScopeLintsEquiv.

Theorem C14_events_equivariant : forall rho phi, rho "self" = "self" -> forall chunk,
  events_of_chunk (map_block rho phi chunk) = map (map_ev rho phi) (events_of_chunk chunk).
Proof. exact events_map. Qed.
Print Assumptions C14_events_equivariant.

Theorem C14_scope_manager_equivariant : forall rho phi,
  (forall a b, rho a = rho b -> a = b) -> rho "..." = "..." -> (forall a b, phi a = phi b -> a = b) ->
  rho "self" = "self" -> forall chunk,
  scope_manager (map_block rho phi chunk) = option_map (map_st rho phi) (scope_manager chunk).
Proof. exact scope_manager_equivariant. Qed.
Print Assumptions C14_scope_manager_equivariant.

Theorem C14_undefined_report_equivariant : forall rho phi,
  (forall a b, rho a = rho b -> a = b) -> rho "..." = "..." -> (forall a b, phi a = phi b -> a = b) ->
  forall roots, (forall name, existsb (str_eqb (rho name)) roots = existsb (str_eqb name) roots) ->
  forall s, undefined_report (map_st rho phi s) roots = map phi (undefined_report s roots).
Proof. exact undefined_report_equivariant. Qed.
Print Assumptions C14_undefined_report_equivariant.

Theorem C14_shadowing_report_equivariant : forall rho phi,
  (forall a b, rho a = rho b -> a = b) -> rho "..." = "..." ->
  (forall name, starts_with_underscore (rho name) = starts_with_underscore name) ->
  forall s, shadowing_report (map_st rho phi s) = map (fun p => (phi (fst p), phi (snd p))) (shadowing_report s).
Proof. exact shadowing_report_equivariant. Qed.
Print Assumptions C14_shadowing_report_equivariant.
