(** C13 - whitespace and comments do not change what is diagnosed. Statements only.
    A trivia rewrite moves tokens (an injective, order-preserving map on byte ranges) and leaves
    names alone.  Proved: the scope analysis and the undefined_variable / shadowing reports commute
    with every injective map on ranges (they only ever compare ranges for equality); the sixteen
    syntactic lints modelled for C04 (Lints/Closed.v, Lints/Same.v) give the same counts on the tree
    moved by *any* map on ranges (they never look at a position).  All lints, modelled or not, are also
    covered by the metamorphic run (program vs trivia-rewritten twin). *)
From Selene Require Import Lua.Map Scope.Interp Scope.Equivariance Scope.EquivInterp Lints.ScopeLints Lints.ScopeLintsEquiv.
From Selene Require Lints.Closed Lints.Same Lints.ClosedEquiv.

Theorem C13_scope_shift_equivariant : forall phi, (forall a b, phi a = phi b -> a = b) -> forall chunk,
  scope_manager (map_block (fun s => s) phi chunk) = option_map (map_st (fun s => s) phi) (scope_manager chunk).
Proof.
  intros phi Hphi chunk. apply scope_manager_equivariant; auto.
Qed.
Print Assumptions C13_scope_shift_equivariant.

Theorem C13_undefined_shift_equivariant : forall phi, (forall a b, phi a = phi b -> a = b) -> forall roots s,
  undefined_report (map_st (fun x => x) phi s) roots = map phi (undefined_report s roots).
Proof. intros phi Hphi roots s. apply undefined_report_equivariant; auto. Qed.
Print Assumptions C13_undefined_shift_equivariant.

Theorem C13_shadowing_shift_equivariant : forall phi s,
  shadowing_report (map_st (fun x => x) phi s) = map (fun p => (phi (fst p), phi (snd p))) (shadowing_report s).
Proof. intros phi s. apply shadowing_report_equivariant; auto. Qed.
Print Assumptions C13_shadowing_shift_equivariant.

(** divide_by_zero, compare_nan, suspicious_reverse_loop, empty_if, empty_loop, unbalanced_assignments, mixed_table,
    duplicate_keys, parenthese_conditions, constant_table_comparison, type_check_inside_call: the same number of
    reports on the moved tree, whatever the map on positions *)
Theorem C13_closed_lints_position_free : forall phi chunk,
  Closed.lint_counts (map_block (fun s => s) phi chunk) = Closed.lint_counts chunk.
Proof. exact ClosedEquiv.lint_counts_moved. Qed.
Print Assumptions C13_closed_lints_position_free.

(** ifs_same_cond, if_same_then_else, almost_swapped (and has_side_effects, and the token texts they compare) *)
Theorem C13_same_text_lints_position_free : forall phi chunk,
  Same.same_lint_counts (map_block (fun s => s) phi chunk) = Same.same_lint_counts chunk.
Proof. exact ClosedEquiv.same_lint_counts_moved. Qed.
Print Assumptions C13_same_text_lints_position_free.
