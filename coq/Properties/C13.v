(** C13 - whitespace and comments do not change what is diagnosed. Statements only.
    A trivia rewrite moves tokens (an injective, order-preserving map on byte ranges) and leaves
    names alone.  Proved: the scope analysis and the undefined_variable / shadowing reports commute
    with every injective map on ranges (they only ever compare ranges for equality).  All other
    lints are covered by the metamorphic run (program vs trivia-rewritten twin, every lint). *)
From Selene Require Import Lua.Map Scope.Interp Scope.Equivariance Scope.EquivInterp Lints.ScopeLints Lints.ScopeLintsEquiv.

Theorem C13_scope_shift_equivariant : forall phi, (forall a b, phi a = phi b -> a = b) -> forall chunk,
  scope_manager (map_block (fun s => s) phi chunk) = option_map (map_st (fun s => s) phi) (scope_manager chunk).
Proof.
  intros phi Hphi chunk. apply scope_manager_equivariant; auto.
Qed.
Print Assumptions C13_scope_shift_equivariant.

Theorem C13_undefined_shift_equivariant : forall phi, (forall a b, phi a = phi b -> a = b) -> forall roots s,
  undefined_report (map_st (fun x => x) phi s) roots = map phi (undefined_report s roots).
Proof. intros phi Hphi roots s. apply undefined_report_equivariant; auto. Qed.
Print Assumptions C13_undefined_shift_equivariant.

Theorem C13_shadowing_shift_equivariant : forall phi s,
  shadowing_report (map_st (fun x => x) phi s) = map (fun p => (phi (fst p), phi (snd p))) (shadowing_report s).
Proof. intros phi s. apply shadowing_report_equivariant; auto. Qed.
Print Assumptions C13_shadowing_shift_equivariant.
