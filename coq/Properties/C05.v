(** C05 — standard-library call checking matches the library definition.
    Statements only; proofs are in Std/CallCheckSpec.v. *)
From Selene Require Import Std.CallCheck Std.CallCheckSpec.

(** `.`/`:` misuse is reported exactly when the call style differs from the definition, and then
    nothing else is *)
Theorem C05_method_exact : forall f m a,
  existsb method_problem (check_call f m a) = negb (Bool.eqb (fn_method f) m).
Proof. exact method_exact. Qed.
Print Assumptions C05_method_exact.

Theorem C05_method_mismatch_only : forall f m a,
  Bool.eqb (fn_method f) m = false -> check_call f m a = [PMethod m].
Proof. exact method_mismatch_only. Qed.
Print Assumptions C05_method_mismatch_only.

(** a parameter-count problem is reported iff the number of syntactic arguments lies outside
    [number of required parameters, total] (unbounded with a trailing `...`), never when the last
    argument is a call or `...` - outside the known class S3; a definition ending in a required `...`
    must not have optional parameters before it *)
Theorem C05_count_exact : forall f m a,
  Bool.eqb (fn_method f) m = true -> (required_vararg_last f = true -> ordered (fn_args f) = true) -> s3 f a = false ->
  existsb count_problem (check_call f m a) = count_outside f a.
Proof. exact count_exact. Qed.
Print Assumptions C05_count_exact.

(** any definition: fewer arguments than required parameters is reported, at least as many as the
    position of the last required one (and no more than the total) is not *)
Theorem C05_count_bounds : forall f m a,
  Bool.eqb (fn_method f) m = true ->
  (maybe_more a = false -> (nargs a < n_required f)%nat -> existsb count_problem (check_call f m a) = true) /\
  ((last_required_pos (fn_args f) <= nargs a)%nat -> (takes_vararg f = true \/ (nargs a <= total f)%nat) ->
     existsb count_problem (check_call f m a) = false).
Proof. exact count_bounds. Qed.
Print Assumptions C05_count_bounds.

(** a type problem is reported only for an argument whose form has a definite type that the declared
    parameter does not accept (a string literal: whose content is not listed) - outside S4, S5 *)
Theorem C05_type_sound : forall f m a i got,
  In (PType i got) (check_call f m a) ->
  exists e d, nth_error (args_exprs a) i = Some e /\ nth_error (fn_args f) i = Some d /\ is_vararg d = false /\
    (s4_shape e = true \/
     exists t, spec_type e = Some t /\ (compat t d = false \/ (t = SString None /\ is_constant (arg_type d) = true))).
Proof. exact type_sound. Qed.
Print Assumptions C05_type_sound.

(** a call that satisfies the definition is never reported *)
Theorem C05_satisfied_never_reported : forall f m a,
  fn_method f = m -> (required_vararg_last f = true -> ordered (fn_args f) = true) -> s3 f a = false -> count_outside f a = false ->
  (forall i e d, nth_error (args_exprs a) i = Some e -> nth_error (fn_args f) i = Some d ->
     s4_shape e = false /\ forall t, spec_type e = Some t -> compat t d = true /\ ~ (t = SString None /\ is_constant (arg_type d) = true)) ->
  check_call f m a = [].
Proof. exact satisfied_never_reported. Qed.
Print Assumptions C05_satisfied_never_reported.

(** premises are satisfiable, and the long-bracket constant is accepted *)
Example C05_nonvacuous :
  let opt := {| arg_required := NotRequired; arg_type := AConstant ["count"; "collect"]; arg_observes := ObsReadWrite; arg_deprecated := None |} in
  let f := {| fn_args := [opt]; fn_method := false; fn_must_use := false |} in
  check_call f false (AParens (EsCons (EString "[[count]]") EsNil)) = [] /\
  check_call f false (Syntax.AString "[==[collect]==]") = [] /\
  check_call f false (AParens (EsCons (EString """zzz""") EsNil)) = [PType 0 Lib.AString] /\
  check_call f false (AParens (EsCons ENil (EsCons ENil EsNil))) = [PCount 0 2] /\
  check_call f true (AParens EsNil) = [PMethod true].
Proof. vm_compute. repeat split; reflexivity. Qed.
