(** C07 - a locally re-bound standard-library name is never linted as the library's. Statements only. *)
From Selene Require Import Lua.Map Scope.Interp Scope.Equivariance Scope.EquivInterp Lints.StdGate.

(** inside: whatever the three lints would say at gated nodes is dropped *)
Theorem C07_rebound_silent : forall (A : Type) (s : st) (visits : list (N * list A)),
  Forall (fun v => gated s (fst v) = true) visits -> gate_pass s visits = [].
Proof. exact @rebound_silent. Qed.
Print Assumptions C07_rebound_silent.

(** outside: a lint pass depends on the scope analysis only through the gate *)
Theorem C07_ungated_unchanged : forall (A : Type) (s s' : st) (visits : list (N * list A)),
  Forall (fun v => gated s (fst v) = gated s' (fst v)) visits -> gate_pass s visits = gate_pass s' visits.
Proof. exact @ungated_unchanged. Qed.
Print Assumptions C07_ungated_unchanged.

(** "as if the binding were absent": alpha-renaming the binding away changes no reference's
    resolution status (corollary of the equivariance theorem of C14) *)
Theorem C07_renaming_preserves_resolution : forall rho phi,
  (forall a b, rho a = rho b -> a = b) -> rho "..." = "..." -> (forall a b, phi a = phi b -> a = b) ->
  rho "self" = "self" -> forall chunk s,
  scope_manager chunk = Some s ->
  exists s', scope_manager (map_block rho phi chunk) = Some s' /\
             map r_resolved (refs s') = map r_resolved (refs s) /\
             map (fun r => t_range (r_tok r)) (refs s') = map (fun r => phi (t_range (r_tok r))) (refs s).
Proof. exact renaming_preserves_resolution. Qed.
Print Assumptions C07_renaming_preserves_resolution.

(** "re-bound" in Lua's sense, for every program: every reference the scope analysis records for an
    identifier that Lua binds to a local variable, parameter, loop variable or `self` is resolved - which is
    exactly what the three lints' gate tests.  (Scope/GAgreement.v, the simulation behind C01.) *)
From Selene Require Import Scope.Spec Scope.GFragment Scope.GAgreement.
Theorem C07_rebound_is_resolved : forall chunk s,
  gok_block chunk = true ->
  NoDup (map (fun o => t_range (o_tok o)) (occs chunk)) ->
  scope_manager chunk = Some s ->
  forall o d r, In o (occs chunk) -> o_bind o = OLocal d -> In r (refs s) -> t_range (r_tok r) = t_range (o_tok o) ->
  r_resolved r <> None.
Proof. exact local_references_resolved. Qed.
Print Assumptions C07_rebound_is_resolved.
