(** C19 - exit status is zero exactly when nothing was reported. Statements only. *)
From Selene Require Import Pipeline.Exit Pipeline.ExitSpec.

Theorem C19_exit_zero_iff : forall o es,
  exit_status o es = 0 <->
  Forall quiet (all_considered o es) \/ (Forall soft (all_considered o es) /\ allow_warnings o = true).
Proof. exact exit_zero_iff. Qed.
Print Assumptions C19_exit_zero_iff.

Theorem C19_exit_zero_iff_b : forall o es, (exit_status o es =? 0) = spec_exit_zero o es.
Proof. exact exit_zero_iff_b. Qed.
Print Assumptions C19_exit_zero_iff_b.

Theorem C19_totals_match_printed : forall o es e w p,
  summary o es = Some (e, w, p) ->
  let c := tally o es in
  e = p_err c + total n_unavailable (all_considered o es) /\ w = p_warn c /\ p = p_parse c.
Proof. exact totals_match_printed. Qed.
Print Assumptions C19_totals_match_printed.

Theorem C19_excluded_not_checked : forall o es,
  no_exclude o = false -> tally o (flat_map drop_excluded_entry es) = tally o es.
Proof. exact excluded_not_checked. Qed.
Print Assumptions C19_excluded_not_checked.

Theorem C19_no_exclude_checks_all : forall o es,
  no_exclude o = true -> tally o es = tally o (map clear_flags_entry es).
Proof. exact no_exclude_checks_all. Qed.
Print Assumptions C19_no_exclude_checks_all.

Theorem C19_nonvacuous :
  exit_status ex_opts ex_entries = 0 /\ summary ex_opts ex_entries = Some (0, 2, 0) /\
  exit_status {| allow_warnings := false; no_exclude := false; no_summary := false; luacheck := false |} ex_entries = 1 /\
  exit_status {| allow_warnings := true; no_exclude := true; no_summary := false; luacheck := false |} ex_entries = 1 /\
  summary {| allow_warnings := true; no_exclude := true; no_summary := false; luacheck := false |} ex_entries = Some (3, 2, 2).
Proof. exact exit_example. Qed.
Print Assumptions C19_nonvacuous.
