(** C18 - multi-threaded runs report the same results as a sequential run. Statements only. *)
From Selene Require Import Pipeline.Conc Pipeline.ConcSpec.

(** for every schedule of every set of jobs: when all workers are done, each counter is the sum
    over the files, and the output is a concatenation of whole blocks - a permutation of the blocks
    of all files (so: the same blocks as the single-threaded run, none of them split) *)
Theorem C18_complete_run_correct : forall jobs sched s,
  run (init jobs) sched = Some s -> finished s ->
  (forall c, cnt c (tot s) = sumN (map (adds_segs c) jobs)) /\
  exists blocks, out s = concat blocks /\ Permutation blocks (flat_map job_blocks jobs).
Proof. exact complete_run_correct. Qed.
Print Assumptions C18_complete_run_correct.

(** no reachable state is stuck (single lock, always released by its owner) *)
Theorem C18_no_deadlock : forall jobs sched s,
  run (init jobs) sched = Some s -> finished s \/ exists i s', step s i = Some s'.
Proof. exact no_deadlock. Qed.
Print Assumptions C18_no_deadlock.

(** non-vacuity: two files, an interleaved schedule that completes *)
Definition ex_jobs : list (list seg) :=
  [[SAdd CErr 1; SAdd CWarn 2; SBlock [1; 2; 3]]; [SAdd CParse 1; SBlock [7]; SAdd CParse 1; SBlock [8]]]%N.
Theorem C18_nonvacuous :
  exists s, run (init ex_jobs) [0; 1; 0; 1; 1; 1; 0; 0; 0; 0; 0; 1; 1; 1; 1]%nat = Some s /\ finished s
            /\ out s = [7; 1; 2; 3; 8]%N /\ tot s = (1, 2, 2)%N.
Proof. eexists. vm_compute. repeat split. repeat constructor. Qed.
Print Assumptions C18_nonvacuous.
